// preempt.hh — E-PREEMPT: preemption-bounded exploration of CONCURRENT CALLS of ordinary (lock-free, hook-free) code.
//
// The code under test is compiled with gcc's `-fsanitize-coverage=trace-pc`: the compiler inserts a call to
// __sanitizer_cov_trace_pc() at the head of every basic block.  That callback is the scheduling point.  Each concurrent
// call (*job*) runs on its own fiber (own stack, hand-written x86-64 context switch, AddressSanitizer fiber annotations) of
// the explorer's OS thread: exactly one job runs at a time, control changes hands only inside the callback, and an
// execution is a deterministic function of its *schedule* — a list of segments (job, number of scheduling points to run
// before being preempted) followed by a completion order.  (A first build used real OS threads with a spinning baton; on
// this machine, 16-way oversubscribed by other work, a hand-off cost milliseconds.  Fibers cost ~50 ns and do not depend on
// load.  The price: fibers share `thread_local` storage, so this engine must not be pointed at code that uses
// thread_local state — that would be reported as shared although real threads would not share it.  Harnesses state which
// sources are instrumented; `grep thread_local` on them is part of their notes.)
// The explorer enumerates, for a preemption bound k, EVERY schedule with at most k preemptions (a preemption = switching
// away from a job that has not finished): all first jobs, all segment lengths 1..(points the job has left), all choices of
// the job to switch to, all completion orders.  Executions always run to completion.
//
// What this sees: any state shared between concurrent calls that is read/written in different basic blocks — function-
// local statics used as scratch space, lazily built tables, cached pointers, global buffers — shows up as a wrong RESULT
// (the oracle is the harness's reference for each call), in a replayable schedule.  What it does not see: interleavings
// finer than a basic block (a read-modify-write inside one block is atomic here), weak-memory effects, and code that is
// not instrumented (libc, libstdc++ out-of-line code, phosg sources built without the flag: calls into them are atomic;
// with VP_WRAP_LIBC the return from a set of libc calls that park results in static storage is a scheduling point too).
//
// Rules for harnesses: jobs must catch all exceptions and must not block; job bodies must be deterministic; reset the
// observation slots to really fresh objects before every execution (see C10_preempt.cc: fresh()).
//
// First calls ("cold start"): lazily initialised state (a table filled on first use, a cache keyed by the first argument
// seen) is only vulnerable while the first calls of a process overlap.  explore_cold()/run_forked() execute every schedule
// in a freshly forked child of a parent that has never called the code under test, so each schedule starts cold.  The
// compiler-generated guards of function-local statics are modelled (a job that reaches a static another job is
// initialising waits for it, as between real threads), so thread-safe "magic statics" are not reported.
#pragma once
#include <stdint.h>
#include <stdio.h>
#include <stdlib.h>
#include <errno.h>
#include <string.h>
#include <sys/mman.h>
#include <sys/wait.h>
#include <unistd.h>

#include <algorithm>
#include <functional>
#include <string>
#include <vector>

#if !defined(__x86_64__)
#error "engine/preempt.hh: x86-64 only"
#endif
#if defined(__SANITIZE_ADDRESS__)
extern "C" void __sanitizer_start_switch_fiber(void** fake_stack_save, const void* bottom, size_t size);
extern "C" void __sanitizer_finish_switch_fiber(void* fake_stack_save, const void** bottom_old, size_t* size_old);
extern "C" void __asan_unpoison_memory_region(void const volatile* addr, size_t size);
#define VP_ASAN 1
#else
#define VP_ASAN 0
#endif

extern "C" void vp_switch(void** save_sp, void* new_sp);
#ifdef VP_IMPLEMENT
asm(R"(
.text
.globl vp_switch
.type vp_switch,@function
vp_switch:
  pushq %rbp
  pushq %rbx
  pushq %r12
  pushq %r13
  pushq %r14
  pushq %r15
  movq %rsp, (%rdi)
  movq %rsi, %rsp
  popq %r15
  popq %r14
  popq %r13
  popq %r12
  popq %rbx
  popq %rbp
  ret
.size vp_switch,.-vp_switch
)");
#endif

namespace vp {

constexpr int MAXT = 4;
constexpr long ALL = 1L << 60;
struct Seg { int t; long n; };  // job t runs n scheduling points, then is preempted (n >= 1; ALL = until it finishes)

#define VP_NOINSTR __attribute__((no_sanitize_coverage))

struct Result {
  long points[MAXT] = {0, 0, 0, 0};
  std::vector<long> seg_used;  // per listed segment: points consumed under it
  int preemptions = 0;
};

namespace detail {
struct Fib {
  void* sp = nullptr;
  char* stack = nullptr;
  size_t stack_size = 0;
  void* fake = nullptr;
  bool done = true;
  const void* blocked_on = nullptr;  // guard of a function-local static another job is initialising
};
inline Fib g_fib[MAXT];
inline void* g_main_sp = nullptr;
inline void* g_main_fake = nullptr;
inline const void* g_main_bottom = nullptr;
inline size_t g_main_size = 0;
inline int g_n = 0;
inline int g_cur = -1;            // running job, -1 = controller
inline bool g_in_job = false;     // true while job code runs (callback active)
inline const std::vector<Seg>* g_segs = nullptr;
inline size_t g_seg_idx = 0;
inline int g_cur_seg = -1;
inline long g_budget = -1;
inline long g_points[MAXT];
inline long g_seg_used[16];
inline int g_switches = 0;
inline const std::vector<std::function<void()>>* g_jobs = nullptr;

// who runs next, with what budget; g_n = the controller (all jobs finished)
// Function-local statics: the compiler brackets their initialisation with __cxa_guard_acquire/release.  A job preempted
// inside such an initialiser holds the guard; another job reaching the same static must WAIT (that is what libstdc++ does
// between real threads).  The guard functions are defined below (VP_IMPLEMENT) and model exactly that: the waiting job is
// disabled until the guard is released, it is not a scheduling choice and not a preemption.
struct GuardRec { const void* g; int owner; };
inline GuardRec g_guards[32];
inline int g_nguards = 0;
VP_NOINSTR inline int guard_owner(const void* g) {
  for (int i = 0; i < g_nguards; i++)
    if (g_guards[i].g == g) return g_guards[i].owner;
  return -2;
}
VP_NOINSTR inline bool runnable(int t) {
  if (g_fib[t].done) return false;
  if (g_fib[t].blocked_on) {
    if (guard_owner(g_fib[t].blocked_on) != -2) return false;
    g_fib[t].blocked_on = nullptr;
  }
  return true;
}
VP_NOINSTR inline int pick_next(int me) {
  while (g_segs && g_seg_idx < g_segs->size()) {
    const Seg& s = (*g_segs)[g_seg_idx];
    g_cur_seg = static_cast<int>(g_seg_idx);
    g_seg_idx++;
    if (s.t >= 0 && s.t < g_n && s.n > 0 && runnable(s.t)) {
      g_budget = s.n;
      return s.t;
    }
  }
  g_cur_seg = -1;
  g_budget = -1;
  for (int t = 0; t < g_n; t++)
    if (t != me && runnable(t)) return t;
  if (me >= 0 && me < g_n && runnable(me)) return me;
  return g_n;
}
// switch from the current context (job `from`, or -1 = controller) to `to` (job id, or g_n = controller)
VP_NOINSTR inline void switch_ctx(int from, int to, bool dying) {
  void** save = from < 0 ? &g_main_sp : &g_fib[from].sp;
  void* target = to == g_n ? g_main_sp : g_fib[to].sp;
#if VP_ASAN
  void** fake_save = dying ? nullptr : (from < 0 ? &g_main_fake : &g_fib[from].fake);
  const void* bottom = to == g_n ? g_main_bottom : g_fib[to].stack;
  size_t size = to == g_n ? g_main_size : g_fib[to].stack_size;
  __sanitizer_start_switch_fiber(fake_save, bottom, size);
#else
  (void)dying;
#endif
  g_cur = to == g_n ? -1 : to;
  vp_switch(save, target);
  // running again in context `from`
#if VP_ASAN
  __sanitizer_finish_switch_fiber(from < 0 ? g_main_fake : g_fib[from].fake, nullptr, nullptr);
#endif
}
VP_NOINSTR inline void point() {
  g_in_job = false;  // nothing called from here is a scheduling point
  int me = g_cur;
  g_points[me]++;
  if (g_cur_seg >= 0 && g_cur_seg < 16) g_seg_used[g_cur_seg]++;
  if (g_budget > 0 && --g_budget == 0) {
    int next = pick_next(me);
    if (next != me) {
      g_switches++;
      switch_ctx(me, next, false);
      // resumed: g_budget was set by whoever picked us
    }
  }
  g_in_job = true;
}
VP_NOINSTR inline void entry() {
  int me = g_cur;
#if VP_ASAN
  {
    const void* ob = nullptr;
    size_t os = 0;
    __sanitizer_finish_switch_fiber(nullptr, &ob, &os);
    if (!g_main_bottom) { g_main_bottom = ob; g_main_size = os; }  // the first fiber is always entered from the controller
  }
#endif
  const std::function<void()>& job = (*g_jobs)[me];
  g_in_job = true;
  job();
  g_in_job = false;
  g_fib[me].done = true;
  int next = pick_next(me);
  switch_ctx(me, next, true);
  abort();  // a finished fiber is never resumed
}
VP_NOINSTR inline void prepare(int t) {
  Fib& f = g_fib[t];
  if (!f.stack) {
    f.stack_size = 256 << 10;
    f.stack = static_cast<char*>(mmap(nullptr, f.stack_size, PROT_READ | PROT_WRITE, MAP_PRIVATE | MAP_ANONYMOUS | MAP_STACK, -1, 0));
    if (f.stack == MAP_FAILED) { perror("vp: mmap"); _exit(3); }
  }
#if VP_ASAN
  __asan_unpoison_memory_region(f.stack, f.stack_size);  // frames of the previous (abandoned, finished) fiber left red zones behind
#endif
  // initial frame for vp_switch: six callee-saved registers, the address its `ret` jumps to (entry), and a null "return
  // address" for entry (it never returns).  vp_switch leaves rsp = sp + 56 at entry(), which must be 8 mod 16 as after a
  // call: so sp itself is 16-aligned.
  uintptr_t top = reinterpret_cast<uintptr_t>(f.stack + f.stack_size) & ~uintptr_t(15);
  void** sp = reinterpret_cast<void**>(top - 64);
  for (int i = 0; i < 6; i++) sp[i] = nullptr;
  sp[6] = reinterpret_cast<void*>(&entry);
  sp[7] = nullptr;
  f.sp = sp;
  f.fake = nullptr;
  f.done = false;
  f.blocked_on = nullptr;
}
}  // namespace detail

class Arena {
 public:
  VP_NOINSTR explicit Arena(int njobs) : n_(njobs) {}
  VP_NOINSTR ~Arena() {}
  // Runs jobs[t] as job t under the schedule `segs`; returns after every job has finished.
  VP_NOINSTR Result run(const std::vector<std::function<void()>>& jobs, const std::vector<Seg>& segs) {
    using namespace detail;
    g_n = n_;
    g_jobs = &jobs;
    g_segs = &segs;
    g_seg_idx = 0;
    g_cur_seg = -1;
    g_switches = 0;
    g_nguards = 0;
    for (int t = 0; t < MAXT; t++) {
      g_points[t] = 0;
      g_fib[t].done = true;
    }
    for (int t = 0; t < n_; t++) prepare(t);
    for (auto& u : g_seg_used) u = 0;
    int first = pick_next(-1);
    if (first != n_) switch_ctx(-1, first, false);
    g_cur = -1;
    Result r;
    for (int t = 0; t < n_; t++) r.points[t] = g_points[t];
    for (size_t i = 0; i < segs.size() && i < 16; i++) r.seg_used.push_back(g_seg_used[i]);
    r.preemptions = g_switches;
    return r;
  }
  int jobs() const { return n_; }

 private:
  int n_;
};

struct Stats {
  uint64_t schedules = 0, points = 0, max_preemptions = 0;
};

// Enumerates every schedule of `nthreads` jobs with at most `bound` preemptions.  A schedule is a list of preemption
// segments (thread, n >= 1: run n points, then be preempted) followed by a COMPLETION ORDER: a permutation of all threads,
// each running until its job finishes (threads already finished are skipped).  Every permutation is enumerated, except
// those that would resume the thread that was just preempted (that is the same execution as a shorter list).
// `exec(segs)` must (re)initialise the jobs' observation slots, call arena.run(jobs, segs) and return its Result;
// `check(segs, result)` judges the execution.  Segment lengths run 1, 2, 3, ... until the job finishes inside the segment
// (then n exceeded the points the job had left and the dimension is complete), so every length is covered without
// knowing the point counts in advance.
// Slices: the schedule tree can be cut into `nslices` disjoint parts by the length of the FIRST preemption segment
// (n mod nslices == slice; schedules without any preemption belong to slice 0), so that one heavy configuration spreads
// over several shards.  The union of all slices is the whole tree.
template <class Exec, class Check>
VP_NOINSTR void explore(int nthreads, int bound, Exec&& exec, Check&& check, Stats& st, int slice = 0, int nslices = 1) {
  std::vector<Seg> pre;
  bool judging = true;
  auto completions = [&](bool* last_consumed) {
    std::vector<int> perm;
    for (int t = 0; t < nthreads; t++) perm.push_back(t);
    bool any = false;
    do {
      if (!pre.empty() && perm[0] == pre.back().t) continue;
      std::vector<Seg> segs = pre;
      for (int t : perm) segs.push_back({t, ALL});
      Result r = exec(segs);
      if (!pre.empty()) {
        bool consumed = r.seg_used.size() >= pre.size() && r.seg_used[pre.size() - 1] == pre.back().n;
        if (!consumed) {
          *last_consumed = false;
          return;
        }
      }
      any = true;
      if (!judging) {
        *last_consumed = true;  // probing run of another slice's subtree root: only tells whether the dimension goes on
        return;
      }
      st.schedules++;
      for (int u = 0; u < nthreads; u++) st.points += r.points[u];
      if (static_cast<uint64_t>(r.preemptions) > st.max_preemptions) st.max_preemptions = r.preemptions;
      check(segs, r);
    } while (std::next_permutation(perm.begin(), perm.end()));
    *last_consumed = any;
  };
  std::function<void(int)> rec = [&](int depth) {
    bool dummy = true;
    if (depth == 0 && slice == 0) completions(&dummy);
    if (depth == bound) return;
    int prev = depth ? pre.back().t : -1;
    for (int t = 0; t < nthreads; t++) {
      if (t == prev) continue;
      for (long n = 1;; n++) {
        pre.push_back({t, n});
        bool consumed = true;
        bool mine = depth > 0 || n % nslices == slice;
        judging = mine;
        completions(&consumed);
        judging = true;
        if (!consumed) {
          pre.pop_back();
          break;
        }
        if (mine) rec(depth + 1);
        pre.pop_back();
      }
    }
  };
  rec(0);
}

// One execution in a freshly forked child (cold start).  `body` runs in the child: it must execute the schedule and return
// (Result, payload) where payload is whatever the parent needs to judge the execution.  status != 0: the child died.
struct Forked {
  Result res;
  std::string payload;
  int status = 0;  // wait status; 0 = exited normally with code 0
  bool ok = false;
};
template <class Body>
VP_NOINSTR Forked run_forked(Body&& body, unsigned timeout_s = 30) {
  Forked f;
  int fds[2];
  if (pipe(fds) != 0) { perror("vp: pipe"); _exit(3); }
  fflush(stdout);
  fflush(stderr);
  pid_t pid = fork();
  if (pid < 0) { perror("vp: fork"); _exit(3); }
  if (pid == 0) {
    close(fds[0]);
    alarm(timeout_s);
    std::pair<Result, std::string> r = body();
    std::string msg;
    auto put = [&](long v) { msg.append(reinterpret_cast<const char*>(&v), sizeof(v)); };
    for (int t = 0; t < MAXT; t++) put(r.first.points[t]);
    put(r.first.preemptions);
    put(static_cast<long>(r.first.seg_used.size()));
    for (long u : r.first.seg_used) put(u);
    put(static_cast<long>(r.second.size()));
    msg += r.second;
    size_t off = 0;
    while (off < msg.size()) {
      ssize_t w = write(fds[1], msg.data() + off, msg.size() - off);
      if (w <= 0) _exit(4);
      off += static_cast<size_t>(w);
    }
    _exit(0);
  }
  close(fds[1]);
  std::string msg;
  char buf[4096];
  for (;;) {
    ssize_t n = read(fds[0], buf, sizeof(buf));
    if (n > 0) msg.append(buf, static_cast<size_t>(n));
    else if (n == 0 || errno != EINTR) break;
  }
  close(fds[0]);
  int st = 0;
  while (waitpid(pid, &st, 0) < 0 && errno == EINTR) {}
  f.status = st;
  size_t off = 0;
  auto get = [&](long* v) { if (off + sizeof(long) > msg.size()) return false; memcpy(v, msg.data() + off, sizeof(long)); off += sizeof(long); return true; };
  long v = 0, n = 0;
  bool good = st == 0;
  for (int t = 0; t < MAXT && good; t++) { good = get(&v); f.res.points[t] = v; }
  if (good && (good = get(&v))) f.res.preemptions = static_cast<int>(v);
  if (good && (good = get(&n))) for (long i = 0; i < n && good; i++) { good = get(&v); f.res.seg_used.push_back(v); }
  if (good && (good = get(&n)) && off + static_cast<size_t>(n) <= msg.size()) f.payload = msg.substr(off, static_cast<size_t>(n));
  else good = false;
  f.ok = good;
  return f;
}

inline std::string show(const std::vector<Seg>& segs) {
  std::string s = "[";
  for (size_t i = 0; i < segs.size(); i++) {
    char b[64];
    if (segs[i].n >= (1L << 59)) snprintf(b, sizeof(b), "%sT%d:finish", i ? " " : "", segs[i].t);
    else snprintf(b, sizeof(b), "%sT%d:%ld", i ? " " : "", segs[i].t, segs[i].n);
    s += b;
  }
  return s + "]";
}

}  // namespace vp

// The scheduling point.  Defined once per binary: include this header with VP_IMPLEMENT defined in exactly one TU.
#ifdef VP_IMPLEMENT
extern "C" VP_NOINSTR void __sanitizer_cov_trace_pc(void) {
  if (!vp::detail::g_in_job) return;
  vp::detail::point();
}
// ---- calls into libc as scheduling points ------------------------------------------------------------------------------
// trace-pc gives one point per basic block, and a call does not end a basic block: two consecutive library calls (say
// snprintf into a static buffer, then append of that buffer) have no point between them.  Variants that link with
// -Wl,--wrap=<fn> for the functions below (props.py adds the flags when VP_WRAP_LIBC is requested) get a scheduling point
// right AFTER each of these calls returns, when it was made by a job: exactly the window in which a result parked in
// static storage (the caller's own static buffer, or libc's: gmtime, localtime, strtok, strerror) is still unread.
// (memcpy/memset/strcpy are deliberately NOT in the list: inline libstdc++ code calls them while an exception object is
// being built, and the C++ runtime's per-thread exception state is shared by fibers.)
#ifdef VP_WRAP_LIBC
#include <stdarg.h>
#include <time.h>
namespace vp { namespace detail {
VP_NOINSTR inline void libc_point() { if (g_in_job) point(); }
}}
#define VP_WRAP_RET(ret, name, params, args) \
  extern "C" ret __real_##name params;        \
  extern "C" VP_NOINSTR ret __wrap_##name params { ret r_ = __real_##name args; vp::detail::libc_point(); return r_; }
extern "C" int __real_vsnprintf(char*, size_t, const char*, va_list);
extern "C" VP_NOINSTR int __wrap_vsnprintf(char* s, size_t n, const char* f, va_list va) { int r_ = __real_vsnprintf(s, n, f, va); vp::detail::libc_point(); return r_; }
extern "C" VP_NOINSTR int __wrap_snprintf(char* s, size_t n, const char* f, ...) { va_list va; va_start(va, f); int r_ = __real_vsnprintf(s, n, f, va); va_end(va); vp::detail::libc_point(); return r_; }
extern "C" VP_NOINSTR int __wrap_sprintf(char* s, const char* f, ...) { va_list va; va_start(va, f); int r_ = vsprintf(s, f, va); va_end(va); vp::detail::libc_point(); return r_; }
VP_WRAP_RET(size_t, strftime, (char* s, size_t n, const char* f, const struct tm* t), (s, n, f, t))
VP_WRAP_RET(struct tm*, gmtime, (const time_t* t), (t))
VP_WRAP_RET(struct tm*, localtime, (const time_t* t), (t))
VP_WRAP_RET(struct tm*, gmtime_r, (const time_t* t, struct tm* o), (t, o))
VP_WRAP_RET(struct tm*, localtime_r, (const time_t* t, struct tm* o), (t, o))
VP_WRAP_RET(char*, strtok, (char* s, const char* d), (s, d))
VP_WRAP_RET(char*, strerror, (int e), (e))
#endif
// Guards of function-local statics (Itanium C++ ABI: first byte non-zero = initialised).  These definitions replace
// libstdc++'s for the whole binary, which runs on ONE OS thread (jobs are fibers), so no atomics are needed.
extern "C" VP_NOINSTR int __cxa_guard_acquire(long long* g) {
  using namespace vp::detail;
  char* done = reinterpret_cast<char*>(g);
  if (*done) return 0;
  bool in_job = g_in_job;
  g_in_job = false;
  int me = in_job ? g_cur : -1;
  for (;;) {
    if (*done) {
      g_in_job = in_job;
      return 0;
    }
    int owner = guard_owner(g);
    if (owner == -2) break;
    if (owner == me || !in_job) {
      fprintf(stderr, "vp: recursive initialisation of a function-local static\n");
      abort();
    }
    // wait: disabled until the owner releases the guard
    g_fib[me].blocked_on = g;
    int next = pick_next(me);
    if (next == g_n || next == me) {
      fprintf(stderr, "vp: job blocked on a static-initialisation guard nobody can release\n");
      abort();
    }
    switch_ctx(me, next, false);
    g_fib[me].blocked_on = nullptr;
  }
  if (g_nguards >= 32) abort();
  g_guards[g_nguards++] = {g, me};
  g_in_job = in_job;
  return 1;
}
static VP_NOINSTR void vp_guard_drop(long long* g) {
  using namespace vp::detail;
  for (int i = 0; i < g_nguards; i++)
    if (g_guards[i].g == g) {
      g_guards[i] = g_guards[--g_nguards];
      return;
    }
}
extern "C" VP_NOINSTR void __cxa_guard_release(long long* g) {
  *reinterpret_cast<char*>(g) = 1;
  vp_guard_drop(g);
}
extern "C" VP_NOINSTR void __cxa_guard_abort(long long* g) { vp_guard_drop(g); }
#endif
