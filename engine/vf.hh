// vf.hh — exploration engine shared by all harnesses under /verif/harness.
//
// A harness is one binary per property.  It registers *sections* (VF_SECTION); each section
// enumerates a finite space of cases (inputs, operation histories, environment-answer plans,
// schedules) completely and checks an oracle on every one.  The Python supervisor (check.py)
// runs every (section, shard) pair as its own process, watches the shared slot for crash/hang
// attribution, and merges the JSON each process writes.
//
// Contract used by check.py:
//   harness --list --tier T
//        prints one line per section:  <name> <shards> <stall_seconds>
//   harness --section S --tier T --shard i --nshards n --start k --slot FILE --out FILE
//        runs cases with index >= k and index % n == i, writes a JSON summary to --out
//   harness --section S --tier T --only k
//        runs exactly case k, prints its description first (replay)
#pragma once
#ifdef VF_COVERAGE
// coverage builds (tools/coverage.py) link with --wrap=_exit so that forked children flush their counters
extern "C" void __gcov_dump(void);
extern "C" void __real__exit(int) __attribute__((noreturn));
extern "C" __attribute__((weak, noreturn)) void __wrap__exit(int c) { __gcov_dump(); __real__exit(c); }
#endif
#include <errno.h>
#include <fcntl.h>
#include <signal.h>
#include <stdarg.h>
#include <stdint.h>
#include <stdio.h>
#include <stdlib.h>
#include <string.h>
#include <sys/mman.h>
#include <sys/wait.h>
#include <unistd.h>

#include <functional>
#include <map>
#include <stdexcept>
#include <string>
#include <typeinfo>
#include <vector>

namespace vf {

inline std::string jesc(const std::string& s) {
  std::string o;
  o.reserve(s.size() + 2);
  for (unsigned char c : s) {
    if (c == '"') o += "\\\"";
    else if (c == '\\') o += "\\\\";
    else if (c == '\n') o += "\\n";
    else if (c == '\t') o += "\\t";
    else if (c < 0x20 || c >= 0x7F) {
      char b[8];
      snprintf(b, sizeof(b), "\\u%04x", c);
      o += b;
    } else o += (char)c;
  }
  return o;
}

// printable rendering of arbitrary bytes for descriptions: ASCII kept, everything else \xHH
inline std::string show(const std::string& s) {
  std::string o = "\"";
  for (unsigned char c : s) {
    if (c == '"' || c == '\\') { o += '\\'; o += (char)c; }
    else if (c >= 0x20 && c < 0x7F) o += (char)c;
    else { char b[8]; snprintf(b, sizeof(b), "\\x%02X", c); o += b; }
  }
  return o + "\"";
}
inline std::string show(const void* p, size_t n) { return show(std::string((const char*)p, n)); }

inline std::string fmt(const char* f, ...) __attribute__((format(printf, 1, 2)));
inline std::string fmt(const char* f, ...) {
  char buf[4096];
  va_list va;
  va_start(va, f);
  int n = vsnprintf(buf, sizeof(buf), f, va);
  va_end(va);
  if (n < 0) return "";
  if ((size_t)n < sizeof(buf)) return std::string(buf, n);
  std::string r(n + 1, 0);
  va_start(va, f);
  vsnprintf(r.data(), r.size(), f, va);
  va_end(va);
  r.resize(n);
  return r;
}

struct Slot {  // shared with the supervisor for crash / hang attribution
  volatile uint64_t idx;
  volatile uint64_t beat;
  char note[4080];
};

struct Violation {
  std::string key, desc;
  uint64_t idx = 0, count = 0;
};

struct Run {
  std::string section, tier = "quick";
  uint64_t shard = 0, nshards = 1, start = 0;
  int64_t only = -1;
  int64_t upto = -1;  // replay with history: run this shard's cases as usual but none beyond this index
  Slot* slot = nullptr;
  Slot dummy_slot{};
  std::string outpath;

  uint64_t next = 0;  // index of the next case
  uint64_t cur = 0;   // index of the case being executed
  uint64_t evals = 0, nontrivial = 0, states = 0, transitions = 0, xchecked = 0;
  bool exhaustive = true;
  std::string bound;
  std::map<std::string, uint64_t> hist;
  std::map<std::string, Violation> viol;
  std::vector<std::string> samples;
  std::vector<std::string> notes;
  std::map<std::string, uint64_t> counters;

  bool thorough() const { return tier == "thorough"; }

  // Claims the next case index; true iff this process must execute it.
  inline bool take() {
    uint64_t i = next++;
    if (only >= 0) {
      if ((uint64_t)only != i) return false;
    } else if (i < start || (i % nshards) != shard) return false;
    if (upto >= 0 && i > (uint64_t)upto) return false;
    cur = i;
    slot->idx = i;
    slot->beat++;
    evals++;
    poison_errno();
    return true;
  }
  // Ambient errno is part of the environment a library call runs in (a stale ERANGE left by unrelated code must not
  // change a result).  It is owned here: a deterministic function of the case index, so --only replays see the same
  // value.  Harnesses may call poison_errno() again right before the call under test.
  inline int ambient_errno() const {
    static const int kErr[4] = {0, ERANGE, EINVAL, EINTR};
    return kErr[((cur * 2654435761ull) >> 13) & 3];
  }
  inline void poison_errno() const { errno = ambient_errno(); }
  // Like take() but for engines that number work items themselves (BFS states).
  inline void beat() { slot->beat++; }
  inline void note(const std::string& s) {
    size_t n = s.size() < sizeof(slot->note) - 1 ? s.size() : sizeof(slot->note) - 1;
    memcpy((void*)slot->note, s.data(), n);
    ((volatile char*)slot->note)[n] = 0;
    slot->beat++;
  }
  // true when the harness should build a description of the current case (replay, or sampling)
  inline bool wants_desc() const { return only >= 0 || (shard == 0 && samples.size() < 4); }
  void desc(const std::string& d) {
    if (only >= 0) {
      printf("CASE %llu: %s\n", (unsigned long long)cur, d.c_str());
      fflush(stdout);
    } else if (samples.size() < 4) samples.push_back(d.size() > 600 ? d.substr(0, 600) + "..." : d);
  }
  inline void ok(const char* cls) { hist[cls]++; }
  inline void ok(const std::string& cls) { hist[cls]++; }
  inline void nontriv() { nontrivial++; }

  template <class F>
  void fail(const std::string& key, F&& describe) {
    auto& v = viol[key];
    if (v.count++ == 0) {
      v.key = key;
      v.idx = cur;
      v.desc = describe();
      if (v.desc.size() > 2000) v.desc = v.desc.substr(0, 2000) + "...";
      if (only >= 0) {
        printf("FAIL %s: %s\n", key.c_str(), v.desc.c_str());
        fflush(stdout);
      }
    }
    hist["VIOLATION:" + key]++;
  }
  void fails(const std::string& key, const std::string& d) {
    fail(key, [&] { return d; });
  }

  // Ends the section now (used after an unrecoverable outcome such as a deadlocked execution):
  // writes what was gathered and exits the process without running destructors.
  [[noreturn]] void finish_now() {
    if (only >= 0) {
      printf("REPLAY-RESULT %s\n", viol.empty() ? "pass" : "fail");
      fflush(stdout);
      _exit(viol.empty() ? 0 : 1);
    }
    if (!outpath.empty()) write(outpath.c_str());
    fflush(stdout);
    _exit(0);
  }

  void write(const char* path) const {
    FILE* f = fopen(path, "w");
    if (!f) { perror("vf: open out"); _exit(3); }
    fprintf(f, "{\"section\":\"%s\",\"shard\":%llu,\"evaluations\":%llu,\"nontrivial\":%llu,",
        jesc(section).c_str(), (unsigned long long)shard, (unsigned long long)evals, (unsigned long long)nontrivial);
    fprintf(f, "\"states\":%llu,\"transitions\":%llu,\"xchecked\":%llu,\"cases_indexed\":%llu,",
        (unsigned long long)states, (unsigned long long)transitions, (unsigned long long)xchecked, (unsigned long long)next);
    fprintf(f, "\"exhaustive\":%s,\"bound\":\"%s\",", exhaustive ? "true" : "false", jesc(bound).c_str());
    fprintf(f, "\"hist\":{");
    bool first = true;
    for (auto& [k, v] : hist) {
      fprintf(f, "%s\"%s\":%llu", first ? "" : ",", jesc(k).c_str(), (unsigned long long)v);
      first = false;
    }
    fprintf(f, "},\"counters\":{");
    first = true;
    for (auto& [k, v] : counters) {
      fprintf(f, "%s\"%s\":%llu", first ? "" : ",", jesc(k).c_str(), (unsigned long long)v);
      first = false;
    }
    fprintf(f, "},\"violations\":[");
    first = true;
    for (auto& [k, v] : viol) {
      fprintf(f, "%s{\"key\":\"%s\",\"idx\":%llu,\"count\":%llu,\"desc\":\"%s\"}", first ? "" : ",",
          jesc(v.key).c_str(), (unsigned long long)v.idx, (unsigned long long)v.count, jesc(v.desc).c_str());
      first = false;
    }
    fprintf(f, "],\"samples\":[");
    first = true;
    for (auto& s : samples) {
      fprintf(f, "%s\"%s\"", first ? "" : ",", jesc(s).c_str());
      first = false;
    }
    fprintf(f, "],\"notes\":[");
    first = true;
    for (auto& s : notes) {
      fprintf(f, "%s\"%s\"", first ? "" : ",", jesc(s).c_str());
      first = false;
    }
    fprintf(f, "]}\n");
    fclose(f);
  }
};

struct SectionDef {
  const char* name;
  void (*fn)(Run&);
  int shards_quick, shards_thorough;  // 0 = section absent from that tier
  int stall_s;
};

inline std::vector<SectionDef>& registry() {
  static std::vector<SectionDef> r;
  return r;
}
struct Registrar {
  Registrar(const char* n, void (*fn)(Run&), int sq, int st, int stall) { registry().push_back({n, fn, sq, st, stall}); }
};

// VF_SECTION(name, shards_quick, shards_thorough, stall_seconds)
#define VF_SECTION(NAME, SQ, ST, STALL)                          \
  static void vfsec_##NAME(vf::Run& r);                          \
  static vf::Registrar vfreg_##NAME(#NAME, vfsec_##NAME, SQ, ST, STALL); \
  static void vfsec_##NAME([[maybe_unused]] vf::Run& r)

// ---- helpers --------------------------------------------------------------------------------

// Classifies what a callable does: "ok" or the most specific standard exception class.
template <class F>
std::string outcome(F&& f, std::string* what = nullptr) {
  try {
    f();
    return "ok";
  } catch (const std::out_of_range& e) { if (what) *what = e.what(); return "out_of_range";
  } catch (const std::invalid_argument& e) { if (what) *what = e.what(); return "invalid_argument";
  } catch (const std::length_error& e) { if (what) *what = e.what(); return "length_error";
  } catch (const std::domain_error& e) { if (what) *what = e.what(); return "domain_error";
  } catch (const std::logic_error& e) { if (what) *what = e.what(); return "logic_error";
  } catch (const std::range_error& e) { if (what) *what = e.what(); return "range_error";
  } catch (const std::overflow_error& e) { if (what) *what = e.what(); return "overflow_error";
  } catch (const std::runtime_error& e) { if (what) *what = e.what(); return "runtime_error";
  } catch (const std::bad_alloc& e) { if (what) *what = e.what(); return "bad_alloc";
  } catch (const std::exception& e) { if (what) *what = e.what(); return "exception";
  } catch (...) { return "nonstd"; }
}

// n bytes flush against a PROT_NONE page: any access at [n, n+4096) faults.  Underflow side is
// protected by a second guard page when n is a multiple of the page size only; harnesses that
// care about underflow also use exact-size malloc blocks (ASan redzones on both sides).
struct GuardBuf {
  uint8_t* map = nullptr;
  size_t maplen = 0;
  uint8_t* data = nullptr;
  size_t size = 0;
  explicit GuardBuf(size_t n) : size(n) {
    size_t pg = 4096, body = (n + pg - 1) / pg * pg;
    maplen = pg + body + pg;
    map = (uint8_t*)mmap(nullptr, maplen, PROT_READ | PROT_WRITE, MAP_PRIVATE | MAP_ANONYMOUS, -1, 0);
    if (map == MAP_FAILED) { perror("mmap"); _exit(3); }
    mprotect(map, pg, PROT_NONE);
    mprotect(map + pg + body, pg, PROT_NONE);
    data = map + pg + body - n;
  }
  GuardBuf(const GuardBuf&) = delete;
  ~GuardBuf() { munmap(map, maplen); }
};

// Runs f in a forked child; returns wait status.  For outcomes that are fatal by nature.
template <class F>
int in_child(F&& f, int timeout_s = 20) {
  fflush(stdout);
  fflush(stderr);
  pid_t p = fork();
  if (p == 0) {
    alarm(timeout_s);
    f();
    _exit(0);
  }
  int st = 0;
  while (waitpid(p, &st, 0) < 0 && errno == EINTR) {}
  return st;
}

// mixed-radix odometer: iterates all vectors d with d[i] < radix[i]
struct Odometer {
  std::vector<uint32_t> radix, d;
  bool done = false;
  explicit Odometer(std::vector<uint32_t> r) : radix(std::move(r)), d(radix.size(), 0) {
    for (auto x : radix) if (x == 0) done = true;
  }
  void step() {
    for (size_t i = 0; i < d.size(); i++) {
      if (++d[i] < radix[i]) return;
      d[i] = 0;
    }
    done = true;
  }
};

// Enumerates all strings over alphabet with length in [0, maxlen], shortest first.
template <class F>
void all_strings(const std::string& alphabet, size_t maxlen, F&& f) {
  for (size_t len = 0; len <= maxlen; len++) {
    std::vector<size_t> ix(len, 0);
    std::string s(len, alphabet.empty() ? 0 : alphabet[0]);
    if (len && alphabet.empty()) break;
    for (;;) {
      f(s);
      size_t i = 0;
      for (; i < len; i++) {
        if (++ix[i] < alphabet.size()) { s[i] = alphabet[ix[i]]; break; }
        ix[i] = 0;
        s[i] = alphabet[0];
      }
      if (i == len) break;
    }
  }
}

inline int main_impl(int argc, char** argv) {
  std::string section, tier = "quick", out, slotpath;
  bool list = false;
  Run r;
  for (int i = 1; i < argc; i++) {
    std::string a = argv[i];
    auto val = [&]() -> const char* { if (i + 1 >= argc) { fprintf(stderr, "missing value for %s\n", a.c_str()); exit(3); } return argv[++i]; };
    if (a == "--list") list = true;
    else if (a == "--tier") tier = val();
    else if (a == "--section") section = val();
    else if (a == "--shard") r.shard = strtoull(val(), nullptr, 10);
    else if (a == "--nshards") r.nshards = strtoull(val(), nullptr, 10);
    else if (a == "--start") r.start = strtoull(val(), nullptr, 10);
    else if (a == "--only") r.only = strtoll(val(), nullptr, 10);
    else if (a == "--upto") r.upto = strtoll(val(), nullptr, 10);
    else if (a == "--slot") slotpath = val();
    else if (a == "--out") out = val();
    else { fprintf(stderr, "unknown arg %s\n", a.c_str()); return 3; }
  }
  bool th = tier == "thorough";
  if (list) {
    for (auto& s : registry()) {
      int n = th ? s.shards_thorough : s.shards_quick;
      if (n > 0) printf("%s %d %d\n", s.name, n, s.stall_s);
    }
    return 0;
  }
  r.tier = tier;
  r.section = section;
  r.slot = &r.dummy_slot;
  r.outpath = out;
  if (!slotpath.empty()) {
    int fd = open(slotpath.c_str(), O_RDWR | O_CREAT, 0644);
    if (fd < 0 || ftruncate(fd, sizeof(Slot)) < 0) { perror("slot"); return 3; }
    void* p = mmap(nullptr, sizeof(Slot), PROT_READ | PROT_WRITE, MAP_SHARED, fd, 0);
    if (p == MAP_FAILED) { perror("slot mmap"); return 3; }
    r.slot = (Slot*)p;
    close(fd);
  }
  for (auto& s : registry()) {
    if (section == s.name) {
      s.fn(r);
      if (r.only >= 0) {
        printf("REPLAY-RESULT %s\n", r.viol.empty() ? "pass" : "fail");
        return r.viol.empty() ? 0 : 1;
      }
      if (!out.empty()) r.write(out.c_str());
      return 0;
    }
  }
  fprintf(stderr, "no such section %s\n", section.c_str());
  return 3;
}

}  // namespace vf

#define VF_MAIN() \
  int main(int argc, char** argv) { return vf::main_impl(argc, argv); }
