// env.hh — E-ENV: deviation-bounded exhaustive enumeration of environment answers.
//
// Interposed environment functions (wrapped libc calls, fopencookie callbacks, a scripted child
// process) call Env::choose(n) whenever the environment could answer in n different ways; answer
// 0 is the default environment (full read, no delay, no error).  explore() runs the scenario with
// every choice sequence that has at most `bound` non-default answers (bound < 0: every sequence),
// always to completion; replaying a prefix that no longer fits is a hard engine error.
#pragma once
#include <cstdint>
#include <functional>
#include <string>
#include <vector>

namespace vfe {

struct Env {
  std::vector<int> prefix;
  struct Pt { int taken, n; };
  std::vector<Pt> trace;
  bool diverged = false;
  size_t horizon = 20000;
  bool over_horizon = false;

  void begin(const std::vector<int>& p) {
    prefix = p;
    trace.clear();
    diverged = false;
    over_horizon = false;
  }
  // n >= 1 possible answers; returns the index of the one to give
  int choose(int n) {
    size_t k = trace.size();
    int c = 0;
    if (k < prefix.size()) {
      c = prefix[k];
      if (c < 0 || c >= n) { diverged = true; c = 0; }
    }
    if (k >= horizon) over_horizon = true;
    trace.push_back({c, n});
    return c;
  }
  int deviations() const {
    int d = 0;
    for (auto& p : trace) d += p.taken != 0;
    return d;
  }
  std::string show() const {
    std::string s;
    for (auto& p : trace) s += std::to_string(p.taken) + "/" + std::to_string(p.n) + " ";
    return s;
  }
};

struct Stats {
  uint64_t executions = 0, choice_points = 0, max_deviations = 0;
  bool complete = true;
  std::string failure;
  std::vector<int> failing_choices;
  std::string failing_trace;
};

// run(env) executes the scenario once (calling env.begin(prefix) is done here) and returns "" or a
// failure description.  Stops at the first failure (alphabets are ordered simplest-first and the
// deviation bound is iterated 0,1,2,.. by construction of the DFS order: fewest deviations first).
inline Stats explore(Env& env, const std::function<std::string()>& run, int bound, uint64_t cap) {
  Stats st;
  // breadth by number of deviations: level d holds prefixes ending in their d-th deviation
  std::vector<std::vector<int>> level = {{}}, nextlevel;
  int d = 0;
  while (!level.empty()) {
    for (auto& prefix : level) {
      if (st.executions >= cap) { st.complete = false; return st; }
      env.begin(prefix);
      std::string fail = run();
      st.executions++;
      st.choice_points += env.trace.size();
      if (env.diverged) { st.failure = "ENGINE: divergence while replaying a choice prefix"; st.failing_choices = prefix; st.complete = false; return st; }
      if (fail.empty() && env.over_horizon) fail = "horizon exceeded: the scenario made more than " + std::to_string(env.horizon) + " environment calls (livelock)";
      if (!fail.empty()) {
        st.failure = fail;
        for (auto& p : env.trace) st.failing_choices.push_back(p.taken);
        st.failing_trace = env.show();
        return st;
      }
      if ((uint64_t)d > st.max_deviations) st.max_deviations = d;
      if (bound >= 0 && d + 1 > bound) continue;
      for (size_t i = prefix.size(); i < env.trace.size(); i++) {
        for (int alt = 1; alt < env.trace[i].n; alt++) {
          std::vector<int> np;
          np.reserve(i + 1);
          for (size_t j = 0; j < i; j++) np.push_back(env.trace[j].taken);
          np.push_back(alt);
          nextlevel.push_back(std::move(np));
        }
      }
    }
    level.swap(nextlevel);
    nextlevel.clear();
    d++;
  }
  return st;
}

}  // namespace vfe
