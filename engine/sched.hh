// sched.hh — E-SCHED: a serialising scheduler for the threads of the code under test plus a DFS
// explorer of all interleavings (optionally preemption-bounded) with visited-state pruning.
//
// The "threads" are fibers (ucontext) multiplexed on the explorer's OS thread: exactly one runs at
// a time and control changes hands only at scheduling points, so every execution is a
// deterministic function of the choice sequence and the cost of a hand-off does not depend on
// machine load.  Scheduling points are the operations of vfs::Atomic<T>, thread creation, thread
// exit, Thread::join and the usleep shim (a yield).  The code under test is compiled against
// these shims by macro retargeting in the harness TU (see harness/C16.cc) — no source hooks.
// Data races on non-atomic memory are invisible to a serialising scheduler; they are the job of
// the separate free-running ThreadSanitizer build of the same harness bodies.
//
// Environment answers owned by the explorer besides the schedule:
//  * SPURIOUS FAILURE OF compare_exchange_weak.  The C++ memory model lets a weak CAS fail although
//    the stored value equals `expected` (real on LL/SC hardware).  Whenever a weak CAS *would
//    succeed*, and the execution still has spurious-failure budget (Scheduler::spurious_budget,
//    a deviation bound per execution), the outcome is a binary choice point of the DFS: succeed,
//    or fail spuriously (memory unchanged, `expected` keeps holding the current value, returns
//    false).  The same thread never fails spuriously twice in a row on the same atomic, so retry
//    loops stay finite even with a large budget.  compare_exchange_strong never fails spuriously.
//    The budget used so far and the per-thread "just failed spuriously on atomic k" flag are part
//    of the visited-state key.
//  * std::thread::hardware_concurrency(): Scheduler::hardware_concurrency (the harness enumerates it).
//  * Objects that outlive an execution: an Atomic constructed in an earlier execution (a static
//    in the code under test) and used in this one is reported (Execution::stale_atomic) instead
//    of silently making executions depend on each other.
#pragma once
#include <stdlib.h>
#include <sys/mman.h>
#include <ucontext.h>

#include <atomic>
#include <cstdint>
#include <cstring>
#include <functional>
#include <memory>
#include <string>
#include <system_error>
#include <tuple>
#include <unordered_set>
#include <vector>

#if defined(__SANITIZE_ADDRESS__)
extern "C" void __sanitizer_start_switch_fiber(void** fake_stack_save, const void* bottom, size_t size);
extern "C" void __sanitizer_finish_switch_fiber(void* fake_stack_save, const void** bottom_old, size_t* size_old);
#define VFS_ASAN 1
#else
#define VFS_ASAN 0
#endif

#if defined(__x86_64__)
// Minimal context switch (callee-saved registers + stack pointer).  glibc's swapcontext makes two
// rt_sigprocmask system calls per switch, which dominated the run time.
extern "C" void vfs_switch(void** save_sp, void* new_sp);
asm(R"(
.text
.globl vfs_switch
.type vfs_switch,@function
vfs_switch:
  pushq %rbp
  pushq %rbx
  pushq %r12
  pushq %r13
  pushq %r14
  pushq %r15
  movq %rsp, (%rdi)
  movq %rsi, %rsp
  popq %r15
  popq %r14
  popq %r13
  popq %r12
  popq %rbx
  popq %rbp
  ret
.size vfs_switch,.-vfs_switch
)");
#define VFS_ASM_SWITCH 1
#else
#define VFS_ASM_SWITCH 0
#endif

namespace vfs {

enum OpKind : uint8_t { OP_START, OP_ATOMIC, OP_JOIN, OP_YIELD, OP_SPAWNED, OP_EXIT };

struct ChoicePoint {
  std::vector<int> enabled;  // canonical order: running thread first if still enabled, then ascending ids
  int taken = 0;             // index into enabled
  bool running_enabled = false;
  bool spurious = false;     // true: not a scheduling choice but "weak CAS succeeds (0) / fails spuriously (1)"
  uint64_t state = 0;        // hash of the global state at this point
};

struct AbortExecution {};  // thrown in the main fiber to unwind an aborted execution

struct Fiber {
  int id = 0;
  bool finished = false;
  bool yielded = false;  // not eligible until some other thread takes a step
  OpKind pending = OP_START;
  int join_target = -1;
  uint64_t obs = 1469598103934665603ull;  // hash of everything this thread has observed
  const void* last_spurious = nullptr;    // atomic on which this thread's latest atomic operation failed spuriously
  ucontext_t ctx;
  void* sp = nullptr;
  char* stack = nullptr;
  size_t stack_size = 0;
  void* fake = nullptr;
  std::function<void()> body;
};

struct AtomicBase {
  virtual uint64_t bits() const = 0;
  virtual ~AtomicBase() {}
};

struct Execution {
  std::vector<ChoicePoint> points;
  bool deadlock = false, livelock = false, unjoined_destroyed = false, diverged = false, escaped_exception = false;
  bool stale_atomic = false;  // an Atomic constructed before this execution began was used in it
  uint64_t steps = 0;
  int spurious_injected = 0;  // spurious weak-CAS failures taken in this execution
  uint64_t weak_cas_ops = 0, weak_cas_would_succeed = 0;
};

class Scheduler {
 public:
  static Scheduler& get() {
    static Scheduler s;
    return s;
  }

  // ---- explorer-facing -----------------------------------------------------------------------
  std::vector<int> prefix;  // choices to replay
  Execution ex;
  size_t horizon = 4000;
  std::function<uint64_t()> extra_state;  // harness-provided (observation log digest)
  bool include_runner_in_state = false;   // needed only with a preemption bound
  // Harness-justified canonicalisation: when true, a thread's observation history is forgotten
  // each time it returns from the usleep shim.  Sound only if the code polling with usleep carries
  // no state from one poll iteration to the next (argued per harness; cross-checked by runs with
  // the flag off).
  bool reset_obs_on_yield = false;
  int spurious_budget = 0;             // max spurious weak-CAS failures per execution (0 = weak behaves like strong)
  unsigned hardware_concurrency = 2;   // answer of the std::thread::hardware_concurrency() shim
  uint64_t epoch = 0;                  // number of the current execution (stale-object detection)
  void yield_returned() {
    if (reset_obs_on_yield) fibers[current]->obs = 0x9171d + (uint64_t)current;
    else observe(0x51ee9);
  }

  void begin(const std::vector<int>& pfx) {
    prefix = pfx;
    ex = Execution();
    for (auto& f : fibers) release_stack(*f);
    fibers.clear();
    atomics.clear();
    fibers.emplace_back(new Fiber());
    fibers[0]->pending = OP_ATOMIC;
    current = 0;
    aborted = false;
    epoch++;
  }
  // Runs every remaining thread to completion (threads the code under test failed to join).
  void end() {
    if (aborted) return;
    try {
      for (;;) {
        bool all = true;
        for (size_t i = 1; i < fibers.size(); i++) all &= fibers[i]->finished;
        if (all) break;
        point(OP_YIELD, -1);
      }
    } catch (const AbortExecution&) {}
  }
  bool was_aborted() const { return aborted; }

  // ---- shim-facing ---------------------------------------------------------------------------
  int self() const { return current; }
  void observe(uint64_t v) {
    Fiber& t = *fibers[current];
    t.obs = (t.obs ^ v) * 1099511628211ull;
    t.obs ^= t.obs >> 29;
  }
  void reg_atomic(AtomicBase* a) { atomics.push_back(a); }
  void flag_stale_atomic() { if (!aborted) ex.stale_atomic = true; }
  // Called by every atomic operation other than a weak CAS, after its scheduling point.
  void atomic_op_done() { fibers[current]->last_spurious = nullptr; }
  // Called by compare_exchange_weak after its scheduling point.  would_succeed: the stored value
  // equals `expected`.  Returns true when the explorer decides that this CAS fails spuriously.
  bool weak_cas_fails_spuriously(const void* a, bool would_succeed) {
    Fiber& t = *fibers[current];
    ex.weak_cas_ops++;
    bool allowed = would_succeed && ex.spurious_injected < spurious_budget && t.last_spurious != a;
    t.last_spurious = nullptr;
    if (would_succeed) ex.weak_cas_would_succeed++;
    if (!allowed) return false;
    ChoicePoint cp;
    cp.enabled = {0, 1};
    cp.spurious = true;
    cp.running_enabled = false;  // not a preemption
    cp.state = (state_hash(current) ^ (0x5b0f5b0f00ull + (uint64_t)current)) * 0x9e3779b97f4a7c15ull;
    size_t k = ex.points.size();
    if (k < prefix.size()) {
      if (prefix[k] < 0 || prefix[k] > 1) {
        ex.diverged = true;
        aborted = true;
        if (current == 0) throw AbortExecution();
        abandon();
      }
      cp.taken = prefix[k];
    } else cp.taken = 0;
    bool fail = cp.taken == 1;
    ex.points.push_back(std::move(cp));
    if (fail) {
      ex.spurious_injected++;
      t.last_spurious = a;
      observe(0x5b0f);
    }
    return fail;
  }
  void unreg_atomic(AtomicBase* a) {
    for (size_t i = 0; i < atomics.size(); i++)
      if (atomics[i] == a) atomics[i] = nullptr;
  }

  // The running thread is about to perform a visible operation.
  void point(OpKind kind, int join_target) {
    if (aborted) {
      if (current == 0) throw AbortExecution();
      abandon();
    }
    int me = current;
    Fiber& t = *fibers[me];
    t.pending = kind;
    t.join_target = join_target;
    if (kind == OP_YIELD) t.yielded = true;
    int next = choose(me);
    if (next < 0) {  // deadlock / livelock / divergence
      aborted = true;
      if (me == 0) throw AbortExecution();
      abandon();
    }
    if (next != me) switch_to(next);
    if (aborted) {
      if (current == 0) throw AbortExecution();
      abandon();
    }
    // running again: the operation is performed by the caller after we return; any step by this
    // thread makes yielders eligible again
    t.yielded = false;
    for (auto& o : fibers) if (o->id != me) o->yielded = false;
  }

  int spawn(std::function<void()> body) {
    int id = (int)fibers.size();
    fibers.emplace_back(new Fiber());
    Fiber* f = fibers.back().get();
    f->id = id;
    f->pending = OP_START;
    f->body = std::move(body);
    acquire_stack(*f);
#if VFS_ASM_SWITCH
    {
      uintptr_t top = ((uintptr_t)f->stack + f->stack_size) & ~(uintptr_t)15;
      void** p = (void**)top;
      *--p = nullptr;                // fake return address of trampoline (never used)
      *--p = (void*)trampoline;      // popped by vfs_switch's ret
      for (int i = 0; i < 6; i++) *--p = nullptr;  // rbp rbx r12 r13 r14 r15
      f->sp = p;
    }
#else
    getcontext(&f->ctx);
    f->ctx.uc_stack.ss_sp = f->stack;
    f->ctx.uc_stack.ss_size = f->stack_size;
    f->ctx.uc_link = nullptr;
    makecontext(&f->ctx, (void (*)())trampoline, 0);
#endif
    observe(0x5157 + id);
    point(OP_SPAWNED, -1);
    return id;
  }

  void join(int target) {
    point(OP_JOIN, target);
    observe(0x4a01 + target);
  }
  bool finished(int id) const { return fibers[id]->finished; }
  void flag_unjoined_destroyed() { if (!aborted) ex.unjoined_destroyed = true; }
  size_t nthreads() const { return fibers.size(); }

 private:
  std::vector<std::unique_ptr<Fiber>> fibers;
  std::vector<AtomicBase*> atomics;
  std::vector<std::pair<char*, size_t>> stack_pool;
  int current = 0;
  bool aborted = false;
  static constexpr size_t STACK = 512 * 1024;

  void acquire_stack(Fiber& f) {
    if (!stack_pool.empty()) {
      f.stack = stack_pool.back().first;
      f.stack_size = stack_pool.back().second;
      stack_pool.pop_back();
      return;
    }
    f.stack = (char*)mmap(nullptr, STACK, PROT_READ | PROT_WRITE, MAP_PRIVATE | MAP_ANONYMOUS, -1, 0);
    if (f.stack == MAP_FAILED) abort();
    f.stack_size = STACK;
  }
  void release_stack(Fiber& f) {
    if (f.stack) stack_pool.emplace_back(f.stack, f.stack_size);
    f.stack = nullptr;
  }

  static void trampoline() {
    Scheduler& S = get();
    S.after_switch();
    Fiber& me = *S.fibers[S.current];
    for (auto& o : S.fibers) if (o->id != me.id) o->yielded = false;
    try {
      me.body();
    } catch (const AbortExecution&) {
    } catch (...) {
      S.ex.escaped_exception = true;  // std::thread would call std::terminate
    }
    me.body = nullptr;
    S.thread_exit();
  }

  void after_switch() {
#if VFS_ASAN
    Fiber& me = *fibers[current];
    const void* ob = nullptr;
    size_t os = 0;
    __sanitizer_finish_switch_fiber(me.fake, &ob, &os);
    if (main_bottom == nullptr && prev_fiber == 0) { main_bottom = ob; main_size = os; }
#endif
  }

  const void* main_bottom = nullptr;
  size_t main_size = 0;
  int prev_fiber = 0;

  void switch_to(int next, bool dying = false) {
    int me = current;
    Fiber& a = *fibers[me];
    Fiber& b = *fibers[next];
#if VFS_ASAN
    const void* bottom = next == 0 ? main_bottom : b.stack;
    size_t size = next == 0 ? main_size : b.stack_size;
    __sanitizer_start_switch_fiber(dying ? nullptr : &a.fake, bottom, size);
#else
    (void)dying;
#endif
    prev_fiber = me;
    current = next;
#if VFS_ASM_SWITCH
    vfs_switch(&a.sp, b.sp);
#else
    swapcontext(&a.ctx, &b.ctx);
#endif
    after_switch();
  }

  // A worker fiber that must never run again (aborted execution): give control to main for good.
  [[noreturn]] void abandon() {
    switch_to(0, true);
    abort();  // unreachable: abandoned fibers are never resumed
  }

  [[noreturn]] void thread_exit() {
    int me = current;
    Fiber& t = *fibers[me];
    t.finished = true;
    t.pending = OP_EXIT;
    for (auto& o : fibers) if (o->id != me) o->yielded = false;
    int next = aborted ? 0 : choose(me);
    if (next < 0) { aborted = true; next = 0; }
    switch_to(next, true);
    abort();  // unreachable
  }

  bool is_enabled(const Fiber& t) const {
    if (t.finished) return false;
    if (t.pending == OP_JOIN) return fibers[t.join_target]->finished;
    return true;
  }

  uint64_t state_hash(int runner) const {
    uint64_t h = 0xcbf29ce484222325ull;
    auto mix = [&](uint64_t v) { h = (h ^ v) * 1099511628211ull; h ^= h >> 31; };
    for (auto* a : atomics) mix(a ? a->bits() : 0x7e57dead);
    for (auto& t : fibers) {
      mix(t->finished ? 2 : 1);
      mix(t->finished ? 0 : ((uint64_t)t->pending << 8) ^ (uint64_t)(t->join_target + 1));
      mix(t->finished ? 0 : (t->yielded ? 3 : 4));
      mix(t->obs);
      if (t->last_spurious) {
        uint64_t k = 0;
        for (size_t i = 0; i < atomics.size(); i++) if ((const void*)atomics[i] == t->last_spurious) k = i + 1;
        mix(0x5b0f0000 + k);
      }
    }
    if (spurious_budget) mix(0xb0d6e7 + (uint64_t)ex.spurious_injected);
    if (include_runner_in_state) mix(0x1000 + runner);
    if (extra_state) mix(extra_state());
    return h;
  }

  // Picks the thread that runs next; -1 = the execution must be aborted (flags set in ex).
  int choose(int me) {
    Fiber& t = *fibers[me];
    ChoicePoint cp;
    bool any_nonyield = false;
    for (auto& o : fibers) if (is_enabled(*o) && !o->yielded) any_nonyield = true;
    auto eligible = [&](const Fiber& o) { return is_enabled(o) && (!o.yielded || !any_nonyield); };
    if (!t.finished && eligible(t)) { cp.enabled.push_back(me); cp.running_enabled = true; }
    for (auto& o : fibers) if (o->id != me && eligible(*o)) cp.enabled.push_back(o->id);
    if (cp.enabled.empty()) { ex.deadlock = true; return -1; }  // main never finishes, so somebody is stuck
    if (++ex.steps > horizon) { ex.livelock = true; return -1; }
    if (cp.enabled.size() == 1) return cp.enabled[0];  // forced move: not a choice point
    size_t k = ex.points.size();
    cp.state = state_hash(me);
    if (k < prefix.size()) {
      if (prefix[k] < 0 || (size_t)prefix[k] >= cp.enabled.size()) { ex.diverged = true; return -1; }
      cp.taken = prefix[k];
    } else cp.taken = 0;
    int next = cp.enabled[cp.taken];
    ex.points.push_back(std::move(cp));
    return next;
  }
};

// ---- shims --------------------------------------------------------------------------------------

template <class T>
class Atomic : public AtomicBase {
  T v;
  static uint64_t tobits(T x) {
    uint64_t b = 0;
    memcpy(&b, &x, sizeof(T) < 8 ? sizeof(T) : 8);
    return b;
  }
  uint64_t born;  // execution in which this object was constructed
  void pt0() const {
    Scheduler& S = Scheduler::get();
    if (born != S.epoch) S.flag_stale_atomic();
    S.point(OP_ATOMIC, -1);
  }
  void pt() const { pt0(); Scheduler::get().atomic_op_done(); }
  T seen(T x) const { Scheduler::get().observe(tobits(x) * 31 + 7); return x; }

 public:
  Atomic() : v(), born(Scheduler::get().epoch) { Scheduler::get().reg_atomic(this); }
  Atomic(T x) : v(x), born(Scheduler::get().epoch) { Scheduler::get().reg_atomic(this); }
  Atomic(const Atomic&) = delete;
  Atomic& operator=(const Atomic&) = delete;
  ~Atomic() override { Scheduler::get().unreg_atomic(this); }
  uint64_t bits() const override { return tobits(v); }

  T load(std::memory_order = std::memory_order_seq_cst) const { pt(); return seen(v); }
  void store(T x, std::memory_order = std::memory_order_seq_cst) { pt(); v = x; Scheduler::get().observe(0x57); }
  operator T() const { return load(); }
  T operator=(T x) { store(x); return x; }
  T exchange(T x, std::memory_order = std::memory_order_seq_cst) { pt(); T o = v; v = x; return seen(o); }
  T fetch_add(T d, std::memory_order = std::memory_order_seq_cst) { pt(); T o = v; v = (T)(v + d); return seen(o); }
  T fetch_sub(T d, std::memory_order = std::memory_order_seq_cst) { pt(); T o = v; v = (T)(v - d); return seen(o); }
  T fetch_or(T d, std::memory_order = std::memory_order_seq_cst) { pt(); T o = v; v = (T)(v | d); return seen(o); }
  T fetch_and(T d, std::memory_order = std::memory_order_seq_cst) { pt(); T o = v; v = (T)(v & d); return seen(o); }
  bool compare_exchange_strong(T& expected, T desired, std::memory_order = std::memory_order_seq_cst, std::memory_order = std::memory_order_seq_cst) {
    pt();
    if (tobits(v) == tobits(expected)) { v = desired; Scheduler::get().observe(0xce1); return true; }
    expected = seen(v);
    return false;
  }
  // Weak CAS: when it would succeed the explorer may decide (within Scheduler::spurious_budget)
  // that it fails spuriously: memory unchanged, `expected` untouched (it already equals the
  // current value, which is what the standard says it holds after a failure), result false.
  bool compare_exchange_weak(T& expected, T desired, std::memory_order = std::memory_order_seq_cst, std::memory_order = std::memory_order_seq_cst) {
    pt0();
    bool would = tobits(v) == tobits(expected);
    if (Scheduler::get().weak_cas_fails_spuriously(this, would)) return false;
    if (would) { v = desired; Scheduler::get().observe(0xce1); return true; }
    expected = seen(v);
    return false;
  }
  T operator++() { return (T)(fetch_add(1) + 1); }
  T operator++(int) { return fetch_add(1); }
  T operator--() { return (T)(fetch_sub(1) - 1); }
  T operator--(int) { return fetch_sub(1); }
  T operator+=(T d) { return (T)(fetch_add(d) + d); }
  T operator-=(T d) { return (T)(fetch_sub(d) - d); }
};

class Thread {
  int id_ = -1;

 public:
  Thread() noexcept {}
  template <class F, class... A>
  explicit Thread(F&& f, A&&... a) {
    auto fn = std::make_shared<std::decay_t<F>>(std::forward<F>(f));
    auto tup = std::make_shared<std::tuple<std::decay_t<A>...>>(std::forward<A>(a)...);
    id_ = Scheduler::get().spawn([fn, tup]() {
      std::apply([&](auto&... args) { std::invoke(std::move(*fn), std::move(args)...); }, *tup);
    });
  }
  Thread(const Thread&) = delete;
  Thread(Thread&& o) noexcept : id_(o.id_) { o.id_ = -1; }
  Thread& operator=(Thread&& o) noexcept {
    if (joinable()) Scheduler::get().flag_unjoined_destroyed();
    id_ = o.id_;
    o.id_ = -1;
    return *this;
  }
  ~Thread() {
    if (joinable()) Scheduler::get().flag_unjoined_destroyed();  // std::thread would call std::terminate
  }
  bool joinable() const noexcept { return id_ >= 0; }
  void join() {
    if (!joinable()) throw std::system_error(std::make_error_code(std::errc::invalid_argument));
    Scheduler::get().join(id_);
    id_ = -1;
  }
  void detach() { id_ = -1; }
  static unsigned hardware_concurrency() noexcept { return Scheduler::get().hardware_concurrency; }
};

inline int vf_usleep_impl() {
  Scheduler::get().point(OP_YIELD, -1);
  Scheduler::get().yield_returned();
  return 0;
}

// ---- explorer -------------------------------------------------------------------------------------

struct ExploreStats {
  uint64_t schedules = 0, states = 0, transitions = 0, pruned = 0, max_preemptions = 0, max_points = 0;
  uint64_t schedules_with_spurious = 0, spurious_choice_points = 0, weak_cas_ops = 0, max_spurious_in_one = 0;
  bool complete = true;
  std::string failure;  // first failure description ("" = none)
  std::vector<int> failing_choices;
  std::unordered_set<std::string> outcomes;
};

// run(prefix) executes the harness body under Scheduler with that prefix and returns "" when the
// per-execution oracle holds, else a failure description.  bound < 0 = no preemption bound.
// outcome (optional) receives a short observable-outcome label per execution (vacuity report).
inline ExploreStats explore(const std::function<std::string(const std::vector<int>&)>& run, int bound, uint64_t max_schedules,
    const std::function<std::string()>& outcome = nullptr) {
  ExploreStats st;
  std::unordered_set<uint64_t> visited;
  Scheduler& S = Scheduler::get();
  S.include_runner_in_state = bound >= 0;
  std::vector<std::vector<int>> stack;
  stack.push_back({});
  while (!stack.empty()) {
    if (st.schedules >= max_schedules) { st.complete = false; break; }
    std::vector<int> prefix = std::move(stack.back());
    stack.pop_back();
    std::string fail = run(prefix);
    st.schedules++;
    Execution& x = S.ex;
    if (x.diverged) { st.failure = "ENGINE: divergence while replaying a prefix"; st.failing_choices = prefix; st.complete = false; return st; }
    if (x.deadlock) fail = "deadlock: no enabled thread while some thread has not finished";
    else if (x.livelock) fail = "livelock: horizon of scheduling steps exceeded";
    else if (fail.empty() && x.stale_atomic) fail = "state carried between calls: an atomic object constructed before this execution began (static storage in the code under test) was used";
    else if (fail.empty() && x.escaped_exception) fail = "an exception escaped a worker thread (std::thread would call std::terminate)";
    else if (fail.empty() && x.unjoined_destroyed) fail = "a joinable thread object was destroyed (std::thread would call std::terminate)";
    if (x.points.size() > st.max_points) st.max_points = x.points.size();
    if (x.spurious_injected) st.schedules_with_spurious++;
    if ((uint64_t)x.spurious_injected > st.max_spurious_in_one) st.max_spurious_in_one = x.spurious_injected;
    st.weak_cas_ops += x.weak_cas_ops;
    if (!fail.empty()) {
      st.failure = fail;
      for (auto& p : x.points) st.failing_choices.push_back(p.taken);
      return st;
    }
    if (outcome && st.outcomes.size() < 64) st.outcomes.insert(outcome());
    std::vector<int> pre(x.points.size() + 1, 0);  // preemptions before each point
    for (size_t i = 0; i < x.points.size(); i++)
      pre[i + 1] = pre[i] + ((x.points[i].running_enabled && x.points[i].taken != 0) ? 1 : 0);
    if ((uint64_t)pre[x.points.size()] > st.max_preemptions) st.max_preemptions = pre[x.points.size()];
    std::vector<std::vector<int>> alts;
    for (size_t i = prefix.size(); i < x.points.size(); i++) {
      const ChoicePoint& p = x.points[i];
      uint64_t key = p.state ^ (bound >= 0 ? (uint64_t)(pre[i] + 1) * 0x9e3779b97f4a7c15ull : 0);
      st.transitions++;
      // a state seen before has had (or will have) all its futures explored from the first visit
      if (!visited.insert(key).second) { st.pruned++; break; }
      st.states++;
      if (p.spurious) st.spurious_choice_points++;
      for (size_t alt = 1; alt < p.enabled.size(); alt++) {
        int cost = pre[i] + (p.running_enabled ? 1 : 0);
        if (bound >= 0 && cost > bound) continue;
        std::vector<int> np;
        np.reserve(i + 1);
        for (size_t j = 0; j < i; j++) np.push_back(x.points[j].taken);
        np.push_back((int)alt);
        alts.push_back(std::move(np));
      }
    }
    for (auto& a : alts) stack.push_back(std::move(a));
  }
  return st;
}

}  // namespace vfs
