#!/usr/bin/env python3
"""coverage.py <ID> [tier] — which lines of /repo/src does the check of property <ID> execute?

Builds the harness and the phosg objects a second time with gcov instrumentation (VF_COVERAGE), runs the check
as usual, merges the counters of every TU and prints, per phosg source file, the executable lines that no
explored case reached (grouped in ranges, with the source text).  This is a diagnostic for blind spots
(overloads, branches, option combinations a harness never drives); it decides nothing and is not part of any
registered command.  Output: build/cov/<ID>.txt
"""
import glob, json, os, re, subprocess, sys, shutil

ROOT = os.path.dirname(os.path.dirname(os.path.abspath(__file__)))
REPO = os.environ.get("VERIF_REPO", "/repo")


def main():
    pid = sys.argv[1]
    tier = sys.argv[2] if len(sys.argv) > 2 else "quick"
    only = sys.argv[3] if len(sys.argv) > 3 else None   # restrict report to these files (comma separated basenames; "all" = no filter)
    if only is None:
        for l in open(os.path.join(ROOT, "properties.jsonl")):
            p = json.loads(l)
            if p["id"] == pid:
                only = ",".join(os.path.basename(f) for f in p["anchors"]["files"])
    if only == "all":
        only = None
    cov = os.path.join(ROOT, "build", "cov", pid)
    shutil.rmtree(cov, ignore_errors=True)
    os.makedirs(cov)
    env = dict(os.environ, VF_COVERAGE=cov, VERIF_REPO=REPO)
    evp = os.path.join(ROOT, "evidence", pid + ".json")
    saved = open(evp, "rb").read() if os.path.exists(evp) else None
    try:
        rc = subprocess.call([sys.executable, os.path.join(ROOT, "check.py"), pid, "--tier", tier], env=env, cwd=ROOT)
    finally:
        if saved is not None:
            open(evp, "wb").write(saved)
    print("check exit", rc, file=sys.stderr)
    hits = {}   # file -> line -> count
    texts = {}
    for gcda in glob.glob(os.path.join(cov, "*.gcda")):
        out = subprocess.run(["gcov", "-t", "-o", cov, gcda], capture_output=True, text=True, cwd=cov).stdout
        cur = None
        for line in out.splitlines():
            m = re.match(r"\s*-:\s*0:Source:(.*)", line)
            if m:
                f = os.path.normpath(os.path.join(cov, m.group(1)))
                cur = f if f.startswith(os.path.realpath(REPO) + "/src/") and not f.endswith("Test.cc") else None
                continue
            if cur is None:
                continue
            m = re.match(r"\s*([^:]+):\s*(\d+):(.*)", line)
            if not m:
                continue
            c, ln, txt = m.group(1).strip(), int(m.group(2)), m.group(3)
            if ln == 0 or c == "-":
                continue
            n = 0 if c.startswith("#") or c.startswith("=") else int(re.sub(r"[^0-9]", "", c) or 0)
            hits.setdefault(cur, {})
            hits[cur][ln] = hits[cur].get(ln, 0) + n
            texts.setdefault(cur, {})[ln] = txt
    rep = []
    for f in sorted(hits):
        if only and os.path.basename(f) not in only.split(","):
            continue
        lines = hits[f]
        un = sorted(l for l, n in lines.items() if n == 0)
        rep.append("== %s: %d executable lines instrumented, %d never executed" % (os.path.basename(f), len(lines), len(un)))
        # group into ranges
        i = 0
        while i < len(un):
            j = i
            while j + 1 < len(un) and un[j + 1] - un[j] <= 2:
                j += 1
            for l in un[i:j + 1]:
                rep.append("   %5d: %s" % (l, texts[f][l].rstrip()[:150]))
            rep.append("")
            i = j + 1
    outp = os.path.join(ROOT, "build", "cov", pid + ".txt")
    open(outp, "w").write("\n".join(rep) + "\n")
    print(outp)
    if not os.environ.get("VF_KEEP"):
        shutil.rmtree(cov, ignore_errors=True)


if __name__ == "__main__":
    main()
