#!/bin/bash
# usage: mutant_test.sh <ID[,ID...]> <patch.diff> [tier]   — applies the patch in a scratch worktree of /repo,
# runs the repository's own tests and then the given checks against the scratch tree, removes the worktree.
set -u
IDS="$1"; PATCH="$(readlink -f "$2")"; TIER="${3:-quick}"
WT="$(mktemp -d /tmp/mut.XXXXXX)"; rmdir "$WT"
git -C /repo worktree add -q --detach "$WT" HEAD || exit 2
trap 'git -C /repo worktree remove --force "$WT" >/dev/null 2>&1; rm -rf "$WT"' EXIT
git -C "$WT" apply "$PATCH" || { echo "PATCH does not apply"; exit 2; }
if [ -z "${SKIP_BASELINE:-}" ]; then
  if bash /verif/tools/baseline.sh "$WT" | tail -1 | grep -q "100% tests passed"; then echo "BASELINE: passes with mutant"; else echo "BASELINE: FAILS with mutant (not a valid seeded change)"; fi
fi
for ID in ${IDS//,/ }; do
  (cd /verif && VERIF_REPO="$WT" python3 check.py "$ID" --tier "$TIER" > "$WT.log" 2>&1; echo "check $ID exit=$?" >> "$WT.log")
  grep -E "^VIOLATION|^  key=|^KNOWN|^\[check\]|ENGINE|^check " "$WT.log" | cut -c1-400; rm -f "$WT.log"
done
