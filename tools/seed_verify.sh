#!/bin/bash
# usage: seed_verify.sh <ID> <seed-out-dir(A or B)> <name> [tier]
# Confirms a seeded change independently (demo passes on the clean tree, baseline passes with the change, demo fails
# with the change), runs the check against it, and files everything under /verif/seeded/<name>/.
set -u
ID="$1"; SRC="$(readlink -f "$2")"; NAME="$3"; TIER="${4:-quick}"
WT="$(mktemp -d /tmp/sv.XXXXXX)"; rmdir "$WT"
git -C /repo worktree add -q --detach "$WT" HEAD || exit 2
trap 'git -C /repo worktree remove --force "$WT" >/dev/null 2>&1; rm -rf "$WT" "$WT.log"' EXIT
OUT=/verif/seeded/$NAME; mkdir -p "$OUT"
cp "$SRC/patch.diff" "$OUT/patch.diff"; cp "$SRC"/demo* "$SRC"/run.sh "$OUT/" 2>/dev/null
(cd "$OUT" && bash ./run.sh "$WT" > "$WT.log" 2>&1); clean=$?
echo "demo on clean tree: exit $clean"
git -C "$WT" apply "$OUT/patch.diff" || { echo "PATCH does not apply to current HEAD"; exit 2; }
base=$(bash /verif/tools/baseline.sh "$WT" | tail -1)
if ! echo "$base" | grep -q "100% tests passed"; then base=$(bash /verif/tools/baseline.sh "$WT" | tail -1); fi
echo "baseline with change: $base"
(cd "$OUT" && bash ./run.sh "$WT" > "$WT.log" 2>&1); mut=$?
echo "demo with change: exit $mut :: $(tail -2 "$WT.log" | tr '\n' ' ' | cut -c1-200)"
(cd /verif && VERIF_REPO="$WT" python3 check.py "$ID" --tier "$TIER" > "$WT.chk" 2>&1; echo "check exit=$?" >> "$WT.chk")
grep -E "^VIOLATION|^  key=|^\[check\]|ENGINE|^check exit" "$WT.chk" | cut -c1-330 | head -14
det=$(grep -c "^VIOLATION" "$WT.chk")
python3 - "$OUT" "$ID" "$clean" "$base" "$mut" "$det" "$TIER" "$SRC" <<'PY'
import json,sys,os
out,pid,clean,base,mut,det,tier,src=sys.argv[1:]
meta={}
try: meta=json.load(open(os.path.join(src,'meta.json')))
except Exception as e: meta={"note":"agent meta.json unreadable: %s"%e}
meta.update({"property":pid,"verified":{"demo_on_clean_tree_exit":int(clean),"baseline_with_change":base,"demo_with_change_exit":int(mut),
  "check_tier":tier,"check_violations_reported":int(det),"command":"tools/seed_verify.sh (scratch worktree of /repo HEAD, git apply patch.diff, tools/baseline.sh, run.sh, VERIF_REPO=<worktree> python3 check.py %s --tier %s)"%(pid,tier)}})
json.dump(meta,open(os.path.join(out,'meta.json'),'w'),indent=1)
PY
rm -f "$WT.chk"
