#!/usr/bin/env python3
"""Regenerates /verif/MANIFEST.json from props.py (claimed checks) and properties.jsonl (ids)."""
import json, os, sys

ROOT = os.path.dirname(os.path.dirname(os.path.abspath(__file__)))
sys.path.insert(0, ROOT)
from props import PROPS, NOT_APPLICABLE, HOOK_COMMITS  # noqa: E402

ids = [json.loads(l)["id"] for l in open(os.path.join(ROOT, "properties.jsonl"))]
checks = []
na = []
for pid in ids:
    if pid in PROPS:
        c = PROPS[pid]
        checks.append(dict(
            property_id=pid,
            quick_cmd="python3 check.py %s --tier quick" % pid,
            thorough_cmd="python3 check.py %s --tier thorough" % pid,
            evidence_file="evidence/%s.json" % pid,
            replay_cmd_template="python3 check.py %s --replay {path}" % pid,
            engine=c.get("engine", "E-ENUM"),
            level_claimed=dict(category="model_checking", text=c["level_text"], design_ref="DESIGN.md §5 " + pid),
            level_note=c["level_note"],
            technique=c["technique"],
        ))
    else:
        na.append(dict(property_id=pid, reason=NOT_APPLICABLE.get(pid, "check not built yet in this round; see DESIGN.md §5 for the planned model-checking design")))

m = dict(
    version=1,
    setup_cmd="python3 check.py --setup",
    hooks=dict(
        guard="PHOSG_VERIF",
        enable="no source hooks: harnesses interpose at link time (-Wl,--wrap), retarget std::atomic/std::thread by macro in the harness TU and read private state with -fno-access-control; checks compile /repo/src/*.cc from the working tree with g++ -std=c++20 -O1 -fsanitize=address",
        baseline_off_cmd="bash tools/baseline.sh /repo",
        source_commits=HOOK_COMMITS,
        add_only=True,
    ),
    engines=[
        dict(name="vf", path="engine/vf.hh", serves_properties=sorted(PROPS), kind_free_text="section/shard enumeration engine: odometer enumeration, crash/hang attribution through a shared slot, replay-before-report"),
        dict(name="supervisor", path="check.py", serves_properties=sorted(PROPS), kind_free_text="builds from /repo working tree (content-addressed cache), runs shards on 16 cores, merges, known findings, evidence"),
    ] + [dict(name=e["name"], path=e["path"], serves_properties=e["serves"], kind_free_text=e["kind"]) for e in __import__("props").ENGINES if all(p in PROPS for p in e["serves"])],
    checks=checks,
    not_applicable=na,
    notes="All checks are bounded exhaustive explorations of the real implementation (no sampling, no solver). known findings: known_findings.txt; seeded detection demos: seeded/; design: DESIGN.md.",
)
json.dump(m, open(os.path.join(ROOT, "MANIFEST.json"), "w"), indent=1)
print("MANIFEST.json: %d checks, %d not_applicable" % (len(checks), len(na)))
