#!/usr/bin/env python3
"""Prints the markdown table of seeded changes of one round (suffix letters) from seeded/*/meta.json."""
import glob, json, os, sys
letters = sys.argv[1] if len(sys.argv) > 1 else "CD"
root = os.path.dirname(os.path.dirname(os.path.abspath(__file__)))
print("| seed | class | change (author's summary) | first run | now caught by (quick) |")
print("|---|---|---|---|---|")
for d in sorted(glob.glob(os.path.join(root, "seeded", "C??-[%s]" % letters))):
    if not os.path.exists(os.path.join(d, "meta.json")):
        continue
    m = json.load(open(os.path.join(d, "meta.json")))
    name = os.path.basename(d)
    first = m.get("verified", {}).get("check_violations_reported")
    first_s = "caught" if first and not str(m.get("verified", {}).get("as_built", "")).startswith("missed") else "**missed**"
    rc = m.get("recheck", {})
    keys = rc.get("finding_keys", [])
    short = []
    for k in keys[:3]:
        parts = k.split(":", 1)
        short.append("`" + (parts[1] if len(parts) > 1 else k) + "`")
    now = ", ".join(short) if rc.get("caught") else ("NOT CAUGHT" if rc else "(not rechecked)")
    summ = " ".join(m.get("summary", "").split())
    if len(summ) > 230:
        summ = summ[:227] + "..."
    summ = summ.replace("|", "/")
    print("| %s | %s | %s | %s | %s |" % (name, m.get("class", "-"), summ, first_s, now))
