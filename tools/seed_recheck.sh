#!/bin/bash
# usage: seed_recheck.sh <name>...   (names under /verif/seeded, e.g. C02-D; default: all)
# Re-runs the quick check of the seed's property against a scratch worktree of /repo HEAD with the seeded change applied
# and records the verdict (violation keys) in seeded/<name>/meta.json under "recheck".  Does not re-run the repo's tests.
set -u
cd /verif
NAMES="${@:-$(ls seeded | grep -E '^C[0-9]+-[A-Z]$')}"
for NAME in $NAMES; do
  ID="${NAME%%-*}"
  WT="$(mktemp -d /tmp/rc.XXXXXX)"; rmdir "$WT"
  git -C /repo worktree add -q --detach "$WT" HEAD || { echo "$NAME worktree failed"; continue; }
  P="/verif/seeded/$NAME/patch.diff"; [ -f "/verif/seeded/$NAME/patch.rebased.diff" ] && P="/verif/seeded/$NAME/patch.rebased.diff"   # same edit re-applied by hand after later fix commits moved its context
  if ! git -C "$WT" apply "$P" 2>/dev/null; then
    echo "$NAME PATCH-DOES-NOT-APPLY"; git -C /repo worktree remove --force "$WT"; continue
  fi
  s=$(date +%s)
  VERIF_REPO="$WT" python3 check.py "$ID" --tier quick > "$WT.log" 2>&1; rc=$?
  keys=$(grep -E "^  key=" "$WT.log" | sed -E 's/^  key=([^ ]+).*/\1/' | head -8 | tr '\n' ' ')
  echo "$NAME rc=$rc $(( $(date +%s) - s ))s keys: $keys"
  python3 - "$NAME" "$rc" "$keys" <<'PY'
import json,sys,time
name,rc,keys=sys.argv[1],int(sys.argv[2]),sys.argv[3].split()
p='/verif/seeded/%s/meta.json'%name
m=json.load(open(p))
m['recheck']={'quick_exit':rc,'caught':rc==1,'finding_keys':keys,'repo_head':__import__('subprocess').check_output(['git','-C','/repo','rev-parse','--short','HEAD'],text=True).strip()}
json.dump(m,open(p,'w'),indent=1)
PY
  rm -f "$WT.log"; git -C /repo worktree remove --force "$WT" >/dev/null 2>&1; rm -rf "$WT"
done
