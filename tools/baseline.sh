#!/bin/bash
# Builds /repo (guard off: no verification define exists in the sources) in a scratch directory
# outside /repo and /verif, runs the 14 ctest programs, removes the scratch directory.
# usage: baseline.sh [repo_dir]
set -u
REPO="${1:-/repo}"
B="$(mktemp -d /tmp/phosg-baseline.XXXXXX)"
trap 'rm -rf "$B"' EXIT
cmake -G Ninja -S "$REPO" -B "$B" -DCMAKE_BUILD_TYPE=RelWithDebInfo -DCMAKE_CXX_FLAGS=-Wno-error >"$B/cmake.log" 2>&1 || { cat "$B/cmake.log"; echo "BASELINE configure failed"; exit 1; }
cmake --build "$B" -j 16 >"$B/build.log" 2>&1 || { tail -50 "$B/build.log"; echo "BASELINE build failed"; exit 1; }
ctest --test-dir "$B" -j8 --timeout 900 >"$B/ctest.log" 2>&1
rc=$?
grep -E "tests passed|Test +#|FAILED|Failed" "$B/ctest.log"
exit $rc
