#!/bin/bash
# usage: run_all.sh <tier> <ID>...   — runs the checks one after the other, prints one summary line each
TIER="$1"; shift
cd /verif
for ID in "$@"; do
  s=$(date +%s)
  python3 check.py "$ID" --tier "$TIER" > "build/run_$ID.$TIER.log" 2>&1
  rc=$?
  echo "$ID $TIER rc=$rc $(($(date +%s)-s))s :: $(grep -E '^\[check\]' build/run_$ID.$TIER.log | tail -1 | cut -c1-200)"
  grep -E "^VIOLATION|^  key=|^ENGINE|^KNOWN" "build/run_$ID.$TIER.log" | cut -c1-300
done
