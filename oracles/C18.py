"""Binds the calendar reference used by harness/C18.cc to Python's datetime.

The harness writes `<section>.<shard>.dat` files with lines "<microseconds since epoch>\t<reference text>"
for a subset of the format_time cases (every 31st day, all month/year boundary days, sampled seconds of
the four every-second days).  Every line is recomputed with datetime/timedelta; a mismatch means the
harness's own calendar arithmetic is wrong (so its verdicts on format_time could not be trusted)."""
import datetime
import glob
import os

EPOCH = datetime.datetime(1970, 1, 1)


def run(outdir, tier, repo):
    n = 0
    viol = []
    files = sorted(glob.glob(os.path.join(outdir, "time_days.*.dat")) + glob.glob(os.path.join(outdir, "time_seconds.*.dat")))
    for path in files:
        with open(path) as f:
            for line in f:
                line = line.rstrip("\n")
                if not line:
                    continue
                t, ref = line.split("\t", 1)
                t = int(t)
                dt = EPOCH + datetime.timedelta(microseconds=t)
                want = "%04d-%02d-%02d %02d:%02d:%02d.%06d" % (dt.year, dt.month, dt.day, dt.hour, dt.minute, dt.second, dt.microsecond)
                n += 1
                if want != ref and not viol:
                    viol.append(dict(key="harness:calendar-reference-differs-from-python-datetime", section="pyoracle",
                                     desc="t=%d us: harness reference %r, Python datetime %r" % (t, ref, want)))
    notes = ["oracles/C18.py: %d reference timestamps from %d files recomputed with Python datetime" % (n, len(files))]
    if n == 0:
        notes.append("oracles/C18.py: no reference lines found (sections time_days/time_seconds not run?)")
    return dict(validated=n, violations=viol, notes=notes)
