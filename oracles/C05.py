"""Python stage for C05: replays every text the harness wrote (all quick-tier texts; in the thorough
tier the same families plus the larger grammar set) through json.loads and compares accept/reject
and value with the harness's reference R_std.  The line format and all logic are shared with
oracles/C04.py (same reference header harness/C04_jsonref.hh)."""
import importlib.util, os

_spec = importlib.util.spec_from_file_location("oracle_C04_shared", os.path.join(os.path.dirname(os.path.abspath(__file__)), "C04.py"))
_c04 = importlib.util.module_from_spec(_spec)
_spec.loader.exec_module(_c04)


def run(outdir, tier, repo):
    return _c04.run_dir(outdir, "C05 python binding")
