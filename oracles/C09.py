"""Python stage of C09: an independent hex-dump decoder.

harness/C09.cc (section `dump`) writes every 211th case of the size x start-address x flag matrix to
<outdir>/dump.<shard>.dat, harness/C09_r2.cc (section `dump_edges`) every 97th case of the 2^k address grid to
<outdir>/edges.<shard>.dat, one record per line:

    <start hex> <size> <flags hex> <data hex or -> - <output hex or ->

This module re-implements the dump reader from the documented layout (regular expressions instead of the
position-driven C++ parser), decodes every record and checks that
  * the address / hex columns give back exactly the dumped bytes at the right addresses,
  * the ASCII column shows the printable bytes (blank for the others and outside the data),
  * lines are 16-aligned, ascending, start with the first and end with the last line, and a line is
    absent only with COLLAPSE_ZERO_LINES when it is an all-zero interior line.

Round 5: harness/C09_r5.cc (section `floatgrid`) writes EVERY numeric token it gives to the `%` / `%%` constructs to
<outdir>/fgrid.<shard>.dat, one record per line:

    <f|d> <decimal text> <bit pattern the harness's reference (glibc strtof / strtod) assigns, hex>

nearest_bits() below re-derives the bit pattern with exact integer arithmetic from the definition (the binary32 /
binary64 value nearest to the exact decimal, ties to the even mantissa, gradual underflow, overflow to infinity) and
every record must agree; for doubles Python's own float() is consulted as a third opinion.
Only the standard library is used.
"""
import glob
import os
import re

PRINT_ASCII = 0x0002
PRINT_FLOAT = 0x0004
PRINT_DOUBLE = 0x0008
COLLAPSE = 0x0020
SKIP_SEP = 0x0040

HEXFIELDS = r"((?: (?:[0-9A-F]{2}|  )){16})"
RE_SEP = re.compile(r"^([0-9A-F]{1,16}) \|" + HEXFIELDS + r"(.*)$", re.S)
RE_SKIP = re.compile(r"^([0-9A-F]{1,16}?)" + HEXFIELDS + r"(.*)$", re.S)


def decode(start, size, flags, data, out):
    """Returns None if the dump is faithful, else (key, description)."""
    if size == 0:
        return None if out == b"" else ("format_data:py-output-for-empty-data", "output %r" % out)
    if out == b"":
        return ("format_data:py-no-output", "nothing was printed")
    text = out.decode("latin-1")
    if not text.endswith("\n"):
        return ("format_data:py-unparseable", "output does not end with a newline")
    skip = bool(flags & SKIP_SEP)
    last = start + size - 1
    first_line, last_line = start & ~15, last & ~15
    mem, chars, seen = {}, {}, []
    for ln in text[:-1].split("\n"):
        m = (RE_SKIP if skip else RE_SEP).match(ln)
        if not m:
            return ("format_data:py-unparseable", "line %r" % ln)
        addr = int(m.group(1), 16)
        hexpart, rest = m.group(2), m.group(3)
        if addr & 15:
            return ("format_data:py-line-address", "line address %X is not a multiple of 16" % addr)
        if seen and addr <= seen[-1]:
            return ("format_data:py-line-address", "line address %X after %X" % (addr, seen[-1]))
        seen.append(addr)
        for i in range(16):
            f = hexpart[3 * i + 1:3 * i + 3]
            if f != "  ":
                mem[addr + i] = int(f, 16)
        if flags & PRINT_ASCII:
            sep = " " if skip else " | "
            if not rest.startswith(sep) or len(rest) < len(sep) + 16:
                return ("format_data:py-unparseable", "ASCII column missing in line %r" % ln)
            col = rest[len(sep):len(sep) + 16]
            rest = rest[len(sep) + 16:]
            for i in range(16):
                chars[addr + i] = col[i]
        width = 0
        if flags & PRINT_FLOAT:
            width += (1 if skip else 2) + 4 * 13
        if flags & PRINT_DOUBLE:
            width += (1 if skip else 2) + 2 * 13
        if len(rest) != width:
            return ("format_data:py-unparseable", "line %r has %d characters after the hex/ASCII columns, expected %d" % (ln, len(rest), width))
    if seen[0] != first_line or seen[-1] != last_line:
        return ("format_data:py-line-missing", "first/last printed lines are %X/%X, data spans lines %X..%X" % (seen[0], seen[-1], first_line, last_line))
    seen_set = set(seen)
    for a in mem:
        if a < start or a > last:
            return ("format_data:py-hex-column", "byte shown at address %X outside the data" % a)
    for line in range(first_line, last_line + 1, 16):
        lo, hi = max(line, start), min(line + 15, last)
        chunk = data[lo - start:hi - start + 1]
        if line not in seen_set:
            if not (flags & COLLAPSE) or any(chunk):
                return ("format_data:py-line-missing", "no line for address %X (bytes %s)" % (line, chunk.hex()))
            continue
        if (flags & COLLAPSE) and line not in (first_line, last_line) and not any(chunk):
            return ("format_data:py-zero-line-not-collapsed", "all-zero interior line %X is printed" % line)
        for a in range(line, line + 16):
            inside = start <= a <= last
            if inside:
                b = data[a - start]
                if mem.get(a) != b:
                    return ("format_data:py-hex-column", "address %X shows %r, data byte is %02X" % (a, mem.get(a), b))
            if flags & PRINT_ASCII:
                want = chr(b) if inside and 0x20 <= b < 0x7F else " "
                if chars.get(a) != want:
                    return ("format_data:py-ascii-column", "address %X shows %r in the ASCII column, expected %r" % (a, chars.get(a), want))
    return None


_POW10 = {}


def _pow10(n):
    v = _POW10.get(n)
    if v is None:
        v = _POW10[n] = 10 ** n
    return v


_NUM = re.compile(r"^(-?)([0-9]*)(?:\.([0-9]*))?(?:[eE]([+-]?[0-9]+))?$")


def nearest_bits(text, p, ebits):
    """Bit pattern of the IEEE 754 binary value (p mantissa bits incl. the hidden one, ebits exponent bits) nearest to
    the decimal `text`, ties to even.  Exact integer arithmetic only."""
    m = _NUM.match(text)
    if not m or not (m.group(2) or m.group(3)):
        raise ValueError("not a plain decimal: %r" % text[:80])
    neg, ip, fp, ex = m.group(1) == "-", m.group(2) or "", m.group(3) or "", int(m.group(4) or "0")
    D = int(ip + fp or "0")
    E = ex - len(fp)
    bias = (1 << (ebits - 1)) - 1
    emin, emax = 1 - bias, bias
    sign = (1 << (p - 1 + ebits)) if neg else 0
    if D == 0:
        return sign
    num, den = (D * _pow10(E), 1) if E >= 0 else (D, _pow10(-E))
    # e = floor(log2(num / den))
    e = num.bit_length() - den.bit_length()
    if (num >= (den << e)) if e >= 0 else ((num << -e) >= den):
        pass
    else:
        e -= 1
    e = max(e, emin)
    q = e - (p - 1)  # weight of the last mantissa bit
    n2, d2 = (num, den << q) if q >= 0 else (num << -q, den)
    mant, rem = divmod(n2, d2)
    if 2 * rem > d2 or (2 * rem == d2 and (mant & 1)):
        mant += 1
    if mant == (1 << p):
        mant >>= 1
        e += 1
    if e > emax:
        return sign | (((1 << ebits) - 1) << (p - 1))  # infinity
    if mant < (1 << (p - 1)):
        return sign | mant  # denormal (e == emin) or zero
    return sign | ((e + bias) << (p - 1)) | (mant - (1 << (p - 1)))


def check_fgrid(files):
    import struct
    validated, viol = 0, {}

    def bad(key, desc):
        v = viol.setdefault(key, {"key": key, "section": "floatgrid", "count": 0, "desc": desc})
        v["count"] += 1

    for path in files:
        with open(path) as f:
            for rec in f:
                parts = rec.split()
                if len(parts) != 3 or parts[0] not in ("f", "d") or len(parts[2]) != (8 if parts[0] == "f" else 16):
                    continue  # cut-off line of a shard that died mid-write
                kind, text, ref = parts[0], parts[1], int(parts[2], 16)
                want = nearest_bits(text, 24, 8) if kind == "f" else nearest_bits(text, 53, 11)
                if want != ref:
                    bad("pyref:reference-conversion-is-not-the-nearest-%s" % ("float" if kind == "f" else "double"),
                        "decimal %s%s: harness reference %0*x, exact arithmetic gives %0*x" % (text[:120], "..." if len(text) > 120 else "", len(parts[2]), ref, len(parts[2]), want))
                    continue
                if kind == "d":
                    third = struct.unpack("<Q", struct.pack("<d", float(text)))[0]
                    if third != want:
                        bad("pyref:python-float-disagrees", "decimal %s: float() gives %016x, exact arithmetic %016x" % (text[:120], third, want))
                        continue
                validated += 1
    return validated, list(viol.values())


def run(outdir, tier, repo):
    validated, violations, seen_keys = 0, [], set()
    files = sorted(glob.glob(os.path.join(outdir, "dump.*.dat"))) + sorted(glob.glob(os.path.join(outdir, "edges.*.dat")))
    records = 0
    for path in files:
        section = "dump_edges" if os.path.basename(path).startswith("edges.") else "dump"
        with open(path) as f:
            for rec in f:
                parts = rec.split()
                if len(parts) != 6:
                    continue
                records += 1
                start, size, flags = int(parts[0], 16), int(parts[1]), int(parts[2], 16)
                data = b"" if parts[3] == "-" else bytes.fromhex(parts[3])
                out = b"" if parts[5] == "-" else bytes.fromhex(parts[5])
                res = decode(start, size, flags, data, out)
                if res is None:
                    validated += 1
                elif (section, res[0]) not in seen_keys:
                    seen_keys.add((section, res[0]))
                    violations.append({"key": res[0], "section": section, "count": 1,
                                       "desc": "format_data(%d bytes %s, start_address=0x%X, flags=0x%04X): %s [Python dump decoder]" % (size, data[:32].hex(), start, flags, res[1])})
                else:
                    for v in violations:
                        if v["key"] == res[0] and v["section"] == section:
                            v["count"] += 1
    notes = ["python dump decoder: %d records from %d shard files, %d decoded back to the dumped bytes" % (records, len(files), validated)]
    gfiles = sorted(glob.glob(os.path.join(outdir, "fgrid.*.dat")))
    if gfiles:
        gval, gviol = check_fgrid(gfiles)
        validated += gval
        violations += gviol
        notes.append("python exact-arithmetic float/double conversion: %d numeric tokens of %d shard files agree with the harness reference (strtof / strtod)" % (gval, len(gfiles)))
    return {"validated": validated, "violations": violations, "notes": notes}
