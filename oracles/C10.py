"""Python stage for C10: binds the harness's references (OpenSSL EVP, zlib, own FNV recurrence) to
Python's hashlib / zlib / a second FNV implementation on independently regenerated inputs."""
import glob, hashlib, os, zlib

FNV_LIMIT = 8192  # pure-Python FNV only for inputs up to this size (time budget)
LCG_LIMIT = (1 << 20) + 1  # the LCG fill is regenerated in pure Python only up to this size (time budget)


def fill(n, pat):
    if pat == "zero":
        return bytes(n)
    if pat == "ff":
        return b"\xff" * n
    if pat == "counter":
        return (bytes(range(256)) * (n // 256 + 1))[:n]
    if pat == "high":
        return (bytes(0x80 | ((i * 37 + 11) & 0x7F) for i in range(128)) * (n // 128 + 1))[:n]
    if pat == "ascii":
        return (bytes(0x20 + i for i in range(95)) * (n // 95 + 1))[:n]
    x = (0x12345678 + n) & 0xFFFFFFFF
    out = bytearray(n)
    for i in range(n):
        x = (x * 1103515245 + 12345) & 0xFFFFFFFF
        out[i] = (x >> 16) & 0xFF
    return bytes(out)


def fnv(data, bits):
    if bits == 32:
        h, prime, mask = 0x811C9DC5, 0x01000193, 0xFFFFFFFF
    else:
        h, prime, mask = 0xCBF29CE484222325, 0x100000001B3, 0xFFFFFFFFFFFFFFFF
    for b in data:
        h = ((h ^ b) * prime) & mask
    return h


def run(outdir, tier, repo):
    files = sorted(glob.glob(os.path.join(outdir, "lengths.*.dat")) + glob.glob(os.path.join(outdir, "boundaries.*.dat")) + glob.glob(os.path.join(outdir, "big16m.*.dat")))
    validated, viols, skipped, skipped_lcg = 0, {}, 0, 0
    groups = {}  # (n, pat) -> {fn: (ref, got)}; one regenerated input per group
    for f in files:
        for line in open(f):
            parts = line.split()
            if len(parts) != 5:
                continue
            fn, n, pat, ref, got = parts[0], int(parts[1]), parts[2], parts[3], parts[4]
            groups.setdefault((n, pat), {}).setdefault(fn, (ref, got))  # a restarted shard may repeat a line
    for (n, pat) in sorted(groups):
        if pat == "lcg" and n > LCG_LIMIT:
            skipped_lcg += len(groups[(n, pat)])
            continue
        data = fill(n, pat)
        for fn, (ref, got) in sorted(groups[(n, pat)].items()):
            if fn.startswith("fnv") and (n > FNV_LIMIT or (tier == "thorough" and 2048 < n < 4095)):
                skipped += 1
                continue
            if fn == "MD5":
                py = hashlib.md5(data).hexdigest()
            elif fn == "SHA1":
                py = hashlib.sha1(data).hexdigest()
            elif fn == "SHA256":
                py = hashlib.sha256(data).hexdigest()
            elif fn == "crc32":
                py = "%08x" % (zlib.crc32(data) & 0xFFFFFFFF)
            elif fn == "fnv1a32":
                py = "%08x" % fnv(data, 32)
            elif fn == "fnv1a64":
                py = "%016x" % fnv(data, 64)
            else:
                continue
            validated += 1
            if py != ref:
                k = "%s:reference-disagrees-with-python" % fn
                viols.setdefault(k, dict(key=k, section="pyoracle", count=0,
                                         desc="%s of %d bytes (%s fill): harness reference %s, Python %s (library result %s)" % (fn, n, pat, ref, py, got)))
                viols[k]["count"] += 1
            elif py != got:
                k = "%s:wrong-value-vs-python" % fn
                viols.setdefault(k, dict(key=k, section="pyoracle", count=0,
                                         desc="%s of %d bytes (%s fill): library %s, Python %s" % (fn, n, pat, got, py)))
                viols[k]["count"] += 1
    notes = ["python stage: %d (function, length, pattern) cases re-derived with hashlib/zlib/pure-Python FNV on regenerated inputs; %d FNV cases skipped for size, %d LCG-filled cases above 2^20+1 bytes skipped (fill too slow in Python; their all-high-bit twins are re-derived)" % (validated, skipped, skipped_lcg)]
    if not files:
        raise RuntimeError("no case files written by the harness")
    return dict(validated=validated, violations=list(viols.values()), notes=notes)
