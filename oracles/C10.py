"""Python stage for C10: binds the harness's references (OpenSSL EVP, zlib, own FNV recurrence) to
Python's hashlib / zlib / a second FNV implementation on independently regenerated inputs."""
import glob, hashlib, os, zlib

FNV_LIMIT = 8192  # pure-Python FNV only for inputs up to this size (time budget)


def fill(n, pat):
    if pat == "zero":
        return bytes(n)
    if pat == "ff":
        return b"\xff" * n
    if pat == "counter":
        return bytes(i & 0xFF for i in range(n))
    x = (0x12345678 + n) & 0xFFFFFFFF
    out = bytearray(n)
    for i in range(n):
        x = (x * 1103515245 + 12345) & 0xFFFFFFFF
        out[i] = (x >> 16) & 0xFF
    return bytes(out)


def fnv(data, bits):
    if bits == 32:
        h, prime, mask = 0x811C9DC5, 0x01000193, 0xFFFFFFFF
    else:
        h, prime, mask = 0xCBF29CE484222325, 0x100000001B3, 0xFFFFFFFFFFFFFFFF
    for b in data:
        h = ((h ^ b) * prime) & mask
    return h


def run(outdir, tier, repo):
    files = sorted(glob.glob(os.path.join(outdir, "lengths.*.dat")) + glob.glob(os.path.join(outdir, "boundaries.*.dat")))
    validated, viols, skipped = 0, {}, 0
    cache = {}
    seen = set()
    for f in files:
        for line in open(f):
            parts = line.split()
            if len(parts) != 5:
                continue
            fn, n, pat, ref, got = parts[0], int(parts[1]), parts[2], parts[3], parts[4]
            if (fn, n, pat) in seen:  # a restarted shard may repeat a line
                continue
            seen.add((fn, n, pat))
            if fn.startswith("fnv") and (n > FNV_LIMIT or (tier == "thorough" and 2048 < n < 4095)):
                skipped += 1
                continue
            key = (n, pat)
            data = cache.get(key)
            if data is None:
                data = fill(n, pat)
                if n <= 4096:
                    cache[key] = data
            if fn == "MD5":
                py = hashlib.md5(data).hexdigest()
            elif fn == "SHA1":
                py = hashlib.sha1(data).hexdigest()
            elif fn == "SHA256":
                py = hashlib.sha256(data).hexdigest()
            elif fn == "crc32":
                py = "%08x" % (zlib.crc32(data) & 0xFFFFFFFF)
            elif fn == "fnv1a32":
                py = "%08x" % fnv(data, 32)
            elif fn == "fnv1a64":
                py = "%016x" % fnv(data, 64)
            else:
                continue
            validated += 1
            if py != ref:
                k = "%s:reference-disagrees-with-python" % fn
                viols.setdefault(k, dict(key=k, section="pyoracle", count=0,
                                         desc="%s of %d bytes (%s fill): harness reference %s, Python %s (library result %s)" % (fn, n, pat, ref, py, got)))
                viols[k]["count"] += 1
            elif py != got:
                k = "%s:wrong-value-vs-python" % fn
                viols.setdefault(k, dict(key=k, section="pyoracle", count=0,
                                         desc="%s of %d bytes (%s fill): library %s, Python %s" % (fn, n, pat, got, py)))
                viols[k]["count"] += 1
    notes = ["python stage: %d (function, length, pattern) cases re-derived with hashlib/zlib/pure-Python FNV on regenerated inputs; %d FNV cases skipped for size" % (validated, skipped)]
    if not files:
        raise RuntimeError("no case files written by the harness")
    return dict(validated=validated, violations=list(viols.values()), notes=notes)
