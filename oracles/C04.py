"""Python stage for C04 (and, via import, C05): binds the harness's RFC 8259 reference recogniser /
evaluator R_std (harness/C04_jsonref.hh) to an independent implementation, Python's json module.

Every harness shard appends one line per text to $VF_OUTDIR/<section>.<shard>.dat:

    <hex of the text, or '-' for the empty text> TAB <verdict> TAB <canonical value> TAB '.'

(the trailing '.' marks a complete line; a shard killed by an ASan report can leave one cut-off line,
which is skipped and counted in the notes)

    verdict A: R_std accepts, value inside the property statement -> json.loads must accept and
               produce exactly the canonical value (ints exact, floats identical to 17 digits,
               strings compared as bytes under latin-1)
    verdict O: R_std accepts but the value is outside the statement (integer beyond int64, float
               overflow/underflow, \\u escape above U+00FF, duplicate key, nesting > 500)
               -> json.loads must accept; the value is not compared
    verdict R: R_std rejects -> json.loads must reject

Texts are bytes; they are decoded as latin-1 so that every byte maps to one code point and back
(phosg strings are byte strings; \\u00XX <-> byte XX).  Documented deviations of json.loads from
RFC 8259 that are neutralised here: NaN / Infinity / -Infinity are rejected via parse_constant.
stdlib only.
"""
import glob, json, os, subprocess, sys


class _Reject(Exception):
    pass


def _const(name):
    raise _Reject(name)


_decoder = json.JSONDecoder(strict=True, parse_constant=_const)


def canon(v):
    if v is None:
        return "n"
    if v is True:
        return "t"
    if v is False:
        return "f"
    if isinstance(v, int):
        return "i%d" % v
    if isinstance(v, float):
        return "d%.17g" % v
    if isinstance(v, str):
        return "s" + v.encode("latin-1").hex()
    if isinstance(v, list):
        return "[" + ",".join(canon(x) for x in v) + "]"
    if isinstance(v, dict):
        return "{" + ",".join(k.encode("latin-1").hex() + ":" + canon(x) for k, x in v.items()) + "}"
    raise TypeError(type(v))


def py_parse(text_bytes):
    """-> (accepted, value or None).  Mirrors json.loads (leading/trailing whitespace allowed)."""
    s = text_bytes.decode("latin-1")
    try:
        return True, _decoder.decode(s)
    except (ValueError, _Reject):
        return False, None


def show(b):
    return repr(b[:200])[1:] + ("... (%d bytes)" % len(b) if len(b) > 200 else "")


def check_file(path):
    """-> (validated, counts dict, first violation per key dict, notes)"""
    sys.setrecursionlimit(20000)
    section = os.path.basename(path).split(".")[0]
    n = 0
    counts = {"A": 0, "O": 0, "R": 0}
    viol = {}
    notes = []
    partial = 0

    def bad(key, desc):
        v = viol.setdefault(key, dict(key=key, desc=desc, section=section, count=0))
        v["count"] += 1

    with open(path, "rb") as f:
        for line in f:
            line = line.rstrip(b"\n")
            if not line:
                continue
            parts = line.split(b"\t")
            if len(parts) != 4 or parts[3] != b".":
                partial += 1  # cut-off line of a shard that died mid-write (crash attribution is check.py's job)
                continue
            hx, verdict, cval, _ = parts
            text = b"" if hx == b"-" else bytes.fromhex(hx.decode())
            verdict = verdict.decode()
            try:
                ok, val = py_parse(text)
            except RecursionError:
                notes.append("python recursion limit hit on a %d-byte text in %s (skipped)" % (len(text), section))
                continue
            n += 1
            counts[verdict] = counts.get(verdict, 0) + 1
            if verdict == "R":
                if ok:
                    bad("pyref:reference-rejects-python-accepts", "text %s: R_std rejects, json.loads -> %.200r" % (show(text), val))
            else:
                if not ok:
                    bad("pyref:reference-accepts-python-rejects", "text %s: R_std accepts (%s), json.loads rejects" % (show(text), cval.decode()[:200]))
                elif verdict == "A":
                    try:
                        pc = canon(val)
                    except (UnicodeEncodeError, TypeError) as e:
                        pc = "<uncanonical: %s>" % e
                    if pc != cval.decode():
                        bad("pyref:value-differs", "text %s: R_std value %s, json.loads value %s" % (show(text), cval.decode()[:300], pc[:300]))
    if partial:
        notes.append("%d cut-off line(s) skipped in %s (shard died mid-write)" % (partial, os.path.basename(path)))
    return n, counts, viol, notes


def run_dir(outdir, label):
    files = sorted(glob.glob(os.path.join(outdir, "*.dat")))
    total, counts, viol, notes = 0, {}, {}, []
    if files:
        # one worker process per shard file, at most 8 at a time (this file run as a script, see __main__)
        results, running, pending = [], [], list(files)
        nproc = max(1, min(8, (os.cpu_count() or 2)))
        while pending or running:
            while pending and len(running) < nproc:
                f = pending.pop(0)
                running.append((f, subprocess.Popen([sys.executable, os.path.abspath(__file__), "--file", f], stdout=subprocess.PIPE)))
            f, p = running.pop(0)
            out = p.communicate()[0]
            if p.returncode != 0:
                raise RuntimeError("oracle worker failed on %s (exit %s)" % (f, p.returncode))
            results.append(json.loads(out))
        for n, c, v, nt in results:
            total += n
            for k, x in c.items():
                counts[k] = counts.get(k, 0) + x
            for k, x in v.items():
                key = (x["section"], k)
                if key in viol:
                    viol[key]["count"] += x["count"]
                else:
                    viol[key] = x
            for t in nt:
                if t not in notes:
                    notes.append(t)
    notes.insert(0, "%s: %d texts replayed through Python %d.%d json.loads (R_std accepts+compared %d, accepts/outside-statement %d, rejects %d) from %d shard files" % (
        label, total, sys.version_info[0], sys.version_info[1], counts.get("A", 0), counts.get("O", 0), counts.get("R", 0), len(files)))
    return {"validated": total, "violations": list(viol.values()), "notes": notes}


def run(outdir, tier, repo):
    return run_dir(outdir, "C04 python binding")


if __name__ == "__main__":
    if len(sys.argv) == 3 and sys.argv[1] == "--file":
        json.dump(check_file(sys.argv[2]), sys.stdout)
    else:
        print(json.dumps(run_dir(sys.argv[1], "manual run"), indent=1)[:4000])
