"""Python stage for C11: replays the quick-tier case sets through Python's base64 / codecs / urllib.
E lines bind base64_encode's output, D lines bind the harness's strict reference decoder,
R lines bind rot13, U lines bind escape_url and the percent-decoder, C lines bind escape_controls and the C-style
unescaper (codecs.escape_decode: Python's bytes-literal escape decoder).  The mode field of E/D lines is 1 for the
URL-safe alphabet (however it was passed), 0 for the standard one."""
import base64, binascii, codecs, glob, os, urllib.parse

_URL2STD = bytes.maketrans(b"-_", b"+/")


def unhex(h):
    return b"" if h == "-" else bytes.fromhex(h)


def py_strict_decode(s, urlsafe):
    """None = rejected.  Strict: length multiple of 4, alphabet only, '=' only as the last one or two characters."""
    if len(s) % 4:
        return None
    if urlsafe:
        if b"+" in s or b"/" in s:
            return None
        s = s.translate(_URL2STD)
    try:
        return base64.b64decode(s, validate=True)
    except (binascii.Error, ValueError):
        return None


def run(outdir, tier, repo):
    validated = 0
    viols = {}

    def bad(key, desc):
        v = viols.setdefault(key, dict(key=key, section="pyoracle", count=0, desc=desc))
        v["count"] += 1

    files = []
    for sec in ("b64_encode", "b64_strict4", "rot13", "escapes"):
        files += sorted(glob.glob(os.path.join(outdir, sec + ".*.dat")))
    if not files:
        raise RuntimeError("no case files written by the harness")
    seen = set()
    for f in files:
        for line in open(f):
            if line in seen:
                continue
            seen.add(line)
            p = line.split()
            if not p:
                continue
            if p[0] == "E" and len(p) == 4:
                mode, x, got = int(p[1]), unhex(p[2]), unhex(p[3])
                py = base64.urlsafe_b64encode(x) if mode == 1 else base64.b64encode(x)
                validated += 1
                if py != got:
                    bad("base64_encode:differs-from-python", "base64_encode(%r, mode %d) = %r, Python gives %r" % (x, mode, got, py))
            elif p[0] == "D" and len(p) == 5:
                mode, s, ref = int(p[1]), unhex(p[2]), p[3]
                py = py_strict_decode(s, mode == 1)
                validated += 1
                ref_v = None if ref == "!" else unhex(ref)
                if py != ref_v:
                    bad("base64_decode:reference-decoder-disagrees-with-python", "strict decode of %r (mode %d): harness reference %r, Python %r" % (s, mode, ref_v, py))
            elif p[0] == "R" and len(p) == 3:
                s, got = unhex(p[1]), unhex(p[2])
                py = codecs.encode(s.decode("latin-1"), "rot_13").encode("latin-1")
                validated += 1
                if py != got:
                    bad("rot13:differs-from-python", "rot13(%r) = %r, Python codecs gives %r" % (s, got, py))
            elif p[0] == "U" and len(p) == 4:
                slash, s, got = int(p[1]), unhex(p[2]), unhex(p[3])
                validated += 1
                want = urllib.parse.quote_from_bytes(s, safe="=&" + ("" if slash else "/")).encode("ascii")
                if urllib.parse.unquote_to_bytes(got) != s:
                    bad("escape_url:python-unquote-differs", "escape_url(%r, %d) = %r, urllib unquotes it to %r" % (s, slash, got, urllib.parse.unquote_to_bytes(got)))
                elif want != got:
                    bad("escape_url:differs-from-python-quote", "escape_url(%r, %d) = %r, urllib.parse.quote gives %r" % (s, slash, got, want))
            elif p[0] == "C" and len(p) == 4:
                ascii_mode, s, got = int(p[1]), unhex(p[2]), unhex(p[3])
                validated += 1
                try:
                    py = codecs.escape_decode(got)[0]
                except ValueError as e:
                    py = repr(e).encode()
                if py != s:
                    bad("escape_controls:python-escape-decode-differs", "escape_controls(%r, %d) = %r, Python's escape decoder turns it into %r" % (s, ascii_mode, got, py))
                elif ascii_mode and any(c < 0x20 or c > 0x7E for c in got):
                    bad("escape_controls:non-ascii-output-in-ascii-mode", "escape_controls(%r, true) = %r" % (s, got))
    return dict(validated=validated, violations=list(viols.values()),
                notes=["python stage: %d quick-set cases replayed through base64 / codecs / urllib" % validated])
