"""Independent decoders for the C06 check (stdlib only).

The harness (harness/C06.cc) dumps into $VF_OUTDIR
  * every 8-bit file phosg *saved* (PPM P6/P7, BMP, PNG) with its pattern descriptor, and
  * every input-variant file its generator produced together with the pixel array the generator
    says the file defines.
This stage decodes all of them with decoders written here from the format documents (PNG: RFC 2083
chunk layout, CRC-32 of every chunk, zlib stream, all five filter types; BMP: BITMAPFILEHEADER +
BITMAPINFOHEADER/V4/V5, BI_RGB and BI_BITFIELDS, row order and padding; netpbm P5/P6/P7) and
compares every pixel - for saved files against a pattern regenerated *here* (not read from the
harness), for generated variants against the generator's array.  No phosg code is involved.
"""
import glob, json, os, struct, zlib

MAGIC = 0x31524656
SPECIAL = [0x0A, 0x0D, 0x1A, 0x00, 0xFF]
TEXTY = [0x20, 0x31, 0x0A, 0x23, 0x09, 0x39]
M64 = (1 << 64) - 1


class Bad(Exception):
    def __init__(self, kind, msg):
        Exception.__init__(self, msg)
        self.kind = kind


# ---- pattern (mirror of sample() in harness/C06.cc, 8-bit case) --------------------------------

def pattern8(n, pat):
    if pat == 0:
        return bytes(n)
    if pat == 1:
        return b"\xff" * n
    if pat == 2:
        return bytes((((i + 1) * 0x9E3779B97F4A7C15) & M64) >> 56 for i in range(n))
    if pat == 3:
        return bytes(SPECIAL[i % 5] for i in range(n))
    if pat == 4:
        return bytes(0x80 | (i & 1) for i in range(n))
    return bytes(TEXTY[i % 6] for i in range(n))


def rgba_of_pattern(w, h, alpha, pat):
    nch = 4 if alpha else 3
    raw = pattern8(w * h * nch, pat)
    if alpha:
        return raw
    out = bytearray(w * h * 4)
    out[0::4] = raw[0::3]
    out[1::4] = raw[1::3]
    out[2::4] = raw[2::3]
    out[3::4] = b"\xff" * (w * h)
    return bytes(out)


# ---- CRC-32 (table driven, written out here; cross-checked against zlib.crc32) ------------------

_T = []
for _n in range(256):
    _c = _n
    for _k in range(8):
        _c = (0xEDB88320 ^ (_c >> 1)) if (_c & 1) else (_c >> 1)
    _T.append(_c)


def crc32(data):
    c = 0xFFFFFFFF
    for b in data:
        c = _T[(c ^ b) & 0xFF] ^ (c >> 8)
    return c ^ 0xFFFFFFFF


# ---- PNG ------------------------------------------------------------------------------------

def paeth(a, b, c):
    p = a + b - c
    pa, pb, pc = abs(p - a), abs(p - b), abs(p - c)
    if pa <= pb and pa <= pc:
        return a
    return b if pb <= pc else c


def decode_png(d):
    """returns (w, h, has_alpha, rgba bytes); raises Bad(kind, msg)"""
    if d[:8] != b"\x89PNG\r\n\x1a\n":
        raise Bad("png:signature", "bad signature %r" % d[:8])
    pos = 8
    chunks = []
    while True:
        if pos == len(d):
            raise Bad("png:no-IEND", "file ends without IEND")
        if pos + 12 > len(d):
            raise Bad("png:chunk-layout", "truncated chunk header at offset %d" % pos)
        (ln,) = struct.unpack(">I", d[pos:pos + 4])
        typ = d[pos + 4:pos + 8]
        if ln > 0x7FFFFFFF or pos + 12 + ln > len(d):
            raise Bad("png:chunk-layout", "chunk %r at offset %d claims %d bytes, file has %d" % (typ, pos, ln, len(d) - pos - 12))
        if not all(65 <= c <= 90 or 97 <= c <= 122 for c in typ):
            raise Bad("png:chunk-layout", "chunk type %r is not four letters" % typ)
        body = d[pos + 8:pos + 8 + ln]
        (crc,) = struct.unpack(">I", d[pos + 8 + ln:pos + 12 + ln])
        want = crc32(typ + body)
        if want != (zlib.crc32(typ + body) & 0xFFFFFFFF):
            raise RuntimeError("oracle self-check: CRC implementations disagree")
        if crc != want:
            raise Bad("png:crc", "chunk %s at offset %d stores CRC %08X, CRC-32 of type+data is %08X" % (typ.decode(), pos, crc, want))
        chunks.append((typ, body))
        pos += 12 + ln
        if typ == b"IEND":
            break
    if pos != len(d):
        raise Bad("png:trailing-bytes", "%d bytes after IEND" % (len(d) - pos))
    if chunks[0][0] != b"IHDR" or len(chunks[0][1]) != 13:
        raise Bad("png:ihdr", "first chunk is %r with %d bytes" % (chunks[0][0], len(chunks[0][1])))
    if chunks[-1][1]:
        raise Bad("png:ihdr", "IEND carries data")
    w, h, depth, ctype, comp, flt, inter = struct.unpack(">IIBBBBB", chunks[0][1])
    if w == 0 or h == 0 or depth != 8 or ctype not in (2, 6) or comp != 0 or flt != 0 or inter != 0:
        raise Bad("png:ihdr", "IHDR w=%d h=%d depth=%d colour=%d comp=%d filter=%d interlace=%d" % (w, h, depth, ctype, comp, flt, inter))
    names = [c[0] for c in chunks]
    idat = [i for i, n in enumerate(names) if n == b"IDAT"]
    if not idat or idat != list(range(idat[0], idat[0] + len(idat))):
        raise Bad("png:chunk-order", "IDAT chunks missing or not consecutive: %r" % names)
    if names.count(b"IHDR") != 1 or names.count(b"IEND") != 1:
        raise Bad("png:chunk-order", "chunk sequence %r" % names)
    for i, (typ, body) in enumerate(chunks):
        if typ in (b"IHDR", b"IDAT", b"IEND"):
            continue
        if typ == b"PLTE":
            raise Bad("png:chunk-order", "PLTE in a truecolour file written by save()")
        if not (typ[0] & 0x20):
            raise Bad("png:chunk-order", "unknown critical chunk %r" % typ)
        if typ == b"gAMA" and (len(body) != 4 or i > idat[0]):
            raise Bad("png:gama", "gAMA has %d bytes / comes after IDAT" % len(body))
    z = zlib.decompressobj()
    try:
        raw = z.decompress(b"".join(c[1] for c in chunks if c[0] == b"IDAT")) + z.flush()
    except zlib.error as e:
        raise Bad("png:zlib", "IDAT does not inflate: %s" % e)
    if not z.eof or z.unused_data:
        raise Bad("png:zlib", "zlib stream incomplete or followed by %d stray bytes" % len(z.unused_data))
    bpp = 4 if ctype == 6 else 3
    stride = w * bpp
    if len(raw) != h * (1 + stride):
        raise Bad("png:zlib", "inflated size %d, expected %d" % (len(raw), h * (1 + stride)))
    rows = []
    prev = bytes(stride)
    for y in range(h):
        ft = raw[y * (1 + stride)]
        line = bytearray(raw[y * (1 + stride) + 1:(y + 1) * (1 + stride)])
        if ft == 0:
            pass
        elif ft == 1:
            for i in range(bpp, stride):
                line[i] = (line[i] + line[i - bpp]) & 0xFF
        elif ft == 2:
            for i in range(stride):
                line[i] = (line[i] + prev[i]) & 0xFF
        elif ft == 3:
            for i in range(stride):
                a = line[i - bpp] if i >= bpp else 0
                line[i] = (line[i] + ((a + prev[i]) >> 1)) & 0xFF
        elif ft == 4:
            for i in range(stride):
                a = line[i - bpp] if i >= bpp else 0
                c = prev[i - bpp] if i >= bpp else 0
                line[i] = (line[i] + paeth(a, prev[i], c)) & 0xFF
        else:
            raise Bad("png:filter", "row %d has filter type %d" % (y, ft))
        prev = bytes(line)
        rows.append(prev)
    data = b"".join(rows)
    if ctype == 6:
        return w, h, True, data
    out = bytearray(w * h * 4)
    out[0::4] = data[0::3]
    out[1::4] = data[1::3]
    out[2::4] = data[2::3]
    out[3::4] = b"\xff" * (w * h)
    return w, h, False, bytes(out)


# ---- BMP ------------------------------------------------------------------------------------

def decode_bmp(d, strict):
    """strict: additionally demand what a freshly written file must satisfy (exact file size field,
    zero padding, sane header constants)."""
    if len(d) < 14 + 40:
        raise Bad("bmp:header", "file has only %d bytes" % len(d))
    magic, fsize, r1, r2, off = struct.unpack("<2sIHHI", d[:14])
    if magic != b"BM":
        raise Bad("bmp:header", "magic %r" % magic)
    (hs,) = struct.unpack("<I", d[14:18])
    if hs not in (40, 52, 56, 108, 124) or 14 + hs > len(d):
        raise Bad("bmp:header", "info header size %d" % hs)
    w, h, planes, depth, comp, isize, xp, yp, used, imp = struct.unpack("<iiHHIIiiII", d[18:54])
    if planes != 1 or depth not in (24, 32) or comp not in (0, 3) or w <= 0 or h == 0:
        raise Bad("bmp:header", "w=%d h=%d planes=%d depth=%d compression=%d" % (w, h, planes, depth, comp))
    if comp == 3 and depth != 32:
        raise Bad("bmp:header", "BI_BITFIELDS with %d bits" % depth)
    topdown = h < 0
    h = abs(h)
    masks = None
    pal_end = 14 + hs
    if comp == 3:
        if hs >= 56:
            masks = struct.unpack("<IIII", d[54:70])
        elif hs == 52:
            masks = struct.unpack("<III", d[54:66]) + (0,)
        else:
            masks = struct.unpack("<III", d[54:66]) + (0,)
            pal_end += 12
    if off < pal_end or off > len(d):
        raise Bad("bmp:data-offset", "pixel data offset %d, headers end at %d, file has %d bytes" % (off, pal_end, len(d)))
    stride = (w * depth + 31) // 32 * 4
    if off + stride * h > len(d):
        raise Bad("bmp:size", "pixel data needs %d bytes from offset %d, file has %d" % (stride * h, off, len(d)))
    if strict:
        if fsize != len(d):
            raise Bad("bmp:file-size-field", "file size field %d, file has %d bytes" % (fsize, len(d)))
        if off + stride * h != len(d):
            raise Bad("bmp:size", "%d bytes after the pixel array" % (len(d) - off - stride * h))
        if r1 or r2 or used or imp:
            raise Bad("bmp:header", "reserved/palette fields not zero")
        if isize not in (0, stride * h):
            raise Bad("bmp:image-size-field", "image size field %d, pixel array has %d bytes" % (isize, stride * h))
        if off != pal_end:
            raise Bad("bmp:data-offset", "pixel data offset %d but headers end at %d" % (off, pal_end))
    shifts = None
    if masks:
        shifts = []
        for m in masks:
            if m == 0:
                shifts.append(None)
                continue
            s = (m & -m).bit_length() - 1
            if (m >> s) != 0xFF:
                raise Bad("bmp:masks", "mask %08X is not one whole byte" % m)
            shifts.append(s)
        nz = [m for m in masks if m]
        if len(nz) < 3 or any(a & b for i, a in enumerate(nz) for b in nz[i + 1:]):
            raise Bad("bmp:masks", "masks %r overlap or are missing" % (masks,))
    has_alpha = bool(masks and masks[3])
    out = bytearray(w * h * 4)
    bpp = depth // 8
    for row in range(h):
        y = row if topdown else h - 1 - row
        line = d[off + row * stride:off + (row + 1) * stride]
        if strict and any(line[w * bpp:]):
            raise Bad("bmp:padding", "row %d padding bytes %r are not zero" % (row, line[w * bpp:]))
        o = y * w * 4
        if shifts is None:
            out[o + 0:o + 4 * w:4] = line[2:w * bpp:bpp]
            out[o + 1:o + 4 * w:4] = line[1:w * bpp:bpp]
            out[o + 2:o + 4 * w:4] = line[0:w * bpp:bpp]
            out[o + 3:o + 4 * w:4] = b"\xff" * w
        else:
            for x in range(w):
                (px,) = struct.unpack("<I", line[4 * x:4 * x + 4])
                for c in range(4):
                    out[o + 4 * x + c] = 0xFF if shifts[c] is None else (px >> shifts[c]) & 0xFF
    return w, h, has_alpha, bytes(out)


# ---- netpbm ---------------------------------------------------------------------------------

def decode_pnm(d):
    if d[:2] == b"P7":
        if d[2:3] != b"\n":
            raise Bad("ppm:header", "P7 not followed by newline")
        pos = 3
        f = {}
        while True:
            e = d.find(b"\n", pos)
            if e < 0:
                raise Bad("ppm:header", "P7 header without ENDHDR")
            line = d[pos:e].decode("latin1").strip()
            pos = e + 1
            if line == "ENDHDR":
                break
            if not line or line.startswith("#"):
                continue
            k, _, v = line.partition(" ")
            f[k] = v.strip()
        try:
            w, h, depth, maxval = int(f["WIDTH"]), int(f["HEIGHT"]), int(f["DEPTH"]), int(f["MAXVAL"])
            tt = f["TUPLTYPE"]
        except (KeyError, ValueError) as e:
            raise Bad("ppm:header", "P7 header field missing/invalid: %s" % e)
        want_depth = {"GRAYSCALE": 1, "GRAYSCALE_ALPHA": 2, "RGB": 3, "RGB_ALPHA": 4}.get(tt)
        if want_depth is None or want_depth != depth:
            raise Bad("ppm:header", "TUPLTYPE %s with DEPTH %d" % (tt, depth))
    elif d[:2] in (b"P5", b"P6"):
        pos = 2
        vals = []
        while len(vals) < 3:
            while pos < len(d) and d[pos:pos + 1] in b" \t\r\n\v\f":
                pos += 1
            if d[pos:pos + 1] == b"#":
                while pos < len(d) and d[pos:pos + 1] != b"\n":
                    pos += 1
                continue
            s = pos
            while pos < len(d) and d[pos:pos + 1].isdigit():
                pos += 1
            if s == pos:
                raise Bad("ppm:header", "expected a number at offset %d" % pos)
            vals.append(int(d[s:pos]))
        if d[pos:pos + 1] not in (b" ", b"\t", b"\r", b"\n", b"\v", b"\f") or pos >= len(d):
            raise Bad("ppm:header", "no single whitespace after maxval")
        pos += 1
        w, h, maxval = vals
        depth = 1 if d[:2] == b"P5" else 3
    else:
        raise Bad("ppm:header", "magic %r" % d[:2])
    if not (1 <= maxval <= 255):
        raise Bad("ppm:maxval", "maxval %d in an 8-bit file" % maxval)
    if w <= 0 or h <= 0:
        raise Bad("ppm:header", "dimensions %dx%d" % (w, h))
    ras = d[pos:]
    if len(ras) != w * h * depth:
        raise Bad("ppm:raster-size", "raster has %d bytes, header implies %d" % (len(ras), w * h * depth))
    out = bytearray(w * h * 4)
    if depth <= 2:
        g = ras[0::depth]
        out[0::4] = g
        out[1::4] = g
        out[2::4] = g
        out[3::4] = ras[1::2] if depth == 2 else b"\xff" * (w * h)
    else:
        out[0::4] = ras[0::depth]
        out[1::4] = ras[1::depth]
        out[2::4] = ras[2::depth]
        out[3::4] = ras[3::4] if depth == 4 else b"\xff" * (w * h)
    if maxval < 255 and max(ras) > maxval:
        raise Bad("ppm:sample-exceeds-maxval", "a sample is larger than MAXVAL %d" % maxval)
    return w, h, depth in (2, 4), bytes(out), maxval


def decode_any(d, strict, trail=0):
    """returns (w, h, has_alpha, rgba, maxval)"""
    if d[:2] == b"BM":
        return decode_bmp(d, strict) + (255,)
    if d[:1] == b"\x89":
        return decode_png(d) + (255,)
    return decode_pnm(d[:len(d) - trail] if trail else d)


# ---- driver ---------------------------------------------------------------------------------

def records(path):
    with open(path, "rb") as f:
        d = f.read()
    pos = 0
    while pos < len(d):
        if pos + 16 > len(d):
            break  # the writer died inside its last write(): an incomplete record at the very end is not a result
        m, jl, fl, el = struct.unpack("<IIII", d[pos:pos + 16])
        if m != MAGIC:
            raise RuntimeError("corrupt dump file %s at %d" % (path, pos))
        pos += 16
        if pos + jl + fl + el > len(d):
            break
        j = json.loads(d[pos:pos + jl].decode())
        pos += jl
        yield j, d[pos:pos + fl], d[pos + fl:pos + fl + el]
        pos += fl + el


def first_diff(a, b):
    for i in range(min(len(a), len(b))):
        if a[i] != b[i]:
            return i
    return min(len(a), len(b))


def run(outdir, tier, repo):
    viol = {}
    validated = 0
    counts = {}

    def report(key, section, idx, desc):
        v = viol.get((section, key))
        if v is None or idx < v["idx"]:
            viol[(section, key)] = dict(key=key, section=section, idx=idx, desc=desc, count=(v["count"] if v else 0) + 1)
        else:
            v["count"] += 1

    seen = set()
    for path in sorted(glob.glob(os.path.join(outdir, "*.dat"))):
        file_section = os.path.basename(path).split(".")[0]
        for j, data, expect in records(path):
            section = j.get("section", file_section)
            ident = (section, j["role"], j["idx"], j.get("step", 0), j.get("fmt", ""))
            if ident in seen:  # a shard restarted after a crash may have written a record twice
                continue
            seen.add(ident)
            want_maxval = j.get("maxval", 255)
            if j["role"] == "saved":
                if expect:  # round-2 sections pass the expected RGBA explicitly (computed by the harness from its pattern, not by phosg)
                    what = "file written by save(%s) for a %dx%d %s image%s [%s]" % (j["fmt"], j["w"], j["h"], "alpha" if j["alpha"] else "no-alpha",
                                                                                  " with MAXVAL %d" % want_maxval if want_maxval != 255 else "", j.get("ctx", ""))
                else:
                    what = "file written by save(%s) for %dx%d %s pattern %d" % (j["fmt"], j["w"], j["h"], "alpha" if j["alpha"] else "no-alpha", j["pat"])
                    expect = rgba_of_pattern(j["w"], j["h"], j["alpha"], j["pat"])
                want_alpha = bool(j["alpha"])
                pre = "independent-decode:" + j["fmt"]
                counts[j["fmt"]] = counts.get(j["fmt"], 0) + 1
                if j["fmt"] != "ppm":
                    want_maxval = 255
            else:
                what = "generated input variant %s %dx%d" % (j["name"], j["w"], j["h"])
                want_alpha = bool(j["alpha"])
                pre = "generator-vs-python-decoder"
                counts["variant"] = counts.get("variant", 0) + 1
            want_magic = {"ppm": (b"P6", b"P7"), "bmp": (b"BM",), "png": (b"\x89P",)}.get(j.get("fmt"))
            try:
                if want_magic and data[:2] not in want_magic:
                    raise Bad(j["fmt"] + ":signature", "file starts with %r" % data[:8])
                w, h, a, px, maxval = decode_any(data, strict=(j["role"] == "saved"), trail=j.get("trail", 0))
            except Bad as e:
                kind = e.kind if j["role"] == "saved" else e.kind.split(":")[0] + ":undecodable"
                report("%s:%s" % (pre, kind.split(":", 1)[1]), section, j["idx"], "%s (%d bytes): %s" % (what, len(data), e))
                continue
            validated += 1
            if (w, h) != (j["w"], j["h"]):
                report(pre + ":dimensions", section, j["idx"], "%s: decoder reads %dx%d" % (what, w, h))
            elif a != want_alpha:
                report(pre + ":alpha", section, j["idx"], "%s: decoder finds alpha=%s" % (what, a))
            elif maxval != want_maxval:
                report(pre + ":maxval", section, j["idx"], "%s: decoder reads MAXVAL %d, expected %d" % (what, maxval, want_maxval))
            elif px != expect:
                i = first_diff(px, expect)
                report(pre + ":pixels", section, j["idx"], "%s: pixel %d (x=%d,y=%d) channel %d decodes to %02X, expected %02X" % (
                    what, i // 4, (i // 4) % w, (i // 4) // w, i % 4, px[i] if i < len(px) else -1, expect[i] if i < len(expect) else -1))
    notes = ["python stage decoded " + ", ".join("%d %s" % (v, k) for k, v in sorted(counts.items())) + " files with stdlib-only decoders (PNG: every chunk CRC + zlib + filters; BMP: header fields, row order, padding; netpbm P5/P6/P7)"]
    return dict(validated=validated, violations=list(viol.values()), notes=notes)
