#!/usr/bin/env python3
"""check.py — supervisor for the phosg model-checking harnesses.

    python3 check.py <ID> --tier quick|thorough      decide one property
    python3 check.py <ID> --replay <file>            re-execute one recorded case
    python3 check.py --setup                         pre-build what does not depend on /repo

Exit 0: property held on everything explored (known findings are printed as KNOWN-FINDING lines).
Exit 1: at least one `VIOLATION property=<ID> replay=<path>` line was printed.
Exit 2: engine error (build failure, replay that does not reproduce, ...).
"""
import argparse, glob, hashlib, importlib.util, json, os, re, shutil, struct, subprocess, sys, tempfile, time

ROOT = os.path.dirname(os.path.abspath(__file__))
REPO = os.environ.get("VERIF_REPO", "/repo")
SRC = os.path.join(REPO, "src")
BUILD = os.path.join(ROOT, "build")
OBJ = os.path.join(BUILD, "obj")
NCPU = max(2, min(16, os.cpu_count() or 2))
# A run against another checkout (VERIF_REPO=<scratch worktree>, used for seeded changes and mutants) must not
# disturb the evidence, replays or scratch output of a run against /repo itself: it gets its own directories.
# VF_TAG=<name> does the same for a run against /repo itself (development runs next to a registered run).
ALT = os.path.realpath(REPO) != "/repo" or bool(os.environ.get("VF_TAG"))
ALT_TAG = ("-" + hashlib.sha256((os.path.realpath(REPO) + "\0" + os.environ.get("VF_TAG", "")).encode()).hexdigest()[:8]) if ALT else ""
EVID_DIR = os.path.join(BUILD, "alt" + ALT_TAG, "evidence") if ALT else os.path.join(ROOT, "evidence")
REPLAY_DIR = os.path.join(BUILD, "alt" + ALT_TAG, "replays") if ALT else os.path.join(ROOT, "replays")

sys.path.insert(0, ROOT)
from props import PROPS  # noqa: E402

BASE_CXX = ["g++", "-std=c++20", "-O1", "-g1", "-fno-omit-frame-pointer", "-fsanitize=address",
            "-Wno-unused-result", "-I" + SRC, "-I" + os.path.join(ROOT, "engine"), "-I" + REPO]
ASAN_ENV = "detect_leaks=1:abort_on_error=1:allocator_may_return_null=1:max_allocation_size_mb=2048:detect_stack_use_after_return=0"


def log(*a):
    print("[check]", *a, file=sys.stderr, flush=True)


def sha(*parts):
    h = hashlib.sha256()
    for p in parts:
        h.update(p if isinstance(p, bytes) else p.encode())
        h.update(b"\0")
    return h.hexdigest()[:24]


def read(p):
    with open(p, "rb") as f:
        return f.read()


def headers_digest():
    h = hashlib.sha256()
    for p in sorted(glob.glob(os.path.join(SRC, "*.hh"))):
        h.update(os.path.basename(p).encode())
        h.update(read(p))
    return h.hexdigest()


def engine_digest():
    h = hashlib.sha256()
    for p in sorted(glob.glob(os.path.join(ROOT, "engine", "*"))):
        if os.path.isfile(p):
            h.update(os.path.basename(p).encode())
            h.update(read(p))
    return h.hexdigest()


def prune_cache(keep=400, min_age_s=6 * 3600):
    """Drops the least recently used cache entries beyond `keep`, but never one used in the last hours: another
    check (or a long thorough run) may still be executing that binary."""
    files = [os.path.join(OBJ, f) for f in os.listdir(OBJ)] if os.path.isdir(OBJ) else []
    if len(files) <= keep:
        return
    now = time.time()

    def mt(p):
        try:
            return os.path.getmtime(p)
        except OSError:
            return now
    files.sort(key=mt)
    for p in files[:len(files) - keep]:
        if now - mt(p) < min_age_s:
            break
        try:
            os.unlink(p)
        except OSError:
            pass


def run_parallel(cmds):
    """cmds: list of (argv, label).  Runs up to NCPU at once; raises on the first failure."""
    pending = list(cmds)
    running = []
    while pending or running:
        while pending and len(running) < NCPU:
            argv, label = pending.pop(0)
            lf = tempfile.TemporaryFile()
            running.append((subprocess.Popen(argv, stdout=lf, stderr=subprocess.STDOUT), label, argv, lf))
        for item in list(running):
            p, label, argv, lf = item
            if p.poll() is not None:
                lf.seek(0)
                out = lf.read().decode(errors="replace")
                lf.close()
                running.remove(item)
                if p.returncode != 0:
                    for q, _, _, _ in running:
                        q.kill()
                    raise RuntimeError("build failed: %s\n%s\n%s" % (label, " ".join(argv), out[:6000]))
        time.sleep(0.02)


class VariantSkipped(Exception):
    pass


def build(pid, variant="main"):
    """Builds the repo objects and the harness for property `pid` from /repo's working tree."""
    cfg = PROPS[pid]
    v = cfg if variant == "main" else cfg["variants"][variant]
    hd = headers_digest()
    flags = list(BASE_CXX)
    # VF_COVERAGE=<dir>: gcov-instrumented build into <dir> (tools/coverage.py); not used by registered commands
    cov = os.environ.get("VF_COVERAGE")
    OBJ = os.path.abspath(cov) if cov else globals()["OBJ"]
    os.makedirs(OBJ, exist_ok=True)
    if cov:
        flags += ["--coverage", "-fprofile-update=atomic", "-DVF_COVERAGE"]
    if v.get("sanitizer", cfg.get("sanitizer")) == "none":
        flags = [f for f in flags if f != "-fsanitize=address"]
    if v.get("sanitizer") == "thread":
        flags = [f for f in flags if f != "-fsanitize=address"] + ["-fsanitize=thread"]
    flags += v.get("cxxflags", cfg.get("cxxflags", []))
    cmds, objs = [], []
    per_src = v.get("src_cxxflags", cfg.get("src_cxxflags", {}))  # extra flags for single repo sources (e.g. trace-pc instrumentation of the file under test only)
    for s in v.get("srcs", cfg.get("srcs", [])):
        sp = os.path.join(SRC, s)
        sflags = flags + per_src.get(s, [])
        key = sha("obj", " ".join(sflags), s, read(sp), hd)
        o = os.path.join(OBJ, key + ".o")
        objs.append(o)
        if not os.path.exists(o):
            cmds.append((sflags + ["-c", sp, "-o", o if cov else o + ".tmp%d" % os.getpid()], s))
    run_parallel(cmds)
    for argv, _ in cmds:
        tmp = argv[-1]
        if not cov:
            os.replace(tmp, tmp[:tmp.rindex(".tmp")])
    hflags = flags + v.get("harness_cxxflags", cfg.get("harness_cxxflags", []))
    ld = v.get("ldflags", cfg.get("ldflags", []))
    hsrcs = [os.path.join(ROOT, h) for h in v.get("harness", cfg.get("harness"))]
    extra = b"".join(read(os.path.join(ROOT, e)) for e in cfg.get("harness_deps", []) + v.get("harness_deps_extra", []))
    # E-PREEMPT variants run concurrent calls as fibers of one OS thread, which share thread_local storage: if an instrumented
    # source defines thread-local objects the variant would report sharing that real threads do not have, so it is skipped
    # (with a note in the evidence, exhaustive:false) instead of risking a false alarm.
    for s in v.get("no_tls", []):
        o = objs[v.get("srcs", cfg.get("srcs", [])).index(s)]
        secs = subprocess.run(["readelf", "-S", "-W", o], capture_output=True, text=True).stdout
        if ".tbss" in secs or ".tdata" in secs:
            raise VariantSkipped("variant %s skipped: %s now defines thread_local objects; fibers share them, real threads would not" % (variant, s))
    key = sha("bin", " ".join(hflags), " ".join(ld), *(read(h) for h in hsrcs), extra, engine_digest(), hd, *objs)
    exe = os.path.join(OBJ, key + ".bin")
    if not os.path.exists(exe):
        hobjs = []
        cmds = []
        for h in hsrcs:
            ho = os.path.join(OBJ, sha("hobj", key, h) + ".o")
            hobjs.append(ho)
            cmds.append((hflags + ["-c", h, "-o", ho], os.path.basename(h)))
        run_parallel(cmds)
        tmp = exe + ".tmp%d" % os.getpid()
        run_parallel([(flags + hobjs + objs + ld + (["-Wl,--wrap=_exit"] if cov else []) + ["-lz", "-lpthread", "-o", tmp], "link " + pid)])
        os.replace(tmp, exe)
        for ho in hobjs:
            if not cov:
                os.unlink(ho)
    else:
        os.utime(exe)
    for o in objs:
        os.utime(o)
    if not cov:
        prune_cache()
    return exe


def build_aux(cfg):
    """Helper programs that do not depend on /repo (e.g. the scripted child of C15)."""
    out = {}
    os.makedirs(OBJ, exist_ok=True)
    for name, src in cfg.get("aux", {}).items():
        sp = os.path.join(ROOT, src)
        exe = os.path.join(OBJ, sha("aux", name, read(sp)) + ".aux")
        if not os.path.exists(exe):
            tmp = exe + ".tmp%d" % os.getpid()
            run_parallel([(["gcc", "-O1", "-g1", "-Wall", sp, "-o", tmp], "aux " + name)])
            os.replace(tmp, exe)
        else:
            os.utime(exe)
        out["VF_AUX_" + name] = exe
    return out


class Job:
    def __init__(self, exe, section, shard, nshards, stall, tier, outdir, env):
        self.exe, self.section, self.shard, self.nshards, self.stall = exe, section, shard, nshards, stall
        self.tier, self.outdir, self.env = tier, outdir, env
        self.start = 0
        self.restarts = 0
        self.proc = None
        self.results = []      # JSON summaries (one per completed run)
        self.crashes = []      # dicts: idx, note, status, kind
        self.done = False
        self.incomplete = False
        self.slotpath = os.path.join(outdir, "%s.%d.slot" % (section, shard))
        self.outpath = os.path.join(outdir, "%s.%d.json" % (section, shard))
        self.errpath = os.path.join(outdir, "%s.%d.err" % (section, shard))

    def launch(self):
        with open(self.slotpath, "wb") as f:
            f.write(b"\0" * 4096)
        if os.path.exists(self.outpath):
            os.unlink(self.outpath)
        argv = [self.exe, "--section", self.section, "--tier", self.tier, "--shard", str(self.shard), "--nshards",
                str(self.nshards), "--start", str(self.start), "--slot", self.slotpath, "--out", self.outpath]
        self.err = open(self.errpath, "wb")
        self.proc = subprocess.Popen(argv, stdout=self.err, stderr=self.err, env=self.env, cwd=self.outdir)
        self.last_beat = None
        self.last_change = time.time()

    def slot(self):
        try:
            with open(self.slotpath, "rb") as f:
                b = f.read(4096)
            idx, beat = struct.unpack("<QQ", b[:16])
            note = b[16:].split(b"\0", 1)[0].decode(errors="replace")
            return idx, beat, note
        except Exception:
            return 0, 0, ""


def asan_kind(text):
    m = re.search(r"ERROR: (?:Address|Leak|Thread)Sanitizer: ([A-Za-z0-9_-]+)", text)
    if m:
        return m.group(1)
    m = re.search(r"(WARNING: ThreadSanitizer: [a-z ]+)", text)
    if m:
        return m.group(1).replace("WARNING: ThreadSanitizer: ", "tsan-").replace(" ", "-")
    if "terminate called" in text:
        return "terminate"
    return None


def replay_case(exe, section, tier, idx, env, cwd, timeout):
    argv = [exe, "--section", section, "--tier", tier, "--only", str(idx)]
    try:
        p = subprocess.run(argv, stdout=subprocess.PIPE, stderr=subprocess.STDOUT, env=env, cwd=cwd, timeout=timeout)
        return p.returncode, p.stdout.decode(errors="replace")
    except subprocess.TimeoutExpired as e:
        return "timeout", (e.stdout or b"").decode(errors="replace")


def replay_with_history(exe, section, tier, idx, shard, nshards, env, cwd, timeout):
    """Re-runs the shard's own case sequence up to and including case idx (for findings that depend on state
    carried over from earlier calls in the same process).  Returns the list of violations reported for idx."""
    out = os.path.join(cwd, "replay_upto_%s_%d.json" % (section, idx))
    argv = [exe, "--section", section, "--tier", tier, "--shard", str(shard), "--nshards", str(nshards), "--start", "0", "--upto", str(idx), "--out", out]
    try:
        subprocess.run(argv, stdout=subprocess.DEVNULL, stderr=subprocess.DEVNULL, env=env, cwd=cwd, timeout=timeout)
        res = json.load(open(out))
    except Exception:
        return []
    finally:
        if os.path.exists(out):
            os.unlink(out)
    return [v for v in res.get("violations", []) if v["idx"] == idx]


def run_sections(pid, exe, tier, outdir, deadline, env, only_sections=None):
    lst = subprocess.run([exe, "--list", "--tier", tier], stdout=subprocess.PIPE, env=env, check=True).stdout.decode().split("\n")
    jobs = []
    for line in lst:
        if not line.strip():
            continue
        name, shards, stall = line.split()
        if only_sections and name not in only_sections:
            continue
        n = min(int(shards), NCPU)
        for i in range(n):
            jobs.append(Job(exe, name, i, n, int(stall), tier, outdir, env))
    pending = list(jobs)
    running = []
    timed_out = False
    while pending or running:
        now = time.time()
        if now > deadline:
            timed_out = True
            for j in running:
                j.proc.kill()
                j.proc.wait()
                j.err.close()
                j.incomplete = True
            for j in pending:
                j.incomplete = True
            break
        while pending and len(running) < NCPU:
            j = pending.pop(0)
            j.launch()
            running.append(j)
        for j in list(running):
            rc = j.proc.poll()
            idx, beat, note = j.slot()
            if rc is None:
                if beat != j.last_beat:
                    j.last_beat, j.last_change = beat, now
                    continue
                elif now - j.last_change > j.stall:
                    j.proc.kill()
                    j.proc.wait()
                    rc = "stall"
                else:
                    continue
            j.err.close()
            running.remove(j)
            if rc == 0 and os.path.exists(j.outpath):
                try:
                    j.results.append(json.load(open(j.outpath)))
                    j.done = True
                    continue
                except Exception as e:
                    rc = "badjson:%s" % e
            # abnormal end: attribute to the published case
            errtxt = read(j.errpath).decode(errors="replace")
            j.crashes.append(dict(idx=idx, note=note, status=str(rc), kind=asan_kind(errtxt), stderr=errtxt[-3000:]))
            j.restarts += 1
            if j.restarts > 12:
                j.incomplete = True
                continue
            j.start = idx + 1
            pending.insert(0, j)
        time.sleep(0.05)
    return jobs, timed_out


def load_known():
    known, fixed = {}, []
    p = os.path.join(ROOT, "known_findings.txt")
    if os.path.exists(p):
        for line in open(p):
            line = line.strip()
            if not line or line.startswith("#"):
                continue
            if line.startswith("finding:"):
                m = re.search(r"key=(\S+)\s+(.*)", line)
                if m:
                    known[m.group(1)] = m.group(2)
            elif line.startswith("fixed:"):
                fixed.append(line)
    return known, fixed


def sanitize(s):
    return re.sub(r"[^A-Za-z0-9_.-]+", "_", s)[:120]


def load_oracle(name):
    spec = importlib.util.spec_from_file_location("oracle_" + name, os.path.join(ROOT, "oracles", name + ".py"))
    m = importlib.util.module_from_spec(spec)
    spec.loader.exec_module(m)
    return m


def main():
    ap = argparse.ArgumentParser()
    ap.add_argument("pid", nargs="?")
    ap.add_argument("--tier", default=os.environ.get("VERIF_TIER", "quick"), choices=["quick", "thorough"])
    ap.add_argument("--replay")
    ap.add_argument("--setup", action="store_true")
    ap.add_argument("--sections", help="comma list: run only these sections (debugging; evidence is still written)")
    ap.add_argument("--deadline", type=float, help="override the global deadline (seconds)")
    args = ap.parse_args()
    os.makedirs(BUILD, exist_ok=True)
    if args.setup:
        for d in ("obj", "out", "scratch"):
            os.makedirs(os.path.join(BUILD, d), exist_ok=True)
        os.makedirs(EVID_DIR, exist_ok=True)
        os.makedirs(REPLAY_DIR, exist_ok=True)
        print("setup ok")
        return 0
    pid = args.pid
    if pid not in PROPS:
        print("unknown property", pid, file=sys.stderr)
        return 2
    cfg = PROPS[pid]
    seed = int(os.environ.get("VERIF_SEED", "0") or 0)
    t0 = time.time()
    env = dict(os.environ)
    env["ASAN_OPTIONS"] = ASAN_ENV + (":" + cfg["asan_options"] if cfg.get("asan_options") else "")
    env["TSAN_OPTIONS"] = "halt_on_error=1:abort_on_error=1:second_deadlock_stack=1"
    env["VF_ROOT"] = ROOT
    env["VF_REPO"] = REPO

    if args.replay:
        rp = json.load(open(args.replay))
        env.update(build_aux(cfg))
        exe = build(pid, rp.get("variant", "main"))
        outdir = os.path.join(BUILD, "out", pid + "-replay" + ALT_TAG)
        shutil.rmtree(outdir, ignore_errors=True)
        os.makedirs(outdir)
        env["VF_OUTDIR"] = outdir
        if rp.get("mode") == "upto":
            again = replay_with_history(exe, rp["section"], rp["tier"], rp["idx"], rp.get("shard", 0), rp.get("nshards", 1), env, outdir, 3600)
            for a in again:
                print("FAIL %s: %s" % (a["key"], a["desc"]))
            print("(history-dependent finding: cases 0..%d of shard %d/%d were re-executed in order)" % (rp["idx"], rp.get("shard", 0), rp.get("nshards", 1)))
            failed = bool(again)
        else:
            rc, out = replay_case(exe, rp["section"], rp["tier"], rp["idx"], env, outdir, 3600)
            print(out)
            failed = rc != 0
        print("expected finding key:", rp["key"])
        print("REPLAY", "reproduces (violation)" if failed else "does not reproduce (passes)")
        shutil.rmtree(outdir, ignore_errors=True)
        return 1 if failed else 0

    tier = args.tier
    outdir = os.path.join(BUILD, "out", "%s-%s%s" % (pid, tier, ALT_TAG))
    shutil.rmtree(outdir, ignore_errors=True)
    os.makedirs(outdir)
    os.makedirs(EVID_DIR, exist_ok=True)
    os.makedirs(REPLAY_DIR, exist_ok=True)
    env["VF_OUTDIR"] = outdir
    deadline_s = args.deadline or cfg.get("deadline", {}).get(tier, 600 if tier == "quick" else 3600)
    deadline = t0 + deadline_s
    only = set(args.sections.split(",")) if args.sections else None

    variants = ["main"] + [v for v, vc in cfg.get("variants", {}).items() if tier in vc.get("tiers", ["quick", "thorough"])]
    # small variants flagged first=True run before the main sections, so that a deadline hit by the (much larger) main
    # part on a loaded machine cannot starve them
    variants.sort(key=lambda v: 0 if v != "main" and cfg["variants"][v].get("first") else 1)
    alljobs, timed_out, exes = [], False, {}
    skipped_variants = []
    try:
        env.update(build_aux(cfg))
        for v in list(variants):
            try:
                exes[v] = build(pid, v)
            except VariantSkipped as e:
                variants.remove(v)
                skipped_variants.append(str(e))
    except RuntimeError as e:
        print(str(e), file=sys.stderr)
        print("ENGINE-ERROR build failed for %s (the harness must compile against /repo's current tree)" % pid)
        return 2
    tbuild = time.time() - t0
    for v in variants:
        jobs, to = run_sections(pid, exes[v], tier, outdir, deadline, env, only)
        for j in jobs:
            j.variant = v
        alljobs += jobs
        timed_out |= to

    # ---- merge -------------------------------------------------------------------------------
    tot = dict(evaluations=0, nontrivial=0, states=0, transitions=0, xchecked=0)
    hist, counters, sections, samples, notes = {}, {}, {}, [], []
    viols = {}  # key -> dict(desc, idx, count, section, variant)
    exhaustive = not timed_out and not skipped_variants
    notes += skipped_variants
    for j in alljobs:
        sec = sections.setdefault(j.section, dict(evaluations=0, states=0, transitions=0, shards=j.nshards, exhaustive=True, restarts=0, bound=""))
        sec["restarts"] += j.restarts
        if j.incomplete or not j.done:
            sec["exhaustive"] = False
            exhaustive = False
        for r in j.results:
            for k in tot:
                tot[k] += r.get(k, 0)
            sec["evaluations"] += r["evaluations"]
            sec["states"] += r["states"]
            sec["transitions"] += r["transitions"]
            if r.get("bound"):
                sec["bound"] = r["bound"]
            if not r.get("exhaustive", True):
                sec["exhaustive"] = False
                exhaustive = False
            for k, v in r["hist"].items():
                hist[j.section + "/" + k] = hist.get(j.section + "/" + k, 0) + v
            for k, v in r.get("counters", {}).items():
                counters[j.section + "/" + k] = counters.get(j.section + "/" + k, 0) + v
            for s in r["samples"]:
                if len([x for x in samples if x["section"] == j.section]) < 3:
                    samples.append(dict(section=j.section, case=s))
            for n in r.get("notes", []):
                if n not in notes:
                    notes.append(n)
            for v in r["violations"]:
                key = "%s:%s:%s" % (pid, j.section, v["key"])
                cur = viols.get(key)
                if cur is None or v["idx"] < cur["idx"]:
                    viols[key] = dict(desc=v["desc"], idx=v["idx"], count=v["count"] + (cur["count"] if cur else 0), section=j.section, variant=j.variant, kind="oracle",
                                      shard=j.shard, nshards=j.nshards)
                else:
                    cur["count"] += v["count"]
        for c in j.crashes:
            what = c["kind"] or ("hang" if c["status"] == "stall" else "exit-" + c["status"])
            key = "%s:%s:crash:%s:%s" % (pid, j.section, sanitize(c["note"].split(" ")[0]) if c["note"] else "-", what)
            cur = viols.get(key)
            if cur is None or c["idx"] < cur["idx"]:
                viols[key] = dict(desc="process died (%s) while executing case %d [%s]" % (what, c["idx"], c["note"]), idx=c["idx"],
                                  count=1 + (cur["count"] if cur else 0), section=j.section, variant=j.variant, kind="crash", stderr=c["stderr"])
            else:
                cur["count"] += 1

    # ---- independent-implementation oracle (Python) --------------------------------------------
    validated = tot["xchecked"]
    if cfg.get("oracle") and not only:
        try:
            res = load_oracle(cfg["oracle"]).run(outdir=outdir, tier=tier, repo=REPO)
        except Exception as e:  # an oracle that cannot run is an engine error, never a violation
            import traceback
            traceback.print_exc()
            print("ENGINE-ERROR oracle %s failed: %s" % (cfg["oracle"], e))
            return 2
        validated += res.get("validated", 0)
        for n in res.get("notes", []):
            notes.append(n)
        for v in res.get("violations", []):
            key = "%s:%s:%s" % (pid, v.get("section", "pyoracle"), v["key"])
            if key not in viols:
                viols[key] = dict(desc=v["desc"], idx=v.get("idx", -1), count=v.get("count", 1), section=v.get("section", "pyoracle"), variant="main", kind="pyoracle")

    # ---- replay-before-report -------------------------------------------------------------------
    engine_errors = []
    for key, v in sorted(viols.items()):
        if v["kind"] == "pyoracle" or v["idx"] < 0:
            v["confirmed"] = "python-oracle"
            continue
        stall = next((j.stall for j in alljobs if j.section == v["section"]), 60)
        supportive = v["variant"] != "main" and cfg["variants"][v["variant"]].get("supportive")
        for _attempt in range(10 if supportive else 1):
            rc, out = replay_case(exes[v["variant"]], v["section"], tier, v["idx"], env, outdir, max(120, stall * 10))
            if rc != 0:
                break
        if supportive and rc == 0:
            # free-running (schedule-sampling) pass: a finding that does not reproduce is dropped with a note
            notes.append("supportive variant %s: finding %s at case %d did not reproduce in 10 replays; not reported" % (v["variant"], key, v["idx"]))
            v["confirmed"] = "no"
            continue
        m = re.search(r"^CASE \d+: (.*)$", out, re.M)
        if v["kind"] == "crash":
            if rc == 0:
                # did not reproduce in isolation: not reported as a violation (rule 4), but it is an engine problem
                engine_errors.append("crash at %s case %d did not reproduce in isolation" % (v["section"], v["idx"]))
                v["confirmed"] = "no"
                continue
            v["confirmed"] = "replayed"
            k2 = asan_kind(out)
            if m:
                v["desc"] += " :: " + m.group(1)[:1500]
            if k2:
                v["desc"] += " :: " + k2
        else:
            short = key.split(":", 2)[2]
            if ("FAIL " + short) in out or rc not in (0, "timeout") and "CASE" not in out and "FAIL" in out:
                v["confirmed"] = "replayed"
            elif rc != 0 and "FAIL " in out:
                v["confirmed"] = "replayed"
            else:
                # not reproducible alone: does it reproduce after the cases that preceded it in its shard?  Then the
                # code under test carries hidden state between calls, which is itself what the case exposes.
                again = replay_with_history(exes[v["variant"]], v["section"], tier, v["idx"], v.get("shard", 0), v.get("nshards", 1), env, outdir, max(600, stall * 10))
                if any(a["key"] == short for a in again):
                    v["confirmed"] = "replayed-with-history"
                    v["mode"] = "upto"
                    v["desc"] += " :: HISTORY-DEPENDENT: passes when executed alone in a fresh process, fails (reproducibly) after the preceding cases of shard %d/%d, i.e. the result depends on state left behind by earlier calls" % (v.get("shard", 0), v.get("nshards", 1))
                else:
                    engine_errors.append("violation %s (case %d) did not reproduce in isolation nor with its shard history: rc=%s" % (key, v["idx"], rc))
                    v["confirmed"] = "no"
    viols = {k: v for k, v in viols.items() if v.get("confirmed") != "no"}

    # ---- known findings, replay files, output ---------------------------------------------------
    known, _fixed = load_known()
    new, listed = [], []
    for key, v in sorted(viols.items()):
        (listed if key in known else new).append(key)
    for f in glob.glob(os.path.join(REPLAY_DIR, pid + "-*.json")):
        os.unlink(f)
    for key in listed:
        print("KNOWN-FINDING: property=%s %s [%s; minimal case: %s]" % (pid, known[key], key, viols[key]["desc"][:300]))
    for key in new:
        v = viols[key]
        rp = os.path.join(REPLAY_DIR, "%s-%s.json" % (pid, sanitize(key.split(":", 1)[1])))
        json.dump(dict(property=pid, harness=cfg["harness"], variant=v["variant"], section=v["section"], tier=tier, idx=v["idx"], key=key,
                       mode=v.get("mode", "only"), shard=v.get("shard", 0), nshards=v.get("nshards", 1),
                       desc=v["desc"], count=v["count"], stderr=v.get("stderr", "")), open(rp, "w"), indent=1)
        print("VIOLATION property=%s replay=%s" % (pid, rp))
        print("  key=%s count=%d :: %s" % (key, v["count"], v["desc"][:700]))

    wall = time.time() - t0
    nstates = tot["states"] if tot["states"] else tot["evaluations"]
    ntrans = tot["transitions"] if tot["transitions"] else tot["evaluations"]
    outcomes = len([k for k in hist if "VIOLATION:" not in k])
    ev = dict(
        property_id=pid, tier=tier, seed=seed, level="model_checking",
        coverage=dict(
            states=max(nstates, 1), transitions=max(ntrans, 1), traces_validated_against_impl=validated,
            samples=samples or [dict(section="-", case="(no case executed)")],
            evaluations=tot["evaluations"], distinct_nontrivial=tot["nontrivial"],
            rule=cfg["rule"], exhaustive=bool(exhaustive and tot["evaluations"] > 0),
            bound_completed=cfg["bounds"][tier] if exhaustive else "INCOMPLETE: global deadline or restart cap hit; per-section completion below",
            sections=sections, outcome_histogram=hist, counters=counters, distinct_outcome_classes=outcomes,
            explanation=cfg["explanation"], notes=notes, build_s=round(tbuild, 1), deadline_s=deadline_s,
            violations_new=[dict(key=k, desc=viols[k]["desc"][:500], count=viols[k]["count"]) for k in new],
            known_findings_seen=[dict(key=k, desc=viols[k]["desc"][:500], count=viols[k]["count"]) for k in listed],
            engine_errors=engine_errors),
        assumptions=cfg["assumptions"], wall_s=round(wall, 2), violations=len(new))
    tmp = os.path.join(EVID_DIR, pid + ".json.tmp")
    json.dump(ev, open(tmp, "w"), indent=1)
    os.replace(tmp, os.path.join(EVID_DIR, pid + ".json"))
    log("%s %s: evals=%d states=%d trans=%d validated=%d exhaustive=%s new=%d known=%d wall=%.1fs (build %.1fs)" % (
        pid, tier, tot["evaluations"], nstates, ntrans, validated, exhaustive, len(new), len(listed), wall, tbuild))
    if not os.environ.get("VF_KEEP"):
        shutil.rmtree(outdir, ignore_errors=True)
    if new:
        return 1
    if engine_errors:
        for e in engine_errors:
            print("ENGINE-ERROR", e)
        return 2
    return 0


if __name__ == "__main__":
    sys.exit(main())
