// C03_base.hh - access to the converted_endian<> base of a wrapper (shared by C03_pairs.cc, C03_conv.cc, C03_hist.cc)
#pragma once
#include "C03_common.hh"
namespace {
// The converted_endian<> base of a wrapper (derived-to-base template argument deduction).  Needed because
// the derived classes' implicit copy assignment hides converted_endian::operator=(ExposedT): `w = v` on a
// be_/le_/re_ type is "construct a temporary, copy-assign", a different code path.
template <class E, class S, class A, class B>
inline converted_endian<E, S, A, B>& base_of(converted_endian<E, S, A, B>& x) { return x; }
template <class E, class S, class A, class B>
inline const converted_endian<E, S, A, B>& base_of(const converted_endian<E, S, A, B>& x) { return x; }

}  // namespace
