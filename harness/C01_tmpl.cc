// C01 (part, round 2): the put<T> / pput<T> / get<T> / pget<T> TEMPLATES called directly (not through the named
// accessors) with every endian wrapper type (le_/be_/re_ x 8 scalar types), the native scalar types, char, bool,
// a byte array and packed structs of 3/5/12/16 bytes; explicit and defaulted `size` arguments of get/pget.
// Oracle: the lane-by-lane reference encoder (C01_kinds.hh); structs are encoded member by member.
#include "C01_common.hh"

using namespace phosg;
using namespace c01;

namespace {

// type-erased access to the four templates for one T (keeps the per-type code tiny)
struct TOps {
  size_t w;
  void (*sw_put)(StringWriter&, const void*);
  void (*sw_pput)(StringWriter&, size_t, const void*);
  void (*bw_put)(BufferWriter&, const void*);
  void (*bw_pput)(BufferWriter&, size_t, const void*);
  const void* (*get)(StringReader&, bool);
  const void* (*get_sz)(StringReader&, bool);  // explicit size argument = sizeof(T)
  const void* (*pget)(const StringReader&, size_t);
  const void* (*pget_sz)(const StringReader&, size_t);
};
template <class T>
const TOps* tops() {
  static const TOps o = {
      sizeof(T),
      [](StringWriter& w, const void* x) { w.put<T>(*(const T*)x); },
      [](StringWriter& w, size_t off, const void* x) { w.pput<T>(off, *(const T*)x); },
      [](BufferWriter& w, const void* x) { w.put<T>(*(const T*)x); },
      [](BufferWriter& w, size_t off, const void* x) { w.pput<T>(off, *(const T*)x); },
      [](StringReader& r, bool a) -> const void* { return &r.get<T>(a); },
      [](StringReader& r, bool a) -> const void* { return &r.get<T>(a, sizeof(T)); },
      [](const StringReader& r, size_t off) -> const void* { return &r.pget<T>(off); },
      [](const StringReader& r, size_t off) -> const void* { return &r.pget<T>(off, sizeof(T)); },
  };
  return &o;
}

// writes the object at x in all four writer forms and reads it back in all reader forms; ref = reference bytes
bool tmpl_run(vf::Run& r, const char* tname, const TOps* t, const void* x, const uint8_t* ref, const std::function<bool(const void*)>& same_value, const std::function<std::string()>& vd) {
  const size_t w = t->w;
  // keys name the template and the family of T (le_/be_/re_ wrapper, native scalar, struct), not each type: the
  // templates are one piece of code; the type is in the description
  const std::string family = !strncmp(tname, "le_", 3) ? "le_T" : !strncmp(tname, "be_", 3) ? "be_T" : !strncmp(tname, "re_", 3) ? "re_T" : (tname[0] == 'S' || strchr(tname, '[')) ? "struct" : "native";
  auto key = [&](const char* op, const char* kind) { return std::string(op) + "<" + family + ">:" + kind; };
  try {
    // StringWriter: append after one byte, positional write 2 past the end, straddling the end, at 0
    StringWriter sw;
    sw.put_u8(0x5A);
    t->sw_put(sw, x);
    Bytes m = {0x5A};
    m.insert(m.end(), ref, ref + w);
    if (sw.size() != m.size() || memcmp(sw.str().data(), m.data(), m.size())) {
      r.fail(key("put", "bytes"), [&] { return vd() + ": StringWriter holds " + hexb(sw.str().data(), sw.str().size()) + ", reference " + hexb(m.data(), m.size()); });
      return false;
    }
    size_t off2 = m.size() + 2;
    t->sw_pput(sw, off2, x);
    m.resize(off2 + w, 0);
    memcpy(m.data() + off2, ref, w);
    size_t off3 = m.size() - 1;  // straddles the end (for w > 1)
    t->sw_pput(sw, off3, x);
    if (m.size() < off3 + w) m.resize(off3 + w, 0);
    memcpy(m.data() + off3, ref, w);
    t->sw_pput(sw, 0, x);
    memcpy(m.data(), ref, w);
    if (sw.size() != m.size() || memcmp(sw.str().data(), m.data(), m.size())) {
      r.fail(key("pput", "bytes"), [&] { return vd() + vf::fmt(": after pput at %zu, %zu and 0 StringWriter holds ", off2, off3) + hexb(sw.str().data(), sw.str().size()) + ", reference " + hexb(m.data(), m.size()); });
      return false;
    }
    // BufferWriter over an exact-size buffer: put, put_u8, put (now exactly full), pput over the first
    Exact b(2 * w + 1);
    Bytes bm(b.n, 0xEE);
    BufferWriter bw(b.p, b.n);
    t->bw_put(bw, x);
    bw.put_u8(0xC3);
    t->bw_put(bw, x);
    t->bw_pput(bw, 1, x);
    memcpy(bm.data(), ref, w);
    bm[w] = 0xC3;
    memcpy(bm.data() + w + 1, ref, w);
    memcpy(bm.data() + 1, ref, w);
    if (memcmp(b.p, bm.data(), b.n)) {
      r.fail(key("bw_put", "bytes"), [&] { return vd() + ": BufferWriter put; put_u8; put; pput(1) gives " + hexb(b.p, b.n) + ", reference " + hexb(bm.data(), bm.size()); });
      return false;
    }
    // StringReader over 5A | ref | A5
    Exact rb(w + 2);
    rb.p[0] = 0x5A;
    memcpy(rb.p + 1, ref, w);
    rb.p[w + 1] = 0xA5;
    StringReader rd(rb.p, rb.n, 1);
    const void* g0 = t->get(rd, false);
    size_t w0 = rd.where();
    const void* g1 = t->get_sz(rd, false);
    size_t w1 = rd.where();
    const void* p0 = t->pget(rd, 1);
    const void* p1 = t->pget_sz(rd, 1);
    const void* g2 = t->get(rd, true);
    size_t w2 = rd.where();
    rd.go(1);
    const void* g3 = t->get_sz(rd, true);
    size_t w3 = rd.where();
    if (g0 != rb.p + 1 || g1 != rb.p + 1 || p0 != rb.p + 1 || p1 != rb.p + 1 || g2 != rb.p + 1 || g3 != rb.p + 1) {
      r.fail(key("get", "value"), [&] { return vd() + ": get<T>/pget<T> did not return a reference to the bytes at offset 1"; });
      return false;
    }
    if (!same_value(g0) || memcmp(g0, ref, w)) {
      r.fail(key("get", "value"), [&] { return vd() + ": the object read back from " + hexb(ref, w) + " does not carry the value that was written"; });
      return false;
    }
    if (w0 != 1 || w1 != 1 || w2 != 1 + w || w3 != 1 + w) {
      r.fail(key("get", "advance"), [&] { return vd() + vf::fmt(": cursor 1 -> %zu (advance=false), %zu (false, explicit size), %zu (true), %zu (true, explicit size); width %zu", w0, w1, w2, w3, w); });
      return false;
    }
    if (rd.get_u8() != 0xA5 || !rd.eof()) {
      r.fail(key("get", "advance"), [&] { return vd() + ": the byte after the object was not read next"; });
      return false;
    }
  } catch (const std::exception& e) {
    std::string what = e.what();
    r.fail(key("any", "throws"), [&] { return vd() + ": unexpected exception " + what; });
    return false;
  }
  return true;
}

template <class T>
struct TmplOps {
  static bool run(vf::Run& r, const char* tname, const T& x, const uint8_t* ref, const std::function<bool(const T&)>& same_value, const std::function<std::string()>& vd) {
    return tmpl_run(r, tname, tops<T>(), &x, ref, [&](const void* g) { return same_value(*(const T*)g); }, vd);
  }
};

// scalar (wrapper or native) of underlying value type V, reference encoding (w, e); cls as in Kind
struct ScalarOps {
  void (*make)(uint64_t v, void* out);  // constructs T(from_bits<V>(v)) in out
  uint64_t (*value)(const void* g);     // to_bits<V>((V)*(const T*)g)
};
template <class T, class V>
const ScalarOps* sops() {
  static const ScalarOps o = {
      [](uint64_t v, void* out) { T x = T(from_bits<V>(v)); memcpy(out, &x, sizeof(T)); },
      [](const void* g) -> uint64_t { return to_bits<V>((V)(*(const T*)g)); },
  };
  return &o;
}
void scalar_sweep_e(vf::Run& r, const char* tname, const TOps* t, const ScalarOps* so, int w, End e, char cls, const std::vector<uint64_t>& vals) {
  r.note(tname);
  for (uint64_t v : vals) {
    if (!r.take()) continue;
    if (r.wants_desc()) r.desc(std::string("put<") + tname + ">/get<" + tname + "> value " + hexv(v, w));
    r.nontriv();
    uint8_t ref[8];
    enc(ref, v, w, e);
    const uint64_t want = cls == 's' ? sext(v, w) : (v & maskw(w));
    uint8_t x[8];
    so->make(v, x);
    bool ok = tmpl_run(
        r, tname, t, x, ref, [&](const void* g) { return so->value(g) == want; }, [&] { return std::string(tname) + " value " + hexv(v, w) + " (reference bytes " + hexb(ref, w) + ")"; });
    if (ok) r.ok(std::string("tmpl-ok/w") + std::to_string(w));
  }
}
template <class T, class V>
void scalar_sweep(vf::Run& r, const char* tname, int w, End e, char cls, const std::vector<uint64_t>& vals) {
  static_assert(sizeof(T) <= 8 && std::is_trivially_copyable_v<T>, "scalar");
  scalar_sweep_e(r, tname, tops<T>(), sops<T, V>(), w, e, cls, vals);
}

std::vector<uint64_t> tmpl_values(int w, bool is_float) {
  std::vector<uint64_t> v = structured_values(w);
  for (uint64_t x : boundary_values(w)) v.push_back(x);
  if (is_float)
    for (uint64_t x : float_specials(w)) v.push_back(x);
  lane_product(L5(), w <= 4 ? w : 4, [&](uint64_t x) { v.push_back(w <= 4 ? x : (x * 0x0000000100000001ull) ^ 0x00FF00FF00000000ull); });
  dedupe(v);
  return v;
}

}  // namespace

VF_SECTION(tmpl, 8, 8, 180) {
  auto v2 = tmpl_values(2, false), v4 = tmpl_values(4, false), v8 = tmpl_values(8, false), f4 = tmpl_values(4, true), f8 = tmpl_values(8, true);
#define C01_W3(U, S, W, VALS)                                                       \
  scalar_sweep<le_##U, U>(r, "le_" #U, W, LE, 'u', VALS);                           \
  scalar_sweep<be_##U, U>(r, "be_" #U, W, BE, 'u', VALS);                           \
  scalar_sweep<re_##U, U>(r, "re_" #U, W, BE, 'u', VALS);                           \
  scalar_sweep<U, U>(r, #U, W, LE, 'u', VALS);                                      \
  scalar_sweep<le_##S, S>(r, "le_" #S, W, LE, 's', VALS);                           \
  scalar_sweep<be_##S, S>(r, "be_" #S, W, BE, 's', VALS);                           \
  scalar_sweep<re_##S, S>(r, "re_" #S, W, BE, 's', VALS);                           \
  scalar_sweep<S, S>(r, #S, W, LE, 's', VALS);
  C01_W3(uint16_t, int16_t, 2, v2)
  C01_W3(uint32_t, int32_t, 4, v4)
  C01_W3(uint64_t, int64_t, 8, v8)
  scalar_sweep<le_float, float>(r, "le_float", 4, LE, 'f', f4);
  scalar_sweep<be_float, float>(r, "be_float", 4, BE, 'f', f4);
  scalar_sweep<re_float, float>(r, "re_float", 4, BE, 'f', f4);
  scalar_sweep<float, float>(r, "float", 4, LE, 'f', f4);
  scalar_sweep<le_double, double>(r, "le_double", 8, LE, 'f', f8);
  scalar_sweep<be_double, double>(r, "be_double", 8, BE, 'f', f8);
  scalar_sweep<re_double, double>(r, "re_double", 8, BE, 'f', f8);
  scalar_sweep<double, double>(r, "double", 8, LE, 'f', f8);
  {
    std::vector<uint64_t> v1;
    for (uint64_t v = 0; v < 256; v++) v1.push_back(v);
    scalar_sweep<uint8_t, uint8_t>(r, "uint8_t", 1, LE, 'u', v1);
    scalar_sweep<int8_t, int8_t>(r, "int8_t", 1, LE, 's', v1);
    scalar_sweep<char, char>(r, "char", 1, LE, std::is_signed_v<char> ? 's' : 'u', v1);
  }
  // bool: the two values
  for (int bv = 0; bv < 2; bv++) {
    if (!r.take()) continue;
    if (r.wants_desc()) r.desc(vf::fmt("put<bool>/get<bool> %d", bv));
    r.nontriv();
    uint8_t ref[1] = {(uint8_t)bv};
    bool x = bv != 0;
    if (TmplOps<bool>::run(r, "bool", x, ref, [&](const bool& g) { return g == x; }, [&] { return vf::fmt("bool %d", bv); })) r.ok("tmpl-ok/bool");
  }
  // packed structs and a byte array, seeds from the 64-bit value set
  r.note("structs");
  for (uint64_t v : v8) {
    if (!r.take()) continue;
    if (r.wants_desc()) r.desc("put<S>/get<S> for the packed structs S3, S5, S12, S16 and uint8_t[7], seed " + hexv(v, 8));
    r.nontriv();
    bool good = true;
    {
      uint8_t ref[16];
      S3 x = make_S3(v, ref);
      good = good && TmplOps<S3>::run(r, "S3", x, ref, [&](const S3& g) { return g.a == (uint8_t)(v >> 16) && (uint16_t)g.b == (uint16_t)v; }, [&] { return "S3{u8, be_u16} seed " + hexv(v, 8); });
    }
    {
      uint8_t ref[16];
      S5 x = make_S5(v, ref);
      good = good && TmplOps<S5>::run(r, "S5", x, ref, [&](const S5& g) { return (uint32_t)g.a == (uint32_t)v && g.b == (int8_t)(v >> 32); }, [&] { return "S5{le_u32, s8} seed " + hexv(v, 8); });
    }
    {
      uint8_t ref[16];
      S12 x = make_S12(v, ref);
      good = good && TmplOps<S12>::run(
                          r, "S12", x, ref, [&](const S12& g) { return (uint32_t)g.a == (uint32_t)v && to_bits<float>((float)g.f) == (uint32_t)((v >> 32) ^ 0x7FC00001u) && (uint16_t)g.c == (uint16_t)(v >> 8) && g.d[0] == (uint8_t)(v >> 56) && g.d[1] == (uint8_t)(v >> 48); },
                          [&] { return "S12{be_u32, le_float, re_u16, u8[2]} seed " + hexv(v, 8); });
    }
    {
      uint8_t ref[16];
      S16 x = make_S16(v, ref);
      good = good && TmplOps<S16>::run(r, "S16", x, ref, [&](const S16& g) { return (uint64_t)g.a == v && to_bits<double>((double)g.b) == ~v; }, [&] { return "S16{le_u64, be_double} seed " + hexv(v, 8); });
    }
    {
      typedef uint8_t A7[7];
      A7 x;
      uint8_t ref[7];
      for (int i = 0; i < 7; i++) x[i] = ref[i] = (uint8_t)(v >> (8 * i));
      good = good && TmplOps<A7>::run(r, "uint8_t[7]", x, ref, [&](const A7& g) { return !memcmp(g, ref, 7); }, [&] { return "uint8_t[7] seed " + hexv(v, 8); });
    }
    if (good) r.ok("tmpl-ok/structs");
  }
  r.bound = "put<T>/pput<T> on StringWriter (append, 2 past the end, straddling the end, at 0) and BufferWriter (exactly full buffer, then pput) and get<T>/pget<T> with defaulted and explicit size, advance false/true, reference identity with the buffer, for T = le_/be_/re_ x {u,s}{16,32,64}, float, double wrappers, the native scalars, uint8_t/int8_t/char (all 256 values), bool, packed structs of 3/5/12/16 bytes and uint8_t[7]; values: all-distinct, walking one/zero, +-(2^k-1), +-2^k, +-(2^k+1) for every k, L5 lane products, float specials";
}
