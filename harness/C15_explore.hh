// C15_explore.hh — deviation-bounded exploration (same order and semantics as vfe::explore in engine/env.hh) with two
// additions needed by C15:
//   * SLICES: the schedule tree of one scenario is split into `nslices` independent parts so that a heavy scenario is
//     spread over all shards: the j-th one-deviation prefix (in generation order) and everything below it belongs to
//     slice j % nslices; the zero-deviation execution is run by every slice (it generates the prefixes) but counted and
//     reported by slice 0 only.  The union over the slices is exactly the tree vfe::explore walks.
//   * A failing execution does not end the exploration: the first failure per KEY is recorded, nothing below a failing
//     execution is expanded, and the walk stops after `max_failing` failing executions.  (A defect that is present on
//     the tree under test must not hide a different one.)
#pragma once
#include <functional>
#include <map>
#include <string>
#include <vector>

#include "env.hh"

namespace c15 {

struct Outcome { std::string fail, key; };

struct Found {
  std::string key, failure, trace;
  std::vector<int> choices;
  int level = 0;
  uint64_t exec_no = 0, count = 0;
};

struct XStats {
  uint64_t executions = 0, choice_points = 0, max_deviations = 0, failing = 0;
  bool complete = true;
  std::vector<Found> found;
};

inline XStats explore_slice(vfe::Env& env, const std::function<Outcome()>& run, int bound, uint64_t cap,
    unsigned slice, unsigned nslices, unsigned max_failing = 24) {
  XStats st;
  std::map<std::string, size_t> by_key;
  std::vector<std::vector<int>> level = {{}}, nextlevel;
  int d = 0;
  uint64_t l1 = 0;
  auto record = [&](const std::string& key, const std::string& why, const std::vector<int>& choices, const std::string& trace) {
    auto it = by_key.find(key);
    if (it != by_key.end()) { st.found[it->second].count++; return; }
    by_key[key] = st.found.size();
    Found f;
    f.key = key; f.failure = why; f.choices = choices; f.trace = trace; f.level = d; f.exec_no = st.executions; f.count = 1;
    st.found.push_back(std::move(f));
  };
  while (!level.empty()) {
    for (auto& prefix : level) {
      if (st.executions >= cap) { st.complete = false; return st; }
      env.begin(prefix);
      Outcome o = run();
      bool counted = d > 0 || slice == 0;
      if (counted) { st.executions++; st.choice_points += env.trace.size(); }
      if (env.diverged) {
        record("engine:divergence", "ENGINE: divergence while replaying a choice prefix", prefix, env.show());
        st.complete = false;
        return st;
      }
      if (o.fail.empty() && env.over_horizon) { o.key = "livelock"; o.fail = "horizon exceeded: the scenario made more than " + std::to_string(env.horizon) + " environment calls (livelock)"; }
      if (!o.fail.empty()) {
        if (counted) {
          std::vector<int> ch;
          for (auto& p : env.trace) ch.push_back(p.taken);
          record(o.key, o.fail, ch, env.show());
        }
        if (++st.failing >= max_failing) return st;
        continue;
      }
      if ((uint64_t)d > st.max_deviations) st.max_deviations = d;
      if (bound >= 0 && d + 1 > bound) continue;
      for (size_t i = prefix.size(); i < env.trace.size(); i++) {
        for (int alt = 1; alt < env.trace[i].n; alt++) {
          if (d == 0 && (l1++ % nslices) != slice) continue;
          std::vector<int> np;
          np.reserve(i + 1);
          for (size_t j = 0; j < i; j++) np.push_back(env.trace[j].taken);
          np.push_back(alt);
          nextlevel.push_back(std::move(np));
        }
      }
    }
    level.swap(nextlevel);
    nextlevel.clear();
    d++;
  }
  return st;
}

}  // namespace c15
