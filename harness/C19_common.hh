// C19 — shared infrastructure of the three translation units (C19.cc, C19_raises.cc, C19_hist.cc).
//
//  * Res / probe():   what ONE call of a helper did (silent / threw expectation_failed / threw something
//                     else) plus everything the exception carried.  The message pointer is inspected with
//                     the ASan interface before it is read, so a dangling `msg` is a violation with a key
//                     and not an anonymous crash.
//  * run_ctx():       executes a probe in one of ten execution contexts (plain, catch handler, destructor
//                     during unwinding, nested, std::function, noexcept frame, second thread, ...).  "Exactly
//                     when the relation is false" does not depend on what else the thread is doing.
//  * judge():         compares a Res with the reference verdict, the call site and the message.
#pragma once
#include <errno.h>
#include <stdint.h>

#include <exception>
#include <functional>
#include <new>
#include <stdexcept>
#include <string>
#include <system_error>
#include <thread>
#include <type_traits>
#include <vector>

#if defined(__SANITIZE_ADDRESS__)
#include <sanitizer/asan_interface.h>
#endif

#include "UnitTest.hh"
#include "vf.hh"

namespace c19 {

using phosg::expectation_failed;
using phosg::expect_generic;
using phosg::expect_raises_fn;

struct Site {
  const char* file = "";
  uint64_t line = 0;
};

struct Res {
  enum Kind { SILENT, FAILED, OTHER };
  Kind kind = SILENT;
  std::string file, msg, what, other;
  uint64_t line = 0;
  bool msg_null = false, msg_dangling = false, file_null = false, file_dangling = false;
  std::exception_ptr held;   // the exception object itself, kept alive for later re-inspection
  int seen_uncaught = -1;    // std::uncaught_exceptions() right before the helper was called
  // Round 5: the macro call is not instantiated when it is ill-formed for the operand / predicate types (feature test
  // with a requires-expression), so that a change which makes a form ill-formed is a keyed finding and not a build
  // failure of the whole harness.  0 = well-formed (the call was made); 1 = ill-formed, and the library's funnel
  // expect_generic(bool, ...) could never take the value (it converts to bool only explicitly): not applicable;
  // 2 = ill-formed although the value converts implicitly to bool: reported.
  int ill_formed = 0;
  bool seen_current = false; // std::current_exception() != nullptr right before the helper was called
};

// the field is `const char*` today; a repair may legitimately make it a std::string
inline const char* cstr_of(const char* p) { return p; }
inline const char* cstr_of(const std::string& s) { return s.c_str(); }

// Copies a C string without touching memory ASan knows to be freed / out of bounds.  false = dangling.
inline bool read_cstr(const char* p, std::string& out) {
#if defined(__SANITIZE_ADDRESS__)
  for (size_t i = 0;; i++) {
    if (__asan_address_is_poisoned(p + i)) return false;
    if (!p[i]) return true;
    out.push_back(p[i]);
  }
#else
  out = p;
  return true;
#endif
}

inline void capture(Res& res, const expectation_failed& e, bool hold = true) {
  res.kind = Res::FAILED;
  res.line = e.line;
  res.what = e.what();
  res.file.clear();
  res.msg.clear();
  res.file_null = res.file_dangling = res.msg_null = res.msg_dangling = false;
  const char* f = cstr_of(e.file);
  if (!f) res.file_null = true;
  else if (!read_cstr(f, res.file)) res.file_dangling = true;
  const char* m = cstr_of(e.msg);
  if (!m) res.msg_null = true;
  else if (!read_cstr(m, res.msg)) res.msg_dangling = true;
  if (hold) res.held = std::current_exception();
}

// Runs one helper call and records what it did.  Nothing escapes.
template <class F>
Res probe(F&& f) {
  Res res;
  res.seen_uncaught = std::uncaught_exceptions();
  res.seen_current = (bool)std::current_exception();
  try {
    f();
  } catch (const expectation_failed& e) {
    capture(res, e);
  } catch (const std::exception& e) {
    res.kind = Res::OTHER;
    res.other = std::string("a std::exception that is not expectation_failed, what=") + e.what();
  } catch (int v) {
    res.kind = Res::OTHER;
    res.other = "int " + std::to_string(v);
  } catch (...) {
    res.kind = Res::OTHER;
    res.other = "an object that is not a std::exception";
  }
  return res;
}

// ---- execution contexts ----------------------------------------------------------------------------------

enum Ctx {
  PLAIN,                 // straight-line code
  IN_CATCH,              // inside a catch handler (current_exception() != null, nothing in flight)
  UNWINDING,             // destructor running because an exception is propagating (uncaught_exceptions() == 1)
  CATCH_UNWINDING,       // a throw inside a catch handler unwinds through the destructor (1 in flight, 1 being handled)
  DOUBLE_UNWINDING,      // destructor during unwinding starts a second, locally caught unwinding (uncaught_exceptions() == 2)
  STD_FUNCTION,          // noexcept(false) lambda called through a std::function
  NOEXCEPT_FRAME,        // called from a noexcept function (legal: nothing escapes it)
  THREAD,                // on a second thread
  THREAD_FROM_UNWINDING, // on a second thread started by a destructor of the first thread during unwinding
  THREAD_UNWINDING,      // destructor during unwinding, on a second thread
  NCTX
};
inline const char* ctx_name(int c) {
  static const char* n[NCTX] = {"plain code", "inside a catch handler", "destructor during stack unwinding",
      "destructor during unwinding started inside a catch handler", "destructor during a nested (second) unwinding",
      "lambda called through std::function", "below a noexcept frame", "second thread",
      "second thread started from a destructor during unwinding", "destructor during unwinding on a second thread"};
  return n[c];
}
inline const char* ctx_tag(int c) {
  static const char* n[NCTX] = {"plain", "catch", "unwind", "catch+unwind", "unwind2", "std::function", "noexcept", "thread", "thread<-unwind", "thread+unwind"};
  return n[c];
}
inline int ctx_uncaught(int c) {
  static const int n[NCTX] = {0, 0, 1, 1, 2, 0, 0, 0, 0, 1};
  return n[c];
}
inline bool ctx_current(int c) { return c == IN_CATCH || c == CATCH_UNWINDING; }

// the contexts of the quick tier's wide sweeps (all ten are used on the core matrices)
inline const std::vector<int>& all_ctx() {
  static const std::vector<int> v = {PLAIN, IN_CATCH, UNWINDING, CATCH_UNWINDING, DOUBLE_UNWINDING, STD_FUNCTION, NOEXCEPT_FRAME, THREAD, THREAD_FROM_UNWINDING, THREAD_UNWINDING};
  return v;
}
inline const std::vector<int>& main_ctx() {
  static const std::vector<int> v = {PLAIN, IN_CATCH, UNWINDING, THREAD};
  return v;
}

using Body = std::function<Res()>;
using Desc = std::function<std::string()>;

// a scope guard like phosg's on_close_scope: the destructor is implicitly noexcept, the callback must not let
// anything escape (probe() guarantees that)
template <class F>
struct OnExit {
  F f;
  ~OnExit() { f(); }
};
template <class F>
OnExit(F) -> OnExit<F>;

struct OuterFailure {};  // a non-std object in flight

// Runs body in context ctx with errno set to amb right before it.  (C19_common.cc)
Res run_ctx(int ctx, int amb, const Body& body);

// ---- verdicts (C19_common.cc) ------------------------------------------------------------------------------

// One key for one defect class: the exception object does not own what its msg/file pointers refer to.
extern const std::string kDangling;

inline bool contains(const std::string& hay, const std::string& needle) { return hay.find(needle) != std::string::npos; }

// Checks what a failure carries: call site, message parts, what().  `k` is the key prefix (names the helper).
// Returns true when everything is as the statement demands.
bool judge_payload(vf::Run& r, const std::string& k, const Res& res, const Site& site, const std::vector<std::string>& msg_parts, const std::string* exact_msg, const Desc& d);

// harness self-check: the context really was what its name says at the moment of the call
bool judge_ctx(vf::Run& r, int ctx, const Res& res, const Desc& d);

// Full verdict for a helper whose reference outcome is "must fail" / "must be silent".
bool judge(vf::Run& r, const std::string& k, int ctx, bool must_fail, const Res& res, const Site& site, const std::vector<std::string>& msg_parts, const std::string* exact_msg, const Desc& d0);

// Re-inspects an exception object that was kept alive: everything it carries must still be what it was when
// it was caught (no shared scratch buffer, no pointer into a dead frame).
bool judge_held(vf::Run& r, const std::string& k, const Res& then, const Desc& d);

// ---- relation macros: one call, and the type-erased sweep over operand pairs (C19_common.cc) -------------------

extern const char* const rel_names[8];
extern const std::string kCustomMsg;
const std::vector<std::string>& rel_parts(int rel);

// rel: 0 expect(a == b), 1 expect_eq, 2 expect_ne, 3 expect_msg(a == b, custom), 4 expect_gt, 5 expect_ge, 6 expect_lt, 7 expect_le
// 1 / 2 as in Res::ill_formed, for a relation whose C++ result has type R
template <class R>
constexpr int ill_code = std::is_convertible_v<R, bool> ? 2 : 1;

template <class A, class B>
Res call_rel(int rel, const A& a, const B& b, bool& truth, Site& site) {
  site.file = __FILE__;
  constexpr bool ordered = requires { a < b; a <= b; a > b; a >= b; };
  int ill = 0;
  Res res = probe([&] {
    // clang-format off
    switch (rel) {
      case 0: truth = bool(a == b); if constexpr (requires { expect(a == b); }) { site.line = __LINE__; expect(a == b); } else ill = ill_code<decltype(a == b)>; break;
      case 1: truth = bool(a == b); if constexpr (requires { expect_eq(a, b); }) { site.line = __LINE__; expect_eq(a, b); } else ill = ill_code<decltype(a == b)>; break;
      case 2: truth = bool(a != b); if constexpr (requires { expect_ne(a, b); }) { site.line = __LINE__; expect_ne(a, b); } else ill = ill_code<decltype(a != b)>; break;
      case 3: truth = bool(a == b); if constexpr (requires { expect_msg(a == b, "m"); }) { site.line = __LINE__; expect_msg(a == b, "custom message: a and b differ (100% sure)"); } else ill = ill_code<decltype(a == b)>; break;
      default:
        if constexpr (ordered) {
          switch (rel) {
            case 4: truth = bool(a > b); if constexpr (requires { expect_gt(a, b); }) { site.line = __LINE__; expect_gt(a, b); } else ill = ill_code<decltype(a > b)>; break;
            case 5: truth = bool(a >= b); if constexpr (requires { expect_ge(a, b); }) { site.line = __LINE__; expect_ge(a, b); } else ill = ill_code<decltype(a >= b)>; break;
            case 6: truth = bool(a < b); if constexpr (requires { expect_lt(a, b); }) { site.line = __LINE__; expect_lt(a, b); } else ill = ill_code<decltype(a < b)>; break;
            case 7: truth = bool(a <= b); if constexpr (requires { expect_le(a, b); }) { site.line = __LINE__; expect_le(a, b); } else ill = ill_code<decltype(a <= b)>; break;
          }
        }
    }
    // clang-format on
  });
  res.ill_formed = ill;
  return res;
}

struct RelSweep {
  const char* tname;
  size_t na, nb;
  int nrel;  // 8, or 4 when the operands have no (defined) order
  std::function<Res(int rel, size_t i, size_t j, bool& truth, Site& site)> call;
  std::function<std::string(size_t)> show_a, show_b;
};
// All relations x all ordered pairs x the given contexts.
void sweep_relations(vf::Run& r, const RelSweep& s, const std::vector<int>& ctxs);

// expect(v) / expect_msg(v, msg) / expect_generic(v, ...) / expect(!v) for one predicate type (typed front end:
// C19_pred.hh).  wf[form]: the call compiles for this type (feature test); implicit_bool: the type converts implicitly to
// bool, i.e. the library's funnel expect_generic(bool, ...) accepts it.
struct PredSweep {
  const char* tname;
  size_t n;
  bool wf[4];
  bool implicit_bool;
  std::function<Res(int form, size_t i, bool& truth, Site& site)> call;
  std::function<std::string(size_t)> show;
};
void sweep_predicates(vf::Run& r, const PredSweep& s, const std::vector<int>& ctxs);

}  // namespace c19
