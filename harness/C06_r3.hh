// C06 round 3 — section transient (included by C06.cc, same translation unit).
//
//   transient  TRANSIENT READ FAULTS (environment answers): the complete file is delivered through an fopencookie
//              stream that hands out at most `chunk` bytes per read callback and answers exactly ONE callback
//              (thorough: also every ordered PAIR of callbacks) with -1 and errno EINTR / EAGAIN - what read(2) does
//              on a pipe, socket or terminal when a signal handler without SA_RESTART runs, or on a descriptor
//              that was switched to non-blocking - and then goes on delivering normally from the same offset.
//              Every callback index 0..N of the fault-free run x chunk size {1,3,7,64,4096} x errno x
//              {stream can seek, cannot seek (BMP only: padding / pixel-array offset are then skipped by reading)}.
//              Oracle: Image(FILE*) must throw a std::exception or produce exactly the picture the complete file
//              defines - never another image - with a balanced heap and no sanitizer report.
//              Zone rule (soundness): a fault that is answered while the netpbm TEXT header is still being delivered
//              (stream offset below the raster start) is executed and recorded, not judged: how stdio's text functions
//              tokenise around an error is not something the statement speaks about (round-2 observation).  Faults
//              while binary data is delivered (whole BMP file, netpbm raster) are judged.
//
//              The same class on the WRITE side: save(FILE*) onto an fopencookie sink (unbuffered, 16-byte buffer, default
//              buffer) where exactly one write callback accepts only part of its bytes (none, one, half) and reports
//              EINTR / EAGAIN - stdio then reports a short fwrite with the error flag set, which is what a FILE on a
//              descriptor shows after write(2) was interrupted.  Oracle: when save() returns normally, the stream's error
//              flag is clear and fflush() succeeds, the sink must hold exactly the bytes of save(Format); a thrown
//              exception or a stream that reports the error is fine.
#pragma once

namespace {

struct TransientCookie : Cookie {
  int nfaults = 0;
  size_t fault_call[2] = {0, 0};  // index of the read callback that is answered with -1
  int fault_errno[2] = {0, 0};
  size_t calls = 0;               // read callbacks so far (the failing ones included)
  size_t hw = 0;                  // bytes of the file delivered so far (high-water mark of the offset)
  int fired = 0;
  size_t fired_hw[2] = {0, 0};    // hw when fault i was answered
  size_t fired_pos[2] = {0, 0};
};

ssize_t transient_read(void* c, char* buf, size_t size) {
  TransientCookie* k = (TransientCookie*)c;
  size_t idx = k->calls++;
  for (int i = 0; i < k->nfaults; i++)
    if (idx == k->fault_call[i]) {
      k->fired_hw[k->fired] = k->hw;
      k->fired_pos[k->fired] = k->pos;
      k->fired++;
      errno = k->fault_errno[i];
      return -1;
    }
  ssize_t m = cookie_read(c, buf, size);
  if (k->pos > k->hw) k->hw = k->pos;
  return m;
}

struct TCase {
  bool seekable = true;
  size_t chunk = 1;
  int nf = 1;
  size_t k[2] = {0, 0};
  int e[2] = {0, 0};
  uint64_t idx = 0;
  // save jobs: k[0] = index of the write callback, e[0] = errno
  int bufmode = 0;  // 0 unbuffered, 1 fully buffered with 16 bytes, 2 stdio's default buffer
  int accept = 0;   // the faulting callback accepts 0: nothing, 1: one byte, 2: half of what it was given
};

const char* bufmode_name[3] = {"unbuffered stream", "stream with a 16-byte buffer", "stream with stdio's default buffer"};
const char* accept_name[3] = {"accepts nothing", "accepts one byte", "accepts half of its bytes"};

// One file's (or one image's) share of a shard.
struct TJob {
  string name, family, file;  // save jobs: file is empty (the child computes the expected bytes itself)
  Pic pic;
  bool is_bmp = false;
  int h = 0;
  size_t judged_from = 0;
  bool save = false;
  Spec spec{};
  int fmt = 0;
  vector<TCase> mine;
};

const char* errno_name(int e) { return e == EINTR ? "EINTR" : e == EAGAIN ? "EAGAIN" : "errno?"; }

string tcase_str(const TCase& t, bool save = false) {
  if (save)
    return vf::fmt("save(FILE*) onto an %s, write callback #%zu %s and reports %s, every other callback takes everything", bufmode_name[t.bufmode], t.k[0], accept_name[t.accept], errno_name(t.e[0]));
  string s = vf::fmt("%zu byte(s) per read callback, stream %s seek, read callback #%zu answered -1/%s", t.chunk, t.seekable ? "can" : "cannot", t.k[0], errno_name(t.e[0]));
  if (t.nf == 2) s += vf::fmt(" and callback #%zu answered -1/%s", t.k[1], errno_name(t.e[1]));
  return s + ", every other callback delivers normally";
}

Loaded load_transient(const string& file, TransientCookie& ck, const TCase* t) {
  uint8_t* copy = (uint8_t*)malloc(file.size() ? file.size() : 1);
  memcpy(copy, file.data(), file.size());
  ck = TransientCookie();
  ck.data = copy; ck.n = file.size(); ck.pos = 0;
  ck.chunk = t ? t->chunk : 1;
  if (t) {
    ck.nfaults = t->nf;
    for (int i = 0; i < t->nf; i++) { ck.fault_call[i] = t->k[i]; ck.fault_errno[i] = t->e[i]; }
  }
  bool seekable = t ? t->seekable : true;
  FILE* f = fopencookie(&ck, "rb", cookie_io_functions_t{transient_read, nullptr, seekable ? cookie_seek : nullptr, nullptr});
  Loaded L;
  if (!f) { free(copy); L.outcome = "harness-fopencookie-failed"; return L; }
  errno = 0;
  L = observe_load([&] { return Image(f); });
  fclose(f);
  free(copy);
  return L;
}

// what one file needs: the number of read callbacks of the fault-free delivery per (seekable, chunk), measured in the child
struct TransientFile {
  const string* file;
  const Pic* pic;
  size_t judged_from;  // faults answered at a stream offset below this are not judged (netpbm text header); 0 for BMP
  std::map<std::pair<bool, size_t>, std::pair<size_t, string>> base;  // (seekable, chunk) -> (callbacks, "" or complaint)
  // save jobs
  const TJob* job = nullptr;
  bool have_expected = false;
  string expected, expected_complaint;
  std::map<int, std::pair<size_t, string>> wbase;  // bufmode -> (write callbacks of the fault-free save, "" or complaint)
};

struct WriteCookie {
  string sink;
  size_t calls = 0, fault_call = (size_t)-1;
  int accept = 0, err = 0;
  bool fired = false;
  size_t fired_at = 0, fired_size = 0;
};

ssize_t transient_write(void* c, const char* buf, size_t size) {
  WriteCookie* k = (WriteCookie*)c;
  size_t idx = k->calls++;
  if (idx == k->fault_call) {
    size_t p = k->accept == 0 ? 0 : k->accept == 1 ? 1 : size / 2;
    if (p < size) {
      k->fired = true;
      k->fired_at = k->sink.size();
      k->fired_size = size;
      k->sink.append(buf, p);
      errno = k->err;
      return p;  // fewer bytes than given: stdio sets the stream's error flag
    }
  }
  k->sink.append(buf, size);
  return size;
}

struct SaveRun {
  string outcome, what;  // "ok" or exception class
  bool stream_error = false;
  WriteCookie ck;
};

// t == nullptr: no fault
void save_transient(const Image& img, int fmt, int bufmode, const TCase* t, SaveRun& R) {
  R.ck = WriteCookie();
  R.ck.sink.reserve(1 << 16);
  if (t) { R.ck.fault_call = t->k[0]; R.ck.accept = t->accept; R.ck.err = t->e[0]; }
  FILE* f = fopencookie(&R.ck, "wb", cookie_io_functions_t{nullptr, transient_write, nullptr, nullptr});
  if (!f) { R.outcome = "harness-fopencookie-failed"; return; }
  static char small_buf[16];
  if (bufmode == 0) setvbuf(f, nullptr, _IONBF, 0);
  else if (bufmode == 1) setvbuf(f, small_buf, _IOFBF, sizeof(small_buf));
  errno = 0;
  R.outcome = "ok";
  try {
    img.save(f, fmt_of(fmt));
  } catch (const std::runtime_error& e) { R.outcome = "runtime_error"; R.what = e.what();
  } catch (const std::exception& e) { R.outcome = "exception"; R.what = e.what();
  } catch (...) { R.outcome = "nonstd"; }
  // what a careful caller can see: the error flag, the result of flushing
  R.stream_error = ferror(f) != 0;
  if (fflush(f) != 0) R.stream_error = true;
  fclose(f);
}

string check_wfault(TransientFile& tf, const TCase& t) {
  const TJob& j = *tf.job;
  try {
    Image img = spec_image(j.spec);
    if (!tf.have_expected) {
      tf.have_expected = true;
      try { tf.expected = img.save(fmt_of(j.fmt)); } catch (const std::exception& e) { tf.expected_complaint = string("save(Format) threw: ") + e.what(); }
    }
    if (!tf.expected_complaint.empty()) return "DC save-refused:" + tf.expected_complaint.substr(0, 40);  // reported by saveload
    auto it = tf.wbase.find(t.bufmode);
    if (it == tf.wbase.end()) {
      SaveRun R;
      save_transient(img, j.fmt, t.bufmode, nullptr, R);
      string complaint;
      if (R.outcome != "ok") complaint = "threw " + R.outcome + " (" + R.what + ")";
      else if (R.stream_error) complaint = "left the stream in the error state";
      else if (R.ck.sink != tf.expected) complaint = vf::fmt("wrote %zu bytes that differ from the %zu bytes of save(Format)", R.ck.sink.size(), tf.expected.size());
      it = tf.wbase.insert({t.bufmode, {R.ck.calls, complaint}}).first;
    }
    if (!it->second.second.empty()) return "FAIL fault-free-save-differs	without any fault, save(FILE*) onto an " + string(bufmode_name[t.bufmode]) + " " + it->second.second;
    if (t.k[0] >= it->second.first) return "VAC fault-index-beyond-the-last-write-callback";
    string verdict;
    verdict.reserve(1500);
    auto once = [&] {
      SaveRun R;
      save_transient(img, j.fmt, t.bufmode, &t, R);
      string v;
      string where = R.ck.fired ? vf::fmt(" (the faulting callback was given %zu bytes at file offset %zu)", R.ck.fired_size, R.ck.fired_at) : string();
      if (!R.ck.fired) v = R.outcome == "ok" && !R.stream_error && R.ck.sink == tf.expected ? "VAC the-callback-already-takes-everything" : "FAIL fault-free-save-differs	no fault was injected, but the save " + R.outcome;
      else if (R.outcome == "nonstd" || R.outcome == "harness-fopencookie-failed") v = "FAIL nonstd-exception	the save ended with " + R.outcome + where;
      else if (R.outcome != "ok") v = "OK rejected:" + R.outcome;
      else if (R.stream_error) v = "OK returned-with-the-stream-reporting-the-error";
      else if (R.ck.sink == tf.expected) v = "OK written-identical";
      else {
        size_t i = 0;
        while (i < R.ck.sink.size() && i < tf.expected.size() && R.ck.sink[i] == tf.expected[i]) i++;
        v = vf::fmt("FAIL transient-write-error:file-differs	save() returned normally, the stream reports no error and fflush succeeds, but the sink holds %zu bytes that differ from the %zu bytes of save(Format) from offset %zu on",
                R.ck.sink.size(), tf.expected.size(), i) + where;
      }
      if (v.size() > 1400) v.resize(1400);
      verdict.assign(v);
    };
    bool leak = leaks(once);
    if (leak && verdict.compare(0, 5, "FAIL ") != 0) return "FAIL transient-write-error:leak	LeakSanitizer reports memory still allocated after the save (" + verdict + ")";
    return verdict;
  } catch (const std::exception& e) {
    return string("FAIL harness	cannot build the image: ") + e.what();
  }
}

const std::pair<size_t, string>& transient_base(TransientFile& tf, bool seekable, size_t chunk) {
  auto key = std::make_pair(seekable, chunk);
  auto it = tf.base.find(key);
  if (it != tf.base.end()) return it->second;
  TCase t; t.seekable = seekable; t.chunk = chunk; t.nf = 0;
  TransientCookie ck;
  Loaded L = load_transient(*tf.file, ck, &t);
  string complaint;
  if (L.outcome != "ok") complaint = "threw " + L.outcome + " (" + L.what + ")";
  else {
    string c = compare_loaded(L, *tf.pic, true);
    if (!c.empty()) complaint = c.substr(c.find('\t') + 1);
  }
  return tf.base[key] = {ck.calls, complaint};
}

// verdict: "OK <class>" | "VAC <class>" (fault index beyond the last callback: nothing ran) | "DC <class>" (not judged) | "FAIL <kind>\t<desc>"
string check_transient(TransientFile& tf, const TCase& t) {
  if (tf.job && tf.job->save) return check_wfault(tf, t);
  const auto& base = transient_base(tf, t.seekable, t.chunk);
  if (!base.second.empty())
    return "FAIL fault-free-delivery-differs\twithout any fault (" + vf::fmt("%zu byte(s) per read callback, stream %s seek", t.chunk, t.seekable ? "can" : "cannot") + ") the file " + base.second;
  size_t N = base.first;
  if (t.k[0] >= N) return vf::fmt("VAC fault-index-beyond-the-last-read-callback");
  string verdict;
  verdict.reserve(1500);
  auto once = [&] {
    TransientCookie ck;
    Loaded L = load_transient(*tf.file, ck, &t);
    string v;
    bool judged = true;
    for (int i = 0; i < ck.fired; i++) judged = judged && ck.fired_hw[i] >= tf.judged_from;
    string where = ck.fired ? vf::fmt(" (the first fault was answered after %zu of %zu bytes had been delivered%s)", ck.fired_hw[0], tf.file->size(),
                                   ck.fired == 2 ? vf::fmt(", the second after %zu", ck.fired_hw[1]).c_str() : "")
                            : string(" (no fault was reached)");
    const char* tag = judged ? "OK " : "DC fault-inside-netpbm-text-header:";
    const char* nf = ck.fired == 0 ? "no-fault-reached:" : (t.nf == 2 && ck.fired == 1) ? "second-fault-not-reached:" : "";
    if (L.outcome == "nonstd" || L.outcome == "harness-fopencookie-failed") v = "FAIL nonstd-exception\tthe load ended with " + L.outcome + where;
    else if (L.outcome == "ok") {
      string c = compare_loaded(L, *tf.pic, true);
      if (c.empty()) v = string(tag) + nf + "accepted-identical";
      else if (judged) v = "FAIL transient-read-error:accepted-differently\tno exception, but " + c.substr(c.find('\t') + 1) + where;
      else v = string(tag) + "accepted-differently";
    } else v = string(tag) + nf + "rejected:" + L.outcome;
    if (v.size() > 1400) v.resize(1400);
    verdict.assign(v);
  };
  bool leak = leaks(once);
  if (leak && verdict.compare(0, 5, "FAIL ") != 0)
    return "FAIL transient-read-error:leak\tLeakSanitizer reports memory still allocated after the load (" + verdict + ")";
  return verdict;
}

}  // namespace

VF_SECTION(transient, 16, 16, 90) {
  auto kinds = all_kinds(true);
  vector<std::pair<int, int>> dims = {{1, 1}, {2, 2}, {3, 2}, {5, 3}};
  if (r.thorough()) for (auto p : {std::pair<int, int>{2, 1}, {3, 1}, {4, 1}, {1, 2}, {64, 1}, {63, 2}, {33, 3}, {13, 9}}) dims.push_back(p);
  const vector<size_t> chunks = {1, 3, 7, 64, 4096};
  const vector<size_t> chunks_noseek = r.thorough() ? vector<size_t>{1, 3, 7, 64} : vector<size_t>{1, 7};
  const vector<size_t> chunks_pairs = {3, 7, 64, 4096};
  const vector<size_t> chunks_pairs_quick = {3};
  const int errnos[2] = {EINTR, EAGAIN};
  warm_symbolizer();
  {
    Pic p;
    Kind k; k.magic = 6; k.name = "warm";
    string f = make_variant(k, 2, 2, 2, p);
    load_bytes((const uint8_t*)f.data(), f.size());
    load_bytes((const uint8_t*)f.data(), 5);
    TransientCookie ck;
    TCase t; t.k[0] = 3; t.e[0] = EINTR;
    load_transient(f, ck, &t);
  }
  uint64_t nfiles = 0;
  size_t maxlen = 0;
  // Forking an ASan process is expensive, so the files are gathered into batches and one forked child works through a
  // whole batch, streaming one verdict per case; when it dies, the case without a verdict is the culprit and the rest
  // of the batch continues in a fresh child.
  using Job = TJob;
  vector<Job> jobs;
  size_t pending = 0;
  // upper bound of the number of read callbacks of a fault-free delivery: one per chunk of the file; a stream that
  // can seek is asked again by stdio's fseek (BMP: once for the pixel-array offset, once per padded row)
  // write callbacks of one save onto an unbuffered stream = pieces the format is written in (PPM: header, raster; BMP: header, then
  // row and padding per row; PNG: signature + length/type/data/CRC of IHDR, gAMA, IDAT, IEND); a large buffer needs fewer,
  // but a small buffer costs up to two (flush what is buffered, then write the piece directly)
  auto kw = [](const Job& j) { return 2 * (j.fmt == 0 ? (size_t)2 : j.fmt == 1 ? (size_t)1 + 2 * j.h : (size_t)16); };
  auto kmax = [&](const Job& j, bool seekable, size_t chunk) { return j.save ? kw(j) : (j.file.size() + chunk - 1) / chunk + (j.is_bmp && seekable ? (size_t)j.h + 3 : 0); };
  auto describe = [](const Job& j, const TCase& t) {
    return j.save ? j.name + ": " + tcase_str(t, true) : j.name + vf::fmt(" (%zu-byte file %s): ", j.file.size(), vf::show(j.file.substr(0, 40)).c_str()) + tcase_str(t);
  };
  size_t dead_children = 0;
  bool abandoned = false;
  auto flush = [&] {
    if (abandoned) {
      for (auto& j : jobs) for (size_t c = 0; c < j.mine.size(); c++) r.ok("skipped:after-24-crashes-in-this-shard");
      jobs.clear();
      pending = 0;
      return;
    }
    vector<std::pair<size_t, size_t>> flat;  // (job, case)
    for (size_t j = 0; j < jobs.size(); j++)
      for (size_t c = 0; c < jobs[j].mine.size(); c++) flat.push_back({j, c});
    size_t pos = 0;
    while (pos < flat.size()) {
      Iso iso = isolated([&] {
        string report;
        size_t cur_job = (size_t)-1;
        std::unique_ptr<TransientFile> tf;
        auto close_job = [&] {
          // callbacks of the fault-free deliveries, for the bound check in the parent
          if (tf) for (auto& b : tf->base) report += vf::fmt("%zu:%d/%zu=%zu ", cur_job, b.first.first ? 1 : 0, b.first.second, b.second.first);
          if (tf) for (auto& b : tf->wbase) report += vf::fmt("%zu:%d/%zu=%zu ", cur_job, 1, (size_t)b.first, b.second.first);
        };
        for (size_t i = pos; i < flat.size(); i++) {
          if (flat[i].first != cur_job) {
            close_job();
            cur_job = flat[i].first;
            const Job& j = jobs[cur_job];
            tf.reset(new TransientFile());
            tf->file = &j.file; tf->pic = &j.pic; tf->judged_from = j.judged_from; tf->job = &j;
          }
          string v = check_transient(*tf, jobs[cur_job].mine[flat[i].second]);
          string one = "\x03" + v + "\x04";
          if (write(2, one.data(), one.size()) < 0) break;  // delivered immediately so that a later crash cannot lose it
        }
        close_job();
        return report;
      }, 900);
      vector<string> verdicts;
      for (size_t a = iso.raw.find('\x03'); a != string::npos; a = iso.raw.find('\x03', a + 1)) {
        size_t b = iso.raw.find('\x04', a);
        if (b == string::npos) break;
        verdicts.push_back(iso.raw.substr(a + 1, b - a - 1));
      }
      for (size_t i = 0; i < verdicts.size() && pos + i < flat.size(); i++) {
        const Job& j = jobs[flat[pos + i].first];
        const TCase& t = j.mine[flat[pos + i].second];
        r.cur = t.idx;
        const string& v = verdicts[i];
        if (v.compare(0, 5, "FAIL ") == 0) {
          size_t tb = v.find('\t');
          r.nontriv();
          r.fail(j.family + ":" + v.substr(5, tb - 5), [&] { return describe(j, t) + ": " + v.substr(tb + 1); });
        } else if (v.compare(0, 4, "VAC ") == 0) r.ok("vacuous:" + v.substr(4));
        else if (v.compare(0, 3, "DC ") == 0) r.ok(j.family + ":dont-care:" + v.substr(3));
        else {
          if (v.find("no-fault-reached") == string::npos) r.nontriv();
          r.ok(j.family + ":" + v.substr(3));
        }
      }
      pos += std::min(verdicts.size(), flat.size() - pos);
      if (iso.normal) {
        // "<job>:<seekable>/<chunk>=<callbacks> ...": the enumeration must reach the last callback of every configuration
        const char* p = iso.verdict.c_str();
        size_t jb, ch, n;
        int sk, used = 0;
        while (sscanf(p, "%zu:%d/%zu=%zu %n", &jb, &sk, &ch, &n, &used) == 4) {
          p += used;
          if (jb < jobs.size() && n > kmax(jobs[jb], sk, ch)) {
            r.exhaustive = false;
            r.counters["configurations_with_more_callbacks_than_enumerated"]++;
          }
        }
      }
      if (pos < flat.size()) {  // the child died (or stopped) without a verdict for this case
        const Job& j = jobs[flat[pos].first];
        const TCase& t = j.mine[flat[pos].second];
        r.cur = t.idx;
        r.nontriv();
        r.fail(j.family + ":crash", [&] { return describe(j, t) + ": process died: " + iso.asan; });
        pos++;
        // A sanitizer report costs a process and about a second.  A tree on which thousands of cases die must not
        // push the section past its deadline: the rest of this file's cases are skipped (the violation is recorded),
        // and after 24 dead children the shard stops enumerating.
        size_t jb = flat[pos - 1].first;
        while (pos < flat.size() && flat[pos].first == jb) { r.ok("skipped:after-a-crash-on-the-same-file"); pos++; }
        r.exhaustive = false;
        if (++dead_children >= 24) {
          for (; pos < flat.size(); pos++) r.ok("skipped:after-24-crashes-in-this-shard");
          abandoned = true;
        }
      }
      r.beat();
    }
    jobs.clear();
    pending = 0;
  };
  auto run_file = [&](const string& name, const string& family, const string& file, const Pic& pic, bool is_bmp, int h, int pairs) {
    nfiles++;
    maxlen = std::max(maxlen, file.size());
    Job j;
    j.name = name; j.family = family; j.file = file; j.pic = pic; j.is_bmp = is_bmp; j.h = h;
    if (!is_bmp) {
      PnmHdr H = parse_pnm_header(file);
      j.judged_from = H.ok ? H.off : file.size();
    }
    auto add = [&](const TCase& t0) {
      if (!r.take()) return;
      TCase t = t0;
      t.idx = r.cur;
      if (r.wants_desc()) r.desc("load " + name + vf::fmt(" (%zu bytes): ", file.size()) + tcase_str(t));
      j.mine.push_back(t);
    };
    for (int seekable = 1; seekable >= 0; seekable--) {
      if (!seekable && !is_bmp) continue;  // netpbm loading never seeks: the same call sequence
      for (size_t chunk : seekable ? chunks : chunks_noseek) {
        size_t K = kmax(j, seekable, chunk);
        for (int e : errnos)
          for (size_t k = 0; k <= K; k++) {  // k == K: never reached (control)
            TCase t; t.seekable = seekable; t.chunk = chunk; t.nf = 1; t.k[0] = k; t.e[0] = e;
            add(t);
          }
      }
    }
    if (pairs)  // 1 (quick): 3 bytes per callback, both faults with the same errno; 2 (thorough): 4 chunk sizes x every errno pair
      for (size_t chunk : pairs == 1 ? chunks_pairs_quick : chunks_pairs) {
        size_t K = kmax(j, true, chunk);
        for (int e1 : errnos)
          for (int e2 : errnos)
            for (size_t k1 = 0; k1 < K; k1++)
              for (size_t k2 = k1 + 1; k2 < K; k2++) {
                if (pairs == 1 && e1 != e2) continue;
                TCase t; t.chunk = chunk; t.nf = 2; t.k[0] = k1; t.k[1] = k2; t.e[0] = e1; t.e[1] = e2;
                add(t);
              }
      }
    if (j.mine.empty()) return;
    pending += j.mine.size();
    jobs.push_back(std::move(j));
    if (pending >= 4000) flush();
  };
  for (auto [w, h] : dims) {
    int pairs = r.thorough() ? (((w == 1 && h == 1) || (w == 3 && h == 2)) ? 2 : 0) : ((w == 3 && h == 2) ? 1 : 0);
    for (auto& k : kinds) {
      if (k.dontcare) continue;
      if (k.extra && !((w == 2 && h == 2) || (w == 3 && h == 2) || (r.thorough() && w == 5 && h == 3))) continue;
      r.note("transient-" + k.family);
      Pic pic;
      string file = make_variant(k, w, h, 2, pic);
      run_file(vf::fmt("%s %dx%d", k.name.c_str(), w, h), k.family, file, pic, k.type == Kind::BMP, h, k.extra ? 0 : pairs);
    }
    for (int alpha = 0; alpha < 2; alpha++)
      for (int cw : {8, 16, 32, 64})
        for (auto fmt : {Image::Format::COLOR_PPM, Image::Format::WINDOWS_BITMAP}) {
          if (fmt == Image::Format::WINDOWS_BITMAP && cw != 8) continue;
          string fam = string("own-") + fmt_name(fmt);
          r.note("transient-" + fam);
          auto raw = pattern_bytes(w, h, alpha, cw, 2);
          Pic pic = pic_from_raw(raw.data(), w, h, alpha, cw);
          string file;
          try {
            file = image_from_pattern(w, h, alpha, cw, 2).save(fmt);
          } catch (const std::exception&) {
            continue;  // reported by section saveload
          }
          run_file(vf::fmt("saved %s %dx%d %s %d-bit", fmt_name(fmt), w, h, alpha ? "alpha" : "no-alpha", cw), fam, file, pic, fmt == Image::Format::WINDOWS_BITMAP, h, pairs);
        }
  }
  // the write side: save(FILE*) onto a sink where one write callback takes only part of its bytes
  vector<Spec> wspecs = {{1, 1, false, 8, 2, 0}, {3, 2, false, 8, 2, 0}, {5, 3, true, 8, 2, 0}, {2, 2, false, 16, 2, 0}, {40, 3, false, 8, 2, 0}, {7, 9, false, 8, 3, 0}};
  if (r.thorough()) for (Spec sp : {Spec{2, 3, true, 64, 4, 0}, Spec{6, 16, false, 8, 5, 0}, Spec{300, 2, true, 8, 2, 0}, Spec{2, 2, false, 8, 2, 100}}) wspecs.push_back(sp);
  uint64_t nsaves = 0;
  for (auto& sp : wspecs)
    for (int fmt = 0; fmt < 3; fmt++) {
      if (sp.cw != 8 && fmt != 0) continue;  // documented refusal
      const char* fn[3] = {"ppm", "bmp", "png"};
      Job j;
      j.save = true; j.spec = sp; j.fmt = fmt; j.h = sp.h;
      j.name = spec_name(sp) + " as " + fn[fmt];
      j.family = string("save-") + fn[fmt];
      r.note("transient-" + j.family);
      nsaves++;
      for (int bufmode = 0; bufmode < 3; bufmode++)
        for (int accept = 0; accept < 3; accept++)
          for (int e : errnos)
            for (size_t k = 0; k <= kw(j); k++) {  // the last one is never reached (control)
              if (!r.take()) continue;
              TCase t; t.nf = 1; t.k[0] = k; t.e[0] = e; t.bufmode = bufmode; t.accept = accept; t.idx = r.cur;
              if (r.wants_desc()) r.desc(j.name + ": " + tcase_str(t, true));
              j.mine.push_back(t);
            }
      if (j.mine.empty()) continue;
      pending += j.mine.size();
      jobs.push_back(std::move(j));
      if (pending >= 4000) flush();
    }
  flush();
  r.counters["images_saved_with_write_faults"] = r.shard == 0 ? nsaves : 0;
  r.counters["files"] = r.shard == 0 ? nfiles : 0;
  r.bound = vf::fmt("%llu complete files (the core container variants over %zu dims, the extra ones over 2 dims, phosg's own PPM/BMP output; longest %zu bytes), each delivered %s bytes per read callback with exactly one "
                    "callback - every index 0..N of the delivery - answered -1/EINTR and -1/EAGAIN; BMP also from a stream that cannot seek (%s bytes per callback)%s",
      (unsigned long long)nfiles, dims.size(), maxlen, "1, 3, 7, 64 and 4096", r.thorough() ? "1, 3, 7 and 64" : "1 and 7",
      r.thorough() ? "; for the 1x1 and 3x2 core files every ordered pair of callbacks (3, 7, 64, 4096 bytes per callback) x errno pair answered with a fault"
                   : "; for the 3x2 core files every ordered pair of callbacks (3 bytes per callback) answered with a fault of the same errno");
  r.bound += vf::fmt("; write side: %llu (image, format) saves through save(FILE*) onto a sink x {unbuffered, 16-byte buffer, default buffer} x every write callback index 0..N x the callback takes {nothing, one byte, half} x {EINTR, EAGAIN}",
      (unsigned long long)nsaves);
}
