// C08 (size ladder) — every string-processing function of the property on inputs whose TOTAL SIZE walks the ladder
// 2^k-1, 2^k, 2^k+1 (k = 8..17 plus three larger sizes in the quick tier; k = 8..20, 2^21+1 and 10^k-1, 10^k, 10^k+1 for k = 3..6 in the thorough tier),
// crossed with a fixed set of PERIODIC content shapes built from each function's adversarial alphabet: one character
// repeated, delimiter-only, alternating delimiter/character, self-overlapping runs ("aaa...", "abab...a"), one
// metacharacter at the first / middle / last position of an otherwise plain string, deep nesting, one huge piece.
// The exhaustive sections of C08.cc stop at length 7..10 and their "long" families use a handful of hand-picked sizes;
// an internal size threshold (a pre-sizing pass, a chunk buffer, a word-at-a-time loop) far above that range was
// invisible.  Everything here is exhaustive over ladder x shapes x parameters; references are the linear-time
// definitions of C08_ref.hh (split_context: an iterative scanner cross-checked against the recursive one).
#include <algorithm>
#include <deque>
#include <functional>
#include <string_view>

#include "C08_ref.hh"

namespace {

// ---------- ladder and shapes ------------------------------------------------------------------------------------------

vector<size_t> ladder_sizes(bool thorough, size_t cap = SIZE_MAX) {
  vector<size_t> v;
  const int kmax = thorough ? 20 : 17;
  for (int k = 8; k <= kmax; k++)
    for (int d = -1; d <= 1; d++) v.push_back(((size_t)1 << k) + d);
  if (!thorough) {
    v.push_back(((size_t)1 << 18) - 1);
    v.push_back((size_t)1 << 19);
    v.push_back(((size_t)1 << 20) + 1);
  } else {
    v.push_back(((size_t)1 << 21) + 1);
    // decimal thresholds as well: 10^k-1, 10^k, 10^k+1 for k = 3..6
    for (size_t p = 1000; p <= 1000000; p *= 10)
      for (int d = -1; d <= 1; d++) v.push_back(p + d);
    std::sort(v.begin(), v.end());
  }
  vector<size_t> out;
  for (size_t n : v) if (n <= cap) out.push_back(n);
  return out;
}
string ladder_text(bool thorough) {
  return thorough ? "2^k-1, 2^k, 2^k+1 for k = 8..20, 2^21+1 and 10^k-1, 10^k, 10^k+1 for k = 3..6 (52 sizes)" : "2^k-1, 2^k, 2^k+1 for k = 8..17 and 2^18-1, 2^19, 2^20+1 (33 sizes)";
}

// unit repeated and cut to exactly n bytes
string rep(const string& unit, size_t n) {
  string s;
  s.reserve(n);
  while (s.size() + unit.size() <= n) s += unit;
  s.append(unit, 0, n - s.size());
  return s;
}

struct Shape {
  string name;
  std::function<string(size_t)> make;
};
Shape P(const string& unit) {  // periodic
  return Shape{vf::show(unit) + " repeated", [unit](size_t n) { return rep(unit, n); }};
}
// `tok` once at the first / middle / last position of a string of `filler`
void add_once(vector<Shape>& v, char filler, const string& tok) {
  static const char* W[3] = {"first", "middle", "last"};
  for (int where = 0; where < 3; where++) {
    v.push_back(Shape{vf::show(tok) + " once at the " + W[where] + " position of a run of " + vf::show(string(1, filler)), [filler, tok, where](size_t n) {
      string s(n, filler);
      if (tok.size() > n) return s;
      size_t at = where == 0 ? 0 : (where == 1 ? (n - tok.size()) / 2 : n - tok.size());
      s.replace(at, tok.size(), tok);
      return s;
    }});
  }
}
// prefix + filler run + suffix, n bytes in total
Shape wrapped(const string& pre, const string& unit, const string& suf) {
  return Shape{vf::show(pre) + " + " + vf::show(unit) + " repeated + " + vf::show(suf), [pre, unit, suf](size_t n) {
    if (n < pre.size() + suf.size()) return rep(pre + suf, n);
    return pre + rep(unit, n - pre.size() - suf.size()) + suf;
  }};
}

template <class Str>
Str conv(const string& s) {
  if constexpr (sizeof(typename Str::value_type) == 1) return s;
  else {
    Str w;
    w.reserve(s.size());
    for (unsigned char c : s) w.push_back((typename Str::value_type)c);
    return w;
  }
}

template <class Str>
string diff_str(const Str& got, const Str& want) {
  size_t i = 0;
  while (i < got.size() && i < want.size() && got[i] == want[i]) i++;
  string d = vf::fmt("result has %zu characters, expected %zu", got.size(), want.size());
  if (i < got.size() || i < want.size()) {
    d += vf::fmt("; first difference at offset %zu (", i);
    d += i < got.size() ? vf::fmt("got 0x%llX", (unsigned long long)(typename std::make_unsigned<typename Str::value_type>::type)got[i]) : string("got end of string");
    d += i < want.size() ? vf::fmt(", expected 0x%llX)", (unsigned long long)(typename std::make_unsigned<typename Str::value_type>::type)want[i]) : string(", expected end of string)");
  }
  return d;
}
template <class Str>
string diff_vec(const vector<Str>& got, const vector<Str>& want) {
  size_t i = 0;
  while (i < got.size() && i < want.size() && got[i] == want[i]) i++;
  string d = vf::fmt("%zu pieces, expected %zu", got.size(), want.size());
  if (i < got.size() && i < want.size()) d += vf::fmt("; first differing piece is #%zu: ", i) + diff_str(got[i], want[i]);
  else if (i < got.size() || i < want.size()) d += vf::fmt("; the first %zu pieces agree", i);
  return d;
}

// ---------- split --------------------------------------------------------------------------------------------------------

template <class Str>
void ladder_split(vf::Run& r, const char* fname, const vector<size_t>& sizes) {
  using Ch = typename Str::value_type;
  r.note(string(fname) + " (size ladder)");
  vector<Shape> shapes = {P("a"), P(","), P("a,"), P(",a"), P(",,a"), P("aaa,"), P(string(255, 'a') + ","), P(string(256, 'a') + ",")};
  add_once(shapes, 'a', ",");
  add_once(shapes, ',', "a");
  const size_t limits[] = {0, 1, 4096, SIZE_MAX};
  const Ch d = (Ch)',';
  for (size_t n : sizes) {
    for (const Shape& sh : shapes) {
      for (size_t m : limits) {
        if (!r.take()) continue;
        auto call = [&] { return vf::fmt("%s(<%zu characters: %s>, ',', max_splits=%zu)", fname, n, sh.name.c_str(), m); };
        if (r.wants_desc()) r.desc(call());
        const Str s = conv<Str>(sh.make(n));
        vector<Str> got;
        string what;
        r.poison_errno();
        string oc = vf::outcome([&] { got = phosg::split(s, d, m); }, &what);
        r.nontriv();
        if (oc != "ok") {
          r.fail(string(fname) + ":throws", [&] { return call() + " threw " + oc + " (" + what + ")"; });
          continue;
        }
        const vector<Str> want = ref_split(s, d, m);
        bool bad = false;
        if (got != want) {
          bad = true;
          r.fail(string(fname) + ":pieces", [&] { return call() + ": " + diff_vec(got, want) + " (reference: cut at the first max_splits delimiters, all of them when max_splits is 0)"; });
        }
        if constexpr (sizeof(Ch) == 1) {
          string j1 = phosg::join(got, d);
          const string ds(1, d);
          string j2 = phosg::join(got, ds);
          if (!bad && (j1 != s || j2 != s)) {
            bad = true;
            r.fail("join:split-roundtrip", [&] { return "join(" + call() + ", ',') : " + diff_str(j1 != s ? j1 : j2, s); });
          }
        }
        if (!bad) r.ok(got.size() == 1 ? "split: one piece" : (is_capped(count_char(s, d), m) ? "split: capped by max_splits" : "split: at every delimiter"));
      }
    }
  }
}

// ---------- join ---------------------------------------------------------------------------------------------------------

struct JoinCase {
  string name;
  vector<string> items;
  string delim;
};
const int N_JOIN_SHAPES = 9;
JoinCase make_join(int shape, size_t n) {  // total size of the joined text is exactly n (n >= 255)
  JoinCase c;
  switch (shape) {
    case 0:
      c.name = "n one-character items, empty delimiter";
      c.items.assign(n, "a");
      break;
    case 1: {
      c.name = "one-character items joined by \",\" (the last item absorbs the parity)";
      size_t k = (n + 1) / 2;
      c.items.assign(k, "a");
      if (2 * k - 1 < n) c.items.back() = "aa";
      c.delim = ",";
      break;
    }
    case 2:
      c.name = "n+1 empty items joined by \",\" (delimiters only)";
      c.items.assign(n + 1, "");
      c.delim = ",";
      break;
    case 3: {
      c.name = "255-character items joined by \",\" (period 256), remainder in the last item";
      size_t k = (n + 1) / 256;
      c.items.assign(k, string(255, 'b'));
      size_t total = 256 * k - 1;
      if (n > total) c.items.push_back(string(n - total - 1, 'c'));
      c.delim = ",";
      break;
    }
    case 4:
      c.name = "an empty item, then one item of n-1 characters";
      c.items = {"", rep("xy", n - 1)};
      c.delim = ",";
      break;
    case 5:
      c.name = "one item of n-1 characters, then an empty item";
      c.items = {rep("xy", n - 1), ""};
      c.delim = ",";
      break;
    case 6: {
      c.name = "two empty items and a short one joined by a delimiter of n/2 characters";
      size_t dl = n / 2;
      c.delim = rep("-+", dl);
      c.items = {"", "", string(n - 2 * dl, 'z')};
      break;
    }
    case 7:
      c.name = "n items that are one NUL byte each, empty delimiter";
      c.items.assign(n, string(1, '\0'));
      break;
    case 8: {
      c.name = "one-character items joined by \",\\0\" (delimiter with an embedded NUL; the last item absorbs the remainder)";
      size_t k = (n + 2) / 3;  // 3k-2 <= n
      c.items.assign(k, "a");
      c.items.back() = string(n - (3 * k - 2) + 1, 'a');
      c.delim = string(",\0", 2);
      break;
    }
  }
  return c;
}

void ladder_join(vf::Run& r, const vector<size_t>& sizes) {
  r.note("join (size ladder)");
  for (size_t n : sizes) {
    for (int shape = 0; shape < N_JOIN_SHAPES; shape++) {
      if (!r.take()) continue;
      JoinCase c = make_join(shape, n);
      auto call = [&] { return vf::fmt("join of %zu items (%s), joined size %zu", c.items.size(), c.name.c_str(), n); };
      if (r.wants_desc()) r.desc(call());
      r.nontriv();
      const string want = ref_join<string>(c.items, c.delim);
      if (want.size() != n) {
        r.fail("harness:ladder-join-size", [&] { return "internal: " + call() + vf::fmt(" builds %zu bytes", want.size()); });
        continue;
      }
      bool bad = false;
      auto check = [&](const char* how, const string& got) {
        if (got != want) {
          bad = true;
          r.fail("join:definition", [&] { return call() + vf::fmt(" [%s]: ", how) + diff_str(got, want); });
        }
      };
      const string cdelim = c.delim;
      string mdelim = c.delim;
      std::string_view sv(c.delim);
      const bool nulfree = c.delim.find('\0') == string::npos;
      r.poison_errno();
      check("vector<string>, const std::string delimiter", phosg::join(c.items, cdelim));
      check("vector<string>, std::string delimiter", phosg::join(c.items, mdelim));
      check("vector<string>, string_view delimiter", phosg::join(c.items, sv));
      if (mdelim != c.delim) {
        bad = true;
        r.fail("join:definition", [&] { return call() + ": the std::string delimiter object was modified by the call"; });
      }
      if (nulfree) {
        const char* p = c.delim.c_str();
        check("vector<string>, const char* delimiter", phosg::join(c.items, p));
      }
      if (c.delim.size() == 1) {
        char ch = c.delim[0];
        check("vector<string>, char delimiter", phosg::join(c.items, ch));
      }
      if (c.delim.empty()) check("vector<string>, no delimiter argument", phosg::join(c.items));
      {
        std::deque<string> dq(c.items.begin(), c.items.end());
        check("deque<string>, const std::string delimiter", phosg::join(dq, cdelim));
        vector<std::string_view> svs(c.items.begin(), c.items.end());
        check("vector<string_view>, string_view delimiter", phosg::join(svs, sv));
      }
      if (!bad) r.ok("join: ladder");
    }
  }
}

// ---------- split_context ---------------------------------------------------------------------------------------------------

// Iterative form of the scanner of C08_ref.hh (the recursive one would overflow the stack on the deep-nesting shapes).
// Same reading: ( [ { < open groups, ' and " quote, backslash escapes inside quotes only; a stray closer or a
// backslash outside quotes makes the input a don't-care (ambiguous).  Cross-checked against the recursive scanner on
// every string up to length 6 over its alphabet (case 0 of the section).
struct IterScan {
  bool ambiguous = false, balanced = true;
  vector<size_t> top;
  IterScan(const string& s, char d) {
    if (Scan::closer_for(d) || Scan::is_closer(d) || d == '\'' || d == '"' || d == '\\') ambiguous = true;
    string st;  // expected closers, innermost last
    const size_t n = s.size();
    for (size_t i = 0; i < n; i++) {
      const char c = s[i];
      if (!st.empty() && (st.back() == '\'' || st.back() == '"')) {
        if (c == '\\') i++;  // escaped character (if the text ends here the string stays open)
        else if (c == st.back()) st.pop_back();
        continue;
      }
      if (!st.empty() && c == st.back()) {
        st.pop_back();
      } else if (c == '\'' || c == '"') {
        st.push_back(c);
      } else if (Scan::closer_for(c)) {
        st.push_back(Scan::closer_for(c));
      } else {
        if (Scan::is_closer(c) || c == '\\') ambiguous = true;
        if (st.empty() && c == d) top.push_back(i);
      }
    }
    balanced = st.empty();
  }
};

void ladder_split_context(vf::Run& r, const vector<size_t>& sizes) {
  r.note("split_context (size ladder)");
  // case 0: the iterative reference agrees with the recursive one wherever the latter is unambiguous
  if (r.take()) {
    if (r.wants_desc()) r.desc("reference self-check: iterative bracket/quote scanner == recursive scanner on every string up to length 6 over {a , ( ) [ ' \" \\ >}");
    size_t n = 0, bad = 0;
    string first;
    vf::all_strings("a,()['\"\\>", 6, [&](const string& s) {
      Scan a(s, ',');
      IterScan b(s, ',');
      n++;
      if (a.ambiguous != b.ambiguous || (!a.ambiguous && (a.balanced != b.balanced || (a.balanced && a.top != b.top)))) {
        if (!bad++) first = s;
      }
    });
    if (bad) r.fail("harness:ladder-scanner-disagrees", [&] { return vf::fmt("internal: the iterative scanner disagrees with the recursive reference on %zu of %zu strings, first %s", bad, n, vf::show(first).c_str()); });
    else r.ok("reference self-check");
  }
  vector<Shape> shapes = {P("a"), P(","), P("a,"), P("(,)"), P("(a),"), P("[{,}],"), P("'\\'',"), P("\"a,\\\\\","), P("<(a),>,"), wrapped("'", ",", "'"), wrapped("(", ",", ")"), wrapped("\"", "\\\"", "\""),
      P("("), P("'")};
  shapes.push_back(Shape{"n/2 opening brackets of the four kinds, delimiters, the matching closers (nesting depth n/2)", [](size_t n) {
    size_t h = (n - 1) / 2;
    string open = rep("([{<", h), close;
    for (size_t i = h; i-- > 0;) close.push_back(Scan::closer_for(open[i]));
    return open + string(n - 2 * h, ',') + close;
  }});
  add_once(shapes, 'a', ",");
  add_once(shapes, 'a', "(");
  add_once(shapes, 'a', "'");
  add_once(shapes, ',', "()");
  add_once(shapes, ',', "(a,a)");
  const size_t limits[] = {0, 1, SIZE_MAX};
  for (size_t n : sizes) {
    for (const Shape& sh : shapes) {
      for (size_t m : limits) {
        if (!r.take()) continue;
        auto call = [&] { return vf::fmt("split_context(<%zu characters: %s>, ',', max_splits=%zu)", n, sh.name.c_str(), m); };
        if (r.wants_desc()) r.desc(call());
        const string s = sh.make(n);
        vector<string> got;
        string what;
        r.poison_errno();
        string oc = vf::outcome([&] { got = phosg::split_context(s, ',', m); }, &what);
        r.nontriv();
        if (oc != "ok" && oc != "runtime_error") {
          r.fail("split_context:exception-type", [&] { return call() + " threw " + oc + " (" + what + "); only runtime_error is documented"; });
          continue;
        }
        bool bad = false;
        if (oc == "ok") {
          // model-free laws, whenever it returns
          if (ref_join<string>(got, string(1, ',')) != s) {
            bad = true;
            r.fail("split_context:concat-law", [&] { return call() + ": the pieces joined by the delimiter are not the input: " + diff_str(ref_join<string>(got, string(1, ',')), s); });
          }
          if (got.empty() || (m > 0 && got.size() - 1 > m)) {
            bad = true;
            r.fail("split_context:piece-count-cap", [&] { return call() + vf::fmt(" returned %zu pieces (must be 1..max_splits+1)", got.size()); });
          }
        }
        IterScan sc(s, ',');
        if (sc.ambiguous) {
          if (!bad) r.ok("split_context: dont-care(stray closer or backslash outside quotes)");
          continue;
        }
        if (oc == "ok" && !sc.balanced) {
          r.fail("split_context:accepts-unbalanced", [&] { return call() + vf::fmt(" returned %zu pieces although a bracket or quote is never closed", got.size()); });
          continue;
        }
        if (oc != "ok" && sc.balanced) {
          r.fail("split_context:rejects-balanced", [&] { return call() + " threw (" + what + ") although every bracket and quote is closed"; });
          continue;
        }
        if (oc != "ok") {
          if (!bad) r.ok("split_context: unbalanced, runtime_error");
          continue;
        }
        const vector<string> want = cut_at(s, sc.top, m);
        if (got != want) {
          bad = true;
          r.fail("split_context:pieces", [&] { return call() + vf::fmt(": %zu top-level delimiters; ", sc.top.size()) + diff_vec(got, want); });
        }
        if (!bad) r.ok(sc.top.empty() ? "split_context: one piece" : (is_capped(sc.top.size(), m) ? "split_context: capped by max_splits" : "split_context: at every top-level delimiter"));
      }
    }
  }
}

// ---------- split_args ---------------------------------------------------------------------------------------------------------

void ladder_split_args(vf::Run& r, const vector<size_t>& sizes) {
  r.note("split_args (size ladder)");
  vector<Shape> shapes = {P("a"), P(" "), P("\t"), P("a "), P(" a"), P("a\t "), P("ab  "), P("'a' "), P("\"a b\" "), P("\\ "), P("\\a"), P("a\\\"b "), P(string(255, 'a') + " "), wrapped("\"", "a ", "\""),
      wrapped("'", "\\'", "'"), wrapped("a", "\\\\", " b")};
  add_once(shapes, 'a', " ");
  add_once(shapes, 'a', "\"");
  add_once(shapes, 'a', "\\");
  add_once(shapes, ' ', "a");
  add_once(shapes, ' ', "'a a'");
  for (size_t n : sizes) {
    for (const Shape& sh : shapes) {
      if (!r.take()) continue;
      auto call = [&] { return vf::fmt("split_args(<%zu characters: %s>)", n, sh.name.c_str()); };
      if (r.wants_desc()) r.desc(call());
      const string s = sh.make(n);
      vector<string> got;
      string what;
      r.poison_errno();
      string oc = vf::outcome([&] { got = phosg::split_args(s); }, &what);
      const ArgsRef ref = ref_split_args(s);
      r.nontriv();
      if (oc != "ok" && oc != "runtime_error") {
        r.fail("split_args:exception-type", [&] { return call() + " threw " + oc + " (" + what + ")"; });
      } else if (ref.error) {
        if (oc == "runtime_error") r.ok("split_args: malformed, runtime_error");
        else r.fail("split_args:accepts-malformed", [&] { return call() + vf::fmt(" returned %zu arguments; expected runtime_error (dangling backslash or unterminated quote)", got.size()); });
      } else if (oc != "ok") {
        r.fail("split_args:rejects-wellformed", [&] { return call() + " threw (" + what + vf::fmt("), the reference gives %zu arguments", ref.args.size()); });
      } else if (ref.has_empty) {
        r.ok("split_args: dont-care(empty quoted argument)");
      } else if (got != ref.args) {
        r.fail("split_args:wrong-value", [&] { return call() + ": " + diff_vec(got, ref.args) + " (shell-style reference)"; });
      } else r.ok(got.empty() ? "split_args: no arguments" : (got.size() == 1 ? "split_args: one argument" : "split_args: several arguments"));
    }
  }
}

// ---------- in-place helpers ----------------------------------------------------------------------------------------------------

template <class Str, class Real, class Ref>
void ladder_inplace(vf::Run& r, const string& fname, const vector<size_t>& sizes, const vector<Shape>& shapes, Real real, Ref ref) {
  r.note(fname + " (size ladder)");
  for (size_t n : sizes) {
    for (const Shape& sh : shapes) {
      for (int prior = 0; prior < 2; prior++) {  // a fresh object / an object that held 2n+64 other characters before
        if (!r.take()) continue;
        auto call = [&] { return vf::fmt("%s(<%zu characters: %s>) on %s", fname.c_str(), n, sh.name.c_str(), prior ? "an object that held a longer string of '/' and '*' before" : "a fresh object"); };
        if (r.wants_desc()) r.desc(call());
        const Str s = conv<Str>(sh.make(n));
        bool must_throw = false;
        const Str want = ref(s, &must_throw);
        Str obj;
        if (prior) obj = conv<Str>(rep("/*", 2 * n + 64));
        obj.assign(s.data(), s.size());
        string what;
        r.poison_errno();
        string oc = vf::outcome([&] { real(obj); }, &what);
        r.nontriv();
        if (must_throw) {
          if (oc == "runtime_error") r.ok("rejected: runtime_error");
          else r.fail(fname + ":unterminated-not-rejected", [&] { return call() + (oc == "ok" ? " returned" : " threw " + oc) + ", expected runtime_error (comment never closed)"; });
        } else if (oc != "ok") {
          r.fail(fname + ":throws", [&] { return call() + " threw " + oc + " (" + what + ")"; });
        } else if (obj != want) {
          r.fail(fname + ":wrong-value", [&] { return call() + ": " + diff_str(obj, want); });
        } else r.ok(want.empty() ? "everything removed" : (want.size() == s.size() ? "unchanged" : "partly removed"));
      }
    }
  }
}

vector<Shape> strip_shapes(const string& strip_unit, char strip1) {
  vector<Shape> v = {P("a"), P(strip_unit), P(string("a") + strip1), P(string(1, strip1) + "a"), wrapped("a", strip_unit, ""), wrapped("", strip_unit, "a"), wrapped("a", strip_unit, "a"),
      wrapped(strip_unit, "a", strip_unit)};
  v.push_back(Shape{"n/2 strippable characters, then 'a's", [strip_unit](size_t n) { return rep(strip_unit, n / 2) + string(n - n / 2, 'a'); }});
  v.push_back(Shape{"n/2 'a's, then strippable characters", [strip_unit](size_t n) { return string(n / 2, 'a') + rep(strip_unit, n - n / 2); }});
  add_once(v, strip1, "a");
  add_once(v, 'a', string(1, strip1));
  return v;
}

// ---------- str_replace_all ---------------------------------------------------------------------------------------------------

void ladder_replace(vf::Run& r, const vector<size_t>& sizes) {
  r.note("str_replace_all (size ladder)");
  struct Target {
    string t;
    vector<string> units;  // periodic subjects: runs where occurrences overlap, abut, alternate with other text
  };
  const vector<Target> targets = {
      {"a", {"a", "ab", "b"}},
      {"aa", {"a", "aab", "aaab", "ab"}},        // 'aa' overlaps itself in 'aaa'
      {"aba", {"ab", "aba", "abab", "abaab", "b"}},  // 'aba' overlaps itself in 'ababa'
      {"ab", {"ab", "aab", "abb", "ba", "a"}},
      {"abcab", {"abc", "abcab", "abcabx", "ab"}},  // overlaps itself by two characters
  };
  for (size_t n : sizes) {
    for (const Target& T : targets) {
      const string& t = T.t;
      // replacement shapes relative to the target: empty, shorter, the target itself, equal length, longer, much
      // longer and containing the target, the target twice (self-overlap grows), one character longer
      vector<string> repls = {"", "x", t, string(t.size(), 'y'), t + "x", "<" + t + t + ">", t + t, "yz" + string(t.size() - 1, 'q')};
      if (t.size() > 2) repls.push_back(t.substr(0, t.size() - 1));  // shorter, a prefix of the target
      vector<Shape> subjects;
      for (const string& u : T.units) subjects.push_back(P(u));
      add_once(subjects, 'x', t);
      subjects.push_back(wrapped(t, "x", t));
      for (const Shape& sh : subjects) {
        for (const string& rp : repls) {
          if (!r.take()) continue;
          auto call = [&] { return vf::fmt("str_replace_all(<%zu characters: %s>, %s, %s)", n, sh.name.c_str(), vf::show(t).c_str(), vf::show(rp).c_str()); };
          if (r.wants_desc()) r.desc(call());
          const string s = sh.make(n);
          const string want = ref_replace(s, t, rp);
          char* tp = strdup(t.c_str());  // exact-size heap copies: a read past the terminator is an ASan report
          char* rpp = strdup(rp.c_str());
          string got;
          r.poison_errno();
          string oc = vf::outcome([&] { got = phosg::str_replace_all(s, tp, rpp); });
          free(tp);
          free(rpp);
          if (s.find(t) != string::npos) r.nontriv();
          if (oc != "ok") r.fail("str_replace_all:throws", [&] { return call() + " threw " + oc; });
          else if (got != want) r.fail("str_replace_all:wrong-value", [&] { return call() + ": " + diff_str(got, want) + " (reference: leftmost occurrences, left to right, without overlap, replacement not rescanned)"; });
          else r.ok(s.find(t) == string::npos ? "replace: no occurrence" : (rp.size() > t.size() ? "replace: result grows" : (rp.size() < t.size() ? "replace: result shrinks" : "replace: same length")));
        }
      }
    }
  }
}

// ---------- toupper / tolower, starts_with / ends_with, skip_* -----------------------------------------------------------------------

void ladder_case(vf::Run& r, const vector<size_t>& sizes) {
  r.note("toupper/tolower (size ladder)");
  string allbytes;
  for (int i = 1; i <= 256; i++) allbytes.push_back((char)(i & 0xFF));
  vector<Shape> shapes = {P("a"), P("Z"), P("aZ"), P("@[`{"), P("az AZ09"), P(allbytes), P("\xe1\xc1\xff"), P(string("a\0Z", 3))};
  add_once(shapes, '-', "q");
  add_once(shapes, '-', "Q");
  add_once(shapes, 'a', "-");
  add_once(shapes, 'Z', "[");
  for (size_t n : sizes) {
    for (const Shape& sh : shapes) {
      if (!r.take()) continue;
      auto call = [&] { return vf::fmt("(<%zu bytes: %s>)", n, sh.name.c_str()); };
      if (r.wants_desc()) r.desc("toupper/tolower" + call());
      const string s = sh.make(n);
      r.poison_errno();
      const string gu = phosg::toupper(s), gl = phosg::tolower(s);
      const string wu = ref_upper(s), wl = ref_lower(s);
      r.nontriv();
      if (gu != wu) r.fail("toupper:wrong-value", [&] { return "toupper" + call() + ": " + diff_str(gu, wu); });
      if (gl != wl) r.fail("tolower:wrong-value", [&] { return "tolower" + call() + ": " + diff_str(gl, wl); });
      if (gu == wu && gl == wl) r.ok("case: ladder");
    }
  }
}

void ladder_affix(vf::Run& r, const vector<size_t>& sizes) {
  r.note("starts_with/ends_with (size ladder)");
  const char* units[] = {"a", "ab", "abc"};
  for (size_t n : sizes) {
    for (const char* u : units) {
      for (int lk = 0; lk < 7; lk++) {  // affix length: 0, 1, n/2, n-1, n, n+1, 2n
        for (int flip = 0; flip < 4; flip++) {  // exact / first / middle / last byte of the affix differs
          if (!r.take()) continue;
          const size_t pl = lk == 0 ? 0 : (lk == 1 ? 1 : (lk == 2 ? n / 2 : (lk == 3 ? n - 1 : (lk == 4 ? n : (lk == 5 ? n + 1 : 2 * n)))));
          if (r.wants_desc()) r.desc(vf::fmt("starts_with/ends_with(<%zu bytes: \"%s\" repeated>, <%zu-byte affix, variant %d>)", n, u, pl, flip));
          const string s = rep(u, n);
          string pre = pl <= n ? s.substr(0, pl) : s + rep(u, pl - n);
          string suf = pl <= n ? s.substr(n - pl) : rep(u, pl - n) + s;
          if (pl) {
            size_t at = flip == 1 ? 0 : (flip == 2 ? pl / 2 : pl - 1);
            if (flip) { pre[at] ^= 1; suf[at] ^= 1; }
          }
          r.poison_errno();
          const bool gs = phosg::starts_with(s, pre), ge = phosg::ends_with(s, suf);
          const bool ws = ref_starts(s, pre), we = ref_ends(s, suf);
          r.nontriv();
          if (gs != ws) r.fail("starts_with:wrong-value", [&] { return vf::fmt("starts_with(<%zu bytes: \"%s\" repeated>, <%zu-byte prefix, variant %d>) == %d, expected %d", n, u, pl, flip, gs, ws); });
          if (ge != we) r.fail("ends_with:wrong-value", [&] { return vf::fmt("ends_with(<%zu bytes: \"%s\" repeated>, <%zu-byte suffix, variant %d>) == %d, expected %d", n, u, pl, flip, ge, we); });
          if (gs == ws && ge == we) r.ok(vf::fmt("affix: starts=%d ends=%d", ws, we));
        }
      }
    }
  }
}

void ladder_skip(vf::Run& r, const vector<size_t>& sizes) {
  r.note("skip_* (size ladder)");
  vector<Shape> shapes = {P("a"), P(" "), P(" \t\r\n"), P("a "), P(" a"), P("ab \n"), wrapped("", " ", "a"), wrapped("", "a", " "), wrapped(" ", "a", " "), wrapped("a", "\t", "a")};
  shapes.push_back(Shape{"n/2 blanks, then 'a's", [](size_t n) { return string(n / 2, ' ') + string(n - n / 2, 'a'); }});
  shapes.push_back(Shape{"n/2 'a's, then blanks", [](size_t n) { return string(n / 2, 'a') + string(n - n / 2, '\n'); }});
  add_once(shapes, ' ', "a");
  add_once(shapes, 'a', " ");
  static const char* keys[6] = {"skip_whitespace(string)", "skip_non_whitespace(string)", "skip_word(string)", "skip_whitespace(cstr)", "skip_non_whitespace(cstr)", "skip_word(cstr)"};
  for (size_t n : sizes) {
    for (const Shape& sh : shapes) {
      if (!r.take()) continue;
      if (r.wants_desc()) r.desc(vf::fmt("skip_whitespace / skip_non_whitespace / skip_word, std::string and const char* overloads, on <%zu characters: %s> from offsets 0, 1, n/2-1, n/2, n-1, n", n, sh.name.c_str()));
      const string s = sh.make(n);
      char* p = (char*)malloc(n + 1);  // exact-size copy: a read past the terminator is an ASan report
      memcpy(p, s.c_str(), n + 1);
      r.nontriv();
      bool bad = false;
      for (size_t off : {(size_t)0, (size_t)1, n / 2 - 1, n / 2, n - 1, n}) {
        const size_t w_ws = ref_first_from(s, off, false), w_nws = ref_first_from(s, off, true), w_word = ref_first_from(s, w_nws, false);
        r.poison_errno();
        const size_t g[6] = {phosg::skip_whitespace(s, off), phosg::skip_non_whitespace(s, off), phosg::skip_word(s, off),
            phosg::skip_whitespace((const char*)p, off), phosg::skip_non_whitespace((const char*)p, off), phosg::skip_word((const char*)p, off)};
        const size_t w[6] = {w_ws, w_nws, w_word, w_ws, w_nws, w_word};
        for (int i = 0; i < 6; i++) {
          if (g[i] != w[i]) {
            bad = true;
            r.fail(string(keys[i]) + ":wrong-value", [&] { return vf::fmt("%s(<%zu characters: %s>, %zu) == %zu, expected %zu", keys[i], n, sh.name.c_str(), off, g[i], w[i]); });
          }
        }
      }
      free(p);
      if (!bad) r.ok("skip: ladder");
    }
  }
}

// ---------- string_printf / string_vprintf ---------------------------------------------------------------------------------------

string text_without_percent(size_t n) {
  string t = pattern(n);
  for (char& c : t) if (c == '%') c = '_';
  return t;
}

#pragma GCC diagnostic push
#pragma GCC diagnostic ignored "-Wformat-security"
#pragma GCC diagnostic ignored "-Wformat-nonliteral"
void ladder_printf(vf::Run& r, const vector<size_t>& sizes) {
  r.note("string_printf (size ladder)");
  static const char* FN[] = {"\"%s\"", "\"%*d\"", "\"%-*d|\"", "format text of the result length without conversions", "format text with \"%d\" at its first position", "format text with \"%d\" in its middle",
      "format text with \"%d\" at its last position", "\"%s%s\" (two halves)", "\"%c%s\" (leading NUL character)", "\"%s|%*s\" (half text, half padding)"};
  for (size_t L : sizes) {
    for (int form = 0; form < 10; form++) {
      if (!r.take()) continue;
      auto call = [&] { return vf::fmt("(%s) with a result of %zu bytes", FN[form], L); };
      if (r.wants_desc()) r.desc("string_printf / string_vprintf " + call());
      string want, a1, a2, fmt;
      std::function<string(bool)> real;
      switch (form) {
        case 0:
          a1 = pattern(L);
          want = a1;
          real = [&](bool v) { return v ? via_vprintf("%s", a1.c_str()) : phosg::string_printf("%s", a1.c_str()); };
          break;
        case 1:
          want = string(L - 1, ' ') + "7";
          real = [&](bool v) { return v ? via_vprintf("%*d", (int)L, 7) : phosg::string_printf("%*d", (int)L, 7); };
          break;
        case 2:
          want = "-7" + string(L - 3, ' ') + "|";
          real = [&](bool v) { return v ? via_vprintf("%-*d|", (int)(L - 1), -7) : phosg::string_printf("%-*d|", (int)(L - 1), -7); };
          break;
        case 3:
          fmt = want = text_without_percent(L);
          real = [&](bool v) { return v ? via_vprintf(fmt.c_str()) : phosg::string_printf(fmt.c_str()); };
          break;
        case 4:
        case 5:
        case 6: {
          string t = text_without_percent(L - 1);
          size_t at = form == 4 ? 0 : (form == 5 ? t.size() / 2 : t.size());
          fmt = t.substr(0, at) + "%d" + t.substr(at);
          want = t.substr(0, at) + "7" + t.substr(at);
          real = [&](bool v) { return v ? via_vprintf(fmt.c_str(), 7) : phosg::string_printf(fmt.c_str(), 7); };
          break;
        }
        case 7:
          a1 = pattern(L / 2);
          a2 = text_without_percent(L - L / 2);
          want = a1 + a2;
          real = [&](bool v) { return v ? via_vprintf("%s%s", a1.c_str(), a2.c_str()) : phosg::string_printf("%s%s", a1.c_str(), a2.c_str()); };
          break;
        case 8:
          a1 = pattern(L - 1);
          want = string(1, '\0') + a1;
          real = [&](bool v) { return v ? via_vprintf("%c%s", 0, a1.c_str()) : phosg::string_printf("%c%s", 0, a1.c_str()); };
          break;
        case 9:
          a1 = pattern(L / 2);
          want = a1 + "|" + string(L - L / 2 - 2, ' ') + "x";
          real = [&](bool v) { return v ? via_vprintf("%s|%*s", a1.c_str(), (int)(L - L / 2 - 1), "x") : phosg::string_printf("%s|%*s", a1.c_str(), (int)(L - L / 2 - 1), "x"); };
          break;
      }
      r.nontriv();
      if (want.size() != L) {
        r.fail("harness:ladder-printf-size", [&] { return "internal: " + call() + vf::fmt(": expectation has %zu bytes", want.size()); });
        continue;
      }
      bool bad = false;
      for (int entry = 0; entry < 2; entry++) {
        const char* fn = entry ? "string_vprintf" : "string_printf";
        string got;
        r.poison_errno();
        string oc = vf::outcome([&] { got = real(entry == 1); });
        if (oc != "ok") {
          bad = true;
          r.fail(string(fn) + ":throws", [&] { return string(fn) + call() + " threw " + oc; });
        } else if (got.size() != want.size()) {
          bad = true;
          r.fail(string(fn) + ":wrong-length", [&] { return string(fn) + call() + ": " + diff_str(got, want); });
        } else if (got != want) {
          bad = true;
          r.fail(string(fn) + ":wrong-value", [&] { return string(fn) + call() + ": " + diff_str(got, want); });
        }
      }
      if (!bad) r.ok("printf: ladder");
    }
  }
}
#pragma GCC diagnostic pop

}  // namespace

// =====================================================================================================================

VF_SECTION(ladder_split, 16, 16, 150) {
  const vector<size_t> sizes = ladder_sizes(r.thorough());
  ladder_split<string>(r, "split", sizes);
  ladder_split<wstring>(r, "split(wstring)", sizes);
  ladder_join(r, sizes);
  ladder_split_context(r, sizes);
  ladder_split_args(r, sizes);
  r.bound = "total input (join: output) size on the ladder " + ladder_text(r.thorough()) +
            "; split(std::string) and split(std::wstring): 14 shapes (one character repeated, delimiter only, alternating delimiter/character in both phases, \",,a\", \"aaa,\", pieces of 255 and 256 characters, one delimiter / one character at the first, middle, last position) x max_splits in {0,1,4096,SIZE_MAX}, "
            "reference scanner + the library's join as inverse; join: 9 list shapes whose joined size is exactly the ladder size (n one-character items, delimiters only, 255-character items, one huge item first / last, a delimiter of n/2 characters, NUL items, delimiter with embedded NUL) "
            "x up to 9 delimiter-type / container combinations; split_context: 30 shapes (plain, delimiters only, every delimiter nested, groups of all four bracket kinds, escaped quotes in quoted strings, one quoted / bracketed run of delimiters, nesting depth n/2, unclosed brackets and quotes, "
            "one delimiter / opener / quote / group at the first, middle, last position) x max_splits in {0,1,SIZE_MAX}, iterative scanner cross-checked against the recursive reference; split_args: 31 shapes (one huge argument, blanks only, alternating, quoted, escaped blanks, 255-character arguments, "
            "one blank / quote / backslash / argument at the first, middle, last position)";
}

VF_SECTION(ladder_text, 16, 16, 150) {
  const vector<size_t> sizes = ladder_sizes(r.thorough());
  {
    const vector<Shape> ws = strip_shapes(" ", ' '), ws4 = strip_shapes(" \t\r\n", '\n'), zs = strip_shapes(string(1, '\0'), '\0');
    for (const vector<Shape>* shp : {&ws, &ws4}) {
      ladder_inplace<string>(r, "strip_trailing_whitespace", sizes, *shp, [](string& s) { phosg::strip_trailing_whitespace(s); }, [](const string& s, bool*) { return ref_rstrip_ws(s); });
      ladder_inplace<string>(r, "strip_leading_whitespace", sizes, *shp, [](string& s) { phosg::strip_leading_whitespace(s); }, [](const string& s, bool*) { return ref_lstrip_ws(s); });
      ladder_inplace<string>(r, "strip_whitespace", sizes, *shp, [](string& s) { phosg::strip_whitespace(s); }, [](const string& s, bool*) { return ref_lstrip_ws(ref_rstrip_ws(s)); });
    }
    ladder_inplace<string>(r, "strip_trailing_zeroes", sizes, zs, [](string& s) { phosg::strip_trailing_zeroes(s); }, [](const string& s, bool*) { return ref_rstrip_zero(s); });
    ladder_inplace<wstring>(r, "strip_trailing_zeroes(wstring)", sizes, zs, [](wstring& s) { phosg::strip_trailing_zeroes(s); }, [](const wstring& s, bool*) { return ref_rstrip_zero(s); });
  }
  {
    vector<Shape> cs = {P("a"), P("/"), P("*"), P("\n"), P("/*"), P("*/"), P("/**/"), P("/*/"), P("/*\n*/"), P("a/*a*/"), P("/*a\n"), P("a\n"), P("//**"), wrapped("/*", "a", "*/"), wrapped("/*", "a\n", "*/"), wrapped("/*", "*", "/"),
        wrapped("/*", "/", "*/"), wrapped("a", "/**/", "a")};
    add_once(cs, 'a', "/*");
    add_once(cs, 'a', "*/");
    add_once(cs, 'a', "/**/");
    add_once(cs, 'a', "/");
    add_once(cs, '\n', "/*");
    auto ref_throwing = [](const auto& s, bool* must_throw) {
      bool unterminated = false;
      auto w = ref_strip_comments(s, &unterminated);
      *must_throw = unterminated;
      return w;
    };
    auto ref_allowing = [](const auto& s, bool* must_throw) {
      bool unterminated = false;
      *must_throw = false;
      return ref_strip_comments(s, &unterminated);
    };
    ladder_inplace<string>(r, "strip_multiline_comments", sizes, cs, [](string& s) { phosg::strip_multiline_comments(s, false); }, ref_throwing);
    ladder_inplace<string>(r, "strip_multiline_comments(allow_unterminated)", sizes, cs, [](string& s) { phosg::strip_multiline_comments(s, true); }, ref_allowing);
    ladder_inplace<wstring>(r, "strip_multiline_comments(wstring)", sizes, cs, [](wstring& s) { phosg::strip_multiline_comments(s, false); }, ref_throwing);
    ladder_inplace<wstring>(r, "strip_multiline_comments(wstring, allow_unterminated)", sizes, cs, [](wstring& s) { phosg::strip_multiline_comments(s, true); }, ref_allowing);
  }
  ladder_replace(r, sizes);
  ladder_case(r, sizes);
  ladder_affix(r, sizes);
  ladder_skip(r, sizes);
  ladder_printf(r, ladder_sizes(r.thorough(), (size_t)1 << 20));
  r.bound = "total input (printf: result) size on the ladder " + ladder_text(r.thorough()) +
            "; strip_trailing_whitespace / strip_leading_whitespace / strip_whitespace: 16 shapes x 2 blank sets (space; space-tab-CR-LF cycle) x {fresh object, object that held a longer string}; strip_trailing_zeroes on std::string and std::wstring: the same 16 shapes with NUL; "
            "strip_multiline_comments on std::string and std::wstring x allow_unterminated: 33 shapes (plain, slashes only, stars only, newlines only, \"/*\" / \"*/\" / \"/**/\" / \"/*/\" / \"/*LF*/\" / \"a/*a*/\" / \"/*aLF\" / \"//**\" repeated, one comment spanning the whole string with text, newlines, stars or slashes inside, "
            "one opener / closer / comment / slash at the first, middle, last position); str_replace_all: targets a, aa, aba, ab, abcab (three self-overlapping) x 7-9 subjects (runs in which occurrences overlap, abut or alternate, no occurrence, one occurrence at the first / middle / last position, occurrences at both ends) "
            "x 8-9 replacements (empty, one character, the target itself, equal length, one longer with the target as prefix, much longer containing the target twice, the target doubled, one longer without the target, a proper prefix of the target); "
            "toupper / tolower: 20 shapes (letters, non-letters adjacent to the letter ranges, all 256 byte values cycling, high-bit bytes, embedded NUL, one letter / non-letter at the first, middle, last position); starts_with / ends_with: 3 periodic subjects x affix length in {0,1,n/2,n-1,n,n+1,2n} x {exact, first / middle / last byte differs}; "
            "skip_whitespace / skip_non_whitespace / skip_word, both overloads: 18 shapes x offsets {0,1,n/2-1,n/2,n-1,n}; string_printf and string_vprintf: 10 formats (%s, %*d, %-*d|, conversion-free format text of the result length, format text with %d at its first / middle / last position, %s%s, %c%s with NUL, %s|%*s) x every ladder size up to 1 MiB";
}
