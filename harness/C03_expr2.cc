// C03 (part, round 5): operator expressions of the 32- and 64-bit integer wrappers consumed in wide contexts.  See C03_expr.hh.
#define C03_NO_FORCE_INLINE
#include "C03_expr.hh"

VF_SECTION(expr_wide, 8, 8, 120) {
#define X(W, T, O) drive_expr<W, T>(r, #W, O);
  C03_W32(X)
  C03_W64(X)
#undef X
  r.bound = std::string("12 wrapper types (little/big/reverse-endian x uint32_t, int32_t, uint64_t, int64_t) ") + kExprBound;
}
