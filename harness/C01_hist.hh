// C01_hist.hh — exhaustive operation histories over StringWriter / BufferWriter (included by C01.cc).
// A case is one operation sequence (all sequences of length 1..D over the alphabet, shortest
// first).  It is replayed on a fresh writer and on a byte-vector model; afterwards the whole
// buffer is compared and read back (i) sequentially with the matching accessors, (ii) positionally
// in reverse / odd-even order, (iii) with advance=false twice.
#pragma once

namespace {

enum OpType { OP_PUT, OP_WRITE, OP_CSTR, OP_PPUT, OP_EXTEND };
struct Op {
  OpType t;
  const Kind* k = nullptr;
  uint64_t v = 0;
  int offmode = 0;  // PPUT: 0 -> 0, 1 -> 1, 2 -> size-1, 3 -> size, 4 -> size+3
  std::string block;
  std::string name;  // for descriptions
  std::string key;   // accessor name for finding keys
};

Op op_put(const char* kn, uint64_t v) {
  Op o;
  o.t = OP_PUT;
  o.k = kind(kn);
  o.v = v;
  o.key = kname(o.k->readonly ? "write_enc" : "put", *o.k);
  o.name = o.key + "(" + hexv(v, o.k->w) + ")";
  return o;
}
Op op_pput(const char* kn, uint64_t v, int mode) {
  static const char* mn[] = {"0", "1", "size-1", "size", "size+3"};
  Op o;
  o.t = OP_PPUT;
  o.k = kind(kn);
  o.v = v;
  o.offmode = mode;
  o.key = kname("pput", *o.k);
  o.name = o.key + "(" + mn[mode] + ", " + hexv(v, o.k->w) + ")";
  return o;
}
Op op_write(const std::string& b) {
  Op o;
  o.t = OP_WRITE;
  o.block = b;
  o.key = "write";
  o.name = "write(" + vf::show(b) + ")";
  return o;
}
Op op_cstr(const std::string& b) {
  Op o;
  o.t = OP_CSTR;
  o.block = b;
  o.key = "write_cstr";
  o.name = "write(" + vf::show(b) + " + NUL)";
  return o;
}
Op op_extend() {
  Op o;
  o.t = OP_EXTEND;
  o.key = "extend_by";
  o.name = "extend_by(2)";
  return o;
}

std::vector<Op> build_alphabet(bool thorough) {
  std::vector<Op> a;
  // appends: every width, byte order and class; top-bit-set and all-distinct values
  a.push_back(op_put("u8", 0x80));
  a.push_back(op_put("s8", 0xFE));
  a.push_back(op_put("u16", 0x0102));
  a.push_back(op_put("u16r", 0x0102));
  a.push_back(op_put("u16b", 0x8001));
  a.push_back(op_put("u16l", 0x8001));
  a.push_back(op_put("s16b", 0xFFFE));
  a.push_back(op_put("s16l", 0x80FF));
  a.push_back(op_put("u32", 0x01020304));
  a.push_back(op_put("u32b", 0x80010203));
  a.push_back(op_put("u32l", 0x80010203));
  a.push_back(op_put("s32b", 0xFFFFFFFE));
  a.push_back(op_put("s32r", 0x80000001));
  a.push_back(op_put("f32", 0x3F800000));
  a.push_back(op_put("f32b", 0x80000000));
  a.push_back(op_put("f32l", 0x7FC00001));
  a.push_back(op_put("u64r", 0x0102030405060708ull));
  a.push_back(op_put("u64b", 0x8001020304050607ull));
  a.push_back(op_put("u64l", 0x8001020304050607ull));
  a.push_back(op_put("s64l", 0xFFFFFFFFFFFFFFFEull));
  a.push_back(op_put("f64b", 0x7FF8000000000001ull));
  a.push_back(op_put("f64l", 0x8000000000000000ull));
  a.push_back(op_put("u24b", 0x800102));
  a.push_back(op_put("s24b", 0xFFFFFE));
  a.push_back(op_put("s24l", 0x800102));
  a.push_back(op_put("u48l", 0x800102030405ull));
  a.push_back(op_put("s48b", 0x800102030405ull));
  a.push_back(op_put("s48l", 0xFFFFFFFFFFFEull));
  a.push_back(op_write(""));
  a.push_back(op_write("a"));
  a.push_back(op_write(std::string("ab\0c", 4)));
  a.push_back(op_cstr("hi"));
  a.push_back(op_cstr(""));
  a.push_back(op_extend());
  for (int mode = 0; mode < 5; mode++) {
    a.push_back(op_pput("u8", 0xEE, mode));
    a.push_back(op_pput("u16b", 0xBEEF, mode));
    a.push_back(op_pput("u32l", 0xDEADBEEF, mode));
    a.push_back(op_pput("u64b", 0x1122334455667788ull, mode));
  }
  if (thorough) {
    a.push_back(op_put("s16", 0x8001));
    a.push_back(op_put("s16r", 0x8001));
    a.push_back(op_put("u32r", 0x80010203));
    a.push_back(op_put("s32", 0x80010203));
    a.push_back(op_put("s32l", 0xFFFFFF7F));
    a.push_back(op_put("f32r", 0xFF800001));
    a.push_back(op_put("u64", 0x8001020304050607ull));
    a.push_back(op_put("s64", 0x8001020304050607ull));
    a.push_back(op_put("s64r", 0x8001020304050607ull));
    a.push_back(op_put("s64b", 0xFFFFFFFFFFFFFF7Full));
    a.push_back(op_put("f64", 0x3FF0000000000000ull));
    a.push_back(op_put("f64r", 0xFFF0000000000001ull));
    a.push_back(op_put("u24l", 0x010203));
    a.push_back(op_put("u48b", 0x010203040506ull));
    for (int mode = 0; mode < 5; mode++) {
      a.push_back(op_pput("s16l", 0x80FF, mode));
      a.push_back(op_pput("f32b", 0x7FC00001, mode));
      a.push_back(op_pput("f64l", 0x8000000000000001ull, mode));
    }
  }
  return a;
}

enum ItemType { IT_TYPED, IT_RAW, IT_CSTR };
struct Item {
  ItemType t;
  const Kind* k;
  size_t off, len;
  bool tiling;  // part of the in-order tiling of the buffer (appends and extension segments)
};

std::string seq_name(const std::vector<Op>& alpha, const std::vector<uint32_t>& seq) {
  std::string s;
  for (size_t i = 0; i < seq.size(); i++) s += (i ? "; " : "") + alpha[seq[i]].name;
  return s;
}

// Reads everything back from `buf[0,n)` (exact-size copy of the produced bytes) and compares with
// the independent decoding of the model bytes m.  `tiled_end` is where the in-order tiling ends.
bool read_back(vf::Run& r, const uint8_t* buf, size_t n, const Bytes& m, const std::vector<Item>& items, size_t tiled_end, const std::function<std::string()>& hdesc) {
  auto slice = [&](size_t off, size_t len) { return std::string((const char*)m.data() + off, len); };
  // expected C string at off: bytes up to the first NUL at or after off, if any
  auto cstr_at = [&](size_t off, std::string* out) {
    for (size_t j = off; j < n; j++)
      if (m[j] == 0) {
        *out = slice(off, j - off);
        return true;
      }
    return false;
  };
  bool good = true;
  auto bad = [&](const std::string& key, const std::string& what) {
    r.fail(key, [&] { return hdesc() + " :: " + what; });
    good = false;
  };
  try {
    // (i) sequential, in write order
    {
      StringReader rd(buf, n);
      size_t pos = 0, idx = 0;
      bool desync = false;
      for (auto& it : items) {
        if (!it.tiling) continue;
        idx++;
        if (pos != it.off) { desync = true; break; }  // an overwritten NUL changed a C string's length
        if (rd.where() != pos) { bad("sequential:cursor", vf::fmt("cursor %zu before item at %zu", rd.where(), pos)); return false; }
        if (it.t == IT_TYPED) {
          uint64_t want = it.k->expect(dec(m.data() + it.off, it.k->w, it.k->e));
          uint64_t g = it.k->get(rd, true);
          if (g != want) { bad(kname("get", *it.k) + ":value", vf::fmt("sequential get_%s at %zu returned 0x%llX, decoder says 0x%llX", it.k->name, it.off, (unsigned long long)g, (unsigned long long)want)); return false; }
          pos += it.k->w;
          if (rd.where() != pos) { bad(kname("get", *it.k) + ":advance", vf::fmt("cursor %zu after get_%s at %zu", rd.where(), it.k->name, it.off)); return false; }
        } else if (it.t == IT_RAW) {
          std::string want = slice(it.off, it.len), got;
          const char* fn;
          switch (idx % 4) {
            case 0: fn = "read"; got = rd.read(it.len); break;
            case 1: fn = "readx"; got = rd.readx(it.len); break;
            case 2: {
              fn = "read_buf";
              Exact b(it.len);
              size_t c = rd.read(b.p, it.len);
              got = std::string((const char*)b.p, c);
              break;
            }
            default: {
              fn = "readx_buf";
              Exact b(it.len);
              rd.readx(b.p, it.len);
              got = std::string((const char*)b.p, it.len);
              break;
            }
          }
          if (got != want) { bad(std::string(fn) + ":value", vf::fmt("%s(%zu) at %zu returned %s, model %s", fn, it.len, it.off, vf::show(got).c_str(), vf::show(want).c_str())); return false; }
          pos += it.len;
          if (rd.where() != pos) { bad(std::string(fn) + ":advance", vf::fmt("cursor %zu after %s(%zu) at %zu", rd.where(), fn, it.len, it.off)); return false; }
        } else {
          std::string want;
          if (!cstr_at(pos, &want)) { desync = true; break; }
          std::string got = rd.get_cstr();
          if (got != want) { bad("get_cstr:value", vf::fmt("get_cstr at %zu returned %s, model %s", pos, vf::show(got).c_str(), vf::show(want).c_str())); return false; }
          pos += want.size() + 1;
          if (rd.where() != pos) { bad("get_cstr:advance", vf::fmt("cursor %zu after get_cstr of %zu+1 bytes at %zu", rd.where(), want.size(), pos - want.size() - 1)); return false; }
          // a later positional write put or removed a NUL inside this string: the string read back is
          // still what the bytes say, but the items written after it no longer start at the cursor
          if (want.size() != it.len) { desync = true; break; }
        }
      }
      if (!desync) {
        if (pos != tiled_end) { bad("sequential:model", vf::fmt("harness tiling ends at %zu, expected %zu", pos, tiled_end)); return false; }
        if (tiled_end == n && (!rd.eof() || rd.remaining() != 0)) { bad("sequential:eof", vf::fmt("after reading all %zu bytes eof()=%d remaining()=%zu", n, (int)rd.eof(), rd.remaining())); return false; }
        r.counters["sequential-readbacks"]++;
      } else {
        r.counters["sequential-readbacks-cut-by-overwritten-cstr"]++;
      }
    }
    // (ii) positional: reverse order, then odd, then even indices; cursor must stay at 0
    {
      StringReader rd(buf, n);
      std::vector<size_t> order;
      for (size_t i = items.size(); i-- > 0;) order.push_back(i);
      for (size_t i = 1; i < items.size(); i += 2) order.push_back(i);
      for (size_t i = 0; i < items.size(); i += 2) order.push_back(i);
      size_t cnt = 0;
      for (size_t i : order) {
        auto& it = items[i];
        cnt++;
        if (it.t == IT_TYPED) {
          uint64_t want = it.k->expect(dec(m.data() + it.off, it.k->w, it.k->e));
          uint64_t g = it.k->pget(rd, it.off);
          if (g != want) { bad(kname("pget", *it.k) + ":value", vf::fmt("pget_%s(%zu) returned 0x%llX, decoder says 0x%llX", it.k->name, it.off, (unsigned long long)g, (unsigned long long)want)); return false; }
        } else if (it.t == IT_RAW) {
          std::string want = slice(it.off, it.len), got;
          const char* fn;
          switch (cnt % 4) {
            case 0: fn = "pread"; got = rd.pread(it.off, it.len); break;
            case 1: fn = "preadx"; got = rd.preadx(it.off, it.len); break;
            case 2: {
              fn = "pread_buf";
              Exact b(it.len);
              size_t c = rd.pread(it.off, b.p, it.len);
              got = std::string((const char*)b.p, c);
              break;
            }
            default: {
              fn = "pgetv";
              got = std::string((const char*)rd.pgetv(it.off, it.len), it.len);
              break;
            }
          }
          if (got != want) { bad(std::string(fn) + ":value", vf::fmt("%s(%zu, %zu) returned %s, model %s", fn, it.off, it.len, vf::show(got).c_str(), vf::show(want).c_str())); return false; }
        } else {
          std::string want;
          if (!cstr_at(it.off, &want)) continue;
          std::string got = rd.pget_cstr(it.off);
          if (got != want) { bad("pget_cstr:value", vf::fmt("pget_cstr(%zu) returned %s, model %s", it.off, vf::show(got).c_str(), vf::show(want).c_str())); return false; }
        }
        if (rd.where() != 0) { bad("positional:cursor", vf::fmt("positional read of item at %zu moved the cursor to %zu", it.off, rd.where())); return false; }
      }
    }
    // (iii) advance=false twice, then advancing
    {
      StringReader rd(buf, n);
      for (auto& it : items) {
        rd.go(it.off);
        if (it.t == IT_TYPED) {
          uint64_t want = it.k->expect(dec(m.data() + it.off, it.k->w, it.k->e));
          uint64_t g0 = it.k->get(rd, false);
          if (rd.where() != it.off) { bad(kname("get", *it.k) + ":advance", vf::fmt("get_%s(advance=false) at %zu left the cursor at %zu", it.k->name, it.off, rd.where())); return false; }
          uint64_t g1 = it.k->get(rd, false);
          if (g0 != want || g1 != want) { bad(kname("get", *it.k) + ":value", vf::fmt("get_%s(advance=false) twice at %zu returned 0x%llX, 0x%llX; decoder says 0x%llX", it.k->name, it.off, (unsigned long long)g0, (unsigned long long)g1, (unsigned long long)want)); return false; }
          if (rd.where() != it.off) { bad(kname("get", *it.k) + ":advance", vf::fmt("get_%s(advance=false) at %zu left the cursor at %zu", it.k->name, it.off, rd.where())); return false; }
        } else if (it.t == IT_RAW) {
          std::string want = slice(it.off, it.len);
          std::string g0 = rd.read(it.len, false), g1 = rd.readx(it.len, false);
          if (g0 != want || g1 != want) { bad("read:value", vf::fmt("read/readx(%zu, advance=false) at %zu returned %s / %s, model %s", it.len, it.off, vf::show(g0).c_str(), vf::show(g1).c_str(), vf::show(want).c_str())); return false; }
          if (rd.where() != it.off) { bad("read:advance", vf::fmt("read/readx(advance=false) at %zu left the cursor at %zu", it.off, rd.where())); return false; }
        } else {
          std::string want;
          if (!cstr_at(it.off, &want)) continue;
          std::string g0 = rd.get_cstr(false), g1 = rd.get_cstr(false);
          if (g0 != want || g1 != want) { bad("get_cstr:value", vf::fmt("get_cstr(advance=false) twice at %zu returned %s / %s, model %s", it.off, vf::show(g0).c_str(), vf::show(g1).c_str(), vf::show(want).c_str())); return false; }
          if (rd.where() != it.off) { bad("get_cstr:advance", vf::fmt("get_cstr(advance=false) at %zu left the cursor at %zu", it.off, rd.where())); return false; }
        }
      }
    }
  } catch (const std::exception& e) {
    std::string what = e.what();
    bad("readback:throws", "unexpected exception while reading back: " + what);
    return false;
  }
  return good;
}

size_t pput_offset(int mode, size_t size) {
  switch (mode) {
    case 0: return 0;
    case 1: return 1;
    case 2: return size ? size - 1 : 0;
    case 3: return size;
    default: return size + 3;
  }
}

// one history on StringWriter
void history_sw(vf::Run& r, const std::vector<Op>& alpha, const std::vector<uint32_t>& seq) {
  StringWriter sw;
  Bytes m;
  std::vector<Item> items;
  auto hdesc = [&] { return "StringWriter history [" + seq_name(alpha, seq) + "]"; };
  const Op* last = nullptr;
  std::string exc;
  try {
    for (uint32_t oi : seq) {
      const Op& o = alpha[oi];
      last = &o;
      r.transitions++;
      switch (o.t) {
        case OP_PUT: {
          uint8_t b[8];
          enc(b, o.v, o.k->w, o.k->e);
          items.push_back({IT_TYPED, o.k, m.size(), (size_t)o.k->w, true});
          m.insert(m.end(), b, b + o.k->w);
          o.k->sw_put(sw, o.v);
          break;
        }
        case OP_WRITE:
          items.push_back({IT_RAW, nullptr, m.size(), o.block.size(), true});
          m.insert(m.end(), o.block.begin(), o.block.end());
          if (m.size() & 1) sw.write(o.block);
          else sw.write(o.block.data(), o.block.size());
          break;
        case OP_CSTR:
          items.push_back({IT_CSTR, nullptr, m.size(), o.block.size(), true});
          m.insert(m.end(), o.block.begin(), o.block.end());
          m.push_back(0);
          sw.write(o.block.c_str(), o.block.size() + 1);
          break;
        case OP_PPUT: {
          uint8_t b[8];
          enc(b, o.v, o.k->w, o.k->e);
          size_t old = m.size(), off = pput_offset(o.offmode, old);
          if (m.size() < off + o.k->w) m.resize(off + o.k->w, 0);  // zero-extension past the end
          memcpy(m.data() + off, b, o.k->w);
          if (m.size() > old) items.push_back({IT_RAW, nullptr, old, m.size() - old, true});
          items.push_back({IT_TYPED, o.k, off, (size_t)o.k->w, false});
          o.k->sw_pput(sw, off, o.v);
          break;
        }
        case OP_EXTEND:
          items.push_back({IT_RAW, nullptr, m.size(), 2, true});
          m.resize(m.size() + 2, 0);
          sw.extend_by(2);
          break;
      }
      // the buffer is compared after every operation so that a divergence is attributed to the
      // operation that caused it, not to the last one of the history
      const std::string& s = sw.str();
      if (sw.size() != m.size() || s.size() != m.size()) {
        r.fail(o.key + ":size", [&] { return hdesc() + " :: after " + o.name + vf::fmt(": writer size %zu, model %zu", sw.size(), m.size()); });
        return;
      }
      if (memcmp(s.data(), m.data(), m.size())) {
        r.fail(o.key + ":bytes", [&] { return hdesc() + " :: after " + o.name + ": writer holds " + hexb(s.data(), s.size()) + ", model " + hexb(m.data(), m.size()); });
        return;
      }
    }
  } catch (const std::exception& e) {
    exc = e.what();
    r.fail(last->key + ":throws", [&] { return hdesc() + " :: unexpected exception " + exc; });
    return;
  }
  const std::string& s = sw.str();
  Exact copy(m.size());
  memcpy(copy.p, s.data(), m.size());
  if (read_back(r, copy.p, m.size(), m, items, m.size(), hdesc)) r.ok(vf::fmt("history-ok/len%zu", seq.size()));
}

// the same history on BufferWriter over an exact-size caller buffer (prefilled with 0xEE; positional
// writes do not zero-fill there, untouched bytes must keep the prefill)
void history_bw(vf::Run& r, const std::vector<Op>& alpha, const std::vector<uint32_t>& seq) {
  auto hdesc = [&] { return "BufferWriter history [" + seq_name(alpha, seq) + "]"; };
  // dry pass: capacity = furthest byte any operation touches
  size_t cap = 0;
  {
    size_t cur = 0;
    for (uint32_t oi : seq) {
      const Op& o = alpha[oi];
      switch (o.t) {
        case OP_PUT: cur += o.k->w; break;
        case OP_WRITE: cur += o.block.size(); break;
        case OP_CSTR: cur += o.block.size() + 1; break;
        case OP_EXTEND: cur += 2; break;
        case OP_PPUT: cap = std::max(cap, pput_offset(o.offmode, cur) + o.k->w); break;
      }
      cap = std::max(cap, cur);
    }
  }
  Exact buf(cap, 0xEE);
  BufferWriter bw(buf.p, cap);
  Bytes m(cap, 0xEE);
  size_t cur = 0;
  std::vector<Item> items;
  const Op* last = nullptr;
  std::string exc;
  try {
    for (uint32_t oi : seq) {
      const Op& o = alpha[oi];
      last = &o;
      r.transitions++;
      switch (o.t) {
        case OP_PUT:
          enc(m.data() + cur, o.v, o.k->w, o.k->e);
          items.push_back({IT_TYPED, o.k, cur, (size_t)o.k->w, true});
          cur += o.k->w;
          o.k->bw_put(bw, o.v);
          break;
        case OP_WRITE:
          memcpy(m.data() + cur, o.block.data(), o.block.size());
          items.push_back({IT_RAW, nullptr, cur, o.block.size(), true});
          cur += o.block.size();
          if (cur & 1) bw.write(o.block);
          else bw.write(o.block.data(), o.block.size());
          break;
        case OP_CSTR:
          memcpy(m.data() + cur, o.block.c_str(), o.block.size() + 1);
          items.push_back({IT_CSTR, nullptr, cur, o.block.size(), true});
          cur += o.block.size() + 1;
          bw.write(o.block.c_str(), o.block.size() + 1);
          break;
        case OP_EXTEND: {  // BufferWriter cannot grow: the counterpart is writing two zero bytes
          m[cur] = m[cur + 1] = 0;
          items.push_back({IT_RAW, nullptr, cur, 2, true});
          cur += 2;
          bw.write(std::string(2, '\0'));
          break;
        }
        case OP_PPUT: {
          size_t off = pput_offset(o.offmode, cur);
          enc(m.data() + off, o.v, o.k->w, o.k->e);
          items.push_back({IT_TYPED, o.k, off, (size_t)o.k->w, false});
          o.k->bw_pput(bw, off, o.v);
          break;
        }
      }
      if (memcmp(buf.p, m.data(), cap)) {
        r.fail("bw_" + o.key + ":bytes", [&] { return hdesc() + " :: after " + o.name + ": buffer holds " + hexb(buf.p, cap) + ", model " + hexb(m.data(), cap); });
        return;
      }
    }
  } catch (const std::exception& e) {
    exc = e.what();
    r.fail("bw_" + last->key + ":throws", [&] { return hdesc() + vf::fmt(" :: capacity %zu suffices for every operation, yet exception: ", cap) + exc; });
    return;
  }
  if (read_back(r, buf.p, cap, m, items, cur, hdesc)) r.ok(vf::fmt("history-ok/len%zu", seq.size()));
}

template <class F>
void enumerate_histories(vf::Run& r, const std::vector<Op>& alpha, size_t depth, F&& run) {
  for (size_t len = 1; len <= depth; len++) {
    std::vector<uint32_t> seq(len, 0);
    bool more = true;
    while (more) {
      if (r.take()) {
        if (r.wants_desc()) r.desc("[" + seq_name(alpha, seq) + "]");
        r.nontriv();
        r.states++;
        run(seq);
      }
      // last position varies fastest
      size_t i = len;
      for (;;) {
        if (i == 0) { more = false; break; }
        i--;
        if (++seq[i] < alpha.size()) break;
        seq[i] = 0;
      }
    }
  }
}

}  // namespace

VF_SECTION(hist_sw, 16, 16, 60) {
  auto alpha = build_alphabet(r.thorough());
  size_t depth = r.thorough() ? 4 : 3;
  r.note("StringWriter histories");
  enumerate_histories(r, alpha, depth, [&](const std::vector<uint32_t>& seq) { history_sw(r, alpha, seq); });
  r.bound = vf::fmt("all operation sequences of length 1..%zu over %zu StringWriter operations (put_K(v), write(block), write(cstr), pput_K(off in {0,1,size-1,size,size+3}, v), extend_by(2)); un-merged, every history replayed on a fresh writer", depth, alpha.size());
}

VF_SECTION(hist_bw, 16, 16, 60) {
  auto alpha = build_alphabet(false);
  size_t depth = r.thorough() ? 4 : 3;
  r.note("BufferWriter histories");
  enumerate_histories(r, alpha, depth, [&](const std::vector<uint32_t>& seq) { history_bw(r, alpha, seq); });
  r.bound = vf::fmt("all operation sequences of length 1..%zu over %zu BufferWriter operations on an exact-size caller buffer", depth, alpha.size());
}
