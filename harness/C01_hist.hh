// C01_hist.hh — exhaustive operation histories over StringWriter / BufferWriter (included by C01_hist.cc).
// A case is one operation sequence (all sequences of length 1..D over the alphabet, shortest
// first).  It is replayed on a fresh writer and on a byte-vector model; after EVERY operation the
// whole buffer is compared; afterwards it is read back (i) sequentially with the matching accessors,
// (ii) positionally in reverse / odd-even order, (iii) with advance=false twice.
//
// Two alphabets: build_alphabet() (round 1: one operation per typed kind, raw blocks, C strings,
// positional writes at five placements, extend_by) and build_alphabet2() (round 2: operations that
// start from a NON-INITIAL writer state — reset, content moved out, copy-/move-assignment over a
// writer that already holds something, extend_to / extend_by with explicit fill, far positional writes
// that leave the small-string buffer, template forms put<T>/pput<T> with plain structs and endian
// wrappers, BufferWriter::pwrite in both overloads, a second BufferWriter constructed over a buffer
// that already holds data).
#pragma once
#include "C01_common.hh"

namespace {

using namespace phosg;
using namespace c01;

// ---- template forms: plain structs / wrapper types written with put<T>, read with get<T> ----------
struct TForm {
  const char* name;
  size_t size;
  uint8_t ref[16];  // reference bytes of the value written
  void (*sw_put)(StringWriter&);
  void (*sw_pput)(StringWriter&, size_t);
  void (*bw_put)(BufferWriter&);
  void (*bw_pput)(BufferWriter&, size_t);
  void (*get)(StringReader&, bool, uint8_t*);          // get<T>(advance): copies the bytes of the returned object
  void (*pget)(const StringReader&, size_t, uint8_t*);  // pget<T>(offset)
};

#define C01_TFORM(NAME, T, MAKE)                                                                       \
  [] {                                                                                                 \
    TForm f;                                                                                           \
    f.name = NAME;                                                                                     \
    f.size = sizeof(T);                                                                                \
    memset(f.ref, 0, sizeof(f.ref));                                                                   \
    { uint8_t* ref = f.ref; T v = MAKE; (void)v; }                                                     \
    f.sw_put = [](StringWriter& w) { uint8_t ref[16]; T v = MAKE; w.put<T>(v); };                      \
    f.sw_pput = [](StringWriter& w, size_t o) { uint8_t ref[16]; T v = MAKE; w.pput<T>(o, v); };       \
    f.bw_put = [](BufferWriter& w) { uint8_t ref[16]; T v = MAKE; w.put<T>(v); };                      \
    f.bw_pput = [](BufferWriter& w, size_t o) { uint8_t ref[16]; T v = MAKE; w.pput<T>(o, v); };       \
    f.get = [](StringReader& r, bool a, uint8_t* out) { const T& x = r.get<T>(a); memcpy(out, &x, sizeof(T)); }; \
    f.pget = [](const StringReader& r, size_t o, uint8_t* out) { const T& x = r.pget<T>(o); memcpy(out, &x, sizeof(T)); }; \
    return f;                                                                                          \
  }()

inline le_uint32_t make_le32(uint64_t v, uint8_t* ref) {
  enc(ref, v, 4, LE);
  return le_uint32_t((uint32_t)v);
}
inline be_int16_t make_be16(uint64_t v, uint8_t* ref) {
  enc(ref, v, 2, BE);
  return be_int16_t((int16_t)v);
}

const std::vector<TForm>& tforms() {
  static const std::vector<TForm> t = {
      C01_TFORM("S3", S3, make_S3(0x80F1E2ull, ref)),
      C01_TFORM("S5", S5, make_S5(0xFE80010203ull, ref)),
      C01_TFORM("S12", S12, make_S12(0x8101820283038404ull, ref)),
      C01_TFORM("S16", S16, make_S16(0x8001020304050607ull, ref)),
      C01_TFORM("le_uint32_t", le_uint32_t, make_le32(0x80010203u, ref)),
      C01_TFORM("be_int16_t", be_int16_t, make_be16(0x80FE, ref)),
  };
  return t;
}
const TForm* tform(const char* name) {
  for (auto& t : tforms())
    if (!strcmp(t.name, name)) return &t;
  fprintf(stderr, "no tform %s\n", name);
  abort();
}

enum OpType {
  OP_PUT, OP_WRITE, OP_CSTR, OP_PPUT, OP_EXTEND,
  // round 2
  OP_PUT_T,    // put<T>(struct / wrapper)
  OP_PPUT_T,   // pput<T>(offset, struct)
  OP_RESET,    // StringWriter::reset(); BufferWriter: a second writer constructed over the same (now non-empty) buffer
  OP_TAKE,     // std::string t = std::move(w.str()); w.reset();   (StringWriter only)
  OP_ASSIGN,   // w = other (copy, mode 0) / w = std::move(other) (mode 1), other holding "QRS" + u16b   (StringWriter only)
  OP_PWRITE,   // BufferWriter::pwrite(off, std::string) (mode 0) / (off, ptr, len) (mode 1)
};
struct Op {
  OpType t;
  const Kind* k = nullptr;
  const TForm* tf = nullptr;
  uint64_t v = 0;
  int offmode = 0;  // PPUT/PPUT_T/PWRITE: 0 -> 0, 1 -> 1, 2 -> size-1, 3 -> size, 4 -> size+3, 5 -> size+1, 6 -> size+300
  int mode = 0;
  // OP_EXTEND: grow by `ext` bytes with fill `fill`; ext_to = extend_to(size+ext) instead of extend_by(ext);
  // ext_default = call with the defaulted fill argument
  size_t ext = 2;
  uint8_t fill = 0;
  bool ext_to = false, ext_default = true;
  std::string block;
  std::string name;  // for descriptions
  std::string key;   // accessor name for finding keys
};

const char* offmode_name(int mode) {
  static const char* mn[] = {"0", "1", "size-1", "size", "size+3", "size+1", "size+300"};
  return mn[mode];
}

Op op_put(const char* kn, uint64_t v) {
  Op o;
  o.t = OP_PUT;
  o.k = kind(kn);
  o.v = v;
  o.key = kname(o.k->readonly ? "write_enc" : "put", *o.k);
  o.name = o.key + "(" + hexv(v, o.k->w) + ")";
  return o;
}
Op op_pput(const char* kn, uint64_t v, int mode) {
  Op o;
  o.t = OP_PPUT;
  o.k = kind(kn);
  o.v = v;
  o.offmode = mode;
  o.key = kname("pput", *o.k);
  o.name = o.key + "(" + offmode_name(mode) + ", " + hexv(v, o.k->w) + ")";
  return o;
}
Op op_write(const std::string& b) {
  Op o;
  o.t = OP_WRITE;
  o.block = b;
  o.key = "write";
  o.name = "write(" + vf::show(b) + ")";
  return o;
}
Op op_cstr(const std::string& b) {
  Op o;
  o.t = OP_CSTR;
  o.block = b;
  o.key = "write_cstr";
  o.name = "write(" + vf::show(b) + " + NUL)";
  return o;
}
Op op_extend() {
  Op o;
  o.t = OP_EXTEND;
  o.key = "extend_by";
  o.name = "extend_by(2)";
  return o;
}
Op op_extend2(bool to, size_t ext, bool defaulted, uint8_t fill) {
  Op o;
  o.t = OP_EXTEND;
  o.ext_to = to;
  o.ext = ext;
  o.ext_default = defaulted;
  o.fill = defaulted ? 0 : fill;
  o.key = to ? "extend_to" : "extend_by";
  o.name = o.key + (to ? vf::fmt("(size+%zu", ext) : vf::fmt("(%zu", ext)) + (defaulted ? ")" : vf::fmt(", 0x%02X)", fill));
  return o;
}
Op op_put_t(const char* tn) {
  Op o;
  o.t = OP_PUT_T;
  o.tf = tform(tn);
  o.key = std::string("put<") + tn + ">";
  o.name = o.key + "(" + hexb(o.tf->ref, o.tf->size) + ")";
  return o;
}
Op op_pput_t(const char* tn, int mode) {
  Op o;
  o.t = OP_PPUT_T;
  o.tf = tform(tn);
  o.offmode = mode;
  o.key = std::string("pput<") + tn + ">";
  o.name = o.key + "(" + offmode_name(mode) + ", " + hexb(o.tf->ref, o.tf->size) + ")";
  return o;
}
Op op_simple(OpType t, const char* key, const char* name, int mode = 0) {
  Op o;
  o.t = t;
  o.mode = mode;
  o.key = key;
  o.name = name;
  return o;
}
Op op_pwrite(const std::string& b, int offmode, int mode) {
  Op o;
  o.t = OP_PWRITE;
  o.block = b;
  o.offmode = offmode;
  o.mode = mode;
  o.key = mode ? "pwrite_ptr" : "pwrite_str";
  o.name = std::string("pwrite(") + offmode_name(offmode) + ", " + vf::show(b) + (mode ? ", len)" : " as std::string)");
  return o;
}

std::vector<Op> build_alphabet(bool thorough) {
  std::vector<Op> a;
  // appends: every width, byte order and class; top-bit-set and all-distinct values
  a.push_back(op_put("u8", 0x80));
  a.push_back(op_put("s8", 0xFE));
  a.push_back(op_put("u16", 0x0102));
  a.push_back(op_put("u16r", 0x0102));
  a.push_back(op_put("u16b", 0x8001));
  a.push_back(op_put("u16l", 0x8001));
  a.push_back(op_put("s16b", 0xFFFE));
  a.push_back(op_put("s16l", 0x80FF));
  a.push_back(op_put("u32", 0x01020304));
  a.push_back(op_put("u32b", 0x80010203));
  a.push_back(op_put("u32l", 0x80010203));
  a.push_back(op_put("s32b", 0xFFFFFFFE));
  a.push_back(op_put("s32r", 0x80000001));
  a.push_back(op_put("f32", 0x3F800000));
  a.push_back(op_put("f32b", 0x80000000));
  a.push_back(op_put("f32l", 0x7FC00001));
  a.push_back(op_put("u64r", 0x0102030405060708ull));
  a.push_back(op_put("u64b", 0x8001020304050607ull));
  a.push_back(op_put("u64l", 0x8001020304050607ull));
  a.push_back(op_put("s64l", 0xFFFFFFFFFFFFFFFEull));
  a.push_back(op_put("f64b", 0x7FF8000000000001ull));
  a.push_back(op_put("f64l", 0x8000000000000000ull));
  a.push_back(op_put("u24b", 0x800102));
  a.push_back(op_put("s24b", 0xFFFFFE));
  a.push_back(op_put("s24l", 0x800102));
  a.push_back(op_put("u48l", 0x800102030405ull));
  a.push_back(op_put("s48b", 0x800102030405ull));
  a.push_back(op_put("s48l", 0xFFFFFFFFFFFEull));
  a.push_back(op_write(""));
  a.push_back(op_write("a"));
  a.push_back(op_write(std::string("ab\0c", 4)));
  a.push_back(op_cstr("hi"));
  a.push_back(op_cstr(""));
  a.push_back(op_extend());
  for (int mode = 0; mode < 5; mode++) {
    a.push_back(op_pput("u8", 0xEE, mode));
    a.push_back(op_pput("u16b", 0xBEEF, mode));
    a.push_back(op_pput("u32l", 0xDEADBEEF, mode));
    a.push_back(op_pput("u64b", 0x1122334455667788ull, mode));
  }
  if (thorough) {
    a.push_back(op_put("s16", 0x8001));
    a.push_back(op_put("s16r", 0x8001));
    a.push_back(op_put("u32r", 0x80010203));
    a.push_back(op_put("s32", 0x80010203));
    a.push_back(op_put("s32l", 0xFFFFFF7F));
    a.push_back(op_put("f32r", 0xFF800001));
    a.push_back(op_put("u64", 0x8001020304050607ull));
    a.push_back(op_put("s64", 0x8001020304050607ull));
    a.push_back(op_put("s64r", 0x8001020304050607ull));
    a.push_back(op_put("s64b", 0xFFFFFFFFFFFFFF7Full));
    a.push_back(op_put("f64", 0x3FF0000000000000ull));
    a.push_back(op_put("f64r", 0xFFF0000000000001ull));
    a.push_back(op_put("u24l", 0x010203));
    a.push_back(op_put("u48b", 0x010203040506ull));
    for (int mode = 0; mode < 5; mode++) {
      a.push_back(op_pput("s16l", 0x80FF, mode));
      a.push_back(op_pput("f32b", 0x7FC00001, mode));
      a.push_back(op_pput("f64l", 0x8000000000000001ull, mode));
    }
  }
  return a;
}

// round-2 alphabet: state-changing operations crossed with a few appends and positional writes
std::vector<Op> build_alphabet2(bool for_bw, bool thorough) {
  std::vector<Op> a;
  a.push_back(op_put("u8", 0x80));
  a.push_back(op_put("u16b", 0x8001));
  a.push_back(op_put("u32l", 0x80010203));
  a.push_back(op_put("f64b", 0x7FF8000000000001ull));
  a.push_back(op_put("s24l", 0x800102));
  a.push_back(op_put_t("S3"));
  a.push_back(op_put_t("S12"));
  a.push_back(op_put_t("le_uint32_t"));
  a.push_back(op_write(std::string("ab\0c", 4)));
  a.push_back(op_write("0123456789ABCDEFG"));  // 17 bytes: leaves the small-string buffer in one step
  a.push_back(op_cstr("hi"));
  a.push_back(op_pput("u16l", 0xBEEF, 2));                 // straddles the end / the cursor
  a.push_back(op_pput("u32b", 0xDEADBEEF, 0));
  a.push_back(op_pput("u8", 0xEE, 6));                     // 300 bytes past the end
  a.push_back(op_pput("u64b", 0x1122334455667788ull, 3));  // exactly at the end
  a.push_back(op_pput_t("S5", 5));                         // one byte past the end
  a.push_back(op_pput_t("be_int16_t", 1));
  a.push_back(op_simple(OP_RESET, for_bw ? "rebind" : "reset", for_bw ? "BufferWriter(buf, cap) again" : "reset()"));
  a.push_back(op_extend2(false, 1, false, 0xAB));  // extend_by(1, 0xAB)   (BufferWriter: write of the fill byte)
  if (!for_bw) {
    a.push_back(op_extend2(true, 2, false, 0x7E));   // extend_to(size+2, 0x7E)
    a.push_back(op_extend2(true, 0, true, 0));       // extend_to(size)
    a.push_back(op_extend2(false, 0, true, 0));      // extend_by(0)
    a.push_back(op_simple(OP_TAKE, "take", "t = std::move(str()); reset()"));
    a.push_back(op_simple(OP_ASSIGN, "assign_copy", "w = other(\"QRS\" + u16b 0x8001)", 0));
    a.push_back(op_simple(OP_ASSIGN, "assign_move", "w = std::move(other(\"QRS\" + u16b 0x8001))", 1));
  } else {
    a.push_back(op_pwrite(std::string("x\0y", 3), 0, 0));
    a.push_back(op_pwrite(std::string("x\0y", 3), 2, 1));
    a.push_back(op_pwrite("", 3, 0));
    a.push_back(op_pwrite("pq", 4, 0));
    a.push_back(op_pwrite("pq", 1, 1));
  }
  if (thorough) {
    a.push_back(op_put_t("S16"));
    a.push_back(op_put_t("be_int16_t"));
    a.push_back(op_pput_t("S3", 2));
    a.push_back(op_pput_t("S12", 4));
    a.push_back(op_pput("f32l", 0x7FC00001, 5));
  }
  return a;
}

enum ItemType { IT_TYPED, IT_RAW, IT_CSTR, IT_TFORM };
struct Item {
  ItemType t;
  const Kind* k;
  size_t off, len;
  bool tiling;  // part of the in-order tiling of the buffer (appends and extension segments)
  const TForm* tf = nullptr;
};

std::string seq_name(const std::vector<Op>& alpha, const std::vector<uint32_t>& seq) {
  std::string s;
  for (size_t i = 0; i < seq.size(); i++) s += (i ? "; " : "") + alpha[seq[i]].name;
  return s;
}

// Reads everything back from `buf[0,n)` (exact-size copy of the produced bytes) and compares with
// the independent decoding of the model bytes m.  `tiled_end` is where the in-order tiling ends.
bool read_back(vf::Run& r, const uint8_t* buf, size_t n, const Bytes& m, const std::vector<Item>& items, size_t tiled_end, const std::function<std::string()>& hdesc) {
  auto slice = [&](size_t off, size_t len) { return std::string((const char*)m.data() + off, len); };
  // expected C string at off: bytes up to the first NUL at or after off, if any
  auto cstr_at = [&](size_t off, std::string* out) { return model_cstr(m.data(), n, off, out); };
  bool good = true;
  auto bad = [&](const std::string& key, const std::string& what) {
    r.fail(key, [&] { return hdesc() + " :: " + what; });
    good = false;
  };
  try {
    // (i) sequential, in write order
    {
      StringReader rd(buf, n);
      size_t pos = 0, idx = 0;
      bool desync = false;
      for (auto& it : items) {
        if (!it.tiling) continue;
        idx++;
        if (pos != it.off) { desync = true; break; }  // an overwritten NUL changed a C string's length
        if (rd.where() != pos) { bad("sequential:cursor", vf::fmt("cursor %zu before item at %zu", rd.where(), pos)); return false; }
        if (it.t == IT_TYPED) {
          uint64_t want = it.k->expect(dec(m.data() + it.off, it.k->w, it.k->e));
          uint64_t g = it.k->get(rd, true);
          if (g != want) { bad(kname("get", *it.k) + ":value", vf::fmt("sequential get_%s at %zu returned 0x%llX, decoder says 0x%llX", it.k->name, it.off, (unsigned long long)g, (unsigned long long)want)); return false; }
          pos += it.k->w;
          if (rd.where() != pos) { bad(kname("get", *it.k) + ":advance", vf::fmt("cursor %zu after get_%s at %zu", rd.where(), it.k->name, it.off)); return false; }
        } else if (it.t == IT_TFORM) {
          uint8_t got[16];
          it.tf->get(rd, true, got);
          if (memcmp(got, m.data() + it.off, it.tf->size)) { bad(std::string("get<") + it.tf->name + ">:value", vf::fmt("sequential get<%s> at %zu returned bytes %s, buffer holds %s", it.tf->name, it.off, hexb(got, it.tf->size).c_str(), hexb(m.data() + it.off, it.tf->size).c_str())); return false; }
          pos += it.tf->size;
          if (rd.where() != pos) { bad(std::string("get<") + it.tf->name + ">:advance", vf::fmt("cursor %zu after get<%s> (%zu bytes) at %zu", rd.where(), it.tf->name, it.tf->size, it.off)); return false; }
        } else if (it.t == IT_RAW) {
          std::string want = slice(it.off, it.len), got;
          const char* fn;
          switch (idx % 7) {
            case 0: fn = "read"; got = rd.read(it.len); break;
            case 1: fn = "readx"; got = rd.readx(it.len); break;
            case 2: {
              fn = "read_buf";
              Exact b(it.len);
              size_t c = rd.read(b.p, it.len);
              got = std::string((const char*)b.p, c);
              break;
            }
            case 3: {
              fn = "readx_buf";
              Exact b(it.len);
              rd.readx(b.p, it.len);
              got = std::string((const char*)b.p, it.len);
              break;
            }
            case 4: fn = "getv"; got = std::string((const char*)rd.getv(it.len), it.len); break;
            case 5: {
              fn = "peek+skip";
              got = std::string(rd.peek(it.len), it.len);
              rd.skip(it.len);
              break;
            }
            default: {
              fn = "skip_if";
              // a block that differs in its last byte must be refused without moving, the real one accepted
              std::string other = want;
              if (!other.empty()) other.back() = (char)(other.back() ^ 0x40);
              size_t before = rd.where();
              bool refused = other.empty() ? true : !rd.skip_if(other.data(), other.size());
              bool stayed = rd.where() == before;
              bool accepted = rd.skip_if(want.data(), want.size());
              got = (refused && stayed && accepted) ? want : std::string("<skip_if: ") + (refused ? "" : "accepted a different block ") + (stayed ? "" : "moved on refusal ") + (accepted ? "" : "refused the block that is there") + ">";
              break;
            }
          }
          if (got != want) { bad(std::string(fn) + ":value", vf::fmt("%s(%zu) at %zu returned %s, model %s", fn, it.len, it.off, vf::show(got).c_str(), vf::show(want).c_str())); return false; }
          pos += it.len;
          if (rd.where() != pos) { bad(std::string(fn) + ":advance", vf::fmt("cursor %zu after %s(%zu) at %zu", rd.where(), fn, it.len, it.off)); return false; }
        } else {
          std::string want;
          if (!cstr_at(pos, &want)) { desync = true; break; }
          std::string got = rd.get_cstr();
          if (got != want) { bad("get_cstr:value", vf::fmt("get_cstr at %zu returned %s, model %s", pos, vf::show(got).c_str(), vf::show(want).c_str())); return false; }
          pos += want.size() + 1;
          if (rd.where() != pos) { bad("get_cstr:advance", vf::fmt("cursor %zu after get_cstr of %zu+1 bytes at %zu", rd.where(), want.size(), pos - want.size() - 1)); return false; }
          // a later positional write put or removed a NUL inside this string: the string read back is
          // still what the bytes say, but the items written after it no longer start at the cursor
          if (want.size() != it.len) { desync = true; break; }
        }
      }
      if (!desync) {
        if (pos != tiled_end) { bad("sequential:model", vf::fmt("harness tiling ends at %zu, expected %zu", pos, tiled_end)); return false; }
        if (tiled_end == n && (!rd.eof() || rd.remaining() != 0)) { bad("sequential:eof", vf::fmt("after reading all %zu bytes eof()=%d remaining()=%zu", n, (int)rd.eof(), rd.remaining())); return false; }
        r.counters["sequential-readbacks"]++;
      } else {
        r.counters["sequential-readbacks-cut-by-overwritten-cstr"]++;
      }
    }
    // (ii) positional: reverse order, then odd, then even indices; cursor must stay at 0
    {
      StringReader rd(buf, n);
      std::vector<size_t> order;
      for (size_t i = items.size(); i-- > 0;) order.push_back(i);
      for (size_t i = 1; i < items.size(); i += 2) order.push_back(i);
      for (size_t i = 0; i < items.size(); i += 2) order.push_back(i);
      size_t cnt = 0;
      for (size_t i : order) {
        auto& it = items[i];
        cnt++;
        if (it.t == IT_TYPED) {
          uint64_t want = it.k->expect(dec(m.data() + it.off, it.k->w, it.k->e));
          uint64_t g = it.k->pget(rd, it.off);
          if (g != want) { bad(kname("pget", *it.k) + ":value", vf::fmt("pget_%s(%zu) returned 0x%llX, decoder says 0x%llX", it.k->name, it.off, (unsigned long long)g, (unsigned long long)want)); return false; }
        } else if (it.t == IT_TFORM) {
          uint8_t got[16];
          it.tf->pget(rd, it.off, got);
          if (memcmp(got, m.data() + it.off, it.tf->size)) { bad(std::string("pget<") + it.tf->name + ">:value", vf::fmt("pget<%s>(%zu) returned bytes %s, buffer holds %s", it.tf->name, it.off, hexb(got, it.tf->size).c_str(), hexb(m.data() + it.off, it.tf->size).c_str())); return false; }
        } else if (it.t == IT_RAW) {
          std::string want = slice(it.off, it.len), got;
          const char* fn;
          switch (cnt % 5) {
            case 0: fn = "pread"; got = rd.pread(it.off, it.len); break;
            case 1: fn = "preadx"; got = rd.preadx(it.off, it.len); break;
            case 2: {
              fn = "pread_buf";
              Exact b(it.len);
              size_t c = rd.pread(it.off, b.p, it.len);
              got = std::string((const char*)b.p, c);
              break;
            }
            case 3: {
              fn = "preadx_buf";
              Exact b(it.len);
              rd.preadx(it.off, b.p, it.len);
              got = std::string((const char*)b.p, it.len);
              break;
            }
            default: {
              fn = "pgetv";
              got = std::string((const char*)rd.pgetv(it.off, it.len), it.len);
              break;
            }
          }
          if (got != want) { bad(std::string(fn) + ":value", vf::fmt("%s(%zu, %zu) returned %s, model %s", fn, it.off, it.len, vf::show(got).c_str(), vf::show(want).c_str())); return false; }
        } else {
          std::string want;
          if (!cstr_at(it.off, &want)) continue;
          std::string got = rd.pget_cstr(it.off);
          if (got != want) { bad("pget_cstr:value", vf::fmt("pget_cstr(%zu) returned %s, model %s", it.off, vf::show(got).c_str(), vf::show(want).c_str())); return false; }
        }
        if (rd.where() != 0) { bad("positional:cursor", vf::fmt("positional read of item at %zu moved the cursor to %zu", it.off, rd.where())); return false; }
      }
    }
    // (iii) advance=false twice, then advancing
    {
      StringReader rd(buf, n);
      for (auto& it : items) {
        rd.go(it.off);
        if (it.t == IT_TYPED) {
          uint64_t want = it.k->expect(dec(m.data() + it.off, it.k->w, it.k->e));
          uint64_t g0 = it.k->get(rd, false);
          if (rd.where() != it.off) { bad(kname("get", *it.k) + ":advance", vf::fmt("get_%s(advance=false) at %zu left the cursor at %zu", it.k->name, it.off, rd.where())); return false; }
          uint64_t g1 = it.k->get(rd, false);
          if (g0 != want || g1 != want) { bad(kname("get", *it.k) + ":value", vf::fmt("get_%s(advance=false) twice at %zu returned 0x%llX, 0x%llX; decoder says 0x%llX", it.k->name, it.off, (unsigned long long)g0, (unsigned long long)g1, (unsigned long long)want)); return false; }
          if (rd.where() != it.off) { bad(kname("get", *it.k) + ":advance", vf::fmt("get_%s(advance=false) at %zu left the cursor at %zu", it.k->name, it.off, rd.where())); return false; }
        } else if (it.t == IT_TFORM) {
          uint8_t g0[16], g1[16];
          it.tf->get(rd, false, g0);
          it.tf->get(rd, false, g1);
          if (memcmp(g0, m.data() + it.off, it.tf->size) || memcmp(g1, m.data() + it.off, it.tf->size)) { bad(std::string("get<") + it.tf->name + ">:value", vf::fmt("get<%s>(advance=false) twice at %zu returned %s / %s, buffer holds %s", it.tf->name, it.off, hexb(g0, it.tf->size).c_str(), hexb(g1, it.tf->size).c_str(), hexb(m.data() + it.off, it.tf->size).c_str())); return false; }
          if (rd.where() != it.off) { bad(std::string("get<") + it.tf->name + ">:advance", vf::fmt("get<%s>(advance=false) at %zu left the cursor at %zu", it.tf->name, it.off, rd.where())); return false; }
        } else if (it.t == IT_RAW) {
          std::string want = slice(it.off, it.len);
          std::string g0 = rd.read(it.len, false), g1 = rd.readx(it.len, false);
          Exact b(it.len);
          size_t c2 = rd.read(b.p, it.len, false);
          std::string g2((const char*)b.p, c2);
          memset(b.p, 0xEE, it.len);
          rd.readx(b.p, it.len, false);
          std::string g3((const char*)b.p, it.len);
          std::string g4((const char*)rd.getv(it.len, false), it.len);
          if (g0 != want || g1 != want || g2 != want || g3 != want || g4 != want) { bad("read:value", vf::fmt("read/readx/read(buf)/readx(buf)/getv(%zu, advance=false) at %zu returned %s / %s / %s / %s / %s, model %s", it.len, it.off, vf::show(g0).c_str(), vf::show(g1).c_str(), vf::show(g2).c_str(), vf::show(g3).c_str(), vf::show(g4).c_str(), vf::show(want).c_str())); return false; }
          if (rd.where() != it.off) { bad("read:advance", vf::fmt("read/readx/getv(advance=false) at %zu left the cursor at %zu", it.off, rd.where())); return false; }
        } else {
          std::string want;
          if (!cstr_at(it.off, &want)) continue;
          std::string g0 = rd.get_cstr(false), g1 = rd.get_cstr(false);
          if (g0 != want || g1 != want) { bad("get_cstr:value", vf::fmt("get_cstr(advance=false) twice at %zu returned %s / %s, model %s", it.off, vf::show(g0).c_str(), vf::show(g1).c_str(), vf::show(want).c_str())); return false; }
          if (rd.where() != it.off) { bad("get_cstr:advance", vf::fmt("get_cstr(advance=false) at %zu left the cursor at %zu", it.off, rd.where())); return false; }
        }
      }
    }
  } catch (const std::exception& e) {
    std::string what = e.what();
    bad("readback:throws", "unexpected exception while reading back: " + what);
    return false;
  }
  return good;
}

size_t pput_offset(int mode, size_t size) {
  switch (mode) {
    case 0: return 0;
    case 1: return 1;
    case 2: return size ? size - 1 : 0;
    case 3: return size;
    case 4: return size + 3;
    case 5: return size + 1;
    default: return size + 300;
  }
}

// the writer that OP_ASSIGN assigns from: "QRS" followed by u16b 0x8001
void fill_other(StringWriter& o) {
  o.write("QRS", 3);
  o.put_u16b(0x8001);
}

// one history on StringWriter
void history_sw(vf::Run& r, const std::vector<Op>& alpha, const std::vector<uint32_t>& seq) {
  StringWriter sw;
  Bytes m;
  std::vector<Item> items;
  auto hdesc = [&] { return "StringWriter history [" + seq_name(alpha, seq) + "]"; };
  const Op* last = nullptr;
  std::string exc;
  try {
    for (uint32_t oi : seq) {
      const Op& o = alpha[oi];
      last = &o;
      r.transitions++;
      switch (o.t) {
        case OP_PUT: {
          uint8_t b[8];
          enc(b, o.v, o.k->w, o.k->e);
          items.push_back({IT_TYPED, o.k, m.size(), (size_t)o.k->w, true});
          m.insert(m.end(), b, b + o.k->w);
          o.k->sw_put(sw, o.v);
          break;
        }
        case OP_PUT_T:
          items.push_back({IT_TFORM, nullptr, m.size(), o.tf->size, true, o.tf});
          m.insert(m.end(), o.tf->ref, o.tf->ref + o.tf->size);
          o.tf->sw_put(sw);
          break;
        case OP_WRITE:
          items.push_back({IT_RAW, nullptr, m.size(), o.block.size(), true});
          m.insert(m.end(), o.block.begin(), o.block.end());
          if (m.size() & 1) sw.write(o.block);
          else sw.write(o.block.data(), o.block.size());
          break;
        case OP_CSTR:
          items.push_back({IT_CSTR, nullptr, m.size(), o.block.size(), true});
          m.insert(m.end(), o.block.begin(), o.block.end());
          m.push_back(0);
          sw.write(o.block.c_str(), o.block.size() + 1);
          break;
        case OP_PPUT:
        case OP_PPUT_T: {
          uint8_t b[16];
          size_t w;
          if (o.t == OP_PPUT) {
            w = o.k->w;
            enc(b, o.v, o.k->w, o.k->e);
          } else {
            w = o.tf->size;
            memcpy(b, o.tf->ref, w);
          }
          size_t old = m.size(), off = pput_offset(o.offmode, old);
          if (m.size() < off + w) m.resize(off + w, 0);  // zero-extension past the end
          memcpy(m.data() + off, b, w);
          if (m.size() > old) items.push_back({IT_RAW, nullptr, old, m.size() - old, true});
          if (o.t == OP_PPUT) {
            items.push_back({IT_TYPED, o.k, off, w, false});
            o.k->sw_pput(sw, off, o.v);
          } else {
            items.push_back({IT_TFORM, nullptr, off, w, false, o.tf});
            o.tf->sw_pput(sw, off);
          }
          break;
        }
        case OP_EXTEND:
          items.push_back({IT_RAW, nullptr, m.size(), o.ext, true});
          m.resize(m.size() + o.ext, o.fill);
          if (o.ext_to) {
            if (o.ext_default) sw.extend_to(m.size());
            else sw.extend_to(m.size(), (char)o.fill);
          } else {
            if (o.ext_default) sw.extend_by(o.ext);
            else sw.extend_by(o.ext, (char)o.fill);
          }
          break;
        case OP_RESET:
          sw.reset();
          m.clear();
          items.clear();
          break;
        case OP_TAKE: {
          std::string t = std::move(sw.str());
          if (t.size() != m.size() || memcmp(t.data(), m.data(), m.size())) {
            r.fail("take:bytes", [&] { return hdesc() + ": the string moved out of str() holds " + hexb(t.data(), t.size()) + ", model " + hexb(m.data(), m.size()); });
            return;
          }
          sw.reset();  // a moved-from std::string is valid but unspecified; reset() must make the writer empty again
          m.clear();
          items.clear();
          break;
        }
        case OP_ASSIGN: {
          StringWriter other;
          fill_other(other);
          if (o.mode == 0) sw = other;
          else sw = std::move(other);
          m.assign({'Q', 'R', 'S', 0x80, 0x01});
          items.clear();
          items.push_back({IT_RAW, nullptr, 0, 3, true});
          items.push_back({IT_TYPED, kind("u16b"), 3, 2, true});
          break;
        }
        case OP_PWRITE: break;  // not in the StringWriter alphabet
      }
      // the buffer is compared after every operation so that a divergence is attributed to the
      // operation that caused it, not to the last one of the history
      const std::string& s = sw.str();
      const std::string& cs = const_cast<const StringWriter&>(sw).str();
      if (sw.size() != m.size() || s.size() != m.size() || &cs != &s) {
        r.fail(o.key + ":size", [&] { return hdesc() + " :: after " + o.name + vf::fmt(": writer size %zu, model %zu", sw.size(), m.size()); });
        return;
      }
      if (memcmp(s.data(), m.data(), m.size())) {
        r.fail(o.key + ":bytes", [&] { return hdesc() + " :: after " + o.name + ": writer holds " + hexb(s.data(), s.size()) + ", model " + hexb(m.data(), m.size()); });
        return;
      }
    }
  } catch (const std::exception& e) {
    exc = e.what();
    r.fail(last->key + ":throws", [&] { return hdesc() + " :: unexpected exception " + exc; });
    return;
  }
  const std::string& s = sw.str();
  Exact copy(m.size());
  memcpy(copy.p, s.data(), m.size());
  if (read_back(r, copy.p, m.size(), m, items, m.size(), hdesc)) r.ok(vf::fmt("history-ok/len%zu", seq.size()));
}

// the same history on BufferWriter over an exact-size caller buffer (prefilled with 0xEE; positional
// writes do not zero-fill there, untouched bytes must keep the prefill)
void history_bw(vf::Run& r, const std::vector<Op>& alpha, const std::vector<uint32_t>& seq) {
  auto hdesc = [&] { return "BufferWriter history [" + seq_name(alpha, seq) + "]"; };
  // dry pass: capacity = furthest byte any operation touches
  size_t cap = 0;
  {
    size_t cur = 0;
    for (uint32_t oi : seq) {
      const Op& o = alpha[oi];
      switch (o.t) {
        case OP_PUT: cur += o.k->w; break;
        case OP_PUT_T: cur += o.tf->size; break;
        case OP_WRITE: cur += o.block.size(); break;
        case OP_CSTR: cur += o.block.size() + 1; break;
        case OP_EXTEND: cur += o.ext; break;
        case OP_PPUT: cap = std::max(cap, pput_offset(o.offmode, cur) + o.k->w); break;
        case OP_PPUT_T: cap = std::max(cap, pput_offset(o.offmode, cur) + o.tf->size); break;
        case OP_PWRITE: cap = std::max(cap, pput_offset(o.offmode, cur) + o.block.size()); break;
        case OP_RESET: cur = 0; break;
        case OP_TAKE:
        case OP_ASSIGN: break;
      }
      cap = std::max(cap, cur);
    }
  }
  Exact buf(cap, 0xEE);
  BufferWriter bw(buf.p, cap);
  Bytes m(cap, 0xEE);
  size_t cur = 0;
  std::vector<Item> items;
  const Op* last = nullptr;
  std::string exc;
  try {
    for (uint32_t oi : seq) {
      const Op& o = alpha[oi];
      last = &o;
      r.transitions++;
      switch (o.t) {
        case OP_PUT:
          enc(m.data() + cur, o.v, o.k->w, o.k->e);
          items.push_back({IT_TYPED, o.k, cur, (size_t)o.k->w, true});
          cur += o.k->w;
          o.k->bw_put(bw, o.v);
          break;
        case OP_PUT_T:
          memcpy(m.data() + cur, o.tf->ref, o.tf->size);
          items.push_back({IT_TFORM, nullptr, cur, o.tf->size, true, o.tf});
          cur += o.tf->size;
          o.tf->bw_put(bw);
          break;
        case OP_WRITE:
          memcpy(m.data() + cur, o.block.data(), o.block.size());
          items.push_back({IT_RAW, nullptr, cur, o.block.size(), true});
          cur += o.block.size();
          if (cur & 1) bw.write(o.block);
          else bw.write(o.block.data(), o.block.size());
          break;
        case OP_CSTR:
          memcpy(m.data() + cur, o.block.c_str(), o.block.size() + 1);
          items.push_back({IT_CSTR, nullptr, cur, o.block.size(), true});
          cur += o.block.size() + 1;
          bw.write(o.block.c_str(), o.block.size() + 1);
          break;
        case OP_EXTEND: {  // BufferWriter cannot grow: the counterpart is writing the fill bytes
          memset(m.data() + cur, o.fill, o.ext);
          items.push_back({IT_RAW, nullptr, cur, o.ext, true});
          cur += o.ext;
          bw.write(std::string(o.ext, (char)o.fill));
          break;
        }
        case OP_PPUT: {
          size_t off = pput_offset(o.offmode, cur);
          enc(m.data() + off, o.v, o.k->w, o.k->e);
          items.push_back({IT_TYPED, o.k, off, (size_t)o.k->w, false});
          o.k->bw_pput(bw, off, o.v);
          break;
        }
        case OP_PPUT_T: {
          size_t off = pput_offset(o.offmode, cur);
          memcpy(m.data() + off, o.tf->ref, o.tf->size);
          items.push_back({IT_TFORM, nullptr, off, o.tf->size, false, o.tf});
          o.tf->bw_pput(bw, off);
          break;
        }
        case OP_PWRITE: {
          size_t off = pput_offset(o.offmode, cur);
          memcpy(m.data() + off, o.block.data(), o.block.size());
          items.push_back({IT_RAW, nullptr, off, o.block.size(), false});
          if (o.mode == 0) bw.pwrite(off, o.block);
          else bw.pwrite(off, o.block.data(), o.block.size());
          break;
        }
        case OP_RESET:
          // a second writer over the same buffer, which already holds what was written so far: the cursor
          // starts at 0 again, nothing is cleared
          bw = BufferWriter(buf.p, cap);
          cur = 0;
          for (auto& it : items) it.tiling = false;
          break;
        case OP_TAKE:
        case OP_ASSIGN: break;  // not in the BufferWriter alphabet
      }
      if (memcmp(buf.p, m.data(), cap)) {
        r.fail("bw_" + o.key + ":bytes", [&] { return hdesc() + " :: after " + o.name + ": buffer holds " + hexb(buf.p, cap) + ", model " + hexb(m.data(), cap); });
        return;
      }
      // BufferWriter has no accessor for its cursor: a copy of the writer appends one probe byte, which must land at
      // the model's cursor (then the byte is restored).  Attributes a wrong advance to the operation that made it.
      if (cur < cap) {
        BufferWriter probe = bw;
        uint8_t saved = buf.p[cur];
        probe.put_u8((uint8_t)(saved ^ 0x5F));
        size_t landed = cap;
        for (size_t i = 0; i < cap; i++)
          if (buf.p[i] != m[i]) { landed = i; break; }
        bool only_one = landed < cap && buf.p[landed] == (uint8_t)(m[landed] ^ 0x5F);
        if (only_one) {
          buf.p[landed] = m[landed];
          only_one = !memcmp(buf.p, m.data(), cap);
        }
        if (!only_one || landed != cur) {
          r.fail("bw_" + o.key + ":advance", [&] { return hdesc() + " :: after " + o.name + vf::fmt(": the next appended byte lands at %zu, the cursor should be at %zu", landed, cur); });
          return;
        }
        (void)saved;
      }
    }
  } catch (const std::exception& e) {
    exc = e.what();
    r.fail("bw_" + last->key + ":throws", [&] { return hdesc() + vf::fmt(" :: capacity %zu suffices for every operation, yet exception: ", cap) + exc; });
    return;
  }
  if (read_back(r, buf.p, cap, m, items, cur, hdesc)) r.ok(vf::fmt("history-ok/len%zu", seq.size()));
}

template <class F>
void enumerate_histories(vf::Run& r, const std::vector<Op>& alpha, size_t depth, F&& run) {
  for (size_t len = 1; len <= depth; len++) {
    std::vector<uint32_t> seq(len, 0);
    bool more = true;
    while (more) {
      if (r.take()) {
        if (r.wants_desc()) r.desc("[" + seq_name(alpha, seq) + "]");
        r.nontriv();
        r.states++;
        run(seq);
      }
      // last position varies fastest
      size_t i = len;
      for (;;) {
        if (i == 0) { more = false; break; }
        i--;
        if (++seq[i] < alpha.size()) break;
        seq[i] = 0;
      }
    }
  }
}

}  // namespace
