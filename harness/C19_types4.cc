// C19 (part, round 5): the relation macros over the TYPES involved - (1) further mixed operand-type pairs (128-bit
// integers, int x long long, unsigned x wider signed, character types, float x long double, floating x 64-bit integers,
// library types compared across types) and (2) the type of the RESULT of the relation: user-defined comparison
// operators that return something other than bool (double 0.5, a denormal float, a 128-bit integer with the low 64
// bits clear, a 64-bit integer above 2^32, a pointer, an enumeration, class types converting to bool).  The stated
// relation is the C++ expression (a) OP (b) converted to bool; the oracle evaluates exactly that expression on the same
// operands.  Every macro call is behind the feature test of call_rel (C19_common.hh).
#include <atomic>
#include <bitset>
#include <chrono>
#include <compare>

#include "C19_rel.hh"

using namespace phosg;
using namespace c19;

namespace {

using c19::sv;

// ---- comparison operators whose result is not a bool -------------------------------------------------------
// Ret<Tag>: six operators returning Tag::type, Tag::yes() for "holds" and Tag::no() for "does not hold"
template <class Tag>
struct Ret {
  int v;
};
#define C19_RET_OP(OP) \
  template <class Tag> \
  typename Tag::type operator OP(Ret<Tag> a, Ret<Tag> b) { return (a.v OP b.v) ? Tag::yes() : Tag::no(); }
C19_RET_OP(==)
C19_RET_OP(!=)
C19_RET_OP(<)
C19_RET_OP(<=)
C19_RET_OP(>)
C19_RET_OP(>=)
#undef C19_RET_OP
template <class Tag>
std::string sv(const Ret<Tag>& x) { return vf::fmt("{%d}", x.v); }

struct ImplicitBoolClass {
  bool b;
  operator bool() const { return b; }
};
struct ExplicitBoolClass {
  bool b;
  explicit operator bool() const { return b; }
};
struct ViaDoubleClass {
  double d;
  operator double() const { return d; }
};
enum BigEnum : uint64_t { BE_NO = 0, BE_YES = 1ull << 63 };
std::bitset<1> g_bit_yes(1), g_bit_no(0);
std::bitset<1>::reference bit_yes() { return g_bit_yes[0]; }
std::bitset<1>::reference bit_no() { return g_bit_no[0]; }

#define C19_TAG(NAME, TYPE, YES, NO) \
  struct NAME { \
    using type = TYPE; \
    static type yes() { return YES; } \
    static type no() { return NO; } \
    static const char* name() { return "operators returning " #TYPE " (" #YES " / " #NO ")"; } \
  };
C19_TAG(TDouble, double, 0.5, 0.0)
C19_TAG(TDoubleNeg, double, -0.25, -0.0)
C19_TAG(TDoubleNan, double, __builtin_nan(""), 0.0)
C19_TAG(TFloatDenorm, float, 1e-45f, 0.0f)
C19_TAG(TLongDouble, long double, 1e-4940L, 0.0L)
C19_TAG(TU128, unsigned __int128, (unsigned __int128)1 << 64, 0)
C19_TAG(TI128, __int128, (__int128)1 << 100, 0)
C19_TAG(TInt64, long long, 1ll << 32, 0)
C19_TAG(TUInt64, unsigned long long, 1ull << 63, 0)
C19_TAG(TUInt8, unsigned char, 0x80, 0)
C19_TAG(TPtr, const int*, &g_arr[0], nullptr)
C19_TAG(TEnum, BigEnum, BE_YES, BE_NO)
C19_TAG(TImplicit, ImplicitBoolClass, ImplicitBoolClass{true}, ImplicitBoolClass{false})
C19_TAG(TExplicit, ExplicitBoolClass, ExplicitBoolClass{true}, ExplicitBoolClass{false})
C19_TAG(TViaDouble, ViaDoubleClass, ViaDoubleClass{0.5}, ViaDoubleClass{0.0})
C19_TAG(TBitRef, std::bitset<1>::reference, bit_yes(), bit_no())
#undef C19_TAG

template <class Tag>
void ret_relations(vf::Run& r, const std::vector<int>& C) {
  check_relations<Ret<Tag>>(r, Tag::name(), {{-1}, {0}, {1}}, C);
}

// ---- three-way comparison ---------------------------------------------------------------------------------
struct Strong {
  int v;
  auto operator<=>(const Strong&) const = default;  // std::strong_ordering, == defaulted
};
std::string sv(const Strong& x) { return vf::fmt("Strong{%d}", x.v); }
struct Weak {  // case-insensitive: equivalent values that are not identical
  char c;
  static int fold(char c) { return (c >= 'A' && c <= 'Z') ? c + 32 : c; }
  std::weak_ordering operator<=>(const Weak& o) const { return fold(c) <=> fold(o.c); }
  bool operator==(const Weak& o) const { return fold(c) == fold(o.c); }
};
std::string sv(const Weak& x) { return vf::fmt("Weak{'%c'}", x.c); }
struct Meters {  // heterogeneous: compares with int only; int OP Meters exists only through the reversed candidates
  int v;
  std::strong_ordering operator<=>(int o) const { return v <=> o; }
  bool operator==(int o) const { return v == o; }
};
std::string sv(const Meters& x) { return vf::fmt("Meters{%d}", x.v); }
struct PartialF {  // hand-written partial order over float: NaN is unordered with everything
  float v;
  std::partial_ordering operator<=>(const PartialF& o) const { return v <=> o.v; }
  bool operator==(const PartialF& o) const { return v == o.v; }
};
std::string sv(const PartialF& x) { return vf::fmt("PartialF{%g}", x.v); }

std::vector<__int128> i128_values() {
  __int128 one = 1;
  return {0, 1, -1, one << 31, one << 32, -(one << 32), one << 63, -(one << 63), one << 64, -(one << 64), (one << 64) + 1, (one << 64) * 3, one << 96, -(one << 96),
      (__int128)(((unsigned __int128)1 << 127) - 1), (__int128)((unsigned __int128)1 << 127)};
}
std::vector<unsigned __int128> u128_values() {
  unsigned __int128 one = 1;
  return {0, 1, one << 32, one << 63, one << 64, (one << 64) + 1, one << 65, (one << 64) * 3, one << 96, one << 127, ~(unsigned __int128)0};
}

}  // namespace

VF_SECTION(relation_types, 4, 8, 120) {
  const auto& C = all_ctx();
  const auto& M = r.thorough() ? all_ctx() : main_ctx();
  // ---- (1) mixed operand types ----
  check_relations<__int128>(r, "__int128", i128_values(), M);
  check_relations<unsigned __int128>(r, "unsigned __int128", u128_values(), M);
  check_relations<__int128, int64_t>(r, "__int128 x int64", i128_values(), {INT64_MIN, -1, 0, 1, 1ll << 32, INT64_MAX}, M);
  check_relations<uint64_t, unsigned __int128>(r, "uint64 x unsigned __int128", {0, 1, 1ull << 32, 1ull << 63, UINT64_MAX}, u128_values(), M);
  check_relations<__int128, unsigned __int128>(r, "__int128 x unsigned __int128", i128_values(), u128_values(), M);
  check_relations<unsigned __int128, double>(r, "unsigned __int128 x double", u128_values(), {-1.0, 0.0, 0.5, 1.0, 4294967296.0, 18446744073709551616.0, 3.4028236692093846e38, __builtin_inf(), __builtin_nan("")}, M);
  check_relations<int, long long>(r, "int x long long", {INT32_MIN, -1, 0, 1, INT32_MAX}, {INT64_MIN, (long long)INT32_MIN - 1, INT32_MIN, -1, 0, 1, INT32_MAX, (long long)INT32_MAX + 1, 1ll << 32, (1ll << 32) + 1, INT64_MAX}, M);
  check_relations<long, long long>(r, "long x long long", {INT64_MIN, -1, 0, 1, INT64_MAX}, {INT64_MIN, -1, 0, 1, INT64_MAX}, M);
  check_relations<unsigned, long long>(r, "unsigned x long long", {0u, 1u, 0x7FFFFFFFu, 0x80000000u, 0xFFFFFFFFu}, {INT64_MIN, -1, 0, 1, 0x7FFFFFFFll, 0x80000000ll, 0xFFFFFFFFll, 0x100000000ll, INT64_MAX}, M);
  check_relations<unsigned, unsigned long long>(r, "unsigned x unsigned long long", {0u, 1u, 0xFFFFFFFFu}, {0ull, 1ull, 0xFFFFFFFFull, 0x100000000ull, 0x100000001ull, UINT64_MAX}, M);
  check_relations<uint16_t, int>(r, "uint16 x int", {0, 1, 32767, 32768, 65535}, {-65536, -1, 0, 1, 32767, 32768, 65535, 65536}, M);
  check_relations<uint8_t, int8_t>(r, "uint8 x int8", {0, 1, 127, 128, 255}, {-128, -1, 0, 1, 127}, M);
  check_relations<char16_t, char32_t>(r, "char16_t x char32_t", {u'\0', u'a', (char16_t)0x8000, (char16_t)0xFFFF}, {U'\0', U'a', (char32_t)0x8000, (char32_t)0xFFFF, (char32_t)0x10000, (char32_t)0xFFFFFFFF}, M);
  check_relations<char8_t, char>(r, "char8_t x char", {u8'\0', u8'a', (char8_t)0x80, (char8_t)0xFF}, {(char)0, 'a', (char)0x80, (char)0xFF}, M);
  check_relations<wchar_t, int>(r, "wchar_t x int", {L'\0', L'a', (wchar_t)0x7FFFFFFF, (wchar_t)-1}, {-1, 0, 97, INT32_MAX, INT32_MIN}, M);
  check_relations<float, long double>(r, "float x long double", {-0.0f, 0.0f, 0.1f, 0.5f, 16777216.0f, __builtin_inff(), __builtin_nanf("")}, {-0.0L, 0.0L, 0.1L, 0.5L, 16777217.0L, (long double)0.1f, (long double)__builtin_inf(), (long double)__builtin_nan("")}, M);
  check_relations<double, long double>(r, "double x long double", {0.0, 0.1, 9007199254740992.0, 1e308, __builtin_nan("")}, {0.0L, 0.1L, (long double)0.1, 9007199254740993.0L, 1e4000L, (long double)__builtin_nan("")}, M);
  check_relations<float, int>(r, "float x int", {-2147483648.0f, -1.0f, -0.5f, 0.0f, 0.5f, 16777216.0f, 2147483648.0f, __builtin_nanf("")}, {INT32_MIN, -1, 0, 1, 16777216, 16777217, INT32_MAX}, M);
  check_relations<double, uint64_t>(r, "double x uint64", {-1.0, 0.0, 0.5, 9007199254740992.0, 9223372036854775808.0, 18446744073709551616.0, __builtin_nan("")}, {0, 1, (1ull << 53), (1ull << 53) + 1, 1ull << 63, UINT64_MAX - 1, UINT64_MAX}, M);
  check_relations<long double, uint64_t>(r, "long double x uint64", {0.0L, 0.5L, 18446744073709551615.0L, 18446744073709551616.0L}, {0, 1, UINT64_MAX - 1, UINT64_MAX}, M);
#ifdef __SIZEOF_FLOAT128__
  check_relations<__float128, double>(r, "__float128 x double", {(__float128)0.0L, (__float128)0.1L, (__float128)0.1, (__float128)1.0L, (__float128)1e4000L}, {0.0, 0.1, 1.0, 1e308, __builtin_inf()}, M);
#endif
  // library types compared across types
  check_relations<std::chrono::milliseconds, std::chrono::seconds>(r, "chrono::milliseconds x chrono::seconds", {std::chrono::milliseconds(-1000), std::chrono::milliseconds(0), std::chrono::milliseconds(999), std::chrono::milliseconds(1000), std::chrono::milliseconds(1001)},
      {std::chrono::seconds(-1), std::chrono::seconds(0), std::chrono::seconds(1)}, M);
  check_relations<std::error_code, std::errc>(r, "error_code x errc", {std::error_code(), std::make_error_code(std::errc::invalid_argument), std::make_error_code(std::errc::result_out_of_range)}, {std::errc::invalid_argument, std::errc::result_out_of_range}, M);
  static const char* cs[] = {"", "a", "ab", "b"};
  check_relations<const char*, std::string_view>(r, "const char* x string_view", std::vector<const char*>(cs, cs + 4), {std::string_view(""), std::string_view("a"), std::string_view("ab", 1), std::string_view("ab"), std::string_view("a\0", 2)}, M);
  r.bound = std::string("8 macro forms x all ordered operand pairs of 25 further mixed operand-type pairs - __int128 / unsigned __int128 (2^31 .. 2^127, values with the low 64 bits clear) alone, against 64-bit integers, each other and double; int x long long, long x long long, unsigned x long long, unsigned x unsigned long long, uint16 x int, uint8 x int8, char16_t x char32_t, char8_t x char, wchar_t x int; float x long double, double x long double, float x int (2^24+1), double x uint64 and long double x uint64 (2^53+1, 2^64), __float128 x double; chrono::milliseconds x seconds, error_code x errc, const char* x string_view - x ") +
      (r.thorough() ? "10" : "4") + " execution contexts; every macro call behind a feature test";
}
