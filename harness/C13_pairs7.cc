// C13 round 2 — boundary coordinate pairs: the 1-D tree (see C13_pairs.hh).
#include "C13_pairs.hh"
using namespace c13;
VF_SECTION(pairs_1d, 16, 16, 120) {
  bool th = r.thorough();
  (void)th;
  std::string b;
  run_pairs<P1<int64_t>>(r, boundary_alphabet<int64_t>(), th ? 4 : 0, b);
  run_pairs<P1<double>>(r, boundary_alphabet<double>(), 4, b);
  r.bound = "every ordered pair (a,b) of the int64_t / double boundary alphabets as the coordinates of a 1-D tree holding a, b and a duplicate of a: " + b;
}
