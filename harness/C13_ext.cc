// C13 round 2 — the E-BFS closures of S1 / S3 on grids whose coordinates sit at the limits of int64_t.
#include "C13_explorer.hh"

using namespace c13x;

// S5: S1's scope with the grid coordinates at the limits of int64_t
VF_SECTION(S5, 1, 1, 180) {
  bool th = r.thorough();
  Explorer<V2, ExtMap> e(r, 1, th ? 5 : 4, 5);
  e.run("S5 (3x3 grid on {INT64_MIN, -1, INT64_MAX-1}, value 0)", th ? 8 : 3);
}

// S6: S3's scope with the cube coordinates at the limits of int64_t
VF_SECTION(S6, 1, 1, 180) {
  bool th = r.thorough();
  Explorer<V3, ExtMap> e(r, 1, th ? 4 : 3, 5);
  e.run("S6 (2x2x2 cube on {INT64_MIN, INT64_MAX-1}, value 0)", th ? 2 : 1);
}

