// C06 round 2 — sections history / states / apis (included by C06.cc, same translation unit).
//
//   history  STATE CARRIED BETWEEN CALLS: every ordered pair (a, b) of a boundary set of save/load calls (images
//            and files that differ in size class, row stride, alpha, channel width, container, success/failure)
//            is executed as the call history a, b, a in a fresh forked child; thorough: a, b, c for each of 12 observing calls c.
//            Every step is judged on its own: loads against the picture the file defines, PPM/BMP output by
//            loading it back, every distinct output file by the Python decoders.
//   states   NON-INITIAL OBJECT STATES: copy-assign / move-assign / swap between every ordered pair of object
//            states (fresh, loaded from each container, raw constructor with a MAXVAL, after set_channel_width /
//            set_has_alpha, empty), self-assignment, copy/move construction, then save in every format: the
//            codec must see the transferred dims / alpha / width / MAXVAL / pixels.
//   apis     RARE OVERLOADS AND CONTEXTS: every save overload and stream kind (string, memstream, real file
//            in four buffering modes, pipe, const char*, std::string, stdout via null filename,
//            stream at a non-zero position, png_data_url) and the raw-data constructors, each inside a catch
//            handler, inside a destructor during unwinding and under several ambient errno values.
#pragma once

namespace {

struct Spec {
  int w, h;
  bool alpha;
  int cw, pat;
  uint64_t maxval;  // 0 = 2^cw - 1
};

string spec_name(const Spec& s) {
  return vf::fmt("%dx%d %s %d-bit pattern=%s%s", s.w, s.h, s.alpha ? "alpha" : "no-alpha", s.cw, pat_name[s.pat], s.maxval ? vf::fmt(" maxval=%llu", (unsigned long long)s.maxval).c_str() : "");
}

vector<uint8_t> spec_raw(const Spec& s) {
  auto v = pattern_bytes(s.w, s.h, s.alpha, s.cw, s.pat);
  if (s.maxval && s.maxval != ~0ull) {
    size_t n = v.size() / (s.cw / 8);
    for (size_t i = 0; i < n; i++) put_sample(&v[i * (s.cw / 8)], get_sample(&v[i * (s.cw / 8)], s.cw) % (s.maxval + 1), s.cw);
  }
  return v;
}

// images with a MAXVAL below full scale come from the raw-data constructor (the only public way to set it besides
// loading a netpbm file)
Image spec_image(const Spec& s) {
  auto raw = spec_raw(s);
  if (!s.maxval) {
    Image img(s.w, s.h, s.alpha, s.cw);
    if (img.get_data_size() != raw.size()) throw std::logic_error("harness: unexpected Image::get_data_size()");
    memcpy(img.get_data(), raw.data(), raw.size());
    return img;
  }
  FILE* f = fmemopen(raw.data(), raw.size(), "rb");
  if (!f) throw std::logic_error("harness: fmemopen failed");
  try {
    Image img(f, s.w, s.h, s.alpha, s.cw, s.maxval);
    fclose(f);
    return img;
  } catch (...) {
    fclose(f);
    throw;
  }
}

// RGBA, one byte per sample, alpha 0xFF when the image has none: what the Python decoders must read from an 8-bit file
string rgba8_of(const vector<uint8_t>& raw, int w, int h, bool alpha) {
  string e;
  int nch = 3 + alpha;
  for (size_t px = 0; px < (size_t)w * h; px++) {
    for (int c = 0; c < 3; c++) e.push_back((char)raw[px * nch + c]);
    e.push_back(alpha ? (char)raw[px * nch + 3] : (char)0xFF);
  }
  return e;
}

uint64_t fnv(const string& s) {
  uint64_t h = 1469598103934665603ull;
  for (unsigned char c : s) h = (h ^ c) * 1099511628211ull;
  return h;
}

// Files written by save() in the new sections: each distinct (what, bytes) goes to the Python decoders once per shard.
struct SavedSink {
  Dump dump;
  std::set<std::pair<string, uint64_t>> seen;
  uint64_t distinct = 0;
  void open(vf::Run& r) { dump.open(r); }
  void add(vf::Run& r, const string& fmt, int w, int h, bool alpha, uint64_t maxval, const vector<uint8_t>& raw, const string& bytes, const string& ctx, int step) {
    string ident = vf::fmt("%s/%d/%d/%d/%llu/", fmt.c_str(), w, h, alpha, (unsigned long long)maxval) + std::to_string(fnv(string((const char*)raw.data(), raw.size())));
    if (!seen.insert({ident, fnv(bytes)}).second) return;
    distinct++;
    dump.rec(vf::fmt("{\"idx\":%llu,\"section\":\"%s\",\"role\":\"saved\",\"fmt\":\"%s\",\"w\":%d,\"h\":%d,\"alpha\":%d,\"maxval\":%llu,\"step\":%d,\"ctx\":\"%s\"}", (unsigned long long)r.cur, r.section.c_str(),
                 fmt.c_str(), w, h, alpha ? 1 : 0, (unsigned long long)(maxval ? maxval : 255), step, ctx.c_str()),
        bytes, rgba8_of(raw, w, h, alpha));
    r.counters["files_for_python"]++;
  }
};

// PPM/BMP bytes must load back (through phosg) to exactly the image they were saved from; a PPM header must carry
// the image's MAXVAL.  "" when fine, else "<kind>\t<description>".
string load_back_verdict(const string& bytes, bool is_ppm, int w, int h, bool alpha, int cw, uint64_t maxval, const vector<uint8_t>& raw) {
  Loaded L = load_bytes((const uint8_t*)bytes.data(), bytes.size());
  if (L.outcome != "ok") return "load-of-own-output-throws\tImage(FILE*) on the written bytes threw " + L.outcome + " (" + L.what + ")";
  if (L.w != w || L.h != h) return vf::fmt("roundtrip-dims\tloaded %dx%d", L.w, L.h);
  if (L.alpha != alpha) return vf::fmt("roundtrip-alpha-flag\tloaded has_alpha=%d", L.alpha);
  if (L.cw != cw) return vf::fmt("roundtrip-channel-width\tloaded channel width %d, saved %d", L.cw, cw);
  if (L.raw != raw) {
    size_t i = 0;
    while (i < raw.size() && i < L.raw.size() && L.raw[i] == raw[i]) i++;
    return vf::fmt("roundtrip-pixels\tfirst differing byte of the pixel buffer at %zu of %zu", i, raw.size());
  }
  if (is_ppm) {
    PnmHdr H = parse_pnm_header(bytes);
    uint64_t want = maxval ? maxval : mask_of(cw);
    if (!H.ok) return "ppm-header\tno valid netpbm header: " + vf::show(bytes.substr(0, 60));
    if (H.maxval != want) return vf::fmt("ppm-maxval\theader has MAXVAL %llu, the image has %llu", (unsigned long long)H.maxval, (unsigned long long)want);
  }
  return "";
}

Image::Format fmt_of(int i) { return i == 0 ? Image::Format::COLOR_PPM : i == 1 ? Image::Format::WINDOWS_BITMAP : Image::Format::PNG; }

// ---------------------------------------------------------------------------------------------
// history

struct HOp {
  int kind = 0;  // 0 save(Format) -> string, 1 save(FILE*) on a memory stream, 2 load
  Spec spec{};
  int fmt = 0;
  string file;  // loads
  Pic pic;
  bool cut = false;       // the file is a proper prefix: must throw or decode identically
  bool dontcare = false;  // recorded only
  bool probe = false;     // thorough: one of the calls used as the third (observing) call of a triple
  string family, name;
};

vector<HOp> history_ops() {
  vector<HOp> ops;
  const Spec imgs[] = {
      {1, 1, false, 8, 2, 0}, {5, 3, false, 8, 2, 0}, {9, 8, true, 8, 2, 0}, {4, 6, true, 8, 3, 0}, {3, 5, false, 8, 1, 0}, {7, 2, true, 8, 5, 0},
      {16, 4, false, 8, 0, 0}, {64, 1, false, 8, 2, 0}, {1, 64, true, 8, 2, 0}, {2, 2, false, 8, 2, 100}, {2, 2, false, 16, 2, 0}, {3, 1, true, 64, 4, 0}};
  const char* fn[3] = {"ppm", "bmp", "png"};
  for (auto& s : imgs)
    for (int fmt = 0; fmt < 3; fmt++) {
      if (s.cw != 8 && fmt == 2) continue;  // one refusal per wide image is enough (bmp)
      HOp o; o.kind = 0; o.spec = s; o.fmt = fmt; o.dontcare = s.cw != 8 && fmt != 0;
      o.family = string("save-") + fn[fmt];
      o.name = vf::fmt("save(%s) of %s", fn[fmt], spec_name(s).c_str());
      ops.push_back(o);
    }
  for (auto [i, fmt] : {std::pair<int, int>{1, 2}, {2, 1}, {10, 0}, {3, 2}}) {
    HOp o; o.kind = 1; o.spec = imgs[i]; o.fmt = fmt; o.family = string("save-") + fn[fmt];
    o.name = vf::fmt("save(FILE*, %s) of %s", fn[fmt], spec_name(imgs[i]).c_str());
    ops.push_back(o);
  }
  auto kinds = all_kinds(true);
  auto add_load = [&](const char* kname, int w, int h, int pat, ssize_t cut) {
    for (auto& k : kinds)
      if (k.name == kname) {
        HOp o; o.kind = 2; o.family = "load-" + k.family;
        o.file = make_variant(k, w, h, pat, o.pic);
        o.name = vf::fmt("load %s %dx%d", kname, w, h);
        if (cut >= 0) {
          o.cut = true;
          size_t n = cut < (ssize_t)o.file.size() ? (size_t)cut : o.file.size() - 1;
          o.file.resize(n);
          o.name += vf::fmt(" cut to %zu bytes", n);
        }
        ops.push_back(o);
        return;
      }
    fprintf(stderr, "harness: no variant named %s\n", kname);
    _exit(3);
  };
  add_load("P6/ws0", 5, 3, 2, -1);
  add_load("P7/RGB_ALPHA", 3, 2, 2, -1);
  add_load("P5/ws1", 4, 3, 5, -1);
  add_load("P7/GRAYSCALE_ALPHA/16-bit", 3, 2, 2, -1);
  add_load("P5/64-bit", 2, 2, 2, -1);
  add_load("P6/maxval100", 2, 2, 2, -1);
  add_load("P7/RGB_ALPHA/32-bit", 1, 3, 2, -1);
  add_load("BMP/24-bit/BI_RGB/bottom-up/hdr40", 5, 3, 2, -1);
  add_load("BMP/24-bit/BI_RGB/bottom-up/hdr40", 1, 2, 3, -1);
  add_load("BMP/32-bit/BI_RGB/top-down/hdr108", 3, 2, 2, -1);
  add_load("BMP/32-bit/BI_BITFIELDS/RGBA@bytes0123/top-down/hdr124", 2, 3, 2, -1);
  add_load("BMP/32-bit/BI_BITFIELDS/RGBA@bytes3012/bottom-up/hdr56", 3, 3, 2, -1);
  add_load("BMP/32-bit/BI_BITFIELDS/RGBA@bytes0213/bottom-up/hdr108", 2, 2, 2, -1);  // shares the red mask with 0123, the alpha mask with 3012 ...
  add_load("BMP/32-bit/BI_BITFIELDS/RGBA@bytes2103/top-down/hdr124", 2, 3, 2, -1);    // ... and this one the green and alpha masks with 0123
  add_load("BMP/24-bit/BI_RGB/top-down/hdr124", 2, 3, 2, -1);
  add_load("BMP/24-bit/BI_RGB/top-down/hdr40/gap8", 3, 2, 2, -1);
  add_load("P6/ws0", 5, 3, 2, 40);
  add_load("P7/RGB_ALPHA", 3, 2, 2, 20);
  add_load("BMP/24-bit/BI_RGB/bottom-up/hdr40", 5, 3, 2, 60);
  add_load("BMP/32-bit/BI_BITFIELDS/RGBA@bytes0123/top-down/hdr124", 2, 3, 2, 150);
  {
    HOp o; o.kind = 2; o.family = "load-unknown"; o.dontcare = true; o.file = "XY 3 2 255\n123456789012345678"; o.name = "load a file with signature XY";
    ops.push_back(o);
  }
  for (auto& o : ops)
    for (const char* nm : {"save(png) of 5x3 no-alpha 8-bit pattern=coord", "save(png) of 4x6 alpha 8-bit pattern=ctl-bytes", "save(bmp) of 3x5 no-alpha 8-bit pattern=max",
             "save(bmp) of 9x8 alpha 8-bit pattern=coord", "save(ppm) of 7x2 alpha 8-bit pattern=texty", "save(ppm) of 2x2 no-alpha 16-bit pattern=coord", "load P6/ws0 5x3", "load P5/ws1 4x3",
             "load P7/GRAYSCALE_ALPHA/16-bit 3x2", "load BMP/24-bit/BI_RGB/bottom-up/hdr40 5x3", "load BMP/32-bit/BI_BITFIELDS/RGBA@bytes0123/top-down/hdr124 2x3",
             "load BMP/32-bit/BI_BITFIELDS/RGBA@bytes0213/bottom-up/hdr108 2x2"})
      if (o.name == nm) o.probe = true;
  return ops;
}

void put_u32(string& s, uint32_t v) { s.append((const char*)&v, 4); }
uint32_t get_u32(const string& s, size_t& pos) {
  uint32_t v = 0;
  if (pos + 4 <= s.size()) memcpy(&v, s.data() + pos, 4);
  pos += 4;
  return v;
}

// runs in the forked child: executes the calls in order, returns per step a verdict and (for saves) the bytes
string run_history(vf::Run& r, const vector<HOp>& ops, const vector<int>& seq) {
  string out;
  vector<string> saved(seq.size());
  vector<string> verdict(seq.size());
  for (size_t i = 0; i < seq.size(); i++) {
    const HOp& o = ops[seq[i]];
    r.poison_errno();
    if (o.kind == 2) {
      Loaded L = load_bytes((const uint8_t*)o.file.data(), o.file.size());
      if (o.dontcare) verdict[i] = "OK dont-care:" + L.outcome;
      else if (L.outcome == "nonstd") verdict[i] = "FAIL nonstd-exception\tload ended with a non-standard exception";
      else if (L.outcome != "ok") verdict[i] = o.cut ? "OK rejected:" + L.outcome : "FAIL throws\tImage(FILE*) threw " + L.outcome + " (" + L.what + ")";
      else {
        string c = compare_loaded(L, o.pic, true);
        if (!c.empty()) verdict[i] = "FAIL " + (o.cut ? "accepted-differently\tthe truncated file was accepted but " + c.substr(c.find('\t') + 1) : c);
        else verdict[i] = "OK decoded-as-defined";
      }
      continue;
    }
    try {
      Image img = spec_image(o.spec);
      if (o.kind == 0) saved[i] = img.save(fmt_of(o.fmt));
      else {
        char* mb = nullptr;
        size_t ml = 0;
        FILE* mf = open_memstream(&mb, &ml);
        try {
          img.save(mf, fmt_of(o.fmt));
        } catch (...) {
          fclose(mf);
          free(mb);
          throw;
        }
        fclose(mf);
        saved[i].assign(mb, ml);
        free(mb);
      }
      verdict[i] = "SAVED";
    } catch (const std::exception& e) {
      verdict[i] = o.dontcare ? string("OK dont-care:refused") : string("FAIL throws\tsave threw ") + e.what();
    }
  }
  // after the history: PPM/BMP output must load back to the image it was saved from
  for (size_t i = 0; i < seq.size(); i++) {
    const HOp& o = ops[seq[i]];
    if (verdict[i] != "SAVED") continue;
    if (o.dontcare) { verdict[i] = "OK dont-care:saved"; saved[i].clear(); continue; }
    verdict[i] = "OK saved";
    if (o.fmt != 2) {
      string v = load_back_verdict(saved[i], o.fmt == 0, o.spec.w, o.spec.h, o.spec.alpha, o.spec.cw, o.spec.maxval, spec_raw(o.spec));
      if (!v.empty()) verdict[i] = "FAIL " + v;
    }
  }
  for (size_t i = 0; i < seq.size(); i++) {
    put_u32(out, verdict[i].size());
    out += verdict[i];
    put_u32(out, saved[i].size());
    out += saved[i];
  }
  return out;
}

}  // namespace

VF_SECTION(history, 16, 16, 90) {
  SavedSink sink;
  sink.open(r);
  auto ops = history_ops();
  warm_symbolizer();
  int n = ops.size();
  bool triples = r.thorough();
  uint64_t third_same = 0, third_diff = 0;
  auto run_case = [&](const vector<int>& seq) {
    if (!r.take()) return;
    string hist;
    for (size_t i = 0; i < seq.size(); i++) hist += (i ? "; " : "") + ops[seq[i]].name;
    if (r.wants_desc()) r.desc("call history in one fresh process: " + hist);
    r.note("history");
    r.nontriv();
    Iso iso = isolated([&] { return run_history(r, ops, seq); });
    if (!iso.normal) {
      r.fail("crash", [&] { return "history [" + hist + "]: the process died: " + iso.asan; });
      return;
    }
    size_t pos = 0;
    vector<string> bytes(seq.size());
    bool bad = false;
    for (size_t i = 0; i < seq.size(); i++) {
      uint32_t vl = get_u32(iso.verdict, pos);
      string v = iso.verdict.substr(pos, vl);
      pos += vl;
      uint32_t bl = get_u32(iso.verdict, pos);
      bytes[i] = iso.verdict.substr(pos, bl);
      pos += bl;
      const HOp& o = ops[seq[i]];
      if (v.compare(0, 5, "FAIL ") == 0) {
        size_t t = v.find('\t');
        bad = true;
        r.fail(o.family + ":" + v.substr(5, t - 5), [&] { return vf::fmt("step %zu of the history [", i + 1) + hist + "]: " + v.substr(t + 1); });
      } else if (v.compare(0, 3, "OK ") != 0) {
        bad = true;
        r.fail("harness:garbled-verdict", [&] { return "history [" + hist + "]: " + vf::show(v.substr(0, 80)); });
      } else if (!bytes[i].empty() && o.spec.cw == 8) {
        const char* fn[3] = {"ppm", "bmp", "png"};
        sink.add(r, fn[o.fmt], o.spec.w, o.spec.h, o.spec.alpha, o.spec.maxval, spec_raw(o.spec), bytes[i], "step " + std::to_string(i + 1) + " of: " + hist, (int)i);
      }
    }
    if (bad) return;
    // repeated call: recorded (a different but valid encoding is not a violation; validity is judged above / by Python)
    bool rep = false, same = true;
    for (size_t i = 0; i < seq.size(); i++)
      for (size_t j = i + 1; j < seq.size(); j++)
        if (seq[i] == seq[j] && ops[seq[i]].kind != 2) { rep = true; same = same && bytes[i] == bytes[j]; }
    if (rep) (same ? third_same : third_diff)++;
    r.ok(!rep ? "every-step-as-defined" : same ? "every-step-as-defined,repeated-save-byte-identical" : "every-step-as-defined,repeated-save-encoded-differently");
  };
  if (!triples) {
    for (int a = 0; a < n; a++)
      for (int b = 0; b < n; b++) run_case({a, b, a});
  } else {
    for (int a = 0; a < n; a++)
      for (int b = 0; b < n; b++)
        for (int c = 0; c < n; c++)
          if (ops[c].probe) run_case({a, b, c});
  }
  int nprobe = 0;
  for (auto& o : ops) nprobe += o.probe;
  if (nprobe != 12) r.fail("harness:probe-set", [&] { return vf::fmt("%d probe calls found, 12 expected", nprobe); });
  r.counters["distinct_saved_files"] = sink.distinct;
  r.bound = vf::fmt("%d calls (save(Format)/save(FILE*) of 12 images differing in size class, stride, alpha, channel width, MAXVAL x {ppm,bmp,png}; loads of 16 container variants, 4 truncated files, "
                    "1 unknown signature) - %s, each history in a fresh process",
      n, triples ? "every ordered pair (a, b) followed by each of 12 observing calls c (6 saves, 6 loads) as the history a, b, c" : "every ordered pair as the history a, b, a");
}

// =============================================================================================
// states

namespace {

struct St {
  string name;
  int w = 0, h = 0, cw = 8;
  bool alpha = false, empty = false;
  uint64_t maxval = 0;  // expected MAXVAL of a PPM written from it; 0 = not judged
  vector<uint8_t> raw;
};

const int NSTATES = 15;

// builds state i; the expectation is computed by the harness wherever it can be (patterns, generator pictures)
Image make_state(int i, St& st) {
  st = St();
  auto from_spec = [&](const Spec& s, const char* how) {
    st.name = string(how) + " " + spec_name(s);
    st.w = s.w; st.h = s.h; st.cw = s.cw; st.alpha = s.alpha; st.maxval = s.maxval ? s.maxval : mask_of(s.cw);
    st.raw = spec_raw(s);
    return spec_image(s);
  };
  auto from_file = [&](const char* kname, int w, int h) {
    for (auto& k : all_kinds(true))
      if (k.name == kname) {
        Pic pic;
        string file = make_variant(k, w, h, 2, pic);
        FILE* f = fmemopen(file.data(), file.size(), "rb");
        Image img(f);
        fclose(f);
        st.name = vf::fmt("loaded from %s %dx%d", kname, w, h);
        st.w = w; st.h = h; st.cw = k.cw; st.alpha = img.get_has_alpha();
        st.maxval = k.type == Kind::PNM ? k.eff_maxval() : 0xFF;
        for (int y = 0; y < h; y++)
          for (int x = 0; x < w; x++)
            for (int c = 0; c < 3 + st.alpha; c++) {
              uint8_t b[8];
              put_sample(b, pic.at(x, y, c), 64);
              st.raw.insert(st.raw.end(), b, b + k.cw / 8);
            }
        return img;
      }
    throw std::logic_error("harness: unknown kind");
  };
  switch (i) {
    case 0: st.name = "default-constructed (empty)"; st.empty = true; return Image();
    case 1: return from_spec({1, 1, false, 8, 2, 0}, "fresh");
    case 2: return from_spec({3, 2, false, 8, 3, 0}, "fresh");
    case 3: return from_spec({2, 3, true, 8, 2, 0}, "fresh");
    case 4: return from_spec({3, 2, false, 16, 2, 0}, "fresh");
    case 5: return from_spec({2, 2, true, 32, 5, 0}, "fresh");
    case 6: return from_spec({1, 2, false, 64, 4, 0}, "fresh");
    case 7: return from_spec({5, 1, true, 8, 1, 0}, "fresh");
    case 8: return from_file("P6/maxval100", 2, 2);
    case 9: return from_file("P5/ws0", 3, 1);
    case 10: return from_file("BMP/32-bit/BI_BITFIELDS/RGBA@bytes2103/top-down/hdr108", 2, 2);
    case 11: return from_spec({2, 2, true, 16, 2, 1000}, "raw-constructed");
    case 12: return from_file("BMP/24-bit/BI_RGB/bottom-up/hdr40", 3, 3);
    case 13: {  // produced by a canvas function: expectation = what the object holds afterwards
      Image img = from_spec({3, 2, false, 8, 2, 0}, "fresh");
      img.set_channel_width(16);
      st.name = "3x2 8-bit widened by set_channel_width(16)";
      st.cw = 16; st.maxval = 0;
      st.raw.assign((const uint8_t*)img.get_data(), (const uint8_t*)img.get_data() + img.get_data_size());
      return img;
    }
    default: {
      Image img = from_spec({2, 2, false, 8, 5, 0}, "fresh");
      img.set_has_alpha(true);
      st.name = "2x2 8-bit after set_has_alpha(true)";
      st.alpha = true; st.maxval = 0;
      st.raw.assign((const uint8_t*)img.get_data(), (const uint8_t*)img.get_data() + img.get_data_size());
      return img;
    }
  }
}

// Does `img` hold exactly state `st` as far as the codecs can tell?  "" or "<kind>\t<description>".
string image_is(const Image& img, const St& st, vf::Run* r, SavedSink* sink, const string& ctx) {
  if (st.empty) {
    if (img.get_width() != 0 || img.get_height() != 0) return vf::fmt("wrong-dims\timage is %zux%zu, expected the empty 0x0 image", img.get_width(), img.get_height());
    return "";
  }
  if ((int)img.get_width() != st.w || (int)img.get_height() != st.h) return vf::fmt("wrong-dims\timage is %zux%zu, expected %dx%d", img.get_width(), img.get_height(), st.w, st.h);
  if (img.get_has_alpha() != st.alpha) return vf::fmt("wrong-alpha\thas_alpha=%d, expected %d", img.get_has_alpha(), st.alpha);
  if (img.get_channel_width() != st.cw) return vf::fmt("wrong-width\tchannel width %d, expected %d", img.get_channel_width(), st.cw);
  if (img.get_data_size() != st.raw.size() || memcmp(img.get_data(), st.raw.data(), st.raw.size()) != 0) return string("wrong-pixels\tpixel buffer differs from the source state");
  const char* fn[3] = {"ppm", "bmp", "png"};
  for (int fmt = 0; fmt < 3; fmt++) {
    if (fmt != 0 && st.cw != 8) continue;
    string bytes;
    try {
      bytes = img.save(fmt_of(fmt));
    } catch (const std::exception& e) {
      return string("save-throws\tsave(") + fn[fmt] + ") threw " + e.what();
    }
    if (fmt != 2) {
      // st.maxval == 0: only the round trip is demanded (the header must be consistent with the channel width)
      uint64_t mv = st.maxval;
      if (!mv && fmt == 0) {
        PnmHdr H = parse_pnm_header(bytes);
        mv = H.ok ? H.maxval : 0;
      }
      string v = load_back_verdict(bytes, fmt == 0, st.w, st.h, st.alpha, st.cw, mv == mask_of(st.cw) ? 0 : mv, st.raw);
      if (!v.empty()) return string("saved-") + fn[fmt] + "-" + v;
    }
    if (sink && st.cw == 8) sink->add(*r, fn[fmt], st.w, st.h, st.alpha, st.maxval == 0xFF ? 0 : st.maxval, st.raw, bytes, ctx, fmt);
  }
  return "";
}

}  // namespace

VF_SECTION(states, 4, 8, 90) {
  SavedSink sink;
  sink.open(r);
  const char* kind_name[3] = {"copy-assign", "move-assign", "std::swap"};
  auto fail_v = [&](const string& prefix, const string& v, const string& what) {
    size_t t = v.find('\t');
    r.fail(prefix + ":" + v.substr(0, t), [&] { return what + ": " + v.substr(t + 1); });
  };
  // 1. every ordered pair (dst state, src state) x transfer kind; thorough: a second transfer from a third state
  for (int kind = 0; kind < 3; kind++)
    for (int i = 0; i < NSTATES; i++)
      for (int j = 0; j < NSTATES; j++)
        for (int k3 = -1; k3 < (r.thorough() ? NSTATES : 0); k3++) {
          if (!r.take()) continue;
          St si, sj, sk;
          string what;
          {
            Image a = make_state(i, si), b = make_state(j, sj);
            what = vf::fmt("%s onto [%s] from [%s]", kind_name[kind], si.name.c_str(), sj.name.c_str());
            if (k3 >= 0) { Image c = make_state(k3, sk); what += vf::fmt(", then from [%s]", sk.name.c_str()); }
          }
          if (r.wants_desc()) r.desc(what);
          r.note(kind_name[kind]);
          r.nontriv();
          string verdict;
          auto once = [&](bool judge) {
            St t1, t2, t3;
            Image dst = make_state(i, t1);
            Image src = make_state(j, t2);
            r.poison_errno();
            if (kind == 0) dst = src;
            else if (kind == 1) dst = std::move(src);
            else std::swap(dst, src);
            if (k3 >= 0) {
              Image src2 = make_state(k3, t3);
              if (kind == 0) dst = src2;
              else if (kind == 1) dst = std::move(src2);
              else std::swap(dst, src2);
              if (judge && verdict.empty() && kind == 2) {
                string v = image_is(src2, t2, &r, nullptr, "");
                if (!v.empty()) verdict = "swapped-out-" + v;
              }
            }
            if (!judge) {
              try { (void)dst.save(Image::Format::COLOR_PPM); (void)src.save(Image::Format::COLOR_PPM); } catch (const std::exception&) {}
              return;
            }
            const St& want = k3 >= 0 ? t3 : t2;
            string v = image_is(dst, want, &r, &sink, what);
            if (!v.empty() && verdict.empty()) verdict = "destination-" + v;
            if (verdict.empty() && kind == 0 && k3 < 0) {
              v = image_is(src, t2, &r, nullptr, "");
              if (!v.empty()) verdict = "source-changed-" + v;
            }
            if (verdict.empty() && kind == 2 && k3 < 0) {
              v = image_is(src, t1, &r, nullptr, "");
              if (!v.empty()) verdict = "swapped-out-" + v;
            }
            if (kind == 1) {  // moved-from object: unspecified but usable; executed, not judged
              try { (void)src.save(Image::Format::COLOR_PPM); } catch (const std::exception&) {}
            }
          };
          once(true);
          if (!verdict.empty()) { fail_v(kind_name[kind], verdict, what); continue; }
          if (leaks([&] { once(false); })) { r.fail(string(kind_name[kind]) + ":leak", [&] { return what + ": LeakSanitizer reports memory still allocated after both objects were destroyed"; }); continue; }
          r.ok(string(kind_name[kind]) + ":destination-holds-source-state");
        }
  // 2. self-assignment, copy / move construction, set_channel_width / set_has_alpha on every state
  for (int i = 0; i < NSTATES; i++)
    for (int op = 0; op < 10; op++) {
      if (!r.take()) continue;
      static const char* opn[10] = {"self copy-assignment", "copy construction", "move construction", "copy of a copy, original destroyed first", "set_channel_width(8)", "set_channel_width(16)",
          "set_channel_width(32)", "set_channel_width(64)", "set_has_alpha(true)", "set_has_alpha(false)"};
      St st;
      { Image t = make_state(i, st); }
      string what = vf::fmt("%s of [%s]", opn[op], st.name.c_str());
      if (r.wants_desc()) r.desc(what);
      r.note(opn[op]);
      r.nontriv();
      string verdict;
      bool canvas = op >= 4;
      auto once = [&](bool judge) {
        St s0;
        Image a = make_state(i, s0);
        r.poison_errno();
        if (op == 0) {
          Image& alias = a;
          a = alias;
          if (judge) verdict = image_is(a, s0, &r, &sink, what);
        } else if (op == 1) {
          Image b(a);
          if (judge) { verdict = image_is(b, s0, &r, &sink, what); if (verdict.empty()) verdict = image_is(a, s0, &r, nullptr, ""); }
        } else if (op == 2) {
          Image b(std::move(a));
          if (judge) verdict = image_is(b, s0, &r, &sink, what);
        } else if (op == 3) {
          auto* p = new Image(make_state(i, s0));
          Image b(*p);
          Image c(b);
          delete p;
          if (judge) { verdict = image_is(c, s0, &r, &sink, what); if (verdict.empty()) verdict = image_is(b, s0, &r, nullptr, ""); }
        } else {
          if (s0.empty) return;
          if (op < 8) a.set_channel_width(op == 4 ? 8 : op == 5 ? 16 : op == 6 ? 32 : 64);
          else a.set_has_alpha(op == 8);
          if (!judge) return;
          // whatever the canvas function produced (its values are not this property's business) must be written
          // and read back unchanged
          St now;
          now.name = what; now.w = s0.w; now.h = s0.h;
          now.cw = op < 8 ? (op == 4 ? 8 : op == 5 ? 16 : op == 6 ? 32 : 64) : s0.cw;
          now.alpha = op < 8 ? s0.alpha : op == 8;
          now.maxval = 0;  // round trip only: the header must be consistent with what the object holds
          if ((int)a.get_channel_width() != now.cw || a.get_has_alpha() != now.alpha) { verdict = "canvas\tdon't-care"; return; }
          now.raw.assign((const uint8_t*)a.get_data(), (const uint8_t*)a.get_data() + a.get_data_size());
          verdict = image_is(a, now, &r, nullptr, "");
        }
      };
      once(true);
      if (verdict == "canvas\tdon't-care") { r.ok("canvas-function-result-unexpected(don't-care)"); continue; }
      if (!verdict.empty()) { fail_v(canvas ? "after-canvas-function" : "copy-move", verdict, what); continue; }
      if (!canvas && leaks([&] { once(false); })) { r.fail("copy-move:leak", [&] { return what + ": LeakSanitizer reports memory still allocated afterwards"; }); continue; }
      r.ok(canvas ? "after-canvas-function:saved-and-reloaded-unchanged" : "copy-move:holds-source-state");
    }
  r.counters["distinct_saved_files"] = sink.distinct;
  r.bound = vf::fmt("%d object states (empty, fresh 8/16/32/64-bit with and without alpha, loaded from P6 MAXVAL 100 / P5 / BMP 24 / BMP BITFIELDS, raw constructor with MAXVAL 1000, after set_channel_width / "
                    "set_has_alpha): every ordered pair (destination, source) x {copy-assign, move-assign, std::swap}%s; per state self-assignment, copy/move construction, "
                    "set_channel_width x4, set_has_alpha x2; every result saved as PPM (+BMP, PNG when 8-bit), loaded back, MAXVAL read from the header",
      NSTATES, r.thorough() ? " x a second transfer from every third state" : "");
}

// =============================================================================================
// apis

namespace {

const int NSAVEVIA = 14;
const char* savevia_name[NSAVEVIA] = {"save(Format)", "save(FILE*) on a memory stream", "save(FILE*) on a real file", "save(FILE*) on an unbuffered real file", "save(FILE*) on a pipe",
    "save(FILE*) on a real file with a 3-byte stdio buffer", "save(FILE*) on a line-buffered real file", "save(const char* filename) onto an existing longer file", "save(const std::string& filename) onto an existing longer file",
    "save(nullptr) with stdout on a file", "save(nullptr) with stdout on a pipe", "save(FILE*) on a stream already holding 5 bytes", "save(FILE*) twice on the same stream (second copy)", "png_data_url()"};

const char B64[] = "ABCDEFGHIJKLMNOPQRSTUVWXYZabcdefghijklmnopqrstuvwxyz0123456789+/";
string b64_decode(const string& s, bool& ok) {  // RFC 4648, written here
  string out;
  ok = s.size() % 4 == 0;
  for (size_t i = 0; ok && i < s.size(); i += 4) {
    uint32_t v = 0;
    int pad = 0;
    for (int j = 0; j < 4; j++) {
      char c = s[i + j];
      const char* p = c == '=' ? nullptr : (const char*)memchr(B64, c, 64);
      if (c == '=') { pad++; v <<= 6; if (i + 4 != s.size() || j < 2) ok = false; }
      else if (!p || pad) ok = false;
      else v = (v << 6) | (uint32_t)(p - B64);
    }
    out.push_back((char)(v >> 16));
    if (pad < 2) out.push_back((char)(v >> 8));
    if (pad < 1) out.push_back((char)v);
  }
  return out;
}

string read_fd_all(int fd) {
  string s;
  char b[4096];
  for (;;) {
    ssize_t k = read(fd, b, sizeof(b));
    if (k > 0) s.append(b, k);
    else if (k == 0 || errno != EINTR) break;
  }
  return s;
}

// writes `img` through delivery `via`; returns the bytes that arrived (after removing what the harness put there)
string save_via(const Image& img, Image::Format fmt, int via, const string& path, string& err) {
  string out;
  err.clear();
  try {
    switch (via) {
      case 0: out = img.save(fmt); break;
      case 1: case 11: case 12: {
        char* mb = nullptr;
        size_t ml = 0;
        FILE* mf = open_memstream(&mb, &ml);
        try {
          if (via == 11) fwrite("JUNK!", 1, 5, mf);
          if (via == 12) img.save(mf, fmt);
          img.save(mf, fmt);
        } catch (...) { fclose(mf); free(mb); throw; }
        fclose(mf);
        out.assign(mb, ml);
        free(mb);
        if (via == 11) { if (out.compare(0, 5, "JUNK!") != 0) err = "bytes already in the stream were overwritten"; else out.erase(0, 5); }
        if (via == 12) {
          if (out.size() % 2 || out.compare(0, out.size() / 2, out, out.size() / 2, string::npos) != 0) err = "two consecutive saves to one stream are not two identical copies";
          else out.erase(0, out.size() / 2);
        }
        break;
      }
      case 2: case 3: {
        FILE* f = fopen(path.c_str(), "wb");
        if (!f) { err = "harness: cannot create " + path; break; }
        if (via == 3) setvbuf(f, nullptr, _IONBF, 0);
        try { img.save(f, fmt); } catch (...) { fclose(f); unlink(path.c_str()); throw; }
        fclose(f);
        out = slurp(path);
        unlink(path.c_str());
        break;
      }
      case 4: case 10: {
        int p[2];
        if (pipe(p) < 0) { err = "harness: pipe failed"; break; }
        string got;
        std::thread rd([&] { got = read_fd_all(p[0]); close(p[0]); });
        std::exception_ptr ex;
        if (via == 4) {
          FILE* f = fdopen(p[1], "wb");
          try { img.save(f, fmt); } catch (...) { ex = std::current_exception(); }
          fclose(f);
        } else {
          fflush(stdout);
          int saved = dup(1);
          dup2(p[1], 1);
          close(p[1]);
          try { img.save((const char*)nullptr, fmt); } catch (...) { ex = std::current_exception(); }
          fflush(stdout);
          if (saved >= 0) { dup2(saved, 1); close(saved); } else close(1);
        }
        rd.join();
        if (ex) std::rethrow_exception(ex);
        out = got;
        break;
      }
      case 5: case 6: {
        // (short writes cannot be modelled through stdio: glibc retries them for descriptors and treats a short
        // count from a cookie as an error; other stdio buffering modes are the nearest thing)
        FILE* f = fopen(path.c_str(), "wb");
        if (!f) { err = "harness: cannot create " + path; break; }
        char tiny[3];
        setvbuf(f, via == 5 ? tiny : nullptr, via == 5 ? _IOFBF : _IOLBF, via == 5 ? sizeof(tiny) : 0);
        try { img.save(f, fmt); } catch (...) { fclose(f); unlink(path.c_str()); throw; }
        fclose(f);
        out = slurp(path);
        unlink(path.c_str());
        break;
      }
      case 7: case 8: {
        // the file already exists and is longer than what will be written: it must be replaced, not patched or extended
        string junk(70000, 'J');
        if (!write_file(path, (const uint8_t*)junk.data(), junk.size())) { err = "harness: cannot create " + path; break; }
        try {
          if (via == 7) img.save(path.c_str(), fmt);
          else img.save(path, fmt);
        } catch (...) { unlink(path.c_str()); throw; }
        out = slurp(path);
        unlink(path.c_str());
        break;
      }
      case 9: {
        int fd = open(path.c_str(), O_WRONLY | O_CREAT | O_TRUNC, 0644);
        if (fd < 0) { err = "harness: cannot create " + path; break; }
        fflush(stdout);
        int saved = dup(1);
        dup2(fd, 1);
        close(fd);
        std::exception_ptr ex;
        try { img.save((const char*)nullptr, fmt); } catch (...) { ex = std::current_exception(); }
        fflush(stdout);
        if (saved >= 0) { dup2(saved, 1); close(saved); } else close(1);
        out = slurp(path);
        unlink(path.c_str());
        if (ex) std::rethrow_exception(ex);
        break;
      }
      default: {
        string url = img.png_data_url();
        const string pre = "data:image/png;base64,";
        if (url.compare(0, pre.size(), pre) != 0) { err = "png_data_url() does not start with data:image/png;base64,"; break; }
        bool ok;
        out = b64_decode(url.substr(pre.size()), ok);
        if (!ok) err = "png_data_url() payload is not valid base64";
        break;
      }
    }
  } catch (const std::exception& e) {
    err = string("threw ") + e.what();
  }
  return out;
}

struct InDtor {
  std::function<void()> f;
  ~InDtor() { f(); }
};

const int NCTX = 5;
const char* ctx_name[NCTX] = {"plain call", "inside a catch handler", "inside a destructor during stack unwinding", "with errno = EINTR", "with errno = ENOENT"};
template <class F>
void in_context(int ctx, F&& f) {  // f must not throw
  switch (ctx) {
    case 0: f(); break;
    case 1:
      try { throw std::runtime_error("handler"); } catch (const std::runtime_error&) { f(); }
      break;
    case 2:
      try {
        InDtor d{[&] { f(); }};
        throw std::runtime_error("unwinding");
      } catch (const std::runtime_error&) {}
      break;
    case 3: errno = EINTR; f(); break;
    default: errno = ENOENT; f(); break;
  }
}

}  // namespace

VF_SECTION(apis, 8, 8, 90) {
  SavedSink sink;
  sink.open(r);
  string sdir = scratch_dir();
  signal(SIGPIPE, SIG_IGN);
  string path = vf::fmt("%s/api-%d-%llu.bin", sdir.c_str(), (int)getpid(), (unsigned long long)r.shard);
  const Spec specs[] = {{1, 1, false, 8, 2, 0}, {3, 2, false, 8, 2, 0}, {2, 3, true, 8, 3, 0}, {5, 3, false, 8, 5, 0}, {3, 2, false, 16, 2, 0}, {2, 1, true, 64, 4, 0}, {2, 2, false, 8, 2, 100},
      {7, 3, true, 8, 2, 0}, {300, 2, false, 8, 2, 0}};
  const char* fn[3] = {"ppm", "bmp", "png"};
  // 1. every save overload / stream kind x context
  for (auto& s : specs)
    for (int fmt = 0; fmt < 3; fmt++)
      for (int via = 0; via < NSAVEVIA; via++)
        for (int ctx = 0; ctx < NCTX; ctx++) {
          if (s.cw != 8 && fmt != 0) continue;
          if (via == 13 && fmt != 2) continue;
          if (ctx > 0 && !(via <= 1 || via == 7 || via == 13) && !r.thorough()) continue;  // contexts x the four entry points; thorough: x every stream kind
          if (!r.take()) continue;
          string what = vf::fmt("%s -> %s as %s, %s", spec_name(s).c_str(), savevia_name[via], fn[fmt], ctx_name[ctx]);
          if (r.wants_desc()) r.desc(what);
          r.note(string("save-") + fn[fmt]);
          r.nontriv();
          auto raw = spec_raw(s);
          Image img = spec_image(s);
          string bytes, err;
          in_context(ctx, [&] { bytes = save_via(img, fmt_of(fmt), via, path, err); });
          if (!err.empty()) { r.fail(string("save-") + fn[fmt] + ":overload-or-stream-fails", [&] { return what + ": " + err; }); continue; }
          if (img.get_data_size() != raw.size() || memcmp(img.get_data(), raw.data(), raw.size()) != 0) { r.fail(string("save-") + fn[fmt] + ":save-modifies-image", [&] { return what; }); continue; }
          if (fmt != 2) {
            string v = load_back_verdict(bytes, fmt == 0, s.w, s.h, s.alpha, s.cw, s.maxval, raw);
            if (!v.empty()) {
              size_t t = v.find('\t');
              r.fail(string("save-") + fn[fmt] + ":" + v.substr(0, t), [&] { return what + vf::fmt(" (%zu bytes): ", bytes.size()) + v.substr(t + 1); });
              continue;
            }
          }
          if (s.cw == 8) sink.add(r, fn[fmt], s.w, s.h, s.alpha, s.maxval, raw, bytes, what, via * 10 + ctx);
          r.ok(string("save-") + fn[fmt] + (fmt == 2 ? ":written(decoded by python stage)" : ":written-and-loaded-back"));
        }
  // 2. loads in every context (own output and foreign variants)
  {
    auto kinds = all_kinds(true);
    const char* names[] = {"P6/ws0", "P7/RGB_ALPHA", "P5/ws1", "P7/GRAYSCALE_ALPHA/16-bit", "P6/maxval1000", "BMP/24-bit/BI_RGB/bottom-up/hdr40", "BMP/32-bit/BI_RGB/top-down/hdr124",
        "BMP/32-bit/BI_BITFIELDS/RGBA@bytes0123/top-down/hdr124", "BMP/32-bit/BI_BITFIELDS/RGBA@bytes3210/bottom-up/hdr108"};
    for (const char* nm : names)
      for (auto [w, h] : {std::pair<int, int>{3, 2}, {1, 3}})
        for (int ctx = 0; ctx < NCTX; ctx++)
          for (int how = 0; how < 3; how++) {  // memory stream / real file by name / pipe
            if (!r.take()) continue;
            const Kind* kp = nullptr;
            for (auto& k : kinds) if (k.name == nm) kp = &k;
            if (!kp) { r.fail("harness:unknown-kind", [&] { return string(nm); }); continue; }
            string what = vf::fmt("load %s %dx%d %s, %s", nm, w, h, how == 0 ? "from a memory stream" : how == 1 ? "by filename" : "from a pipe", ctx_name[ctx]);
            if (r.wants_desc()) r.desc(what);
            r.note("load-" + kp->family);
            r.nontriv();
            Pic pic;
            string file = make_variant(*kp, w, h, 2, pic);
            Loaded L;
            if (how == 1 && !write_file(path, (const uint8_t*)file.data(), file.size())) { r.fail("harness:cannot-write-scratch", [&] { return path; }); continue; }
            in_context(ctx, [&] {
              L = how == 0 ? load_bytes((const uint8_t*)file.data(), file.size()) : how == 1 ? load_file(path, 3) : load_pipe((const uint8_t*)file.data(), file.size(), false);
            });
            if (how == 1) unlink(path.c_str());
            string fam = "load-" + kp->family;
            if (L.outcome != "ok") { r.fail(fam + (how == 2 ? ":non-seekable-stream-differs" : ":throws"), [&] { return what + ": threw " + L.outcome + " (" + L.what + ")"; }); continue; }
            string c = compare_loaded(L, pic, true);
            if (!c.empty()) {
              size_t t = c.find('\t');
              r.fail(fam + ":" + (how == 2 ? "non-seekable-stream-differs" : c.substr(0, t)), [&] { return what + ": " + c.substr(t + 1); });
              continue;
            }
            r.ok(fam + ":decoded-as-defined");
          }
  }
  // 3. raw-data constructors (the three overloads, explicit and defaulted max_value), then save -> load
  for (auto& s : specs)
    for (int ov = 0; ov < 3; ov++)
      for (int dflt = 0; dflt < 2; dflt++) {
        if (dflt && s.maxval) continue;
        if (!r.take()) continue;
        static const char* ovn[3] = {"Image(FILE*, w, h, alpha, cw, max)", "Image(const char*, w, h, alpha, cw, max)", "Image(const std::string&, w, h, alpha, cw, max)"};
        string what = vf::fmt("%s for %s%s", ovn[ov], spec_name(s).c_str(), dflt ? " (max_value defaulted)" : "");
        if (r.wants_desc()) r.desc(what);
        r.note("raw-constructor");
        r.nontriv();
        auto raw = spec_raw(s);
        uint64_t mv = s.maxval ? s.maxval : mask_of(s.cw);
        if (!write_file(path, raw.data(), raw.size())) { r.fail("harness:cannot-write-scratch", [&] { return path; }); continue; }
        string verdict;
        try {
          St st;
          st.name = what; st.w = s.w; st.h = s.h; st.cw = s.cw; st.alpha = s.alpha; st.maxval = mv; st.raw = raw;
          if (ov == 0) {
            FILE* f = fopen(path.c_str(), "rb");
            try {
              Image img = dflt ? Image(f, s.w, s.h, s.alpha, s.cw) : Image(f, s.w, s.h, s.alpha, s.cw, mv);
              fclose(f);
              verdict = image_is(img, st, &r, &sink, what);
            } catch (...) { fclose(f); throw; }
          } else if (ov == 1) {
            Image img = dflt ? Image(path.c_str(), s.w, s.h, s.alpha, s.cw) : Image(path.c_str(), s.w, s.h, s.alpha, s.cw, mv);
            verdict = image_is(img, st, &r, &sink, what);
          } else {
            Image img = dflt ? Image(path, s.w, s.h, s.alpha, s.cw) : Image(path, s.w, s.h, s.alpha, s.cw, mv);
            verdict = image_is(img, st, &r, &sink, what);
          }
        } catch (const std::exception& e) {
          verdict = string("throws\t") + e.what();
        }
        unlink(path.c_str());
        if (!verdict.empty()) {
          size_t t = verdict.find('\t');
          r.fail("raw-constructor:" + verdict.substr(0, t), [&] { return what + ": " + verdict.substr(t + 1); });
        } else r.ok("raw-constructor:image-saved-and-reloaded-unchanged");
      }
  // 4. outside the statement (not a supported variant, not a prefix of one): executed in a child, outcome recorded, never judged
  {
    struct Probe { string name, file; int kind; };  // kind 0: load `file`; 1..: special
    vector<Probe> probes;
    auto bmp = [&](int hdr, int depth, int comp, int planes, uint32_t mr, uint32_t mg, uint32_t mb, uint32_t ma) {
      string f = "BM";
      p32(f, 14 + hdr + 16); p16(f, 0); p16(f, 0); p32(f, 14 + hdr);
      p32(f, hdr); p32(f, 2); p32(f, 2); p16(f, planes); p16(f, depth); p32(f, comp); p32(f, 16); p32(f, 2835); p32(f, 2835); p32(f, 0); p32(f, 0);
      if (hdr >= 56) { p32(f, mr); p32(f, mg); p32(f, mb); p32(f, ma); }
      while (f.size() < (size_t)14 + hdr) f.push_back(0);
      f.append(16, (char)0x5A);
      return f;
    };
    probes.push_back({"P6 with width 0", "P6 0 2 255\nabcdef", 0});
    probes.push_back({"P6 with height 0", "P6 2 0 255\nabcdef", 0});
    probes.push_back({"P6 with maxval 0", "P6 1 1 0\nabc", 0});
    probes.push_back({"P6 with a non-numeric width", "P6 x 1 255\nabc", 0});
    probes.push_back({"P6 with dimensions whose product wraps around 2^64", "P6 4294967296 4294967296 255\nabc", 0});
    probes.push_back({"P6 without whitespace after maxval", "P6 1 1 255abc", 0});
    probes.push_back({"P7 without TUPLTYPE", "P7\nWIDTH 1\nHEIGHT 1\nDEPTH 3\nMAXVAL 255\nENDHDR\nabc", 0});
    probes.push_back({"P7 with TUPLTYPE BLACKANDWHITE", "P7\nWIDTH 1\nHEIGHT 1\nDEPTH 1\nMAXVAL 1\nTUPLTYPE BLACKANDWHITE\nENDHDR\n\x01", 0});
    probes.push_back({"P7 with an unknown header line", "P7\nWIDTH 1\nHEIGHT 1\nDEPTH 3\nMAXVAL 255\nFOO 1\nTUPLTYPE RGB\nENDHDR\nabc", 0});
    probes.push_back({"P7 not followed by a newline", "P7 WIDTH 1\n", 0});
    probes.push_back({"P4 bitmap", "P4 8 1\n\xAA", 0});
    probes.push_back({"BMP with a 200-byte info header", bmp(200, 24, 0, 1, 0, 0, 0, 0), 0});
    probes.push_back({"BMP with a 12-byte (OS/2) info header", bmp(12, 24, 0, 1, 0, 0, 0, 0).substr(0, 40), 0});
    probes.push_back({"16-bit BMP", bmp(40, 16, 0, 1, 0, 0, 0, 0), 0});
    probes.push_back({"BMP with 2 planes", bmp(40, 24, 0, 2, 0, 0, 0, 0), 0});
    probes.push_back({"RLE8-compressed BMP", bmp(40, 8, 1, 1, 0, 0, 0, 0), 0});
    probes.push_back({"24-bit BMP marked BI_BITFIELDS", bmp(108, 24, 3, 1, 0xFF, 0xFF00, 0xFF0000, 0xFF000000u), 0});
    probes.push_back({"BI_BITFIELDS BMP with 10-bit masks", bmp(108, 32, 3, 1, 0x3FF, 0xFFC00, 0x3FF00000, 0xC0000000u), 0});
    probes.push_back({"BI_BITFIELDS BMP with two channels on one byte", bmp(108, 32, 3, 1, 0xFF, 0xFF, 0xFF0000, 0xFF000000u), 0});
    probes.push_back({"save a default-constructed Image in all formats", "", 1});
    probes.push_back({"save Image(0, 0)", "", 2});
    probes.push_back({"save Image(0, 3)", "", 3});
    probes.push_back({"save Image(3, 0)", "", 4});
    probes.push_back({"raw-data constructor on a file one byte short", "", 5});
    probes.push_back({"load a PNG written by save()", "", 6});
    probes.push_back({"Image(filename) of a file that does not exist", "", 7});
    probes.push_back({"load a P6 image that starts at offset 5 of the stream", "", 8});
    probes.push_back({"load a BMP image that starts at offset 5 of the stream", "", 9});
    probes.push_back({"save(Format::GRAYSCALE_PPM) (documented refusal)", "", 10});
    probes.push_back({"save with a Format value outside the enum", "", 11});
    for (auto& pb : probes) {
      if (!r.take()) continue;
      if (r.wants_desc()) r.desc("don't-care: " + pb.name);
      r.note("dont-care");
      Iso iso = isolated([&] {
        string o;
        auto all = [&](const Image& img) {
          for (int fmt = 0; fmt < 3; fmt++) {
            try { o += vf::fmt("%zu,", img.save(fmt_of(fmt)).size()); } catch (const std::exception&) { o += "throws,"; }
          }
        };
        auto load_at = [&](const string& d, size_t at) {
          FILE* f = fmemopen((void*)d.data(), d.size(), "rb");
          fseek(f, at, SEEK_SET);
          try {
            Image img(f);
            o = vf::fmt("accepted as %zux%zu", img.get_width(), img.get_height());
          } catch (const std::exception&) { o = "throws"; }
          fclose(f);
        };
        try {
          switch (pb.kind) {
            case 0: load_at(pb.file, 0); break;
            case 1: all(Image()); break;
            case 2: all(Image(0, 0)); break;
            case 3: all(Image(0, 3)); break;
            case 4: all(Image(3, 0)); break;
            case 5: {
              string d(3 * 2 * 3 - 1, 'x');
              FILE* f = fmemopen(d.data(), d.size(), "rb");
              try { Image img(f, 3, 2, false, 8); o = "accepted"; } catch (const std::exception&) { o = "throws"; }
              fclose(f);
              break;
            }
            case 6: load_at(spec_image({2, 2, false, 8, 2, 0}).save(Image::Format::PNG), 0); break;
            case 7:
              try { Image img(sdir + "/does-not-exist.ppm"); o = "accepted"; } catch (const std::exception&) { o = "throws"; }
              break;
            case 8: load_at("JUNK!" + spec_image({2, 2, false, 8, 2, 0}).save(Image::Format::COLOR_PPM), 5); break;
            case 10: case 11:
              try { o = vf::fmt("%zu bytes", spec_image({2, 2, false, 8, 2, 0}).save(pb.kind == 10 ? Image::Format::GRAYSCALE_PPM : (Image::Format)99).size()); } catch (const std::exception&) { o = "throws"; }
              break;
            default: load_at("JUNK!" + spec_image({3, 2, false, 8, 2, 0}).save(Image::Format::WINDOWS_BITMAP), 5); break;
          }
        } catch (const std::exception&) { o += "throws"; }
        return o;
      });
      r.ok("dont-care(outside the statement):" + pb.name + (iso.normal ? ":" + iso.verdict : ":process-died:" + iso.asan));
    }
  }
  r.counters["distinct_saved_files"] = sink.distinct;
  r.bound = vf::fmt("9 images (incl. 16/64-bit, MAXVAL 100, 300 pixels wide) x {ppm,bmp,png} x %d ways to save (every overload; memory, real file in four buffering modes, pipe, stdout, "
                    "stream at a non-zero position, twice into one stream, png_data_url) x {plain, catch handler, destructor during unwinding, errno EINTR/ENOENT} (%s); 9 container variants x 2 dims x "
                    "3 stream kinds x 5 contexts loaded; 3 raw-data constructor overloads x 9 images x explicit/defaulted max_value; 30 don't-care probes (malformed headers, empty images, embedded images, refused formats)",
      NSAVEVIA, r.thorough() ? "full product" : "contexts x the four entry points, every stream kind in the plain context");
}
