// C05, variant "preempt" — concurrent JSON::parse calls (harness/preempt_pure.hh).  Instrumented: src/JSON.cc.
#include "preempt_pure.hh"

#include "JSON.hh"

using namespace phosg;

static std::string obs(const std::string& text, bool strict) {
  JSON j = JSON::parse(text, strict);
  return j.serialize(JSON::SerializeOption::SORT_DICT_KEYS);
}

static std::vector<pp::Call> make_calls() {
  std::vector<pp::Call> calls;
  auto add = [&](const std::string& text, bool strict) {
    calls.push_back({"JSON::parse(" + vf::show(text) + (strict ? ", strict)" : ")"), strict ? "JSON::parse(strict)" : "JSON::parse", pp::guarded([text, strict] { return obs(text, strict); })});
  };
  for (bool strict : {false, true}) {
    add("[1,-2.5e3,\"a\\u00e9\\n\"]", strict);
    add("{\"k\":[true,false,null],\"z\":{}}", strict);
    add("  \"x\\\\y\"  ", strict);
    add("-0", strict);
    add("[1,]", strict);         // rejected
    add("{\"a\":1,\"a\":2}", strict);
  }
  add("[0x1F, // c\n 2]", false);  // extensions (default mode only)
  add("[0x1F]", true);             // rejected in strict mode
  return calls;
}

VF_SECTION(concurrent_pairs, 16, 16, 300) {
  std::vector<pp::Call> calls = make_calls();
  pp::run_pairs(r, calls, r.thorough() ? 500 : 200, r.thorough() ? 200 : 0);
  r.bound = "every unordered pair (and every call with itself) of 14 JSON::parse calls (default and strict mode; accepted, rejected, extension syntax) run concurrently, each followed by serialize(SORT_DICT_KEYS) as the observation: every schedule with <= 2 preemptions for same-mode pairs with <= 200 (thorough 500) scheduling points per call (thorough: cross pairs <= 200 too), <= 1 preemption otherwise; basic-block granularity of JSON.cc";
}

// First calls: each call with itself and with the next call of the same function (thorough: every same-function pair),
// each schedule in a freshly forked process.
VF_SECTION(concurrent_cold, 16, 16, 600) {
  std::vector<pp::Call> calls = make_calls();
  pp::run_pairs_cold(r, calls, r.thorough());
  r.bound = "first calls: every call above with itself and with the next call of the same function (thorough: every same-function pair), each schedule in a freshly forked process that has never called the library: every schedule with <= 1 preemption at basic-block granularity";
}
VF_MAIN()
