// C02 — bounds-checked readers/writers never touch memory outside their buffer.
// Single calls over the (offset, size) grid G(n) x G(n), cursor-operation state space (E-BFS to the
// fixpoint + un-merged histories), BufferWriter / StringWriter positional writes.  Buffers are
// exact-size heap blocks (ASan) or end flush against a PROT_NONE page; every call runs in a forked
// batch child (C02_batch.hh) so that a fatal access is attributed to the call that made it.
// Built with -fno-access-control (BitReader has no accessor for its data pointer).
#include <stdint.h>
#include <stdlib.h>
#include <string.h>

#include <algorithm>
#include <deque>
#include <functional>
#include <map>
#include <memory>
#include <set>
#include <string>
#include <vector>

#include "C01_kinds.hh"
#include "C02_batch.hh"
#include "vf.hh"

using namespace phosg;
using c01::Kind;
using c02::CaseResult;

namespace {

typedef unsigned __int128 u128;

const uint8_t CONTENT[8] = {0x61, '\n', 0x62, 0x00, 0x63, '\r', '\n', 0x64};
const size_t NS[] = {0, 1, 2, 5, 8};

std::string u64s(uint64_t v) {
  if (v >= 0xFFFFFFFFFFFFFF00ull) return vf::fmt("2^64-%llu", (unsigned long long)(0 - v));
  if (v == (1ull << 63)) return "2^63";
  if (v == (1ull << 63) - 1) return "2^63-1";
  if (v == (1ull << 63) + 1) return "2^63+1";
  if (v == (1ull << 62)) return "2^62";
  if (v == (1ull << 32)) return "2^32";
  if (v == (1ull << 31)) return "2^31";
  return std::to_string(v);
}

// G(n): boundary values of the size_t range; every pair whose sum wraps to something <= n is in G x G
std::vector<uint64_t> grid(size_t n) {
  std::vector<uint64_t> g = {0, 1, n, n + 1, 2 * n, 1ull << 31, 1ull << 32, (1ull << 63) - 1, 1ull << 63, (1ull << 63) + 1};
  if (n) g.push_back(n - 1);
  for (uint64_t k = 1; k <= n + 1; k++) g.push_back(0 - k);
  for (uint64_t k = 1; k <= 8; k++) g.push_back(0 - k);
  std::sort(g.begin(), g.end());
  g.erase(std::unique(g.begin(), g.end()), g.end());
  return g;
}

inline bool in_range(uint64_t off, uint64_t sz, uint64_t n) { return (u128)off + (u128)sz <= (u128)n; }
inline uint64_t clamp_lo(uint64_t off, uint64_t n) { return off < n ? off : n; }
inline uint64_t clamp_hi(uint64_t off, uint64_t sz, uint64_t n) {
  u128 e = (u128)off + (u128)sz;
  return e < (u128)n ? (uint64_t)e : n;
}

// exact-size heap block (ASan red zones on both sides)
struct Exact {
  uint8_t* p;
  size_t n;
  explicit Exact(size_t n_, uint8_t fill = 0xEE) : p((uint8_t*)malloc(n_ ? n_ : 1)), n(n_) { memset(p, fill, n_ ? n_ : 1); }
  Exact(const Exact&) = delete;
  ~Exact() { free(p); }
};

// reader data in one of two placements
struct Placement {
  const char* name;
  std::unique_ptr<vf::GuardBuf> g;
  std::unique_ptr<Exact> e;
  const uint8_t* base = nullptr;
  size_t n = 0;
  Placement(int which, size_t n_) : n(n_) {
    if (which == 0) {
      name = "guard-page";
      g.reset(new vf::GuardBuf(n));
      if (n) memcpy(g->data, CONTENT, n);
      base = g->data;
    } else {
      name = "exact-heap";
      e.reset(new Exact(n));
      if (n) memcpy(e->p, CONTENT, n);
      base = e->p;
    }
  }
};

std::string outcome_of(const std::function<void()>& f, std::string* what) {
  return vf::outcome(f, what);
}

// ---- two-argument positional accessors ---------------------------------------------------------
enum Fn2 { F_PGETV, F_PREAD_STR, F_PREAD_BUF, F_PREADX_STR, F_PREADX_BUF, F_SUB2, F_SUBX2, F_SUBBITS2, F_SUBXBITS2, F_PGETT2, NFN2 };
const char* fn2_name[] = {"pgetv", "pread", "pread_buf", "preadx", "preadx_buf", "sub", "subx", "sub_bits", "subx_bits", "pget<T>(off,size)"};
const bool fn2_clamping[] = {false, true, true, false, false, true, false, true, false, false};

void call2(const Placement& pl, int fn, uint64_t off, uint64_t sz, CaseResult& res) {
  const size_t n = pl.n;
  const uint8_t* base = pl.base;
  const bool in = in_range(off, sz, n);
  const bool clamping = fn2_clamping[fn];
  const std::string name = fn2_name[fn];
  const uint64_t lo = clamp_lo(off, n), hi = clamp_hi(off, sz, n);  // clamped slice [lo, hi)
  res.arm(name + (clamping ? ":memory-error" : in ? ":memory-error-in-range" : ":out-of-range-not-rejected"),
      vf::fmt("%s(offset=%s, size=%s) on a %zu-byte reader (%s)", name.c_str(), u64s(off).c_str(), u64s(sz).c_str(), n, pl.name));
  StringReader rd(base, n);
  std::string what, verdict;  // verdict empty = fine
  const void* ptr = nullptr;
  std::string got;
  size_t cnt = 0;
  const uint8_t* sub_base = nullptr;
  uint64_t sub_size = 0, sub_where = 0;
  bool is_sub = false;
  // caller buffer for the (void*, size) forms: exactly `size` bytes, or n bytes when size > n (a
  // clamping read can never legitimately copy more than n)
  size_t bufsz = sz <= n ? sz : n;
  Exact buf(bufsz, 0xEE);
  std::string oc = outcome_of([&] {
    switch (fn) {
      case F_PGETV: ptr = rd.pgetv(off, sz); break;
      case F_PGETT2: ptr = &rd.pget<uint8_t>(off, sz); break;
      case F_PREAD_STR: got = rd.pread(off, sz); break;
      case F_PREADX_STR: got = rd.preadx(off, sz); break;
      case F_PREAD_BUF: cnt = rd.pread(off, buf.p, sz); break;
      case F_PREADX_BUF: rd.preadx(off, buf.p, sz); cnt = sz; break;
      case F_SUB2: { StringReader s = rd.sub(off, sz); sub_base = s.data; sub_size = s.length; sub_where = s.offset; is_sub = true; break; }
      case F_SUBX2: { StringReader s = rd.subx(off, sz); sub_base = s.data; sub_size = s.length; sub_where = s.offset; is_sub = true; break; }
      case F_SUBBITS2: { BitReader s = rd.sub_bits(off, sz); sub_base = s.data; sub_size = s.length; sub_where = s.offset; is_sub = true; break; }
      case F_SUBXBITS2: { BitReader s = rd.subx_bits(off, sz); sub_base = s.data; sub_size = s.length; sub_where = s.offset; is_sub = true; break; }
    }
  }, &what);
  const bool bits = fn == F_SUBBITS2 || fn == F_SUBXBITS2;
  const uint64_t want_lo = clamping ? lo : off, want_len = clamping ? hi - lo : sz;
  if (rd.where() != 0 || rd.size() != n) {
    res.fail(name + ":wrong-result", vf::fmt("positional call changed the reader: where()=%zu size()=%zu", rd.where(), rd.size()));
    return;
  }
  if (!clamping && !in) {
    if (oc == "out_of_range") res.ok(name + "/rejects-out-of-range");
    else res.fail(name + ":out-of-range-not-rejected", oc == "ok" ? "offset+size exceeds the data, yet the call returned" + (is_sub ? vf::fmt(" a sub-reader of %llu %s", (unsigned long long)sub_size, bits ? "bits" : "bytes") : std::string()) : "offset+size exceeds the data; expected std::out_of_range, got " + oc + " (" + what + ")");
    return;
  }
  if (oc != "ok") {
    res.fail(name + (clamping ? ":throws" : ":rejected-in-range"), (clamping ? "clamping form must not throw; got " : "slice lies inside the data; got ") + oc + " (" + what + ")");
    return;
  }
  // returned normally and the model says it may: compare with the model slice
  if (fn == F_PGETV || fn == F_PGETT2) {
    if (ptr != base + off) { res.fail(name + ":wrong-result", vf::fmt("returned pointer is data%+lld, expected data+%llu", (long long)((const uint8_t*)ptr - base), (unsigned long long)off)); return; }
  } else if (fn == F_PREAD_STR || fn == F_PREADX_STR) {
    std::string want((const char*)CONTENT + want_lo, want_len);
    if (got != want) { res.fail(name + ":wrong-result", vf::fmt("returned %zu bytes %s, model slice [%llu,%llu) = %s", got.size(), vf::show(got.substr(0, 32)).c_str(), (unsigned long long)want_lo, (unsigned long long)(want_lo + want_len), vf::show(want).c_str())); return; }
  } else if (fn == F_PREAD_BUF || fn == F_PREADX_BUF) {
    bool same = cnt == want_len && cnt <= bufsz && !memcmp(buf.p, CONTENT + want_lo, want_len);
    for (size_t i = want_len; same && i < bufsz; i++) same = buf.p[i] == 0xEE;
    if (!same) { res.fail(name + ":wrong-result", vf::fmt("copied %zu bytes (buffer %s), model: %llu bytes from %llu", cnt, vf::show(buf.p, bufsz).c_str(), (unsigned long long)want_len, (unsigned long long)want_lo)); return; }
  } else {
    uint64_t unit = bits ? 8 : 1;
    bool good = sub_where == 0 && sub_size == want_len * unit && (want_len == 0 || sub_base == base + want_lo);
    // never beyond the parent, whatever else
    if (sub_size > 0 && !(sub_base >= base && (u128)(sub_base - base) * unit + sub_size <= (u128)n * unit)) good = false;
    if (!good) { res.fail(name + ":wrong-result", vf::fmt("sub-reader = (data%+lld, %llu %s, cursor %llu); model (data+%llu, %llu %s, cursor 0)", (long long)(sub_base ? sub_base - base : 0), (unsigned long long)sub_size, bits ? "bits" : "bytes", (unsigned long long)sub_where, (unsigned long long)want_lo, (unsigned long long)(want_len * unit), bits ? "bits" : "bytes")); return; }
  }
  res.ok(name + (in ? "/in-range-exact" : want_len ? "/clamped-prefix" : "/clamped-empty"));
}

// ---- one-argument positional accessors -----------------------------------------------------------
enum Fn1 { G_CSTR, G_SUB1, G_SUBX1, G_SUBBITS1, G_SUBXBITS1, NFN1 };
const char* fn1_name[] = {"pget_cstr", "sub(offset)", "subx(offset)", "sub_bits(offset)", "subx_bits(offset)"};

// finding-key group of a typed getter = its bounds-check site
std::string pget_group(const Kind& k) {
  if (k.w == 3 || k.w == 6) {
    std::string nm = k.name;  // u24b and s24b share pget_u24b's check
    nm[0] = 'u';
    return "pget_" + nm;
  }
  return "pget<T>";
}

void call_pget(const Placement& pl, const Kind& k, uint64_t off, CaseResult& res) {
  const size_t n = pl.n;
  const bool in = in_range(off, k.w, n);
  const std::string grp = pget_group(k);
  res.arm(grp + (in ? ":memory-error-in-range" : ":out-of-range-not-rejected"), vf::fmt("pget_%s(offset=%s) [%d bytes] on a %zu-byte reader (%s)", k.name, u64s(off).c_str(), k.w, n, pl.name));
  StringReader rd(pl.base, n);
  uint64_t got = 0;
  std::string what;
  std::string oc = outcome_of([&] { got = k.pget(rd, off); }, &what);
  if (!in) {
    if (oc == "out_of_range") res.ok(grp + "/rejects-out-of-range");
    else res.fail(grp + ":out-of-range-not-rejected", oc == "ok" ? vf::fmt("offset+%d exceeds the data, yet the call returned 0x%llX", k.w, (unsigned long long)got) : "expected std::out_of_range, got " + oc + " (" + what + ")");
    return;
  }
  if (oc != "ok") { res.fail(grp + ":rejected-in-range", "value lies inside the data; got " + oc + " (" + what + ")"); return; }
  uint64_t want = k.expect(c01::dec(CONTENT + off, k.w, k.e));
  if (got != want) { res.fail(grp + ":wrong-result", vf::fmt("returned 0x%llX, bytes at the offset decode to 0x%llX", (unsigned long long)got, (unsigned long long)want)); return; }
  res.ok(grp + "/in-range-exact");
}

void call1(const Placement& pl, int fn, uint64_t off, CaseResult& res) {
  const size_t n = pl.n;
  const uint8_t* base = pl.base;
  const std::string name = fn1_name[fn];
  StringReader rd(base, n);
  std::string what;
  if (fn == G_CSTR) {
    // a terminated string starts at off iff a NUL exists in [off, n)
    bool term = false;
    size_t j = 0;
    if (off < n)
      for (j = off; j < n; j++)
        if (CONTENT[j] == 0) { term = true; break; }
    res.arm(name + (term ? ":memory-error-in-range" : ":out-of-range-not-rejected"), vf::fmt("pget_cstr(offset=%s) on a %zu-byte reader (%s)", u64s(off).c_str(), n, pl.name));
    std::string got;
    std::string oc = outcome_of([&] { got = rd.pget_cstr(off); }, &what);
    if (!term) {
      if (oc == "out_of_range") res.ok(name + "/rejects-unterminated");
      else res.fail(name + ":out-of-range-not-rejected", "no NUL between the offset and the end of the data; expected std::out_of_range, got " + oc + (oc == "ok" ? " returning " + vf::show(got.substr(0, 32)) : " (" + what + ")"));
      return;
    }
    std::string want((const char*)CONTENT + off, j - off);
    if (oc != "ok") res.fail(name + ":rejected-in-range", "terminated string inside the data; got " + oc + " (" + what + ")");
    else if (got != want) res.fail(name + ":wrong-result", "returned " + vf::show(got) + ", model " + vf::show(want));
    else res.ok(name + "/in-range-exact");
    return;
  }
  const bool clamping = fn == G_SUB1 || fn == G_SUBBITS1;
  const bool bits = fn == G_SUBBITS1 || fn == G_SUBXBITS1;
  const bool in = off <= n;
  res.arm(name + (clamping ? ":memory-error" : in ? ":memory-error-in-range" : ":out-of-range-not-rejected"), vf::fmt("%s with offset=%s on a %zu-byte reader (%s)", name.c_str(), u64s(off).c_str(), n, pl.name));
  const uint8_t* sub_base = nullptr;
  uint64_t sub_size = 0, sub_where = 0;
  std::string oc = outcome_of([&] {
    switch (fn) {
      case G_SUB1: { StringReader s = rd.sub(off); sub_base = s.data; sub_size = s.length; sub_where = s.offset; break; }
      case G_SUBX1: { StringReader s = rd.subx(off); sub_base = s.data; sub_size = s.length; sub_where = s.offset; break; }
      case G_SUBBITS1: { BitReader s = rd.sub_bits(off); sub_base = s.data; sub_size = s.length; sub_where = s.offset; break; }
      case G_SUBXBITS1: { BitReader s = rd.subx_bits(off); sub_base = s.data; sub_size = s.length; sub_where = s.offset; break; }
    }
  }, &what);
  if (!clamping && !in) {
    if (oc == "out_of_range") res.ok(name + "/rejects-out-of-range");
    else res.fail(name + ":out-of-range-not-rejected", "offset beyond the data; expected std::out_of_range, got " + oc + " (" + what + ")");
    return;
  }
  if (oc != "ok") { res.fail(name + (clamping ? ":throws" : ":rejected-in-range"), "got " + oc + " (" + what + ")"); return; }
  uint64_t unit = bits ? 8 : 1, want_lo = clamp_lo(off, n), want_len = n - want_lo;
  bool good = sub_where == 0 && sub_size == want_len * unit && (want_len == 0 || sub_base == base + want_lo);
  if (!good) { res.fail(name + ":wrong-result", vf::fmt("sub-reader = (data%+lld, %llu, cursor %llu); model (data+%llu, %llu, cursor 0)", (long long)(sub_base ? sub_base - base : 0), (unsigned long long)sub_size, (unsigned long long)sub_where, (unsigned long long)want_lo, (unsigned long long)(want_len * unit))); return; }
  res.ok(name + (want_len ? "/in-range-exact" : "/empty"));
}

}  // namespace

// One case = one (accessor, n, placement, offset) row with every size in G(n) (two-argument forms)
// or one (accessor, n, placement) row with every offset in G(n) (one-argument forms).
VF_SECTION(grid, 16, 16, 90) {
  for (size_t n : NS) {
    auto G = grid(n);
    for (int which = 0; which < 2; which++) {
      Placement pl(which, n);
      for (int fn = 0; fn < NFN2; fn++) {
        r.note(fn2_name[fn]);
        for (uint64_t off : G) {
          if (!r.take()) continue;
          if (r.wants_desc()) r.desc(vf::fmt("%s(offset=%s, every size in G(%zu)) on a %zu-byte reader (%s)", fn2_name[fn], u64s(off).c_str(), n, n, pl.name));
          r.evals += G.size() - 1;
          r.nontrivial += G.size();
          auto* res = c02::run_batch(r, G.size(), [&](size_t i, CaseResult& c) { call2(pl, fn, off, G[i], c); });
          c02::fold(r, res, G.size());
        }
      }
      for (auto& k : c01::kinds()) {
        r.note(std::string("pget_") + k.name);
        if (!r.take()) continue;
        if (r.wants_desc()) r.desc(vf::fmt("pget_%s(every offset in G(%zu)) on a %zu-byte reader (%s)", k.name, n, n, pl.name));
        r.evals += G.size() - 1;
        r.nontrivial += G.size();
        auto* res = c02::run_batch(r, G.size(), [&](size_t i, CaseResult& c) { call_pget(pl, k, G[i], c); });
        c02::fold(r, res, G.size());
      }
      for (int fn = 0; fn < NFN1; fn++) {
        r.note(fn1_name[fn]);
        if (!r.take()) continue;
        if (r.wants_desc()) r.desc(vf::fmt("%s with every offset in G(%zu) on a %zu-byte reader (%s)", fn1_name[fn], n, n, pl.name));
        r.evals += G.size() - 1;
        r.nontrivial += G.size();
        auto* res = c02::run_batch(r, G.size(), [&](size_t i, CaseResult& c) { call1(pl, fn, G[i], c); });
        c02::fold(r, res, G.size());
      }
    }
  }
  r.counters["forks"] += c02::stats().forks;
  r.bound = "n in {0,1,2,5,8} x {guard-page, exact-heap} x {pgetv, pget<T>(off,size), pread x2, preadx x2, sub, subx, sub_bits, subx_bits} x G(n) x G(n); 42 typed pget_* x G(n); pget_cstr, sub/subx/sub_bits/subx_bits(offset) x G(n); G(n) = {0,1,n-1,n,n+1,2n,2^31,2^32,2^63-1,2^63,2^63+1,2^64-n-1..2^64-1,2^64-8..2^64-1}";
}

#include "C02_cursor.hh"
#include "C02_writers.hh"

VF_MAIN()
