// C02 — bounds-checked readers/writers never touch memory outside their buffer.
// Single calls over the (offset, size) grid G(n) x G(n), cursor-operation state space (E-BFS to the
// fixpoint + un-merged histories), BufferWriter / StringWriter positional writes.  Buffers are
// exact-size heap blocks (ASan) or end flush against a PROT_NONE page; every call runs in a forked
// batch child (C02_batch.hh) so that a fatal access is attributed to the call that made it.
// Built with -fno-access-control (BitReader has no accessor for its data pointer).
#include <stdint.h>
#include <stdlib.h>
#include <string.h>

#include <algorithm>
#include <deque>
#include <functional>
#include <map>
#include <memory>
#include <set>
#include <string>
#include <vector>

#include "C01_kinds.hh"
#include "C02_batch.hh"
#include "vf.hh"

using namespace phosg;
using c01::Kind;
using c02::CaseResult;

namespace {

typedef unsigned __int128 u128;

const uint8_t CONTENT[8] = {0x61, '\n', 0x62, 0x00, 0x63, '\r', '\n', 0x64};
const size_t NS[] = {0, 1, 2, 5, 8};

std::string u64s(uint64_t v) {
  if (v >= 0xFFFFFFFFFFFFFF00ull) return vf::fmt("2^64-%llu", (unsigned long long)(0 - v));
  for (int p : {63, 62, 32, 31}) {
    uint64_t b = 1ull << p;
    if (v == b) return vf::fmt("2^%d", p);
    if (v > b && v - b <= 64) return vf::fmt("2^%d+%llu", p, (unsigned long long)(v - b));
    if (v < b && b - v <= 64) return vf::fmt("2^%d-%llu", p, (unsigned long long)(b - v));
  }
  return std::to_string(v);
}

// G(n): boundary values of the size_t range; every pair whose sum wraps to something <= n is in G x G
std::vector<uint64_t> grid(size_t n) {
  std::vector<uint64_t> g = {0, 1, n, n + 1, 2 * n, (1ull << 31) - 1, 1ull << 31, (1ull << 32) - 1, 1ull << 32, (1ull << 32) + 1, (1ull << 32) + n,
      (1ull << 63) - 1, 1ull << 63, (1ull << 63) + 1};
  if (n) g.push_back(n - 1);
  for (uint64_t k = 1; k <= n + 1; k++) g.push_back(0 - k);
  for (uint64_t k = 1; k <= 8; k++) g.push_back(0 - k);
  std::sort(g.begin(), g.end());
  g.erase(std::unique(g.begin(), g.end()), g.end());
  return g;
}

// Gs(n): the compact grid for the many non-fresh readers: both ends, the middle of the range and the wrap
// pairs (2^64-k, k+j) for k in {1, 2, n, n+1}
std::vector<uint64_t> grid_small(size_t n) {
  std::vector<uint64_t> g = {0, 1, 2, n, n + 1, 1ull << 32, 1ull << 63, 0 - (uint64_t)n, 0 - (uint64_t)n - 1, ~0ull - 1, ~0ull};
  if (n) g.push_back(n - 1);
  std::sort(g.begin(), g.end());
  g.erase(std::unique(g.begin(), g.end()), g.end());
  return g;
}

inline bool in_range(uint64_t off, uint64_t sz, uint64_t n) { return (u128)off + (u128)sz <= (u128)n; }
inline uint64_t clamp_lo(uint64_t off, uint64_t n) { return off < n ? off : n; }
inline uint64_t clamp_hi(uint64_t off, uint64_t sz, uint64_t n) {
  u128 e = (u128)off + (u128)sz;
  return e < (u128)n ? (uint64_t)e : n;
}

// exact-size heap block (ASan red zones on both sides)
struct Exact {
  uint8_t* p;
  size_t n;
  explicit Exact(size_t n_, uint8_t fill = 0xEE) : p((uint8_t*)malloc(n_ ? n_ : 1)), n(n_) { memset(p, fill, n_ ? n_ : 1); }
  Exact(const Exact&) = delete;
  ~Exact() { free(p); }
};

// reader data in one of two placements
struct Placement {
  const char* name;
  std::unique_ptr<vf::GuardBuf> g;
  std::unique_ptr<Exact> e;
  const uint8_t* base = nullptr;
  size_t n = 0;
  Placement(int which, size_t n_) : n(n_) {
    if (which == 0) {
      name = "guard-page";
      g.reset(new vf::GuardBuf(n));
      if (n) memcpy(g->data, CONTENT, n);
      base = g->data;
    } else {
      name = "exact-heap";
      e.reset(new Exact(n));
      if (n) memcpy(e->p, CONTENT, n);
      base = e->p;
    }
  }
};

// A reader under test: how it is made and what it must look like.  The accessor functions below take
// the reader itself (so that they can be chained into histories on one object) and judge against
// `content`; base pointer, size and cursor are taken from the reader at entry, and check_view()
// separately holds the construction to (base, n, w0).
struct View {
  std::string how;                   // "a 8-byte reader (guard-page)", "StringReader(ptr, 8, 3).sub(1, 4) [...]"
  const uint8_t* base = nullptr;     // expected data pointer (not compared when n == 0 or dyn_base)
  const uint8_t* content = CONTENT;  // model bytes content[0, n)
  size_t n = 0;                      // expected size()
  uint64_t w0 = 0;                   // expected where()
  bool dyn_base = false;             // the reader owns its data: base == owned_data->data()
  std::function<StringReader()> make;
};

View fresh_view(const Placement& pl) {
  View v;
  v.how = vf::fmt("a %zu-byte reader (%s)", pl.n, pl.name);
  v.base = pl.base;
  v.n = pl.n;
  const uint8_t* P = pl.base;
  const size_t N = pl.n;
  v.make = [P, N] { return StringReader(P, N); };
  return v;
}

std::string outcome_of(const std::function<void()>& f, std::string* what) {
  return vf::outcome(f, what);
}

// ---- two-argument positional accessors ---------------------------------------------------------
enum Fn2 { F_PGETV, F_PREAD_STR, F_PREAD_BUF, F_PREADX_STR, F_PREADX_BUF, F_SUB2, F_SUBX2, F_SUBBITS2, F_SUBXBITS2, F_PGETT2, F_PGETT2W, NFN2 };
const char* fn2_name[] = {"pgetv", "pread", "pread_buf", "preadx", "preadx_buf", "sub", "subx", "sub_bits", "subx_bits", "pget<T>(off,size)", "pget<T>(off,size)"};
const char* fn2_label[] = {"pgetv", "pread", "pread_buf", "preadx", "preadx_buf", "sub", "subx", "sub_bits", "subx_bits", "pget<uint8_t>", "pget<be_int32_t>"};
const bool fn2_clamping[] = {false, true, true, false, false, true, false, true, false, false, false};

void call2(const View& v, StringReader& rd, int fn, uint64_t off, uint64_t sz, CaseResult& res) {
  const size_t n = rd.size();
  const uint8_t* base = rd.data;
  const uint8_t* content = v.content;
  const uint64_t w_pre = rd.where();
  const bool in = in_range(off, sz, n);
  const bool clamping = fn2_clamping[fn];
  const std::string name = fn2_name[fn];
  const uint64_t lo = clamp_lo(off, n), hi = clamp_hi(off, sz, n);  // clamped slice [lo, hi)
  res.arm(name + (clamping ? ":memory-error" : in ? ":memory-error-in-range" : ":out-of-range-not-rejected"),
      vf::fmt("%s(offset=%s, size=%s) on %s%s", fn2_label[fn], u64s(off).c_str(), u64s(sz).c_str(), v.how.c_str(), w_pre ? (" with the cursor at " + u64s(w_pre)).c_str() : ""));
  std::string what, verdict;  // verdict empty = fine
  const void* ptr = nullptr;
  std::string got;
  size_t cnt = 0;
  const uint8_t* sub_base = nullptr;
  uint64_t sub_size = 0, sub_where = 0;
  bool is_sub = false;
  // caller buffer for the (void*, size) forms: exactly `size` bytes, or n bytes when size > n (a
  // clamping read can never legitimately copy more than n)
  size_t bufsz = sz <= n ? sz : n;
  Exact buf(bufsz, 0xEE);
  std::string oc = outcome_of([&] {
    switch (fn) {
      case F_PGETV: ptr = rd.pgetv(off, sz); break;
      case F_PGETT2: ptr = &rd.pget<uint8_t>(off, sz); break;
      case F_PGETT2W: ptr = &rd.pget<be_int32_t>(off, sz); break;
      case F_PREAD_STR: got = rd.pread(off, sz); break;
      case F_PREADX_STR: got = rd.preadx(off, sz); break;
      case F_PREAD_BUF: cnt = rd.pread(off, buf.p, sz); break;
      case F_PREADX_BUF: rd.preadx(off, buf.p, sz); cnt = sz; break;
      case F_SUB2: { StringReader s = rd.sub(off, sz); sub_base = s.data; sub_size = s.length; sub_where = s.offset; is_sub = true; break; }
      case F_SUBX2: { StringReader s = rd.subx(off, sz); sub_base = s.data; sub_size = s.length; sub_where = s.offset; is_sub = true; break; }
      case F_SUBBITS2: { BitReader s = rd.sub_bits(off, sz); sub_base = s.data; sub_size = s.length; sub_where = s.offset; is_sub = true; break; }
      case F_SUBXBITS2: { BitReader s = rd.subx_bits(off, sz); sub_base = s.data; sub_size = s.length; sub_where = s.offset; is_sub = true; break; }
    }
  }, &what);
  const bool bits = fn == F_SUBBITS2 || fn == F_SUBXBITS2;
  const uint64_t want_lo = clamping ? lo : off, want_len = clamping ? hi - lo : sz;
  if (rd.where() != w_pre || rd.size() != n || rd.data != base) {
    res.fail(name + ":wrong-result", vf::fmt("positional call changed the reader: where() %s -> %s, size() %zu -> %zu", u64s(w_pre).c_str(), u64s(rd.where()).c_str(), n, rd.size()));
    return;
  }
  if (!clamping && !in) {
    if (oc == "out_of_range") res.ok(name + "/rejects-out-of-range");
    else res.fail(name + ":out-of-range-not-rejected", oc == "ok" ? "offset+size exceeds the data, yet the call returned" + (is_sub ? vf::fmt(" a sub-reader of %llu %s", (unsigned long long)sub_size, bits ? "bits" : "bytes") : std::string()) : "offset+size exceeds the data; expected std::out_of_range, got " + oc + " (" + what + ")");
    return;
  }
  if (oc != "ok") {
    res.fail(name + (clamping ? ":throws" : ":rejected-in-range"), (clamping ? "clamping form must not throw; got " : "slice lies inside the data; got ") + oc + " (" + what + ")");
    return;
  }
  // returned normally and the model says it may: compare with the model slice
  if (fn == F_PGETV || fn == F_PGETT2 || fn == F_PGETT2W) {
    if (ptr != base + off) { res.fail(name + ":wrong-result", vf::fmt("returned pointer is data%+lld, expected data+%llu", (long long)((const uint8_t*)ptr - base), (unsigned long long)off)); return; }
  } else if (fn == F_PREAD_STR || fn == F_PREADX_STR) {
    std::string want((const char*)content + want_lo, want_len);
    if (got != want) { res.fail(name + ":wrong-result", vf::fmt("returned %zu bytes %s, model slice [%llu,%llu) = %s", got.size(), vf::show(got.substr(0, 32)).c_str(), (unsigned long long)want_lo, (unsigned long long)(want_lo + want_len), vf::show(want).c_str())); return; }
  } else if (fn == F_PREAD_BUF || fn == F_PREADX_BUF) {
    bool same = cnt == want_len && cnt <= bufsz && !memcmp(buf.p, content + want_lo, want_len);
    for (size_t i = want_len; same && i < bufsz; i++) same = buf.p[i] == 0xEE;
    if (!same) { res.fail(name + ":wrong-result", vf::fmt("copied %zu bytes (buffer %s), model: %llu bytes from %llu", cnt, vf::show(buf.p, bufsz).c_str(), (unsigned long long)want_len, (unsigned long long)want_lo)); return; }
  } else {
    uint64_t unit = bits ? 8 : 1;
    bool good = sub_where == 0 && sub_size == want_len * unit && (want_len == 0 || sub_base == base + want_lo);
    // never beyond the parent, whatever else
    if (sub_size > 0 && !(sub_base >= base && (u128)(sub_base - base) * unit + sub_size <= (u128)n * unit)) good = false;
    if (!good) { res.fail(name + ":wrong-result", vf::fmt("sub-reader = (data%+lld, %llu %s, cursor %llu); model (data+%llu, %llu %s, cursor 0)", (long long)(sub_base ? sub_base - base : 0), (unsigned long long)sub_size, bits ? "bits" : "bytes", (unsigned long long)sub_where, (unsigned long long)want_lo, (unsigned long long)(want_len * unit), bits ? "bits" : "bytes")); return; }
  }
  res.ok(name + (in ? "/in-range-exact" : want_len ? "/clamped-prefix" : "/clamped-empty"));
}

// ---- one-argument positional accessors -----------------------------------------------------------
enum Fn1 { G_CSTR, G_SUB1, G_SUBX1, G_SUBBITS1, G_SUBXBITS1, G_ALL, NFN1 };
const char* fn1_name[] = {"pget_cstr", "sub(offset)", "subx(offset)", "sub_bits(offset)", "subx_bits(offset)", "all"};

// finding-key group of a typed getter = its bounds-check site
std::string pget_group(const Kind& k) {
  if (k.w == 3 || k.w == 6) {
    std::string nm = k.name;  // u24b and s24b share pget_u24b's check
    nm[0] = 'u';
    return "pget_" + nm;
  }
  return "pget<T>";
}

void call_pget(const View& v, StringReader& rd, const Kind& k, uint64_t off, CaseResult& res) {
  const size_t n = rd.size();
  const uint64_t w_pre = rd.where();
  const bool in = in_range(off, k.w, n);
  const std::string grp = pget_group(k);
  res.arm(grp + (in ? ":memory-error-in-range" : ":out-of-range-not-rejected"), vf::fmt("pget_%s(offset=%s) [%d bytes] on %s%s", k.name, u64s(off).c_str(), k.w, v.how.c_str(), w_pre ? (" with the cursor at " + u64s(w_pre)).c_str() : ""));
  uint64_t got = 0;
  std::string what;
  std::string oc = outcome_of([&] { got = k.pget(rd, off); }, &what);
  if (rd.where() != w_pre || rd.size() != n) { res.fail(grp + ":wrong-result", "positional call changed the reader"); return; }
  if (!in) {
    if (oc == "out_of_range") res.ok(grp + "/rejects-out-of-range");
    else res.fail(grp + ":out-of-range-not-rejected", oc == "ok" ? vf::fmt("offset+%d exceeds the data, yet the call returned 0x%llX", k.w, (unsigned long long)got) : "expected std::out_of_range, got " + oc + " (" + what + ")");
    return;
  }
  if (oc != "ok") { res.fail(grp + ":rejected-in-range", "value lies inside the data; got " + oc + " (" + what + ")"); return; }
  uint64_t want = k.expect(c01::dec(v.content + off, k.w, k.e));
  if (got != want) { res.fail(grp + ":wrong-result", vf::fmt("returned 0x%llX, bytes at the offset decode to 0x%llX", (unsigned long long)got, (unsigned long long)want)); return; }
  res.ok(grp + "/in-range-exact");
}

void call1(const View& v, StringReader& rd, int fn, uint64_t off, CaseResult& res) {
  const size_t n = rd.size();
  const uint8_t* base = rd.data;
  const uint8_t* content = v.content;
  const uint64_t w_pre = rd.where();
  const std::string name = fn1_name[fn];
  const std::string at = w_pre ? " with the cursor at " + u64s(w_pre) : std::string();
  std::string what;
  if (fn == G_ALL) {
    // all() is a read of the whole data: exactly the n bytes, whatever the cursor (the offset argument is unused)
    res.arm(name + ":memory-error", "all() on " + v.how + at);
    std::string got;
    std::string oc = outcome_of([&] { got = rd.all(); }, &what);
    if (oc != "ok") res.fail(name + ":throws", "got " + oc + " (" + what + ")");
    else if (got != std::string((const char*)content, n)) res.fail(name + ":wrong-result", vf::fmt("returned %zu bytes %s, the data are %zu bytes", got.size(), vf::show(got.substr(0, 32)).c_str(), n));
    else if (rd.where() != w_pre || rd.size() != n) res.fail(name + ":wrong-result", "all() changed the reader");
    else res.ok(name + "/exact");
    return;
  }
  if (fn == G_CSTR) {
    // a terminated string starts at off iff a NUL exists in [off, n)
    bool term = false;
    size_t j = 0;
    if (off < n)
      for (j = off; j < n; j++)
        if (content[j] == 0) { term = true; break; }
    res.arm(name + (term ? ":memory-error-in-range" : ":out-of-range-not-rejected"), vf::fmt("pget_cstr(offset=%s) on %s%s", u64s(off).c_str(), v.how.c_str(), at.c_str()));
    std::string got;
    std::string oc = outcome_of([&] { got = rd.pget_cstr(off); }, &what);
    if (rd.where() != w_pre || rd.size() != n) { res.fail(name + ":wrong-result", "positional call changed the reader"); return; }
    if (!term) {
      if (oc == "out_of_range") res.ok(name + "/rejects-unterminated");
      else res.fail(name + ":out-of-range-not-rejected", "no NUL between the offset and the end of the data; expected std::out_of_range, got " + oc + (oc == "ok" ? " returning " + vf::show(got.substr(0, 32)) : " (" + what + ")"));
      return;
    }
    std::string want((const char*)content + off, j - off);
    if (oc != "ok") res.fail(name + ":rejected-in-range", "terminated string inside the data; got " + oc + " (" + what + ")");
    else if (got != want) res.fail(name + ":wrong-result", "returned " + vf::show(got) + ", model " + vf::show(want));
    else res.ok(name + "/in-range-exact");
    return;
  }
  const bool clamping = fn == G_SUB1 || fn == G_SUBBITS1;
  const bool bits = fn == G_SUBBITS1 || fn == G_SUBXBITS1;
  const bool in = off <= n;
  res.arm(name + (clamping ? ":memory-error" : in ? ":memory-error-in-range" : ":out-of-range-not-rejected"), vf::fmt("%s with offset=%s on %s%s", name.c_str(), u64s(off).c_str(), v.how.c_str(), at.c_str()));
  const uint8_t* sub_base = nullptr;
  uint64_t sub_size = 0, sub_where = 0;
  std::string oc = outcome_of([&] {
    switch (fn) {
      case G_SUB1: { StringReader s = rd.sub(off); sub_base = s.data; sub_size = s.length; sub_where = s.offset; break; }
      case G_SUBX1: { StringReader s = rd.subx(off); sub_base = s.data; sub_size = s.length; sub_where = s.offset; break; }
      case G_SUBBITS1: { BitReader s = rd.sub_bits(off); sub_base = s.data; sub_size = s.length; sub_where = s.offset; break; }
      case G_SUBXBITS1: { BitReader s = rd.subx_bits(off); sub_base = s.data; sub_size = s.length; sub_where = s.offset; break; }
    }
  }, &what);
  if (rd.where() != w_pre || rd.size() != n) { res.fail(name + ":wrong-result", "positional call changed the reader"); return; }
  if (!clamping && !in) {
    if (oc == "out_of_range") res.ok(name + "/rejects-out-of-range");
    else res.fail(name + ":out-of-range-not-rejected", "offset beyond the data; expected std::out_of_range, got " + oc + " (" + what + ")");
    return;
  }
  if (oc != "ok") { res.fail(name + (clamping ? ":throws" : ":rejected-in-range"), "got " + oc + " (" + what + ")"); return; }
  uint64_t unit = bits ? 8 : 1, want_lo = clamp_lo(off, n), want_len = n - want_lo;
  bool good = sub_where == 0 && sub_size == want_len * unit && (want_len == 0 || sub_base == base + want_lo);
  if (!good) { res.fail(name + ":wrong-result", vf::fmt("sub-reader = (data%+lld, %llu, cursor %llu); model (data+%llu, %llu, cursor 0)", (long long)(sub_base ? sub_base - base : 0), (unsigned long long)sub_size, (unsigned long long)sub_where, (unsigned long long)want_lo, (unsigned long long)(want_len * unit))); return; }
  res.ok(name + (want_len ? "/in-range-exact" : "/empty"));
}

// One positional call as a value (used by the pair / context sections).
struct PCall {
  int type;  // 0: two-argument form, 1: typed pget, 2: one-argument form
  int fn;
  const Kind* k;
  uint64_t off, sz;
};
std::string pcall_name(const PCall& c) {
  if (c.type == 0) return vf::fmt("%s(%s, %s)", fn2_label[c.fn], u64s(c.off).c_str(), u64s(c.sz).c_str());
  if (c.type == 1) return vf::fmt("pget_%s(%s)", c.k->name, u64s(c.off).c_str());
  return c.fn == G_ALL ? std::string("all()") : vf::fmt("%s=%s", fn1_name[c.fn], u64s(c.off).c_str());
}
void run_pcall(const View& v, StringReader& rd, const PCall& c, CaseResult& res) {
  if (c.type == 0) call2(v, rd, c.fn, c.off, c.sz, res);
  else if (c.type == 1) call_pget(v, rd, *c.k, c.off, res);
  else call1(v, rd, c.fn, c.off, res);
}
// boundary set of positional calls on an n-byte reader: every accessor with slices of different size
// class (whole, empty, tail, over-long, wrapping, beyond) so that consecutive calls differ in shape
std::vector<PCall> boundary_calls(size_t n) {
  std::vector<PCall> b;
  std::vector<std::pair<uint64_t, uint64_t>> os = {{0, n}, {0, 0}, {n, 0}, {1, ~0ull}, {~0ull, 2}, {0, 1}, {n / 2, n}};
  if (n) os.push_back({1, n - 1});
  if (n) os.push_back({n - 1, 2});
  for (int fn = 0; fn < NFN2; fn++)
    for (auto& p : os) b.push_back(PCall{0, fn, nullptr, p.first, p.second});
  for (const char* kn : {"u8", "u16l", "u24b", "u32b", "u48l", "u64b", "s24l", "f32"}) {
    const Kind* k = c01::kind(kn);
    std::vector<uint64_t> offs = {0, ~0ull};
    if (n) offs.push_back(n - 1);
    if (n > (size_t)k->w) offs.push_back(n - k->w);
    for (uint64_t o : offs) b.push_back(PCall{1, 0, k, o, 0});
  }
  for (uint64_t o : std::vector<uint64_t>{0, 4, n, n ? n - 1 : 1}) b.push_back(PCall{2, G_CSTR, nullptr, o, 0});
  for (int fn : {G_SUB1, G_SUBX1, G_SUBBITS1, G_SUBXBITS1})
    for (uint64_t o : std::vector<uint64_t>{0, 1, n, n + 1}) b.push_back(PCall{2, fn, nullptr, o, 0});
  b.push_back(PCall{2, G_ALL, nullptr, 0, 0});
  return b;
}

// Construction check of a view: data pointer, size, cursor, and the observers that go with them.
void check_view(const View& v, CaseResult& res) {
  res.arm("construct:memory-error", "constructing " + v.how);
  std::string what;
  std::unique_ptr<StringReader> rd;
  std::string oc = outcome_of([&] { rd.reset(new StringReader(v.make())); }, &what);
  if (oc != "ok") { res.fail("construct:throws", "construction lies inside the data; got " + oc + " (" + what + ")"); return; }
  const uint8_t* want_base = v.dyn_base ? (rd->owned_data ? (const uint8_t*)rd->owned_data->data() : nullptr) : v.base;
  // a cursor handed to a constructor beyond the data is the caller's explicit "go past the end": what
  // the reader makes of it is not compared (the operations that follow start from the actual state)
  bool good = rd->length == v.n && (rd->offset == v.w0 || v.w0 > v.n) && (v.n == 0 || rd->data == want_base);
  if (v.dyn_base && !rd->owned_data) good = false;
  if (!good) {
    res.fail("construct:wrong-extent", vf::fmt("reader = (data%+lld, %zu bytes, cursor %s); model (data+0, %zu bytes, cursor %s)", (long long)(want_base && rd->data ? rd->data - want_base : 0), rd->length, u64s(rd->offset).c_str(), v.n, u64s(v.w0).c_str()));
    return;
  }
  if (rd->size() != v.n || rd->where() != rd->offset || (rd->offset <= v.n && (rd->remaining() != v.n - rd->offset || rd->eof() != (rd->offset == v.n)))) {
    res.fail("construct:wrong-extent", vf::fmt("observers disagree with the state: size()=%zu where()=%s remaining()=%s eof()=%d", rd->size(), u64s(rd->where()).c_str(), u64s(rd->remaining()).c_str(), (int)rd->eof()));
    return;
  }
  res.ok("construct/ok");
}

}  // namespace

// One case = one (accessor, n, placement, offset) row with every size in G(n) (two-argument forms)
// or one (accessor, n, placement) row with every offset in G(n) (one-argument forms).
// `compact`: the grid Gs(n) instead of G(n), and one case per accessor with every (offset, size) pair.
void grid_rows(vf::Run& r, const View& v, bool all_kinds, bool compact = false) {
  auto G = compact ? grid_small(v.n) : grid(v.n);
  const char* gname = compact ? "Gs" : "G";
  for (int fn = 0; fn < NFN2; fn++) {
    r.note(fn2_label[fn]);
    if (compact) {
      if (!r.take()) continue;
      const size_t cnt = G.size() * G.size();
      if (r.wants_desc()) r.desc(vf::fmt("%s(every offset, every size in Gs(%zu)) on %s", fn2_label[fn], v.n, v.how.c_str()));
      r.evals += cnt - 1;
      r.nontrivial += cnt;
      auto* res = c02::run_batch(r, cnt, [&](size_t i, CaseResult& c) { StringReader rd = v.make(); call2(v, rd, fn, G[i / G.size()], G[i % G.size()], c); });
      c02::fold(r, res, cnt);
      continue;
    }
    for (uint64_t off : G) {
      if (!r.take()) continue;
      if (r.wants_desc()) r.desc(vf::fmt("%s(offset=%s, every size in G(%zu)) on %s", fn2_label[fn], u64s(off).c_str(), v.n, v.how.c_str()));
      r.evals += G.size() - 1;
      r.nontrivial += G.size();
      auto* res = c02::run_batch(r, G.size(), [&](size_t i, CaseResult& c) { StringReader rd = v.make(); call2(v, rd, fn, off, G[i], c); });
      c02::fold(r, res, G.size());
    }
  }
  std::vector<const Kind*> ks;
  for (auto& k : c01::kinds())
    if (all_kinds || k.w == 3 || k.w == 6 || !strcmp(k.name, "u8") || !strcmp(k.name, "s16b") || !strcmp(k.name, "u32r") || !strcmp(k.name, "f64l")) ks.push_back(&k);
  if (compact) {
    r.note("pget_*");
    if (r.take()) {
      const size_t cnt = ks.size() * G.size();
      if (r.wants_desc()) r.desc(vf::fmt("%zu typed pget_* x every offset in Gs(%zu) on %s", ks.size(), v.n, v.how.c_str()));
      r.evals += cnt - 1;
      r.nontrivial += cnt;
      auto* res = c02::run_batch(r, cnt, [&](size_t i, CaseResult& c) { StringReader rd = v.make(); call_pget(v, rd, *ks[i / G.size()], G[i % G.size()], c); });
      c02::fold(r, res, cnt);
    }
  } else {
    for (const Kind* k : ks) {
      r.note(std::string("pget_") + k->name);
      if (!r.take()) continue;
      if (r.wants_desc()) r.desc(vf::fmt("pget_%s(every offset in G(%zu)) on %s", k->name, v.n, v.how.c_str()));
      r.evals += G.size() - 1;
      r.nontrivial += G.size();
      auto* res = c02::run_batch(r, G.size(), [&](size_t i, CaseResult& c) { StringReader rd = v.make(); call_pget(v, rd, *k, G[i], c); });
      c02::fold(r, res, G.size());
    }
  }
  if (compact) {
    r.note("one-argument forms");
    if (r.take()) {
      const size_t cnt = (NFN1 - 1) * G.size() + 1;
      if (r.wants_desc()) r.desc(vf::fmt("pget_cstr, sub/subx/sub_bits/subx_bits(offset) x every offset in Gs(%zu), all() on %s", v.n, v.how.c_str()));
      r.evals += cnt - 1;
      r.nontrivial += cnt;
      auto* res = c02::run_batch(r, cnt, [&](size_t i, CaseResult& c) {
        StringReader rd = v.make();
        if (i + 1 == cnt) call1(v, rd, G_ALL, 0, c);
        else call1(v, rd, (int)(i / G.size()), G[i % G.size()], c);
      });
      c02::fold(r, res, cnt);
    }
    return;
  }
  for (int fn = 0; fn < NFN1; fn++) {
    r.note(fn1_name[fn]);
    if (!r.take()) continue;
    if (r.wants_desc()) r.desc(vf::fmt("%s with every offset in %s(%zu) on %s", fn1_name[fn], gname, v.n, v.how.c_str()));
    const size_t cnt = fn == G_ALL ? 1 : G.size();
    r.evals += cnt - 1;
    r.nontrivial += cnt;
    auto* res = c02::run_batch(r, cnt, [&](size_t i, CaseResult& c) { StringReader rd = v.make(); call1(v, rd, fn, G[i], c); });
    c02::fold(r, res, cnt);
  }
}

VF_SECTION(grid, 16, 16, 90) {
  for (size_t n : NS) {
    for (int which = 0; which < 2; which++) {
      Placement pl(which, n);
      View v = fresh_view(pl);
      grid_rows(r, v, true);
    }
  }
  r.counters["forks"] += c02::stats().forks;
  r.bound = "n in {0,1,2,5,8} x {guard-page, exact-heap} x {pgetv, pget<uint8_t>(off,size), pget<be_int32_t>(off,size), pread x2, preadx x2, sub, subx, sub_bits, subx_bits} x G(n) x G(n); 42 typed pget_* x G(n); pget_cstr, sub/subx/sub_bits/subx_bits(offset) x G(n); all(); G(n) = {0,1,n-1,n,n+1,2n,2^31-1,2^31,2^32-1,2^32,2^32+1,2^32+n,2^63-1,2^63,2^63+1,2^64-n-1..2^64-1,2^64-8..2^64-1}";
}

#include "C02_cursor.hh"
#include "C02_derived.hh"
#include "C02_writers.hh"

VF_MAIN()
