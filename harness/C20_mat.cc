// C20 (matrices) — Matrix4 satisfies (AB)v = A(Bv), transpose twice = identity, M * inverse(M) = I for strictly
// diagonally dominant M.  Translation unit of the C20 harness (sections matrix, invert, invert_wide); main() is in
// harness/C20.cc.
#include <math.h>

#include <algorithm>
#include <array>
#include <string>
#include <vector>

#include "C20_common.hh"

using namespace c20;
using phosg::Matrix4;
using phosg::Vector4;

namespace {

// ------------------------------------------------------------------------------------------------
// Matrix4
// ------------------------------------------------------------------------------------------------

// plain reference matrix: e[row][col], textbook definitions
struct RefM {
  double e[4][4];
};
RefM ref_identity() {
  RefM m{};
  for (int i = 0; i < 4; i++) m.e[i][i] = 1;
  return m;
}

struct MSpec {  // identity with up to two entries replaced
  int n = 0;
  int pos[2] = {0, 0};  // row*4+col
  double val[2] = {0, 0};
  RefM ref() const {
    RefM m = ref_identity();
    for (int i = 0; i < n; i++) m.e[pos[i] / 4][pos[i] % 4] = val[i];
    return m;
  }
  std::string str() const {
    std::string s = "I";
    for (int i = 0; i < n; i++) s += vf::fmt(" with [row %d,col %d]=%.17g", pos[i] / 4, pos[i] % 4, val[i]);
    return s;
  }
};

// Matrix4 stores m[column][row] (operator*(Vector4) sums m[k][row]*v[k]); the harness never relies on
// that except here, and `matrix_layout` below checks it against M*e_k = k-th column.
template <class T>
Matrix4<T> build(const RefM& rm) {
  Matrix4<T> m;
  for (int row = 0; row < 4; row++)
    for (int col = 0; col < 4; col++) m.m[col][row] = (T)rm.e[row][col];
  return m;
}
template <class T>
RefM unbuild(const Matrix4<T>& m) {
  RefM rm;
  for (int row = 0; row < 4; row++)
    for (int col = 0; col < 4; col++) rm.e[row][col] = (double)m.m[col][row];
  return rm;
}
RefM ref_mul(const RefM& a, const RefM& b) {
  RefM o{};
  for (int i = 0; i < 4; i++)
    for (int j = 0; j < 4; j++)
      for (int k = 0; k < 4; k++) o.e[i][j] += a.e[i][k] * b.e[k][j];
  return o;
}
std::array<double, 4> ref_mulv(const RefM& a, const std::array<double, 4>& v) {
  std::array<double, 4> o{};
  for (int i = 0; i < 4; i++)
    for (int k = 0; k < 4; k++) o[i] += a.e[i][k] * v[k];
  return o;
}
bool ref_eq(const RefM& a, const RefM& b) {
  for (int i = 0; i < 4; i++)
    for (int j = 0; j < 4; j++)
      if (a.e[i][j] != b.e[i][j]) return false;
  return true;
}
std::string ref_str(const RefM& a) {
  std::string s = "[";
  for (int i = 0; i < 4; i++) {
    s += i ? " | " : "";
    for (int j = 0; j < 4; j++) s += vf::fmt(j ? " %.17g" : "%.17g", a.e[i][j]);
  }
  return s + "]";
}

std::vector<MSpec> matrix_specs(int max_entries) {
  static const int vals[4] = {-2, -1, 1, 2};
  std::vector<MSpec> out;
  out.push_back(MSpec());
  for (int p = 0; p < 16; p++)
    for (int v : vals) {
      MSpec s;
      s.n = 1; s.pos[0] = p; s.val[0] = v;
      out.push_back(s);
    }
  if (max_entries >= 2) {
    for (int p = 0; p < 16; p++)
      for (int q = p + 1; q < 16; q++)
        for (int v : vals)
          for (int w : vals) {
            MSpec s;
            s.n = 2; s.pos[0] = p; s.val[0] = v; s.pos[1] = q; s.val[1] = w;
            out.push_back(s);
          }
  }
  return out;
}

// identity with ONE entry replaced by a value far from the small ones: exactness of the component type (no detour
// through float/int32/double mantissa).  Magnitudes are chosen so that every product and sum formed in the pair laws
// with a small-entry partner and the test vectors stays exactly representable in T and in double.
template <class T>
std::vector<MSpec> matrix_big_specs() {
  std::vector<double> vals;
  if constexpr (std::is_same_v<T, int64_t>) vals = {2147483648.0, -2147483648.0, 2147483649.0, -2147483649.0, 1099511627776.0, -1099511627777.0};
  else if constexpr (std::is_same_v<T, double>) vals = {2147483648.0, -2147483648.0, 2147483649.0, -2147483649.0, 1099511627776.0, -1099511627777.0, 0.5, -0.25};
  else if constexpr (std::is_same_v<T, float>) vals = {4097.0, -4097.0, 0.5, -0.25};
  else vals = {1048577.0, -1048577.0};
  std::vector<MSpec> out;
  for (int p = 0; p < 16; p++)
    for (double v : vals) {
      MSpec s;
      s.n = 1; s.pos[0] = p; s.val[0] = v;
      out.push_back(s);
    }
  return out;
}

const std::array<double, 4> TEST_VECS[3] = {{1, 2, 3, 4}, {-1, 2, -3, 5}, {0, 1, 0, -2}};

template <class T>
struct MatCheck {
  vf::Run& r;
  bool bad = false;
  explicit MatCheck(vf::Run& r) : r(r) {}
  template <class D>
  void flag(const char* law, D&& d) {
    bad = true;
    r.fail(std::string("Matrix4:") + law, [&] { return std::string("Matrix4<") + tname<T>() + "> " + d(); });
  }
  static std::array<double, 4> vc(const Vector4<T>& v) { return {(double)v.x, (double)v.y, (double)v.z, (double)v.w}; }
  static Vector4<T> mkv(const std::array<double, 4>& v) { return Vector4<T>((T)v[0], (T)v[1], (T)v[2], (T)v[3]); }

  // small = every entry has magnitude <= 2, so that squares stay exact as well
  void single(const MSpec& s, bool small = true) {
    bad = false;
    RefM ra = s.ref();
    Matrix4<T> A = build<T>(ra), I;
    auto ctx = [&] { return "A = " + s.str(); };
    if (!ref_eq(unbuild(I), ref_identity())) flag("default-not-identity", ctx);
    Matrix4<T> At = A.transposition();
    RefM rt;
    for (int i = 0; i < 4; i++)
      for (int j = 0; j < 4; j++) rt.e[i][j] = ra.e[j][i];
    if (!ref_eq(unbuild(At), rt)) flag("transposition-wrong", ctx);
    if (!(At.transposition() == A) || !ref_eq(unbuild(At.transposition()), ra)) flag("transpose-twice-not-identity", ctx);
    {
      Matrix4<T> B = A;
      Matrix4<T>& ref = B.transpose();
      if (&ref != &B || !ref_eq(unbuild(B), rt)) flag("transpose-in-place-wrong", ctx);
      B.transpose();
      if (!ref_eq(unbuild(B), ra)) flag("transpose-twice-not-identity", ctx);
    }
    if (!ref_eq(unbuild(A * I), ra)) flag("A*I!=A", ctx);
    if (!ref_eq(unbuild(I * A), ra)) flag("I*A!=A", ctx);
    if (!(A == A) || (A != A)) flag("operator==", ctx);
    if ((A == I) != ref_eq(ra, ref_identity()) || (A != I) == ref_eq(ra, ref_identity())) flag("operator==", ctx);
    for (auto& v : TEST_VECS) {
      if (vc(A * mkv(v)) != ref_mulv(ra, v)) flag("matrix*vector-wrong", [&] { return ctx() + " v=" + astr(v) + " got " + astr(vc(A * mkv(v))) + " want " + astr(ref_mulv(ra, v)); });
      if (vc(I * mkv(v)) != v) flag("I*v!=v", ctx);
      // the result overwrites the vector operand: x = A * x
      Vector4<T> x = mkv(v);
      x = A * x;
      if (vc(x) != ref_mulv(ra, v)) flag("v=A*v(aliased)-wrong", [&] { return ctx() + " v=" + astr(v) + " got " + astr(vc(x)) + " want " + astr(ref_mulv(ra, v)); });
    }
    {
      // the result overwrites the operand: B = B.transposition()
      Matrix4<T> B = A;
      B = B.transposition();
      if (!ref_eq(unbuild(B), rt)) flag("A=A.transposition()(aliased)-wrong", ctx);
    }
    if (small) {
      // the right operand is the object itself / the result overwrites an operand
      RefM sq = ref_mul(ra, ra);
      Matrix4<T> C = A;
      C *= C;
      if (!ref_eq(unbuild(C), sq)) flag("A*=A(aliased)-wrong", ctx);
      Matrix4<T> D = A;
      D = D * D;
      if (!ref_eq(unbuild(D), sq)) flag("A=A*A(aliased)-wrong", ctx);
      Matrix4<T> F = A, G = A;
      F = F * A;  // one operand is overwritten, the other is a distinct object with the same value
      G = A * G;
      if (!ref_eq(unbuild(F), sq) || !ref_eq(unbuild(G), sq)) flag("A=A*A(aliased)-wrong", ctx);
      {
        Matrix4<T> H = A;
        const Matrix4<T>& same = H;
        H = same;  // self-assignment
        if (!ref_eq(unbuild(H), ra)) flag("self-assignment-wrong", ctx);
      }
      {
        // executed only (matrix (op) scalar is outside the statement): the scalar operand is an entry of the same object
        Matrix4<T> S = A;
        S += S.m[0][0]; S -= S.m[1][2]; S *= S.m[3][3];
        if (S.m[2][2] != 0) S /= S.m[2][2];
        (void)(S + S.m[0][1]); (void)(S * S.m[1][1]);
        S += S; S -= S;
      }
      Matrix4<T> E = At;  // holds another value already
      E = A;
      E = E * I;
      if (!ref_eq(unbuild(E), ra)) flag("A*I!=A", ctx);
    }
    {
      // executed only (the statement does not cover matrix (op) scalar): memory safety
      Matrix4<T> C = A;
      C += T(2); C -= T(2); C *= T(2); C /= T(2);
      (void)(A + T(2)); (void)(A - T(2)); (void)(A * T(2)); (void)(A / T(2));
      if constexpr (std::is_integral_v<T>) { C %= T(3); (void)(A % T(3)); }
      C += A; C -= A;
    }
    if (!ref_eq(unbuild(A), ra)) flag("operand-modified", ctx);
    r.nontriv();
    if (!bad) r.ok(s.n == 0 ? "single: identity" : small ? "single: perturbed identity" : "single: identity with one large entry");
  }

  void pair(const MSpec& sa, const MSpec& sb) {
    bad = false;
    RefM ra = sa.ref(), rb = sb.ref();
    Matrix4<T> A = build<T>(ra), B = build<T>(rb);
    auto ctx = [&] { return "A = " + sa.str() + "; B = " + sb.str(); };
    Matrix4<T> AB = A * B;
    RefM rab = ref_mul(ra, rb);
    for (auto& v : TEST_VECS) {
      Vector4<T> x = mkv(v);
      auto lhs = vc(AB * x), rhs = vc(A * (B * x));
      if (lhs != rhs) flag("(AB)v!=A(Bv)", [&] { return ctx() + " v=" + astr(v) + " (AB)v=" + astr(lhs) + " A(Bv)=" + astr(rhs); });
    }
    if (!ref_eq(unbuild(AB), rab)) flag("product-wrong", [&] { return ctx() + " A*B=" + ref_str(unbuild(AB)) + " textbook product=" + ref_str(rab); });
    {
      Matrix4<T> C = A;
      C *= B;
      if (!(C == AB)) flag("operator*=-differs-from-operator*", ctx);
      // the result overwrites the left / the right operand
      Matrix4<T> D = A, E = B;
      D = D * B;
      E = A * E;
      if (!(D == AB) || !(E == AB)) flag("A=A*B(result-over-operand)-wrong", ctx);
    }
    if (!((AB).transposition() == B.transposition() * A.transposition())) flag("(AB)^T!=B^T*A^T", ctx);
    if (!ref_eq(unbuild(A + B), [&] { RefM o; for (int i = 0; i < 4; i++) for (int j = 0; j < 4; j++) o.e[i][j] = ra.e[i][j] + rb.e[i][j]; return o; }())) flag("operator+-wrong", ctx);
    if (!ref_eq(unbuild(A - B), [&] { RefM o; for (int i = 0; i < 4; i++) for (int j = 0; j < 4; j++) o.e[i][j] = ra.e[i][j] - rb.e[i][j]; return o; }())) flag("operator--wrong", ctx);
    r.nontriv();
    if (!bad) r.ok(ref_eq(rab, ref_mul(rb, ra)) ? "pair: commuting" : "pair: non-commuting");
  }

  void triple(const MSpec& sa, const MSpec& sb, const MSpec& sc) {
    bad = false;
    Matrix4<T> A = build<T>(sa.ref()), B = build<T>(sb.ref()), C = build<T>(sc.ref());
    auto ctx = [&] { return "A = " + sa.str() + "; B = " + sb.str() + "; C = " + sc.str(); };
    Matrix4<T> L = (A * B) * C, R = A * (B * C);
    if (!(L == R)) flag("(AB)C!=A(BC)", ctx);
    if (!ref_eq(unbuild(L), ref_mul(ref_mul(sa.ref(), sb.ref()), sc.ref()))) flag("product-wrong", ctx);
    for (auto& v : TEST_VECS) {
      Vector4<T> x = mkv(v);
      if (vc(L * x) != vc(A * (B * (C * x)))) flag("(AB)v!=A(Bv)", [&] { return ctx() + " v=" + astr(v); });
    }
    r.nontriv();
    if (!bad) r.ok("triple of elementary matrices");
  }
};

}  // namespace

template <class T>
static void matrix_laws(vf::Run& r, bool lite) {
  r.note(std::string("Matrix4<") + tname<T>() + "> laws");
  MatCheck<T> ck(r);
  std::vector<MSpec> s1 = matrix_specs(1), s2 = matrix_specs(2), big = matrix_big_specs<T>();
  for (auto& s : s2) {
    if (!r.take()) continue;
    if (r.wants_desc()) r.desc(std::string("Matrix4<") + tname<T>() + "> single-matrix laws, A = " + s.str());
    ck.single(s);
  }
  // quick: (<=1 entry) x (<=2 entries) in both orders; thorough: all (<=2) x (<=2); lite: (<=1) x (<=1)
  if (r.thorough() && !lite) {
    for (auto& a : s2)
      for (auto& b : s2) {
        if (!r.take()) continue;
        if (r.wants_desc()) r.desc(std::string("Matrix4<") + tname<T>() + "> pair laws, A = " + a.str() + "; B = " + b.str());
        ck.pair(a, b);
      }
  } else {
    for (int order = 0; order < 2; order++)
      for (auto& a : s1)
        for (auto& b : (lite && !r.thorough()) ? s1 : s2) {
          if (!r.take()) continue;
          const MSpec& x = order ? b : a;
          const MSpec& y = order ? a : b;
          if (r.wants_desc()) r.desc(std::string("Matrix4<") + tname<T>() + "> pair laws, A = " + x.str() + "; B = " + y.str());
          ck.pair(x, y);
        }
  }
  if (!lite || r.thorough()) {
    for (auto& a : s1)
      for (auto& b : s1)
        for (auto& c : s1) {
          if (!r.take()) continue;
          if (r.wants_desc()) r.desc(std::string("Matrix4<") + tname<T>() + "> product of three elementary matrices, A = " + a.str() + "; B = " + b.str() + "; C = " + c.str());
          ck.triple(a, b, c);
        }
  }
  // one large entry: single laws, and pair laws with every (<=1 small entry) partner in both orders
  for (auto& a : big) {
    if (!r.take()) continue;
    if (r.wants_desc()) r.desc(std::string("Matrix4<") + tname<T>() + "> single-matrix laws, A = " + a.str());
    ck.single(a, false);
  }
  for (int order = 0; order < 2; order++)
    for (auto& a : big)
      for (auto& b : s1) {
        if (!r.take()) continue;
        const MSpec& x = order ? b : a;
        const MSpec& y = order ? a : b;
        if (r.wants_desc()) r.desc(std::string("Matrix4<") + tname<T>() + "> pair laws, A = " + x.str() + "; B = " + y.str());
        ck.pair(x, y);
      }
}

VF_SECTION(matrix, 16, 16, 90) {
  matrix_laws<int64_t>(r, false);
  matrix_laws<double>(r, false);
  matrix_laws<int32_t>(r, true);
  matrix_laws<float>(r, true);
  r.bound = std::string(r.thorough() ? "Matrix4<int64_t>/<double>: 1985 matrices differing from I in <=2 entries (values -2,-1,1,2): single laws (incl. A*=A, A=A*A, v=A*v, A=A.transposition(), results assigned over either operand); all 1985^2 ordered pairs; all 65^3 products of three elementary matrices; 3 test vectors"
                                     : "Matrix4<int64_t>/<double>: 1985 matrices differing from I in <=2 entries (values -2,-1,1,2): single laws (incl. A*=A, A=A*A, v=A*v, A=A.transposition(), results assigned over either operand); 65 x 1985 pairs in both orders; all 65^3 products of three elementary matrices; 3 test vectors") +
            "; Matrix4<int32_t>/<float>: the same singles, " + (r.thorough() ? "65 x 1985 pairs in both orders and the 65^3 triples" : "65 x 65 pairs in both orders") +
            "; every type: I with one large entry (+-2^31, +-(2^31+1), 2^40, -(2^40+1); float +-4097; int32_t +-(2^20+1); double/float also 0.5, -0.25) at each of the 16 positions: single laws and pair laws with the 65 elementary partners in both orders";
}

// ---- inversion ---------------------------------------------------------------------------------------------------------
struct InvertCheck {
  vf::Run& r;
  // M must be strictly diagonally dominant.  inv = what the library returned for it (already computed by the caller
  // when the call was made in a special context), or computed here.
  bool check(const RefM& rm, const Matrix4<double>* given, const char* okcls) {
    Matrix4<double> M = build<double>(rm);
    std::string oc = "ok";
    Matrix4<double> inv;
    if (given) inv = *given;
    else {
      r.poison_errno();
      oc = vf::outcome([&] { inv = M.inverse(); });
    }
    r.nontriv();
    if (oc != "ok") {
      r.fail("Matrix4::inverse:throws", [&] { return "M = " + ref_str(rm) + " is strictly diagonally dominant but inverse() threw " + oc; });
      return false;
    }
    bool bad = false;
    RefM ri = unbuild(inv);
    RefM p1 = ref_mul(rm, ri), p2 = ref_mul(ri, rm);  // textbook products (independent of Matrix4::operator*)
    RefM q1 = unbuild(M * inv), q2 = unbuild(inv * M);
    double worst = 0;
    for (int i = 0; i < 4; i++)
      for (int j = 0; j < 4; j++) {
        double want = i == j ? 1 : 0;
        for (double got : {p1.e[i][j], p2.e[i][j], q1.e[i][j], q2.e[i][j]}) {
          double err = fabs(got - want);
          if (!(err <= worst)) worst = err;  // NaN propagates into worst
        }
      }
    if (!(worst <= 1e-9)) {
      bad = true;
      r.fail("Matrix4::inverse:M*inverse(M)!=I", [&] { return "M = " + ref_str(rm) + "; inverse() = " + ref_str(ri) + vf::fmt("; max |M*inv - I| = %g (tolerance 1e-9)", worst); });
    }
    {
      Matrix4<double> N = M;
      Matrix4<double>& ref = N.invert();
      if (&ref != &N || !(N == inv)) { bad = true; r.fail("Matrix4::invert:differs-from-inverse", [&] { return "M = " + ref_str(rm); }); }
      if (!ref_eq(unbuild(M), rm)) { bad = true; r.fail("Matrix4::inverse:modifies-operand", [&] { return "M = " + ref_str(rm); }); }
      {
        // the result overwrites the operand: P = P.inverse()
        Matrix4<double> P = M;
        std::string oc3 = vf::outcome([&] { P = P.inverse(); });
        if (oc3 != "ok" || !(P == inv)) { bad = true; r.fail("Matrix4::inverse:result-assigned-over-operand-differs", [&] { return "M = " + ref_str(rm) + (oc3 != "ok" ? "; M = M.inverse() threw " + oc3 : "; M = M.inverse() gives " + ref_str(unbuild(P)) + ", inverse() into another object " + ref_str(ri)); }); }
      }
      // the same object inverted again (it now holds the inverse, which need not be diagonally dominant): executed, not compared
      (void)vf::outcome([&] { N.invert(); });
      // a second inverse() of the unchanged M is the same function value
      Matrix4<double> again;
      std::string oc2 = vf::outcome([&] { again = M.inverse(); });
      if (oc2 != "ok" || !(again == inv)) { bad = true; r.fail("Matrix4::inverse:differs-between-calls", [&] { return "M = " + ref_str(rm) + "; first inverse() = " + ref_str(ri) + "; second " + (oc2 != "ok" ? "threw " + oc2 : "= " + ref_str(unbuild(again))); }); }
    }
    if (!bad) r.ok(std::string(okcls) + (worst == 0 ? "inverse exact" : worst < 1e-15 ? "inverse within 1e-15" : "inverse within 1e-9"));
    return !bad;
  }
};

// off-diagonal assignments with at most `maxnz` non-zero entries from {-1, +1}: list of 12-vectors
static std::vector<std::array<int, 12>> sparse_offdiagonals(int maxnz) {
  std::vector<std::array<int, 12>> out;
  for (vf::Odometer o(std::vector<uint32_t>(12, 3)); !o.done; o.step()) {
    int nz = 0;
    std::array<int, 12> a;
    for (int i = 0; i < 12; i++) { a[i] = (int)o.d[i] - 1; nz += a[i] != 0; }
    if (nz <= maxnz) out.push_back(a);
  }
  return out;
}

static RefM sdd_matrix(const double diag[4], unsigned neg_mask, const std::array<int, 12>& off, double scale) {
  RefM rm{};
  int k = 0;
  for (int i = 0; i < 4; i++)
    for (int j = 0; j < 4; j++) rm.e[i][j] = scale * ((i == j) ? (((neg_mask >> i) & 1) ? -diag[i] : diag[i]) : (double)off[k++]);
  return rm;
}

VF_SECTION(invert, 16, 16, 90) {
  r.note("Matrix4<double>::inverse");
  InvertCheck ck{r};
  static const double diag[4] = {5, -6, 9, 4.5};
  for (vf::Odometer o(std::vector<uint32_t>(12, 3)); !o.done; o.step()) {
    if (!r.take()) continue;
    RefM rm{};
    int k = 0;
    for (int i = 0; i < 4; i++)
      for (int j = 0; j < 4; j++) rm.e[i][j] = (i == j) ? diag[i] : (double)((int)o.d[k++] - 1);
    if (r.wants_desc()) r.desc("Matrix4<double> inverse of strictly diagonally dominant M = " + ref_str(rm));
    ck.check(rm, nullptr, "");
  }
  r.bound = "Matrix4<double>::inverse/invert for diagonal (5,-6,9,4.5) and all 3^12 = 531441 off-diagonal assignments over {-1,0,1} (strictly diagonally dominant by rows and columns); inverse() twice gives the same value";
}

// every sign pattern of the diagonal, magnitudes scaled far from 1, and inversion in special contexts
VF_SECTION(invert_wide, 16, 16, 90) {
  r.note("Matrix4<double>::inverse (signs, scales)");
  InvertCheck ck{r};
  static const double mag[4] = {5, 6, 9, 4.5};
  static const int scale_exp[7] = {0, -40, 40, -300, 300, -1000, 1000};
  const int nscales = r.thorough() ? 7 : 5;
  std::vector<std::array<int, 12>> offs = sparse_offdiagonals(3);
  for (int si = 0; si < nscales; si++) {
    double scale = ldexp(1.0, scale_exp[si]);
    for (unsigned neg = 0; neg < 16; neg++) {
      for (auto& off : offs) {
        if (!r.take()) continue;
        RefM rm = sdd_matrix(mag, neg, off, scale);
        if (r.wants_desc()) r.desc(vf::fmt("Matrix4<double> inverse of strictly diagonally dominant M = 2^%d * ", scale_exp[si]) + ref_str(sdd_matrix(mag, neg, off, 1)));
        ck.check(rm, nullptr, scale_exp[si] == 0 ? "signs: " : "scaled: ");
      }
    }
  }
  // thorough: the dense sweep for the all-positive and the all-negative diagonal as well
  if (r.thorough()) {
    for (unsigned neg : {0u, 15u}) {
      for (vf::Odometer o(std::vector<uint32_t>(12, 3)); !o.done; o.step()) {
        if (!r.take()) continue;
        std::array<int, 12> off;
        for (int i = 0; i < 12; i++) off[i] = (int)o.d[i] - 1;
        RefM rm = sdd_matrix(mag, neg, off, 1);
        if (r.wants_desc()) r.desc("Matrix4<double> inverse of strictly diagonally dominant M = " + ref_str(rm));
        ck.check(rm, nullptr, "dense: ");
      }
    }
  }
  // Contexts: a singular matrix was inverted just before (the library throws runtime_error; not compared), and the
  // inverse of a good matrix is then taken (a) after the handler, (b) inside the catch handler, (c) in a destructor
  // running while that exception unwinds the stack.
  r.note("Matrix4<double>::inverse after / during a failed inversion");
  std::vector<RefM> singular;
  {
    RefM z{};  // all zero
    singular.push_back(z);
    RefM p = ref_identity();  // zero pivot in the first column, rank 3
    p.e[0][0] = 0;
    singular.push_back(p);
    RefM q = ref_identity();  // rows 2 and 3 equal: the zero pivot appears in the last elimination step
    q.e[3][2] = 1; q.e[3][3] = 0; q.e[2][3] = 0;
    for (int j = 0; j < 4; j++) q.e[3][j] = q.e[2][j];
    singular.push_back(q);
  }
  std::vector<std::array<int, 12>> offs1 = sparse_offdiagonals(1);
  struct InvertInDtor {
    const Matrix4<double>& m;
    Matrix4<double>& out;
    bool& done;
    ~InvertInDtor() {
      try { out = m.inverse(); done = true; } catch (...) {}
    }
  };
  for (size_t s = 0; s < singular.size(); s++) {
    for (int context = 0; context < 3; context++) {
      for (unsigned neg = 0; neg < 16; neg++) {
        for (auto& off : offs1) {
          if (!r.take()) continue;
          RefM rm = sdd_matrix(mag, neg, off, 1);
          static const char* CTX[3] = {"after the handler", "inside the catch handler", "in a destructor during stack unwinding"};
          if (r.wants_desc()) r.desc("Matrix4<double>: invert() of the singular S = " + ref_str(singular[s]) + " (throws), then inverse() " + CTX[context] + " of M = " + ref_str(rm));
          Matrix4<double> S = build<double>(singular[s]), M = build<double>(rm), inv;
          bool done = false, threw = false;
          r.poison_errno();
          auto take_inverse = [&] { done = false; try { inv = M.inverse(); done = true; } catch (...) {} };
          if (context == 2) {
            try {
              InvertInDtor guard{M, inv, done};
              S.invert();
            } catch (const std::exception&) { threw = true; }
          } else {
            try {
              S.invert();
            } catch (const std::exception&) {
              threw = true;
              if (context == 1) take_inverse();
            }
            if (context == 0 || !threw) take_inverse();
          }
          if (!done) {
            r.nontriv();
            r.fail("Matrix4::inverse:throws", [&] { return "M = " + ref_str(rm) + " is strictly diagonally dominant but inverse() threw when called " + CTX[context] + " of a failed inversion"; });
            continue;
          }
          ck.check(rm, &inv, threw ? "after failed inversion: " : "after inversion of a singular matrix that did not throw: ");
        }
      }
    }
  }
  r.bound = vf::fmt("Matrix4<double>::inverse/invert: diagonal magnitudes (5,6,9,4.5) with all 16 sign patterns x %zu off-diagonal assignments with <=3 non-zero entries from {-1,1} x scale 2^e, e in {0,-40,40,-300,300%s}%s; "
                    "3 singular matrices x {after, inside the catch handler, in a destructor during unwinding} x 16 sign patterns x %zu matrices with <=1 off-diagonal entry",
      offs.size(), r.thorough() ? ",-1000,1000" : "", r.thorough() ? "; dense 3^12 sweep for the all-positive and all-negative diagonal" : "", offs1.size());
}

