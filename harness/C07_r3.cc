// C07 (round 3) — class "sizes around internal block sizes":
//   big : every whole-image operation and representatives of every rectangle / line / text / pixel-access operation on canvases
//         whose ROW byte length straddles 256, 4096, 8192, 65536 (and their doubles), whose TOTAL byte size straddles 64 KiB and
//         1 MiB, and on tall canvases whose row COUNT straddles 256 / 4096 - against the per-pixel model, coordinate-coded pixels
//         (a misplaced row or piece of a row is visible), exact-size heap buffers under ASan.  Also draw_text with strings whose
//         length straddles 256 ... 65536 bytes (the formatting buffer).
// An implementation that moves rows / buffers through a fixed-size scratch block, or in fixed-size pieces, behaves like the
// per-pixel loop on every canvas of the small scope (<= 13 pixels wide); only rows longer than the block tell them apart.
#include <memory>
#include <set>

#include "C07_ops.hh"

namespace {

inline uint64_t mix64(uint64_t z) {
  z += 0x9E3779B97F4A7C15ull;
  z = (z ^ (z >> 30)) * 0xBF58476D1CE4E5B9ull;
  z = (z ^ (z >> 27)) * 0x94D049BB133111EBull;
  return z ^ (z >> 31);
}

// Coordinate-coded content for large canvases.  8-bit: (r,g,b) is a bijective code of the pixel index (below 2^24 pixels no two
// pixels are equal, except the sprinkled key-colour / white pixels the masked variants need); wider samples are 64-bit hashes of
// (index, channel), so every byte lane differs.  salt: 0 destination, 1 source, 2 mask.
Model bigpat(int w, int h, bool alpha, int cw, int salt) {
  Model m(w, h, alpha, cw);
  uint64_t mk = mask_of(cw);
  for (int y = 0; y < h; y++)
    for (int x = 0; x < w; x++) {
      uint64_t i = (uint64_t)y * w + x;
      uint64_t hs = mix64(i * 8 + 7 + ((uint64_t)salt << 56));
      uint64_t r, g, b, a;
      if (cw == 8) {
        uint32_t code = (uint32_t)(((uint32_t)(i + 1) * 0x9E3779B1u + (uint32_t)salt * 0x3C6EF35Fu) & 0xFFFFFFu);
        r = code & 0xFF; g = (code >> 8) & 0xFF; b = code >> 16;
        a = ALPHAS[hs % 5];
      } else {
        r = mix64(i * 8 + 0 + ((uint64_t)salt << 56)) & mk;
        g = mix64(i * 8 + 1 + ((uint64_t)salt << 56)) & mk;
        b = mix64(i * 8 + 2 + ((uint64_t)salt << 56)) & mk;
        a = (hs % 4 == 0) ? 0 : (hs % 4 == 1) ? mk : (mix64(i * 8 + 3 + ((uint64_t)salt << 56)) & mk);
      }
      uint64_t sel = hs >> 8;
      if (salt == 0 && sel % 7 == 1) { r = KEY[0]; g = KEY[1]; b = KEY[2]; }  // dest pixels in the key colour (mask_blit_dst, set_alpha_from_mask_color)
      if (salt == 1 && sel % 5 == 2) { r = KEY[0]; g = KEY[1]; b = KEY[2]; }  // source pixels in the key colour (mask_blit)
      if (salt == 2) {                                                        // mask: white = keep the destination
        if (sel % 2 == 0) r = g = b = 0xFF;
        else if (sel % 4 == 1) { r = 0xFF; g = 0xFF; b = 0xFE; }
      }
      m.write(x, y, r, g, b, a);
    }
  return m;
}

struct Canvas {
  int w, h;
  bool alpha;
  int cw;
  string why;
  size_t bpp() const { return (size_t)(3 + alpha) * (cw / 8); }
  size_t row() const { return (size_t)w * bpp(); }
  size_t total() const { return row() * h; }
};

string canvas_str(const Canvas& c) {
  return vf::fmt("%dx%d %s %d-bit canvas (%zu bytes per row, %zu bytes in all; %s)", c.w, c.h, c.alpha ? "rgba" : "rgb", c.cw, c.row(), c.total(), c.why.c_str());
}

// the canvases, smallest first (so the first reported failure is the smallest one)
vector<Canvas> big_canvases(bool thorough) {
  vector<std::pair<bool, int>> formats = {{false, 8}, {true, 8}, {false, 16}, {true, 32}, {true, 64}};
  if (thorough) formats = {{false, 8}, {true, 8}, {false, 16}, {true, 16}, {false, 32}, {true, 32}, {false, 64}, {true, 64}};
  vector<size_t> row_bounds = {256, 4096, 8192, 65536};
  if (thorough) row_bounds = {256, 1024, 4096, 8192, 16384, 32768, 65536};
  vector<Canvas> v;
  for (auto [alpha, cw] : formats) {
    std::set<std::pair<int, int>> seen;
    size_t bpp = (size_t)(3 + alpha) * (cw / 8);
    auto add = [&, alpha = alpha, cw = cw](size_t w, size_t h, const string& why) {
      if (w < 1 || h < 1) return;
      if (!seen.insert({(int)w, (int)h}).second) return;
      v.push_back({(int)w, (int)h, alpha, cw, why});
    };
    // (A) row length straddling b and 2b: the widths whose row is the last one <= t and the first one >= t for every target t
    for (size_t b : row_bounds)
      for (size_t t : {b - 1, b, b + 1, b + 3, 2 * b - 1, 2 * b + 1})
        for (size_t w : {t / bpp, (t + bpp - 1) / bpp})
          for (size_t h : {1, 2, 3, 5}) add(w, h, vf::fmt("row length next to %zu", t));
    // (B) total size straddling 64 KiB and 1 MiB (rows of moderate length)
    for (size_t T : {(size_t)65536, (size_t)1 << 20})
      for (size_t h : thorough ? vector<size_t>{7, 64} : vector<size_t>{7}) {
        size_t w0 = T / (bpp * h);
        if (w0 * bpp * h == T) add(w0 - 1, h, vf::fmt("total size just below %zu", T));
        add(w0, h, vf::fmt("total size at or just below %zu", T));
        add(w0 + 1, h, vf::fmt("total size just above %zu", T));
      }
    // (C) row count straddling 256 and 4096 (narrow canvases)
    for (size_t w : {1, 3})
      for (size_t h : {255, 256, 257, 4095, 4097}) add(w, h, vf::fmt("%zu rows", h));
  }
  std::stable_sort(v.begin(), v.end(), [](const Canvas& a, const Canvas& b) { return a.total() < b.total(); });
  return v;
}

// ---- operations that exist only here -----------------------------------------------------------

// direct pixel access at the four corners and just outside each edge (reads first, then writes)
GOp op_corners() {
  GOp op;
  op.key = "corner-pixels";
  op.name = "read_pixel (4-pointer and packed) and write_pixel at the four corners, out_of_range just outside every edge";
  auto bad = std::make_shared<string>();
  auto got = std::make_shared<vector<std::array<uint64_t, 5>>>();
  op.real = [=](Image& img) {
    bad->clear();
    got->clear();
    ll W = img.get_width(), H = img.get_height();
    const ll cx[4] = {0, W - 1, 0, W - 1}, cy[4] = {0, 0, H - 1, H - 1};
    for (int k = 0; k < 4; k++) {
      std::array<uint64_t, 5> g = {0xDEAD, 0xDEAD, 0xDEAD, 0xDEAD, 0xDEAD};
      img.read_pixel(cx[k], cy[k], &g[0], &g[1], &g[2], &g[3]);
      g[4] = img.read_pixel(cx[k], cy[k]);
      got->push_back(g);
    }
    const ll ox[8] = {W, -1, 0, W - 1, W, -1, W - 1, 0}, oy[8] = {0, 0, H, H, H - 1, H - 1, -1, -1};
    for (int k = 0; k < 8; k++) {
      uint64_t a, b, c;
      string o1 = vf::outcome([&] { img.read_pixel(ox[k], oy[k], &a, &b, &c); });
      string o2 = vf::outcome([&] { img.write_pixel(ox[k], oy[k], 1, 2, 3, 4); });
      if ((o1 != "out_of_range" || o2 != "out_of_range") && bad->empty())
        *bad = vf::fmt("access at (%lld,%lld), outside the canvas: read_pixel -> %s, write_pixel -> %s (out_of_range required)", ox[k], oy[k], o1.c_str(), o2.c_str());
    }
    for (int k = 0; k < 4; k++) img.write_pixel(cx[k], cy[k], 0xA1 + k, 0xB2 + k, 0xC3 + k, 0xD4 + k);
  };
  op.model = [=](const Model& before, Model& after, StepOut& so) {
    if (!bad->empty()) { so.extra = *bad; return; }
    ll W = before.w, H = before.h;
    const ll cx[4] = {0, W - 1, 0, W - 1}, cy[4] = {0, 0, H - 1, H - 1};
    for (int k = 0; k < 4 && k < (int)got->size(); k++) {
      Px q = before.read(cx[k], cy[k]);
      const auto& g = (*got)[k];
      if (!(g[0] == q.c[0] && g[1] == q.c[1] && g[2] == q.c[2] && g[3] == q.c[3]))
        so.extra = vf::fmt("read_pixel(%lld,%lld) returned %llx.%llx.%llx.%llx, the canvas holds %llx.%llx.%llx.%llx", cx[k], cy[k], (unsigned long long)g[0], (unsigned long long)g[1], (unsigned long long)g[2],
            (unsigned long long)g[3], (unsigned long long)q.c[0], (unsigned long long)q.c[1], (unsigned long long)q.c[2], (unsigned long long)q.c[3]);
      else if (before.cw == 8 && g[4] != pack(q))
        so.extra = vf::fmt("read_pixel(%lld,%lld) returned %08llX, the pixel packs to %08X", cx[k], cy[k], (unsigned long long)g[4], pack(q));
    }
    for (int k = 0; k < 4; k++) after.write(cx[k], cy[k], 0xA1 + k, 0xB2 + k, 0xC3 + k, 0xD4 + k);
  };
  return op;
}

// copies of a large image into fresh, smaller and same-shape objects: equal to the original, and deep
GOp op_big_copies() {
  GOp op;
  op.key = "copies";
  op.name = "copy-construct, copy-assign into a smaller and into a same-shape image, move-construct, move-assign; then draw on the copies";
  auto bad = std::make_shared<string>();
  op.real = [=](Image& img) {
    bad->clear();
    size_t n = img.get_data_size();
    vector<uint8_t> before((const uint8_t*)img.get_data(), (const uint8_t*)img.get_data() + n);
    auto eq = [&](const Image& c, const char* what) {
      if (!bad->empty()) return;
      if (c.get_width() != img.get_width() || c.get_height() != img.get_height() || c.get_has_alpha() != img.get_has_alpha() || c.get_channel_width() != img.get_channel_width() || c.get_data_size() != n)
        *bad = string(what) + " gives an image of another shape";
      else if (c.get_data() == img.get_data()) *bad = string(what) + " shares the pixel buffer";
      else if (n && memcmp(c.get_data(), before.data(), n) != 0) {
        size_t i = 0;
        while (((const uint8_t*)c.get_data())[i] == before[i]) i++;
        *bad = string(what) + vf::fmt(" gives other pixels (first differing byte at offset %zu of %zu)", i, n);
      }
    };
    Image c1(img);
    eq(c1, "copy construction");
    Image c2(2, 1, true, 16);
    c2 = img;
    eq(c2, "copy assignment into a smaller image");
    Image c3(img.get_width(), img.get_height(), img.get_has_alpha(), img.get_channel_width());
    c3 = img;
    eq(c3, "copy assignment into an image of the same shape");
    Image c4(std::move(c1));
    eq(c4, "move construction");
    Image c5;
    c5 = std::move(c2);
    eq(c5, "move assignment");
    c3.invert();
    c4.reverse_vertical();
    c5.clear(1, 2, 3, 4);
    if (bad->empty() && n && memcmp(img.get_data(), before.data(), n) != 0) *bad = "drawing on the copies changed the original (copies are not deep)";
  };
  op.model = [=](const Model&, Model&, StepOut& so) { so.extra = *bad; };
  return op;
}

typedef std::function<GOp()> OpMaker;

// per-canvas cache of the blit sources (built on first use; they are as large as the canvas)
struct SrcCache {
  std::shared_ptr<BlitSrc> a, b;
};

// the operation list of one canvas (the same number of operations for every canvas); operations are built lazily because the
// blit ones own source and mask images as large as the canvas
vector<OpMaker> big_ops(const Canvas& c, std::shared_ptr<SrcCache> cache, bool thorough) {
  vector<OpMaker> v;
  ll W = c.w, H = c.h;
  bool alpha = c.alpha;
  int cw = c.cw;
  // whole-image operations: mirror, invert, alpha channel both ways, every channel width, clear (3 forms), alpha from mask colour (2 forms)
  for (int k : {0, 1, 2}) v.push_back([=] { return op_whole(k); });
  for (int a : {0, 1}) v.push_back([=] { return op_whole(3, a); });
  for (int nw : {8, 16, 32, 64}) v.push_back([=] { return op_whole(4, nw); });
  for (int k : {5, 6, 7, 8, 9}) v.push_back([=] { return op_whole(k); });
  // assignment into the large object and copies out of it
  v.push_back([=] { return op_assign(0, bigpat(W, H, alpha, cw, 1)); });                  // same shape: the buffer may be reused
  v.push_back([=] { return op_assign(0, bigpat(W + 1, H, !alpha, cw == 8 ? 16 : 8, 1)); });  // another shape
  v.push_back([=] { return op_assign(1, bigpat(W, H, alpha, cw, 1)); });
  v.push_back([=] { return op_assign(2, bigpat(2, 1, true, 16, 1)); });
  v.push_back([=] { return op_assign(3, Model()); });
  v.push_back([=] { return op_assign(4, Model()); });
  v.push_back([=] { return op_big_copies(); });
  // fill_rect: whole canvas opaque / translucent, clipped on each side, interior columns, far outside
  v.push_back([=] { return op_fill(0, 0, W, H, 0x21, 0x32, 0x43, 0xFF, 0); });
  v.push_back([=] { return op_fill(0, 0, W, H, 0xF0, 0x40, 0x08, 0x80, 0); });
  v.push_back([=] { return op_fill(-2, -1, W, H, 0x21, 0x32, 0x43, 0xFF, 2); });
  v.push_back([=] { return op_fill(1, 1, W + 5, H + 5, 0xF0, 0x40, 0x08, 0x7F, 2); });
  v.push_back([=] { return op_fill(3, 0, std::max<ll>(W - 5, 0), H, 0x31, 0x32, 0x33, 0xFF, 1); });
  v.push_back([=] { return op_fill(-1000000, -1000000, 2000000 + W, 2000000 + H, 0x21, 0x32, 0x43, 0xFF, 0); });
  // blits: a source of the same dims copied row for row; a larger source (other row stride) at an offset, clipped on the left/top;
  // interior columns.  Source has an alpha channel; the larger one has the destination's alpha mode.
  auto srcA = [=] {
    if (!cache->a) cache->a = std::make_shared<BlitSrc>(bigpat(W, H, true, cw, 1), bigpat(W, H, false, cw, 2));
    return cache->a;
  };
  auto srcB = [=] {
    if (!cache->b) cache->b = std::make_shared<BlitSrc>(bigpat(W + 3, H + 2, alpha, cw, 1), bigpat(W + 3, H + 2, false, cw, 2));
    return cache->b;
  };
  // quick: the eight basic variants row for row, four of them also from the larger source; thorough: ten variants, both calls
  vector<int> full = {V_BLIT, V_MASK_KEY, V_MASK_DST, V_MASK_IMG, V_BLEND, V_BLEND_ALPHA, V_CUSTOM32, V_CUSTOM64}, offset = {V_BLIT, V_MASK_IMG, V_BLEND, V_CUSTOM64}, interior = {V_BLIT};
  if (thorough) {
    full.insert(full.end(), {V_BLEND_ALPHA_FF, V_MASK_KEY32});
    offset = full;
    interior = {V_BLIT, V_MASK_KEY};
  }
  for (int vv : full) v.push_back([=] { return op_blit(vv, srcA(), Call{0, 0, -1, -1, 0, 0}, true); });
  for (int vv : offset) v.push_back([=] { return op_blit(vv, srcB(), Call{-2, -1, -1, -1, 1, 0}, true); });
  for (int vv : interior) v.push_back([=] { return op_blit(vv, srcA(), Call{3, 0, std::max<ll>(W - 7, 0), -1, 2, 0}, true); });
  // lines: full span on the first / last row and column, dashed, through draw_line, corner to corner, overshooting
  v.push_back([=] { return op_line(1, 0, W - 1, H - 1, 0, 0xE1, 0xE2, 0xE3, 0xFF, 0); });
  v.push_back([=] { return op_line(1, 0, W - 1, 0, 3, 0xE1, 0xE2, 0xE3, 0xC0, 2); });
  v.push_back([=] { return op_line(2, W - 1, 0, H - 1, 0, 0xD1, 0xD2, 0xD3, 0xC0, 0); });
  v.push_back([=] { return op_line(2, 0, 0, H - 1, 2, 0xD1, 0xD2, 0xD3, 0xFF, 1); });
  v.push_back([=] { return op_line(0, 0, H - 1, W - 1, H - 1, 0xD1, 0xD2, 0xD3, 0xC0, 2); });
  v.push_back([=] { return op_line(0, 0, 0, W - 1, H - 1, 0xD1, 0xD2, 0xD3, 0xC0, 0); });
  v.push_back([=] { return op_line(1, -5, W + 5, H / 2, 0, 0xE1, 0xE2, 0xE3, 0xC0, 0); });
  v.push_back([=] { return op_corners(); });
  // text at the right/bottom edge, at the left/top edge, without background
  {
    TextArgs t;
    t.r = 1; t.g = 2; t.b = 3; t.a = 0xFF; t.br = 0xA0; t.bg = 0xB0; t.bb = 0xC0; t.ba = 0xFF;
    t.x = W - 8; t.y = H - 4; t.s = "Aj";
    v.push_back([=] { return op_text(0, t); });
    t.x = -2; t.y = -3; t.s = "j\nA"; t.a = 0x40; t.ba = 0x80;
    v.push_back([=] { return op_text(3, t); });
    t.x = W - 3; t.y = 0; t.s = "B"; t.a = 0xFF;
    v.push_back([=] { return op_text(4, t); });
  }
  return v;
}

// a string of n bytes: printable characters, a line break every 41 bytes counted from the END (the last line holds exactly three
// characters, so the final bytes of the string are drawn at the left edge: a text cut short by even one byte looks different),
// some bytes outside the glyph range
string long_text(size_t n) {
  string s(n, ' ');
  for (size_t i = 0; i < n; i++) {
    if ((n - 1 - i) % 41 == 3) s[i] = '\n';
    else if (i % 97 == 13) s[i] = (char)0x80;
    else if (i % 89 == 5) s[i] = '\r';
    else s[i] = (char)(0x21 + (i * 7 + i / 41) % 0x5E);  // never a space: every character paints glyph pixels
  }
  return s;
}

}  // namespace

VF_SECTION(big, 16, 16, 600) {
  probe_invert_convention();
  auto canvases = big_canvases(r.thorough());
  size_t nops = 0;
  uint64_t pixel_ops = 0, max_row = 0, max_total = 0;
  // one case = one canvas (pattern, sources and mask are built once per canvas); every operation runs on a fresh image holding the
  // pattern and counts as one evaluation; the slot note names the operation, so a crash is attributed to (canvas, operation)
  uint64_t ncanvas = 0;
  for (const Canvas& c : canvases) {
    max_row = std::max<uint64_t>(max_row, c.row());
    max_total = std::max<uint64_t>(max_total, c.total());
  }
  if (!canvases.empty()) nops = big_ops(canvases[0], std::make_shared<SrcCache>(), r.thorough()).size();
  for (const Canvas& c : canvases) {
    if (!r.take()) continue;
    ncanvas++;
    auto cache = std::make_shared<SrcCache>();
    auto ops = big_ops(c, cache, r.thorough());
    if (r.wants_desc()) r.desc(canvas_str(c) + vf::fmt(": %zu operations, each on a fresh image holding the coordinate-coded pattern", ops.size()));
    const Model m0 = bigpat(c.w, c.h, c.alpha, c.cw, 0);
    const vector<uint8_t> raw0 = m0.raw();
    r.evals += ops.size() - 1;
    for (size_t k = 0; k < ops.size(); k++) {
      GOp op = ops[k]();
      r.note(op.key);
      auto what = [&] { return canvas_str(c) + ": " + op.name; };
      r.nontriv();
      Model m = m0;
      Image img(c.w, c.h, c.alpha, c.cw);
      if (img.get_data_size() != raw0.size()) throw std::logic_error("harness: unexpected Image::get_data_size()");
      memcpy(img.get_data(), raw0.data(), raw0.size());
      string detail;
      r.poison_errno();
      string fk = run_step(op, img, m, detail);
      pixel_ops += (uint64_t)c.w * c.h;
      if (!fk.empty()) r.fail(op.key + ":" + fk, [&] { return what() + " -> " + detail; });
      else r.ok(c.row() > 4096 ? "row longer than 4096 bytes: = model" : "row of at most 4096 bytes: = model");
    }
  }
  // draw_text with long strings (the formatted text passes through a buffer inside the library): start of the text on the canvas,
  // and end of the text on the canvas (the string begins far above it)
  r.note("draw_text(long string)");
  // (every glyph pixel outside the canvas costs the library one thrown-and-swallowed out_of_range: 64 KiB strings only in thorough)
  vector<size_t> lens = {255, 256, 257, 1023, 1024, 1025, 4095, 4096, 4097};
  if (r.thorough()) lens.insert(lens.end(), {65535, 65536, 65537});
  for (size_t n : lens)
    for (int at_end = 0; at_end < 2; at_end++)
      for (int form : {0, 3, 4}) {
        {
          int cv = at_end;
          if (!r.take()) continue;
          TextArgs t;
          t.s = long_text(n);
          ll lines = 1 + (ll)std::count(t.s.begin(), t.s.end(), '\n');
          t.r = 1; t.g = 2; t.b = 3; t.a = 0xFF; t.br = 0xA0; t.bg = 0xB0; t.bb = 0xC0; t.ba = cv ? 0x80 : 0xFF;
          t.x = at_end ? -3 : 1;
          t.y = at_end ? 3 - 8 * (lines - 1) : 1;
          Model m = cv ? bigpat(40, 12, false, 8, 0) : bigpat(13, 17, true, 8, 0);
          GOp op = op_text(form, t);
          auto what = [&] {
            return vf::fmt("%s image: %s at (%lld,%lld) with a string of %zu bytes in %lld lines (%s of the text on the canvas)", shape_str(m).c_str(), text_form_name[form], t.x, t.y, n, lines, at_end ? "end" : "start");
          };
          if (r.wants_desc()) r.desc(what());
          r.nontriv();
          Image img = make_image(m);
          string detail;
          string fk = run_step(op, img, m, detail);
          if (!fk.empty()) r.fail("long-text:" + op.key + ":" + fk, [&] { return what() + " -> " + detail; });
          else r.ok("long string: = model");
        }
      }
  r.counters["canvases"] = ncanvas;
  r.counters["pixels_compared"] = pixel_ops;
  r.bound = vf::fmt("%zu canvases x %zu operations: row byte length next to t for t in {b-1,b,b+1,b+3,2b-1,2b+1}, b in %s (the widths whose row is the last <= t and the first >= t) x heights {1,2,3,5}; "
                    "total size straddling 64 KiB and 1 MiB (height %s); widths {1,3} x heights {255,256,257,4095,4097}; formats %s.  Operations: reverse_horizontal/vertical, invert, set_has_alpha both "
                    "ways, set_channel_width to each width, clear x3, set_alpha_from_mask_color x2, copy/move assignment (same shape, other shape, swap, round trips), copies out of the canvas, fill_rect x6 "
                    "(whole, clipped, interior, far outside; opaque and translucent), 10 blit variants x (same-size source row for row, larger source at an offset clipped left/top) + interior columns, "
                    "7 lines (full-span axis lines plain and dashed, draw_line along a row and corner to corner, overshooting), corner pixel access inside and just outside, draw_text at three edges; "
                    "draw_text of strings of {255,256,257,1023,1024,1025,4095,4096,4097%s} bytes x (start of the text on a 13x17 canvas, end of the text on a 40x12 canvas) x 3 forms; "
                    "longest row %llu bytes, largest canvas %llu bytes",
      canvases.size(), nops, r.thorough() ? "{256,1024,4096,8192,16384,32768,65536}" : "{256,4096,8192,65536}", r.thorough() ? "7 and 64" : "7",
      r.thorough() ? "rgb/rgba x 8/16/32/64-bit" : "rgb 8-bit, rgba 8-bit, rgb 16-bit, rgba 32-bit, rgba 64-bit", r.thorough() ? ",65535,65536,65537" : "", (unsigned long long)max_row, (unsigned long long)max_total);
}
