// C03 (part): the 8-bit wrappers (little_endian / big_endian / reverse_endian of uint8_t and int8_t), value-complete.
// The library has no aliases for them, but the templates are instantiable (bswap<uint8_t> / bswap<int8_t> are
// specialised for this) and they are the other family - besides the 16-bit one - whose arithmetic the native
// operators carry out in the PROMOTED type int: shift counts 8..31 are defined, INT_MIN / -1 and signed
// overflow cannot happen at the wrapped width, ++ / -- wrap.  See C03.cc / C03_common.hh / C03_optypes.hh.
#define C03_NO_FORCE_INLINE
#include "C03_optypes.hh"

namespace {
template <class T>
std::vector<T> all_8bit() {
  std::vector<T> v;
  for (unsigned x = 0; x < 0x100; x++) v.push_back(from_bits<T>(x));
  return v;
}
}  // namespace

// ALL 256 stored values x every operator x every boundary int operand x EVERY defined shift count.
VF_SECTION(w8, 8, 8, 120) {
  std::vector<int> operands = {0, 1, 2, 3, 7, 15, 0x7F, 0x80, 0xFF, 0x100, 0x7FFF, 0x8000, 0xFFFF, -1, -0x80, -0x8000};
  add_pow2_ints(operands);  // every int 2^k-1, 2^k, 2^k+1 and its negative, k = 0..32
  std::vector<int> shifts = all_shift_counts_of<uint8_t>();  // 0..31: the left operand is promoted to int
#define X(W, T, O)                                                  \
  {                                                                 \
    auto vals = all_8bit<T>();                                      \
    drive_int<W, T, int>(r, #W, O, vals, vals, operands, shifts);   \
  }
  C03_W8(X)
#undef X
  r.bound = vf::fmt("6 wrapper types (little_endian/big_endian/reverse_endian x uint8_t/int8_t) x all 256 stored values x {ctor,=,store} + 8 compound operators x %zu int operands (every 2^k-1, 2^k, 2^k+1 and negative, k = 0..32, plus lane values) + 2 shifts x all 32 counts 0..31 (every count defined for the promoted operand) + 4 inc/dec",
      operands.size());
}

// Operand-type matrix and boundary pairs on ALL 256 stored values.
VF_SECTION(w8ops, 16, 16, 120) {
#define X(W, T, O)                                                  \
  {                                                                 \
    auto vals = all_8bit<T>();                                      \
    drive_optypes<W, T>(r, #W, O, vals);                            \
    drive_optypes<W, T>(r, #W, O, vals, true);                      \
  }
  C03_W8(X)
#undef X
  r.bound = "6 8-bit wrapper types x all 256 stored values x every compound operator x operand types {int, unsigned, int64_t, uint64_t, uint8_t, uint16_t, int8_t, int16_t} (and float, double for + - * /) x (12-13 boundary operand values per type, then every +-(2^k-1), +-2^k, +-(2^k+1), k = 0..width of the operand type); <<=/>>= with EVERY count 0..31 (width of the promoted wrapped type) as each integer operand type";
}

