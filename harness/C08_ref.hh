// C08_ref.hh — rendering helpers, argument alphabets and the plain reference definitions shared by
// C08.cc (exhaustive single-call sweeps) and C08_more.cc (call histories, calling contexts, multi-step
// scenarios, wide printf).  Reference definitions are deliberately written in a different style from
// the library (character accumulation instead of find(); recursive descent instead of an explicit
// stack; erase loops instead of find_first_not_of) so that a shared mistake is unlikely.
#pragma once

#include <stdarg.h>
#include <stdint.h>
#include <string.h>
#include <wchar.h>

#include <string>
#include <vector>

#include "Strings.hh"
#include "vf.hh"

namespace {

using std::string;
using std::vector;
using std::wstring;

// ---------- rendering ---------------------------------------------------------------------------

template <class Str>
[[maybe_unused]] string show_any(const Str& w) {
  using Ch = typename Str::value_type;
  if constexpr (sizeof(Ch) == 1) {
    return vf::show(string(w.begin(), w.end()));
  } else {
    string s = "L\"";
    for (Ch c : w) {
      long long v = (long long)c;
      if (v >= 0x20 && v < 0x7F && v != '"' && v != '\\') s.push_back((char)v);
      else s += vf::fmt("\\x{%llX}", (unsigned long long)(typename std::make_unsigned<Ch>::type)c);
    }
    return s + "\"";
  }
}
[[maybe_unused]] string showw(const wstring& w) { return show_any(w); }
template <class Str>
[[maybe_unused]] string showv(const vector<Str>& v) {
  string o = "[";
  for (size_t i = 0; i < v.size(); i++) {
    if (i >= 12 && v.size() > 16) {
      o += vf::fmt(", ... (%zu pieces)", v.size());
      break;
    }
    string one = show_any(v[i]);
    if (one.size() > 80) one = one.substr(0, 60) + vf::fmt("...(%zu chars)", v[i].size());
    o += (i ? ", " : "") + one;
  }
  return o + "]";
}
[[maybe_unused]] string show1(const string& s) { return vf::show(s); }
[[maybe_unused]] string show1(const wstring& s) { return showw(s); }
[[maybe_unused]] string showc(long long c) {
  if (c >= 0x20 && c < 0x7F) return vf::fmt("'%c'", (char)c);
  return vf::fmt("'\\x{%llX}'", (unsigned long long)c);
}
[[maybe_unused]] string shorten(const string& s) {  // for descriptions of long arguments
  if (s.size() <= 60) return vf::show(s);
  return vf::show(s.substr(0, 40)) + vf::fmt("...(%zu bytes)", s.size());
}

[[maybe_unused]] wstring widen(const string& s) {
  wstring w;
  for (unsigned char c : s) w.push_back((wchar_t)c);
  return w;
}

// all sequences over an arbitrary character alphabet with length 0..maxlen, shortest first
template <class Ch, class F>
void all_seqs(const vector<Ch>& alphabet, size_t maxlen, F&& f) {
  using Str = std::basic_string<Ch>;
  for (size_t len = 0; len <= maxlen; len++) {
    if (len && alphabet.empty()) break;
    vector<size_t> ix(len, 0);
    Str s(len, alphabet.empty() ? Ch() : alphabet[0]);
    for (;;) {
      f(s);
      size_t i = 0;
      for (; i < len; i++) {
        if (++ix[i] < alphabet.size()) {
          s[i] = alphabet[ix[i]];
          break;
        }
        ix[i] = 0;
        s[i] = alphabet[0];
      }
      if (i == len) break;
    }
  }
}
template <class Ch>
vector<Ch> chars_of(const string& narrow) {
  vector<Ch> v;
  for (unsigned char c : narrow) v.push_back((Ch)c);
  return v;
}

// ---------- limit / count / offset alphabets -------------------------------------------------------

// every max_splits parameter: the small values plus the 32/64-bit boundaries
const size_t MAX_SPLITS[] = {0, 1, 2, 3, 9, 0x7FFFFFFFull, 0x80000000ull, 0xFFFFFFFFull, 0x100000000ull,
    0x7FFFFFFFFFFFFFFFull, 0x8000000000000000ull, SIZE_MAX - 1, SIZE_MAX};
const size_t N_MAX_SPLITS = sizeof(MAX_SPLITS) / sizeof(MAX_SPLITS[0]);

// 2^k-1, 2^k, 2^k+1 for every k < 64 (deduplicated, ascending) plus SIZE_MAX-1, SIZE_MAX
[[maybe_unused]] vector<size_t> pow2_neighbours() {
  vector<size_t> v;
  auto add = [&](size_t x) {
    for (size_t y : v) if (y == x) return;
    v.push_back(x);
  };
  for (int k = 0; k < 64; k++) {
    size_t p = (size_t)1 << k;
    add(p - 1);
    add(p);
    add(p + 1);
  }
  add(SIZE_MAX - 1);
  add(SIZE_MAX);
  return v;
}

// number of pieces for nd top-level delimiters under max_splits m (no arithmetic that can wrap)
[[maybe_unused]] size_t want_pieces(size_t nd, size_t m) { return (m == 0 || nd <= m) ? nd + 1 : m + 1; }
// true iff max_splits stopped splitting (delimiters remained uncut)
[[maybe_unused]] bool is_capped(size_t nd, size_t m) { return m != 0 && nd > m; }

// ---------- textbook definitions ------------------------------------------------------------------

// items with the delimiter *between* consecutive items
template <class Str, class Cont>
Str ref_join(const Cont& items, const Str& delim) {
  Str out;
  size_t n = 0;
  for (const auto& it : items) {
    if (n++ > 0) out.append(delim);
    out.append(it);
  }
  return out;
}

// cut at the first m occurrences of d (at all of them when m == 0); accumulates character by character
template <class Str>
vector<Str> ref_split(const Str& s, typename Str::value_type d, size_t m) {
  vector<Str> out;
  Str cur;
  size_t cuts = 0;
  for (auto c : s) {
    if (c == d && (m == 0 || cuts < m)) {
      out.push_back(cur);
      cur.clear();
      cuts++;
    } else {
      cur.push_back(c);
    }
  }
  out.push_back(cur);
  return out;
}

template <class Str>
size_t count_char(const Str& s, typename Str::value_type d) {
  size_t n = 0;
  for (auto c : s) n += (c == d);
  return n;
}

// ---------- split_context ---------------------------------------------------------------------------

// Independent bracket / quote scanner (recursive descent).  Reading used:
//   * ( [ { < open a group closed by the matching ) ] } > ; groups nest;
//   * ' and " open a quoted string closed by the same quote; inside it a backslash escapes the next
//     character and brackets / the other quote are ordinary characters;
//   * a delimiter is top-level iff it is outside every group and every quoted string.
// Inputs on which reasonable readings differ are flagged `ambiguous` and only the model-free laws are
// checked on them: a closing bracket that does not close the innermost open group (stray closer), a
// backslash outside a quoted string, and a delimiter that is itself a bracket, quote or backslash.
struct Scan {
  const string& s;
  char delim;
  bool ambiguous = false;
  bool balanced = true;
  vector<size_t> top;  // positions of top-level delimiters
  size_t pos = 0;

  static char closer_for(char c) {
    switch (c) {
      case '(': return ')';
      case '[': return ']';
      case '{': return '}';
      case '<': return '>';
    }
    return 0;
  }
  static bool is_closer(char c) { return c == ')' || c == ']' || c == '}' || c == '>'; }

  void quoted(char q) {  // pos is just after the opening quote
    while (pos < s.size()) {
      char c = s[pos];
      if (c == '\\') {
        pos += 2;  // escaped character (if the text ends here the string is unterminated)
        continue;
      }
      pos++;
      if (c == q) return;
    }
    balanced = false;
  }
  void group(char want_close) {  // want_close == 0: top level
    while (pos < s.size() && balanced) {
      char c = s[pos];
      if (want_close && c == want_close) {
        pos++;
        return;
      }
      if (c == '\'' || c == '"') {
        pos++;
        quoted(c);
      } else if (closer_for(c)) {
        pos++;
        group(closer_for(c));
      } else {
        if (is_closer(c) || c == '\\') ambiguous = true;
        if (!want_close && c == delim) top.push_back(pos);
        pos++;
      }
    }
    if (want_close) balanced = false;
  }
  Scan(const string& str, char d) : s(str), delim(d) {
    if (closer_for(d) || is_closer(d) || d == '\'' || d == '"' || d == '\\') ambiguous = true;
    group(0);
    if (pos > s.size()) balanced = false;  // escape ran past the end inside a quoted string
  }
};

[[maybe_unused]] vector<string> cut_at(const string& s, const vector<size_t>& at, size_t m) {
  vector<string> out;
  size_t start = 0, cuts = 0;
  for (size_t p : at) {
    if (m && cuts == m) break;
    out.push_back(s.substr(start, p - start));
    start = p + 1;
    cuts++;
  }
  out.push_back(s.substr(start));
  return out;
}

// ---------- split_args ----------------------------------------------------------------------------------

// Shell-style reference (StringsTest documents: blanks separate, both quote kinds group, a backslash
// escapes the next character inside and outside quotes; dangling backslash / unterminated quote throw).
// Variant A lets a quote start an argument (so "" yields an empty argument); the library's answer to
// that question is not settled by the property, so inputs where A contains an empty argument are a
// don't-care class.
struct ArgsRef {
  bool error = false;
  vector<string> args;
  bool has_empty = false;
};

[[maybe_unused]] ArgsRef ref_split_args(const string& s) {
  ArgsRef out;
  string cur;
  bool have = false;
  size_t i = 0, n = s.size();
  auto flush = [&] {
    if (have) {
      if (cur.empty()) out.has_empty = true;
      out.args.push_back(cur);
    }
    cur.clear();
    have = false;
  };
  while (i < n) {
    char c = s[i];
    if (c == ' ' || c == '\t') {
      flush();
      i++;
    } else if (c == '\\') {
      if (i + 1 >= n) { out.error = true; return out; }
      cur.push_back(s[i + 1]);
      have = true;
      i += 2;
    } else if (c == '"' || c == '\'') {
      have = true;
      i++;
      for (;;) {
        if (i >= n) { out.error = true; return out; }
        if (s[i] == c) { i++; break; }
        if (s[i] == '\\') {
          if (i + 1 >= n) { out.error = true; return out; }
          cur.push_back(s[i + 1]);
          i += 2;
        } else cur.push_back(s[i++]);
      }
    } else {
      cur.push_back(c);
      have = true;
      i++;
    }
  }
  flush();
  return out;
}

// ---------- strip_* -------------------------------------------------------------------------------------

template <class Ch>
bool is_ws_ch(Ch c) { return c == Ch(' ') || c == Ch('\t') || c == Ch('\r') || c == Ch('\n'); }

template <class Str>
Str ref_rstrip_ws(Str s) {
  while (!s.empty() && is_ws_ch(s.back())) s.pop_back();
  return s;
}
template <class Str>
Str ref_lstrip_ws(Str s) {
  size_t i = 0;
  while (i < s.size() && is_ws_ch(s[i])) i++;
  return Str(s.begin() + i, s.end());
}
template <class Str>
Str ref_rstrip_zero(Str s) {
  while (!s.empty() && s.back() == 0) s.pop_back();
  return s;
}

// comments: text between "/*" and the next "*/" (which may not overlap the opener) is removed, except
// that newlines inside a comment are kept; written with find() on the original string
template <class Str>
Str ref_strip_comments(const Str& s, bool* unterminated) {
  using Ch = typename Str::value_type;
  const Ch open[] = {Ch('/'), Ch('*'), 0}, close[] = {Ch('*'), Ch('/'), 0};
  Str out;
  size_t pos = 0;
  *unterminated = false;
  for (;;) {
    size_t a = s.find(open, pos);
    if (a == Str::npos) {
      out.append(s, pos, Str::npos);
      return out;
    }
    out.append(s, pos, a - pos);
    size_t b = s.find(close, a + 2);
    size_t end = (b == Str::npos) ? s.size() : b;
    for (size_t i = a + 2; i < end; i++) if (s[i] == Ch('\n')) out.push_back(Ch('\n'));
    if (b == Str::npos) {
      *unterminated = true;
      return out;
    }
    pos = b + 2;
  }
}

// An object that already held something else (class "non-initial object state"): the in-place helpers
// must depend on the string's value only, not on its capacity or on stale bytes beyond size().
//   0 fresh copy; 1 spare capacity reserved; 2 previously 48 blanks; 3 previously 48 NULs;
//   4 previously "/*" repeated (an unterminated comment); 5 moved-from object, then assigned
const int N_PRIOR = 6;
[[maybe_unused]] const char* prior_name(int p) {
  static const char* n[] = {"a fresh object", "an object with reserve(64)", "an object that held 48 blanks", "an object that held 48 NULs",
      "an object that held \"/*\" x24", "a moved-from object"};
  return n[p];
}
template <class Str>
void make_prior(Str& obj, const Str& value, int prior) {
  using Ch = typename Str::value_type;
  switch (prior) {
    case 0: break;
    case 1: obj.reserve(64); break;
    case 2: obj.assign(48, Ch(' ')); break;
    case 3: obj.assign(48, Ch(0)); break;
    case 4:
      for (int i = 0; i < 24; i++) {
        obj.push_back(Ch('/'));
        obj.push_back(Ch('*'));
      }
      break;
    case 5: {
      obj.assign(40, Ch('\t'));
      Str sink(std::move(obj));
      (void)sink;
      break;
    }
  }
  obj.assign(value.data(), value.size());
}

// ---------- affix / case / replace / skip ------------------------------------------------------------------

[[maybe_unused]] bool ref_starts(const string& s, const string& p) {
  if (p.size() > s.size()) return false;
  for (size_t i = 0; i < p.size(); i++) if (s[i] != p[i]) return false;
  return true;
}
[[maybe_unused]] bool ref_ends(const string& s, const string& p) {
  if (p.size() > s.size()) return false;
  for (size_t i = 0; i < p.size(); i++) if (s[s.size() - p.size() + i] != p[i]) return false;
  return true;
}
[[maybe_unused]] string ref_upper(const string& s) {
  string o;
  for (unsigned char c : s) o.push_back((char)((c >= 'a' && c <= 'z') ? c - 32 : c));
  return o;
}
[[maybe_unused]] string ref_lower(const string& s) {
  string o;
  for (unsigned char c : s) o.push_back((char)((c >= 'A' && c <= 'Z') ? c + 32 : c));
  return o;
}
// leftmost, non-overlapping, left to right; the replacement text is not rescanned
[[maybe_unused]] string ref_replace(const string& s, const string& t, const string& rep) {
  string out;
  size_t i = 0;
  while (i < s.size()) {
    if (i + t.size() <= s.size() && memcmp(s.data() + i, t.data(), t.size()) == 0) {
      out += rep;
      i += t.size();
    } else out.push_back(s[i++]);
  }
  return out;
}
// first index >= off whose character is (want_ws ? whitespace : not whitespace), or the end; an offset at
// or past the end has nothing to skip and comes back unchanged
[[maybe_unused]] size_t ref_first_from(const string& s, size_t off, bool want_ws) {
  if (off >= s.size()) return off;
  size_t i = off;
  for (; i < s.size(); i++) {
    if (is_ws_ch(s[i]) == want_ws) break;
  }
  return i;
}

// ---------- printf ---------------------------------------------------------------------------------------

[[maybe_unused]] string big_vsnprintf(size_t cap, const char* fmt, ...) __attribute__((format(printf, 2, 3)));
[[maybe_unused]] string big_vsnprintf(size_t cap, const char* fmt, ...) {
  string buf(cap + 16, '\0');
  va_list va;
  va_start(va, fmt);
  int n = vsnprintf(buf.data(), buf.size(), fmt, va);
  va_end(va);
  if (n < 0 || (size_t)n >= buf.size()) return "<vsnprintf failed>";
  buf.resize(n);
  return buf;
}

// string_vprintf reached directly (the va_list entry point), not through string_printf
[[maybe_unused]] string via_vprintf(const char* fmt, ...) __attribute__((format(printf, 1, 2)));
[[maybe_unused]] string via_vprintf(const char* fmt, ...) {
  va_list va;
  va_start(va, fmt);
  struct End {
    va_list& v;
    ~End() { va_end(v); }
  } end{va};
  return phosg::string_vprintf(fmt, va);
}

[[maybe_unused]] string pattern(size_t n) {
  string s(n, 'x');
  for (size_t i = 0; i < n; i++) s[i] = (char)('!' + (i * 7 + i / 251) % 90);
  return s;
}

}  // namespace
