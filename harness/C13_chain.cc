// C13 round 5 — degenerate chains and big bushy trees, complete life cycle, on the main thread and on small thread
// stacks (see C13_chain.hh).  Sections:
//   chain   the nine chain-producing insertion-order families x size ladder x 9 coordinate worlds x 3 stack kinds x endings
//   bushy   a balanced (median-first) insertion order of a grid: WIDE traversal queues instead of deep paths
#include <pthread.h>
#include <sys/mman.h>

#include <algorithm>

#include "C13_chain.hh"

using namespace c13chain;

namespace {

enum Family { F_INC, F_DEC, F_EQUAL, F_ZIGZAG, F_INC_TIED, F_DEC_TIED, F_TIED_INC, F_ANTI, F_PAIRS, F_BUSHY, F_COUNT };
const char* family_name[] = {
    "increasing on every axis", "decreasing on every axis", "all entries at one point", "zig-zag (outside in: lowest, highest, second lowest, ...)",
    "increasing on axis 0, tied on the others", "decreasing on axis 0, tied on the others", "tied on axis 0, increasing on the others",
    "increasing on axis 0, decreasing on the others", "increasing with every point inserted twice", "balanced median-first order of a grid"};
enum Ending { E_DESTROY_FULL, E_ERASE_HALF, E_ERASE_ALL, E_ADVANCE_ALL, E_ERASE_SOME, E_COUNT };
const char* ending_name[] = {"destroyed while full", "every second entry erased, then destroyed", "erased until empty (root / leaf / middle in turn), observed empty, refilled with 3 entries, destroyed",
    "emptied by erase_advance at every visit, observed empty, destroyed", "32 entries spread evenly over the insertion order erased, then destroyed"};
enum StackKind { ST_MAIN, ST_128K, ST_64K, ST_COUNT };
const char* stack_name[] = {"main thread", "thread with a 128 KiB stack", "thread with a 64 KiB stack"};
const size_t stack_bytes[] = {0, 128 * 1024, 64 * 1024};

const int N_WORLDS = 9;
TreeIf* make_world(int w) {
  switch (w) {
    case 0: return new TreeImpl<Vector2<int64_t>>("Vector2<int64_t>");
    case 1: return make_world_tu2(0);  // Vector3<int64_t>
    case 2: return make_world_tu3(0);  // P1<int64_t>
    case 3: return new TreeImpl<Vector2<double>>("Vector2<double>");
    case 4: return make_world_tu2(1);  // Vector2<float>
    case 5: return new TreeImpl<Vector2<int32_t>>("Vector2<int32_t>");
    case 6: return make_world_tu2(2);  // Vector2<uint64_t>
    case 7: return make_world_tu3(1);  // Vector4<int64_t>
    default: return make_world_tu3(2);  // Vector3<double>
  }
}
const char* world_name[] = {"Vector2<int64_t>", "Vector3<int64_t>", "P1<int64_t> (1-D)", "Vector2<double>", "Vector2<float>", "Vector2<int32_t>", "Vector2<uint64_t>", "Vector4<int64_t>", "Vector3<double>"};
const int world_dims[] = {2, 3, 1, 2, 2, 2, 2, 4, 3};

struct Spec {
  int world, family, stack, ending;
  size_t n;
  bool linked = false;  // the chain is linked node by node by the harness (white box) instead of n insert() calls: linear instead of quadratic
  std::string str() const {
    return vf::fmt("%s, insertion order: %s, %zu entries%s, %s, %s", world_name[world], family_name[family], n, linked ? " (the structure insert() produces, linked directly by the harness)" : "", stack_name[stack], ending_name[ending]);
  }
};

// shared with the parent (MAP_SHARED): what the child was doing when it died, and what it found
struct Shared {
  char phase[64];
  uint32_t nfail;
  struct { char key[96]; char desc[1400]; } f[6];
  uint64_t highwater, usable, depth, done, thread_failed;
  uint64_t lib_depth_ok;
};

// ---- c-space points of a family ----------------------------------------------------------------------------
// coordinates are in [2, n+1] (the tied value is 2, the single point of F_EQUAL is 9), so box corners in [0, n+4] stay
// representable in unsigned worlds
void bushy_order(std::vector<std::array<int64_t, 4>>& pts, size_t lo, size_t hi, int dim, int D, std::vector<std::array<int64_t, 4>>& out) {
  if (lo >= hi) return;
  std::sort(pts.begin() + (ptrdiff_t)lo, pts.begin() + (ptrdiff_t)hi, [dim](const std::array<int64_t, 4>& a, const std::array<int64_t, 4>& b) {
    if (a[(size_t)dim] != b[(size_t)dim]) return a[(size_t)dim] < b[(size_t)dim];
    return a < b;
  });
  size_t m = lo + (hi - lo) / 2;
  while (m > lo && pts[m - 1][(size_t)dim] == pts[m][(size_t)dim]) m--;  // KDTree sends equal coordinates to after_or_equal
  out.push_back(pts[m]);
  bushy_order(pts, lo, m, (dim + 1) % D, D, out);
  bushy_order(pts, m + 1, hi, (dim + 1) % D, D, out);
}

void gen_points(int family, size_t n, int D, std::vector<int64_t>& c) {
  c.assign(n * (size_t)D, 2);
  if (family == F_BUSHY) {
    size_t s = 1;
    auto pw = [&](size_t b) { size_t x = 1; for (int d = 0; d < D; d++) x *= b; return x; };
    while (pw(s) < n) s++;
    std::vector<std::array<int64_t, 4>> pts(n), out;
    for (size_t i = 0; i < n; i++) {
      size_t k = i;
      pts[i] = {2, 2, 2, 2};
      for (int d = 0; d < D; d++) { pts[i][(size_t)d] = (int64_t)(k % s) + 2; k /= s; }
    }
    out.reserve(n);
    bushy_order(pts, 0, n, 0, D, out);
    for (size_t i = 0; i < n; i++)
      for (int d = 0; d < D; d++) c[i * (size_t)D + (size_t)d] = out[i][(size_t)d];
    return;
  }
  for (size_t i = 0; i < n; i++) {
    int64_t up = (int64_t)i + 2, down = (int64_t)(n - 1 - i) + 2;
    for (int d = 0; d < D; d++) {
      int64_t v = 2;
      switch (family) {
        case F_INC: v = up; break;
        case F_DEC: v = down; break;
        case F_EQUAL: v = 9; break;
        case F_ZIGZAG: v = (i % 2 == 0) ? (int64_t)(i / 2) + 2 : (int64_t)(n - 1 - i / 2) + 2; break;
        case F_INC_TIED: v = d == 0 ? up : 2; break;
        case F_DEC_TIED: v = d == 0 ? down : 2; break;
        case F_TIED_INC: v = d == 0 ? 2 : up; break;
        case F_ANTI: v = d == 0 ? up : down; break;
        case F_PAIRS: v = (int64_t)(i / 2) + 2; break;
      }
      c[i * (size_t)D + (size_t)d] = v;
    }
  }
}

// ---- the life cycle (runs in the forked child, on the thread under test) ----------------------------------------
struct Life {
  TreeIf& T;
  Spec s;
  Shared* sh;
  int D;
  size_t n;
  std::vector<int64_t> c;      // entry i = (point c[i*D..], value i)
  std::vector<uint8_t> alive;  // the model: a plain list with an alive flag per entry
  size_t live = 0;
  std::vector<uint8_t> seen;
  std::vector<Ent> out;
  int64_t cmin[4], cmax[4];

  Life(TreeIf& t, const Spec& sp, Shared* shared) : T(t), s(sp), sh(shared), D(t.dims()), n(sp.n) {}

  void phase(const char* p) {
    strncpy(sh->phase, p, sizeof(sh->phase) - 1);
    sh->phase[sizeof(sh->phase) - 1] = 0;
  }
  void fail(const std::string& key, const std::string& desc) {
    for (uint32_t i = 0; i < sh->nfail; i++)
      if (key == sh->f[i].key) return;
    if (sh->nfail >= 6) return;
    auto& f = sh->f[sh->nfail];
    strncpy(f.key, key.c_str(), sizeof(f.key) - 1);
    strncpy(f.desc, desc.c_str(), sizeof(f.desc) - 1);
    sh->nfail = sh->nfail + 1;
  }
  const int64_t* pt(size_t i) const { return &c[i * (size_t)D]; }
  bool same(size_t i, const int64_t* p) const {
    for (int d = 0; d < D; d++)
      if (c[i * (size_t)D + (size_t)d] != p[d]) return false;
    return true;
  }
  bool in_box(size_t i, const int64_t* lo, const int64_t* hi) const {
    for (int d = 0; d < D; d++) {
      int64_t x = c[i * (size_t)D + (size_t)d];
      if (x < lo[d] || !(x < hi[d])) return false;
    }
    return true;
  }
  std::string show(const int64_t* p) const {
    std::string r = "c(";
    for (int d = 0; d < D; d++) r += (d ? "," : "") + std::to_string(p[d]);
    return r + ")";
  }
  std::string show_ent(const Ent& e) const { return show(e.c) + "=" + std::to_string(e.v) + (e.moved ? "(moved-from)" : ""); }

  // `got` must be exactly the alive entries for which want(i) holds, each once
  template <class W>
  void verify(const std::vector<Ent>& got, W&& want, const std::string& site, const char* missing_key, const char* extra_key, const std::string& what) {
    seen.assign(n, 0);
    size_t hits = 0;
    for (auto& e : got) {
      bool okv = e.v >= 0 && (uint64_t)e.v < n;
      size_t i = okv ? (size_t)e.v : 0;
      if (!okv || !alive[i] || e.moved || !same(i, e.c) || !want(i) || seen[i]) {
        fail(site + ":" + extra_key, what + " delivered " + show_ent(e) + (okv && seen[i] ? " a second time" : ", which a linear scan of the list does not contain there"));
        return;
      }
      seen[i] = 1;
      hits++;
    }
    size_t expect = 0, first_missing = n;
    for (size_t i = 0; i < n; i++)
      if (alive[i] && want(i)) {
        expect++;
        if (!seen[i] && first_missing == n) first_missing = i;
      }
    if (hits != expect)
      fail(site + ":" + missing_key, what + vf::fmt(" delivered %zu entries, a linear scan of the list finds %zu; first one missing: entry #%zu ", hits, expect, first_missing) + (first_missing < n ? show(pt(first_missing)) : std::string()));
  }

  void check_size(const char* after) {
    phase("size");
    size_t got = T.size();
    if (got != live) fail("size", vf::fmt("size() == %zu after %s, the list holds %zu entries", got, after, live));
  }
  void check_iteration(int style, const char* after) {
    phase("iterate");
    out.clear();
    std::string oc = outcome([&] { T.iterate(style, 2 * live + 4, out); });
    if (oc != "ok") { fail("iterate:throws", std::string("iteration after ") + after + " threw " + oc); return; }
    if (out.size() > live + 2) { fail("iterate:does-not-terminate", vf::fmt("iteration after %s: more than %zu visits for %zu entries", after, out.size(), live)); return; }
    verify(out, [](size_t) { return true; }, "iterate", "visits", "visits", vf::fmt("iteration (style %d) after %s", style, after));
  }
  void check_point(const int64_t* p) {
    phase("at/exists(pt)");
    bool present = false;
    for (size_t i = 0; i < n && !present; i++) present = alive[i] && same(i, p);
    bool ex = false;
    std::string oc = outcome([&] { ex = T.exists_pt(p); });
    if (oc != "ok") fail("exists(pt):throws", "exists(" + show(p) + ") threw " + oc);
    else if (ex != present) fail(present ? "exists(pt):false-for-present-point" : "exists(pt):true-for-absent-point", "exists(" + show(p) + vf::fmt(") == %d, a linear scan says %d", (int)ex, (int)present));
    Ent e{};
    oc = outcome([&] { T.at(p, e); });
    if (present) {
      if (oc != "ok") fail("at:throws-for-present-point", "at(" + show(p) + ") threw " + oc + " although the list holds that point");
      else if (!(e.v >= 0 && (uint64_t)e.v < n && alive[(size_t)e.v] && same((size_t)e.v, p) && !e.moved)) fail("at:wrong-value", "at(" + show(p) + ") returned " + show_ent(e) + ", not the value of an entry at that point");
    } else {
      if (oc == "ok") fail("at:returns-for-absent-point", "at(" + show(p) + ") returned " + show_ent(e) + " although no entry has that point");
      else if (oc != "out_of_range") fail("at:wrong-exception-class", "at(" + show(p) + ") threw " + oc + ", expected out_of_range");
    }
  }
  void check_box(const int64_t* lo, const int64_t* hi) {
    phase("within");
    out.clear();
    std::string oc = outcome([&] { T.within(lo, hi, out); });
    std::string box = "[" + show(lo) + "," + show(hi) + ")";
    if (oc != "ok") fail("within:throws", "within" + box + " threw " + oc);
    else verify(out, [&](size_t i) { return in_box(i, lo, hi); }, "within", "missing-entry", "extra-entry", "within" + box);
    phase("exists(box)");
    bool any = false;
    for (size_t i = 0; i < n && !any; i++) any = alive[i] && in_box(i, lo, hi);
    bool ex = false;
    oc = outcome([&] { ex = T.exists_box(lo, hi); });
    if (oc != "ok") fail("exists(box):throws", "exists" + box + " threw " + oc);
    else if (ex != any) fail(any ? "exists(box):false-for-occupied-box" : "exists(box):true-for-empty-box", "exists" + box + vf::fmt(" == %d, a linear scan says %d", (int)ex, (int)any));
  }
  // points at the ends and in the middle of the insertion order, absent points around them; for small trees every entry
  void check_points() {
    std::vector<size_t> idx;
    if (n <= 1000) for (size_t i = 0; i < n; i++) idx.push_back(i);
    else idx = {0, 1, n / 4, n / 2 - 1, n / 2, 3 * n / 4, n - 2, n - 1};
    for (size_t i : idx) check_point(pt(i));
    int64_t p[4];
    for (int d = 0; d < 4; d++) p[d] = cmin[d] - 1;  // below everything
    check_point(p);
    for (int d = 0; d < 4; d++) p[d] = cmax[d] + 1;  // above everything
    check_point(p);
    for (int d = 0; d < 4; d++) p[d] = d == 0 ? cmax[d] + 1 : cmin[d];  // shares the other coordinates with entries
    check_point(p);
    for (int d = 0; d < 4; d++) p[d] = d == 0 ? pt(n / 2)[0] : cmax[d] + 2;
    if (D > 1) check_point(p);
    for (int d = 0; d < 4; d++) p[d] = 0;
    check_point(p);
  }
  // boxes covering nothing / exactly the neighbourhood of one entry / everything / halves / one slab, an inverted one
  void check_boxes() {
    int64_t lo[4], hi[4];
    auto all = [&](int64_t a, int64_t b) { for (int d = 0; d < 4; d++) { lo[d] = a; hi[d] = b; } };
    for (int d = 0; d < 4; d++) { lo[d] = cmin[d]; hi[d] = cmax[d] + 1; }
    check_box(lo, hi);                                               // everything
    for (int d = 0; d < 4; d++) { lo[d] = cmin[d]; hi[d] = cmax[d]; }
    check_box(lo, hi);                                               // everything except the upper faces (half-open)
    all(0, 2);
    check_box(lo, hi);                                               // below everything
    for (int d = 0; d < 4; d++) { lo[d] = cmax[d] + 1; hi[d] = cmax[d] + 3; }
    check_box(lo, hi);                                               // above everything
    for (int d = 0; d < 4; d++) { lo[d] = cmax[d] + 1; hi[d] = cmin[d]; }
    check_box(lo, hi);                                               // inverted
    for (size_t i : {(size_t)0, n / 2, n - 1}) {                     // the unit box at the first / middle / last inserted entry
      for (int d = 0; d < 4; d++) { lo[d] = d < D ? pt(i)[d] : 0; hi[d] = lo[d] + 1; }
      check_box(lo, hi);
    }
    for (int d = 0; d < 4; d++) { lo[d] = cmin[d]; hi[d] = (cmin[d] + cmax[d]) / 2 + 1; }
    check_box(lo, hi);                                               // lower half on every axis
    for (int d = 0; d < 4; d++) { lo[d] = (cmin[d] + cmax[d]) / 2 + 1; hi[d] = cmax[d] + 1; }
    check_box(lo, hi);                                               // upper half on every axis
    for (int d = 0; d < 4; d++) { lo[d] = cmin[d]; hi[d] = cmax[d] + 1; }
    lo[D - 1] = (cmin[D - 1] + cmax[D - 1]) / 2; hi[D - 1] = lo[D - 1] + 1;
    check_box(lo, hi);                                               // a slab one unit thick on the last axis
    lo[0] = cmin[0] + 1; hi[0] = cmax[0];
    check_box(lo, hi);                                               // ... without the two extreme coordinates on axis 0
  }
  bool erase_entry(size_t i, const char* why, bool verify_after) {
    phase("erase");
    bool was = alive[i], got = false;
    std::string oc = outcome([&] { got = T.erase(pt(i), (int64_t)i); });
    if (was) { alive[i] = 0; live--; }
    if (oc != "ok") { fail("erase:throws", vf::fmt("erase of entry #%zu (%s) threw ", i, why) + oc); return false; }
    if (got != was) fail(was ? "erase:false-for-present-entry" : "erase:true-for-absent-entry", std::string("erase(") + show(pt(i)) + vf::fmt(", %zu) [%s] returned %d, the list says %d", i, why, (int)got, (int)was));
    if (verify_after) {
      check_size("erase");
      check_point(pt(i));
      check_iteration(PRE_ARROW, "erase");
    }
    return true;
  }
  void observe_empty() {
    check_size("the last entry was removed");
    phase("begin/end");
    if (!T.begin_is_end()) fail("iterate:visits", "begin() != end() on a tree emptied by erasing every entry");
    check_iteration(RANGE_FOR, "the last entry was removed");
    check_point(pt(0));
    int64_t lo[4], hi[4];
    for (int d = 0; d < 4; d++) { lo[d] = 0; hi[d] = cmax[d] + 3; }
    check_box(lo, hi);
    phase("erase");
    bool got = true;
    std::string oc = outcome([&] { got = T.erase(pt(0), 0); });
    if (oc != "ok") fail("erase:throws", "erase on the emptied tree threw " + oc);
    else if (got) fail("erase:true-for-absent-entry", "erase on the emptied tree returned true");
  }

  // runs on the child's main thread: the generator (sorting, recursion over the grid) is harness code and must not count
  // against the small stack
  void prepare() {
    phase("generate");
    gen_points(s.family, n, D, c);
    alive.assign(n, 0);
    for (int d = 0; d < 4; d++) { cmin[d] = 2; cmax[d] = 2; }
    for (size_t i = 0; i < n; i++)
      for (int d = 0; d < D; d++) {
        int64_t x = c[i * (size_t)D + (size_t)d];
        if (i == 0 || x < cmin[d]) cmin[d] = x;
        if (i == 0 || x > cmax[d]) cmax[d] = x;
      }
    seen.reserve(n);
    out.reserve(n + 8);
  }

  void run() {
    int64_t base_live = Tracked::live();
    phase("KDTree()");
    T.create();
    if (s.linked) {
      phase("link (harness)");
      std::string problem;
      if (!T.link_chain(c, n, problem)) { fail("harness:chain-builder", "the harness could not link this family as a chain: " + problem); return; }
      alive.assign(n, 1);
      live = n;
    } else {
      phase("insert");
      bool it_ok = true;
      size_t first_bad = 0;
      std::string oc = outcome([&] {
        for (size_t i = 0; i < n; i++) {
          bool ok = T.insert(pt(i), (int64_t)i, (i % 3) == 2);
          alive[i] = 1;
          live++;
          if (!ok && it_ok) { it_ok = false; first_bad = i; }
        }
      });
      if (oc != "ok") { fail("insert:throws", "insert threw " + oc); return; }
      if (!it_ok) fail("insert:returned-iterator", vf::fmt("the iterator returned by insert #%zu does not designate the new entry", first_bad));
    }
    check_size("the inserts");
    phase("depth(white-box)");
    sh->depth = T.white_depth();
    check_iteration(PRE_ARROW, "the inserts");
    if (n <= 1000 || s.family != F_BUSHY) check_iteration(POST_STAR, "the inserts");  // it++ copies the traversal queue: quadratic on wide trees
    check_points();
    check_boxes();
    // erase: absent entries first, then the root / the deepest leaf / a middle entry
    phase("erase");
    {
      int64_t p[4];
      for (int d = 0; d < 4; d++) p[d] = cmax[d] + 1;
      bool got = true;
      std::string oc = outcome([&] { got = T.erase(p, 0); });
      if (oc != "ok") fail("erase:throws", "erase of an absent point threw " + oc);
      else if (got) fail("erase:true-for-absent-entry", "erase(" + show(p) + ", 0) returned true, no entry has that point");
      oc = outcome([&] { got = T.erase(pt(n - 1), (int64_t)n + 5); });
      if (oc != "ok") fail("erase:throws", "erase of a present point with an absent value threw " + oc);
      else if (got) fail("erase:true-for-absent-entry", "erase(" + show(pt(n - 1)) + vf::fmt(", %zu) returned true, no entry has that value", n + 5));
      check_size("two erase calls for absent entries");
    }
    if (n >= 8) {
      erase_entry(0, "first inserted = root", true);
      erase_entry(n - 1, "last inserted = deepest", true);
      erase_entry(n / 2, "middle of the insertion order", true);
      erase_entry(n / 2, "the same entry again", false);
      check_boxes();
      // erase_advance at the first, a middle and the last visit of one traversal
      phase("erase_advance");
      std::vector<size_t> at = {0, live / 2, live - 1};
      out.clear();
      std::string oc = outcome([&] { T.traverse_erasing(at, false, 2 * live + 4, out); });
      if (oc != "ok") { fail("erase_advance:throws", "a traversal with erase_advance at visits 0, middle, last threw " + oc); return; }
      if (out.size() > live + 2) { fail("erase_advance:does-not-terminate", vf::fmt("more than %zu visits for %zu entries", out.size(), live)); return; }
      verify(out, [](size_t) { return true; }, "erase_advance", "visits", "visits", "a traversal with erase_advance at visits 0, middle, last");
      for (size_t k : at)
        if (k < out.size() && out[k].v >= 0 && (uint64_t)out[k].v < n && alive[(size_t)out[k].v]) { alive[(size_t)out[k].v] = 0; live--; }
      check_size("erase_advance");
      check_iteration(RANGE_FOR, "erase_advance");
      check_points();
    }
    switch (s.ending) {
      case E_DESTROY_FULL: break;
      case E_ERASE_HALF: {
        size_t k = 0, every = n / 4 ? n / 4 : 1;
        for (size_t i = 1; i < n; i += 2) {
          if (!alive[i]) continue;
          if (!erase_entry(i, "every second entry", false)) return;
          if (++k % every == 0) { check_size("erasing every second entry"); check_iteration(PRE_ARROW, "erasing every second entry"); }
        }
        check_size("erasing every second entry");
        check_iteration(RANGE_FOR, "erasing every second entry");
        check_points();
        check_boxes();
        break;
      }
      case E_ERASE_SOME: {
        for (size_t k = 0; k < 32; k++) {
          size_t i = (size_t)(((uint64_t)n * (2 * k + 1)) / 64);
          if (i >= n || !alive[i]) continue;
          if (!erase_entry(i, "32 entries spread over the insertion order", false)) return;
          if (k % 8 == 7) { check_size("some spread-out erases"); check_iteration(PRE_ARROW, "some spread-out erases"); }
        }
        check_points();
        check_boxes();
        break;
      }
      case E_ERASE_ALL: {
        size_t lo = 0, hi = n, mid = n / 2, turn = 0, every = n / 4 ? n / 4 : 1, k = 0;
        while (live) {
          size_t i;
          while (lo < n && !alive[lo]) lo++;
          while (hi > 0 && !alive[hi - 1]) hi--;
          if (turn % 3 == 0) i = lo;
          else if (turn % 3 == 1) i = hi - 1;
          else { while (mid < hi && !alive[mid]) mid++; i = mid < hi ? mid : lo; }  // the middle cursor only moves up: linear in total
          turn++;
          if (!erase_entry(i, "erase until empty", false)) return;
          if (++k % every == 0) { check_size("part of erase-until-empty"); check_iteration(PRE_ARROW, "part of erase-until-empty"); }
        }
        observe_empty();
        phase("insert");
        for (size_t i : {n / 2, (size_t)0, n - 1}) {  // reuse after emptying
          std::string oc = outcome([&] { if (!T.insert(pt(i), (int64_t)i, false)) fail("insert:returned-iterator", "insert into the emptied tree returned an iterator that does not designate the new entry"); });
          if (oc != "ok") { fail("insert:throws", "insert into the emptied tree threw " + oc); return; }
          alive[i] = 1;
          live++;
        }
        check_size("refilling the emptied tree");
        check_iteration(PRE_ARROW, "refilling the emptied tree");
        check_points();
        break;
      }
      case E_ADVANCE_ALL: {
        phase("erase_advance");
        out.clear();
        std::string oc = outcome([&] { T.traverse_erasing({}, true, 2 * live + 4, out); });
        if (oc != "ok") { fail("erase_advance:throws", "a traversal with erase_advance at every visit threw " + oc); return; }
        if (out.size() > live + 2) { fail("erase_advance:does-not-terminate", vf::fmt("more than %zu visits for %zu entries", out.size(), live)); return; }
        verify(out, [](size_t) { return true; }, "erase_advance", "visits", "visits", "a traversal with erase_advance at every visit");
        alive.assign(n, 0);
        live = 0;
        observe_empty();
        break;
      }
    }
    phase("~KDTree");
    T.destroy();
    phase("after ~KDTree");
    if (Tracked::live() != base_live)
      fail("~KDTree:value-count", vf::fmt("%lld values are still alive after the tree was destroyed (%s %zu live entries): nodes leaked or destroyed twice", (long long)(Tracked::live() - base_live), "it held", live));
    sh->done = 1;
  }
};

// ---- running something on a thread with a small stack ------------------------------------------------------------
struct ThreadArg {
  std::function<void()>* fn;
  char* base;
  uint64_t usable;
};
void* thread_main(void* p) {
  ThreadArg* a = (ThreadArg*)p;
  volatile char marker = 0;
  a->usable = (uint64_t)((char*)&marker - a->base);
  (*a->fn)();
  return nullptr;
}
// returns false when the thread could not be created
bool run_on_small_stack(size_t bytes, std::function<void()> fn, Shared* sh) {
  const size_t guard = 1 << 20;
  char* map = (char*)mmap(nullptr, guard + bytes, PROT_READ | PROT_WRITE, MAP_PRIVATE | MAP_ANONYMOUS, -1, 0);
  if (map == MAP_FAILED) return false;
  mprotect(map, guard, PROT_NONE);  // a frame larger than a page must not jump over the guard
  char* base = map + guard;
  memset(base, 0xA5, bytes);
  pthread_attr_t attr;
  pthread_attr_init(&attr);
  if (pthread_attr_setstack(&attr, base, bytes) != 0) return false;
  ThreadArg arg{&fn, base, 0};
  pthread_t th;
  if (pthread_create(&th, &attr, thread_main, &arg) != 0) return false;
  pthread_join(th, nullptr);
  pthread_attr_destroy(&attr);
  size_t untouched = 0;
  while (untouched < bytes && (unsigned char)base[untouched] == 0xA5) untouched++;
  sh->highwater = bytes - untouched;
  sh->usable = arg.usable;
  munmap(map, guard + bytes);
  return true;
}

Shared* new_shared() {
  void* p = mmap(nullptr, sizeof(Shared), PROT_READ | PROT_WRITE, MAP_SHARED | MAP_ANONYMOUS, -1, 0);
  if (p == MAP_FAILED) { perror("mmap shared"); _exit(3); }
  memset(p, 0, sizeof(Shared));
  return (Shared*)p;
}

// first line of a sanitizer report in the child's stderr, addresses removed (deterministic descriptions)
std::string sanitizer_headline(int errfd) {
  if (errfd < 0) return "";
  off_t sz = lseek(errfd, 0, SEEK_END);
  std::string txt((size_t)(sz > 8000 ? 8000 : sz), 0);
  ssize_t got = pread(errfd, txt.data(), txt.size(), 0);
  txt.resize(got > 0 ? (size_t)got : 0);
  size_t e = txt.find("ERROR: ");
  if (e == std::string::npos) return "";
  std::string line = txt.substr(e, txt.find('\n', e) - e);
  for (size_t i = 0; (i = line.find("0x", i)) != std::string::npos;) {
    size_t j = i + 2;
    while (j < line.size() && isxdigit((unsigned char)line[j])) j++;
    line.replace(i, j - i, "ADDR");
  }
  size_t t = line.find(" (pc");
  if (t != std::string::npos) line.resize(t);
  t = line.find(" T");
  (void)t;
  return " :: " + line;
}

struct CaseOutcome {
  int status = 0;
  std::string headline;
};

vf::Run* g_beat_run = nullptr;  // set by the sections; lets the parent beat while a long case runs in its child

// forks; the child builds the world, calls `prep(T, sh)` on its main thread and runs the closure it returns on the requested stack
CaseOutcome run_case_in_child(const Spec& s, Shared* sh, const std::function<std::function<void()>(TreeIf&, Shared*)>& prep) {
  CaseOutcome co;
  int errfd = memfd_create("c13-chain-stderr", 0);
  fflush(stdout);
  fflush(stderr);
  pid_t p = fork();
  if (p == 0) {
    if (errfd >= 0) dup2(errfd, 2);
    alarm(3000);
    TreeIf* T = make_world(s.world);
    std::function<void()> body = prep(*T, sh);
    if (s.stack == ST_MAIN) body();
    else if (!run_on_small_stack(stack_bytes[s.stack], body, sh)) sh->thread_failed = 1;
    _exit(0);
  }
  // wait while keeping the shard's heartbeat alive: a 10^5-entry chain built through insert() is quadratic (minutes on a
  // loaded machine) and the supervisor would otherwise take the silent shard for a hang and attribute a "crash" to the case
  for (;;) {
    pid_t w = waitpid(p, &co.status, WNOHANG);
    if (w == p) break;
    if (w < 0 && errno != EINTR) break;
    if (g_beat_run) g_beat_run->beat();
    usleep(200000);
  }
  co.headline = sanitizer_headline(errfd);
  if (errfd >= 0) close(errfd);
  return co;
}

bool family_applies(int family, int D) {
  if (D == 1 && (family == F_INC_TIED || family == F_DEC_TIED || family == F_TIED_INC || family == F_ANTI)) return false;  // coincide with inc / dec / equal in 1-D
  return true;
}

void run_spec(vf::Run& r, const Spec& s, uint64_t* hw_hist) {
  r.note(std::string("chain ") + world_name[s.world]);
  if (r.wants_desc()) r.desc(s.str());
  Shared* sh = new_shared();
  g_beat_run = &r;
  CaseOutcome co = run_case_in_child(s, sh, [&](TreeIf& T, Shared* shared) -> std::function<void()> {
    auto life = std::make_shared<Life>(T, s, shared);
    life->prepare();
    return [life] { life->run(); };
  });
  r.beat();
  for (uint32_t i = 0; i < sh->nfail && i < 6; i++) {
    std::string key = sh->f[i].key, desc = sh->f[i].desc;
    r.fail(key, [&] { return s.str() + " :: " + desc; });
  }
  bool normal = WIFEXITED(co.status) && WEXITSTATUS(co.status) == 0;
  if (sh->thread_failed) r.fail("harness:thread-with-small-stack-not-created", [&] { return s.str() + " :: pthread_create with the requested stack failed (environment, not the library)"; });
  else if (!normal || !sh->done) {
    std::string ph = sh->phase[0] ? sh->phase : "start";
    if (!normal) {
      std::string how = WIFSIGNALED(co.status) ? vf::fmt("killed by signal %d (%s)", WTERMSIG(co.status), strsignal(WTERMSIG(co.status))) : vf::fmt("exit status %d", WEXITSTATUS(co.status));
      bool timeout = WIFSIGNALED(co.status) && WTERMSIG(co.status) == SIGALRM;
      r.fail(ph + (timeout ? ":no-termination" : ":crash"), [&] { return s.str() + " :: the process died in phase '" + ph + "': " + how + co.headline + "; every operation the statement names must be safe on any tree shape (the unchanged library uses a constant amount of stack in all of them)"; });
    } else if (sh->nfail == 0) {
      r.fail(ph + ":life-cycle-abandoned", [&] { return s.str() + " :: the life cycle stopped in phase '" + ph + "' without a recorded reason"; });
    }
  }
  if (s.stack != ST_MAIN && normal && sh->done) {
    uint64_t hw = sh->highwater;
    if (getenv("VF_C13_HW")) fprintf(stderr, "HW %llu usable-at-entry %llu of %zu :: %s\n", (unsigned long long)hw, (unsigned long long)sh->usable, stack_bytes[s.stack], s.str().c_str());
    hw_hist[hw < 16384 ? 0 : hw < 28672 ? 1 : hw < 40960 ? 2 : 3]++;
  }
  if (normal && sh->done) {
    size_t d = (size_t)sh->depth;
    r.ok(s.family == F_BUSHY ? (d * 4 <= s.n || s.n <= 100 ? "bushy tree (depth <= n/4)" : "bushy order gave a deep tree")
                             : (d == s.n ? "chain: depth == n" : d * 2 >= s.n ? "chain: depth >= n/2" : "chain family gave a shallow tree"));
  } else r.ok("life cycle not completed");
  if (s.n >= 2) r.nontriv();
  munmap(sh, sizeof(Shared));
}

void report_hw(vf::Run& r, const uint64_t* hw) {
  // includes the thread control block / static TLS at the top of the stack and the sanitizer's thread start-up
  r.counters["small-stack cases, stack high-water < 16 KiB"] += hw[0];
  r.counters["small-stack cases, stack high-water 16..28 KiB"] += hw[1];
  r.counters["small-stack cases, stack high-water 28..40 KiB"] += hw[2];
  r.counters["small-stack cases, stack high-water >= 40 KiB"] += hw[3];
}

// which endings a tree of n entries gets: the emptying endings are quadratic on a chain
std::vector<int> endings_for(int family, size_t n, bool thorough) {
  bool bushy = family == F_BUSHY;
  (void)thorough;
  if (n <= 1000 || (bushy && n <= 100000)) return {E_DESTROY_FULL, E_ERASE_HALF, E_ERASE_ALL, E_ADVANCE_ALL};
  // emptying a chain is cubic-ish in the library itself (every delete_node step below an after_or_equal chain allocates a queue)
  return {E_DESTROY_FULL, E_ERASE_SOME};
}

}  // namespace

// Chains.  Building a chain of n entries through insert() costs n^2/2 node visits (the tree never rebalances): 10^4 entries cost
// a quarter of a second, 10^5 minutes.  That bounds this ladder; chain_linked continues it.
VF_SECTION(chain, 16, 16, 900) {
  bool th = r.thorough();
  uint64_t hw[4] = {0, 0, 0, 0};
  std::vector<size_t> sizes = {100, 1000, 10000};
  if (th) sizes.push_back(100000);
  for (size_t n : sizes)
    for (int fam = 0; fam < F_BUSHY; fam++)
      for (int w = 0; w < N_WORLDS; w++) {
        if (!family_applies(fam, world_dims[w])) continue;
        bool primary = w <= 2;  // Vector2<int64_t>, Vector3<int64_t>, 1-D
        // 10^5 through insert(): thorough only, the all-after, all-before, all-ties and alternating chains of the main world
        if (n == 100000 && !(w == 0 && (fam == F_INC || fam == F_DEC || fam == F_EQUAL || fam == F_ZIGZAG))) continue;
        for (int st = 0; st < ST_COUNT; st++) {
          if (!primary && !th && st == ST_128K) continue;
          if (!primary && !th && st == ST_MAIN && n > 100) continue;
          if (n == 100000 && st != ST_64K) continue;
          for (int e : endings_for(fam, n, th)) {
            if (!primary && !th && (e == E_ERASE_HALF || e == E_ADVANCE_ALL) && n > 100) continue;
            if (n == 100000 && e != E_DESTROY_FULL) continue;
            Spec s{w, fam, st, e, n};
            if (getenv("VF_C13_DUMP")) { printf("%llu %s\n", (unsigned long long)r.next++, s.str().c_str()); continue; }
            if (!r.take()) continue;
            run_spec(r, s, hw);
          }
        }
      }
  report_hw(r, hw);
  r.bound = th ? "9 insertion-order families that make KDTree degenerate into a chain (increasing, decreasing, all-equal, zig-zag, increasing/decreasing on one axis and tied on the others, tied on one axis, anti-diagonal, every point twice) x sizes 100, 1000, 10^4 "
                 "x 9 coordinate worlds x {main thread, 128 KiB thread stack, 64 KiB thread stack} x endings {destroy full, erase half / 32 spread erases, erase until empty + refill, erase_advance until empty} (emptying endings: n <= 1000); "
                 "10^5 entries through insert(): Vector2<int64_t>, 4 families, 64 KiB stack, destroy full; complete life cycle per case in a forked child"
               : "9 insertion-order families that make KDTree degenerate into a chain (increasing, decreasing, all-equal, zig-zag, increasing/decreasing on one axis and tied on the others, tied on one axis, anti-diagonal, every point twice) x sizes 100, 1000, 10^4 "
                 "x 9 coordinate worlds (all three stack kinds {main thread, 128 KiB, 64 KiB thread stack} and all endings for Vector2<int64_t>, Vector3<int64_t> and 1-D; the other six: 64 KiB stack (n = 100: main thread too), destroy-full / erase-until-empty / 32-spread-erases endings) "
                 "x endings {destroy full, erase half, erase until empty + refill, erase_advance until empty} for n <= 1000 and {destroy full, 32 spread erases} for 10^4; complete life cycle per case in a forked child";
}

// The ladder continued: 10^5 (thorough 10^6) entries, the chain linked by the harness (see TreeIf::link_chain), then the same life cycle
// through the public interface.  On a 10^6 chain even the 8 MiB main stack leaves 8 bytes per level.
VF_SECTION(chain_linked, 16, 16, 900) {
  bool th = r.thorough();
  uint64_t hw[4] = {0, 0, 0, 0};
  // (a) the linked structure is the inserted structure: node-by-node comparison where both are affordable
  for (size_t n : {(size_t)7, (size_t)100, (size_t)1000})
    for (int fam = 0; fam < F_BUSHY; fam++)
      for (int w = 0; w < N_WORLDS; w++) {
        if (!family_applies(fam, world_dims[w])) continue;
        if (getenv("VF_C13_DUMP")) { printf("%llu linked==inserted %s %s %zu\n", (unsigned long long)r.next++, world_name[w], family_name[fam], n); continue; }
        if (!r.take()) continue;
        r.note("chain_linked equivalence");
        if (r.wants_desc()) r.desc(vf::fmt("linked == inserted: %s, %s, %zu entries", world_name[w], family_name[fam], n));
        TreeIf* A = make_world(w);
        TreeIf* B = make_world(w);
        std::vector<int64_t> c;
        gen_points(fam, n, A->dims(), c);
        A->create();
        B->create();
        for (size_t i = 0; i < n; i++) A->insert(&c[i * (size_t)A->dims()], (int64_t)i, false);
        std::string problem;
        bool linked = B->link_chain(c, n, problem);
        if (!linked) r.fail("harness:chain-builder", [&] { return vf::fmt("%s, %s, %zu entries: ", world_name[w], family_name[fam], n) + problem; });
        else if (A->preorder_digest() != B->preorder_digest() || A->white_depth() != n)
          r.fail("harness:chain-builder", [&] { return vf::fmt("%s, %s, %zu entries: the structure linked by the harness differs from the one insert() builds (or is not a chain: depth %zu)", world_name[w], family_name[fam], n, A->white_depth()); });
        else r.ok("linked structure == inserted structure, depth == n");
        A->destroy();
        B->destroy();
        delete A;
        delete B;
        r.nontriv();
      }
  // (b) the life cycle on big chains
  std::vector<size_t> sizes = {100000};
  if (th) sizes.push_back(1000000);
  for (size_t n : sizes)
    for (int fam = 0; fam < F_BUSHY; fam++)
      for (int w = 0; w < N_WORLDS; w++) {
        if (!family_applies(fam, world_dims[w])) continue;
        bool primary = w <= 2;
        if (!th && !(primary || w == 3)) continue;  // quick: Vector2/Vector3<int64_t>, 1-D, Vector2<double>
        if (n == 1000000 && !(w == 0 || (w <= 2 && (fam == F_INC || fam == F_DEC || fam == F_ZIGZAG)))) continue;
        for (int st = 0; st < ST_COUNT; st++) {
          if (!primary && st == ST_128K) continue;
          for (int e : {E_DESTROY_FULL, E_ERASE_SOME}) {
            if (e == E_ERASE_SOME && !(w == 0 || (th && primary)) ) continue;
            if (n == 1000000 && e == E_ERASE_SOME && st != ST_64K) continue;
            Spec s{w, fam, st, e, n};
            s.linked = true;
            if (getenv("VF_C13_DUMP")) { printf("%llu %s\n", (unsigned long long)r.next++, s.str().c_str()); continue; }
            if (!r.take()) continue;
            run_spec(r, s, hw);
          }
        }
      }
  report_hw(r, hw);
  r.bound = vf::fmt("harness-linked chains (verified node by node against insert() at 7 / 100 / 1000 entries for all 9 families x 9 worlds): 9 families x 10^5 entries%s x %s x 3 stack kinds x {destroy full, 32 spread erases}; complete life cycle through the public interface in a forked child",
      th ? " (10^6: Vector2<int64_t> all families, Vector3<int64_t> and 1-D three families)" : "", th ? "9 coordinate worlds" : "4 coordinate worlds (Vector2<int64_t>, Vector3<int64_t>, 1-D, Vector2<double>)");
}

// Wide trees: the traversal queues of the iterator, within(), exists(box), find_subtree_min_max and the destructor hold O(n) nodes
VF_SECTION(bushy, 16, 16, 900) {
  bool th = r.thorough();
  uint64_t hw[4] = {0, 0, 0, 0};
  std::vector<size_t> sizes = {100, 1000, 10000, 100000};
  if (th) sizes.push_back(1000000);
  for (size_t n : sizes)
    for (int w = 0; w < N_WORLDS; w++) {
      bool primary = w <= 2;
      if (n >= 100000 && !primary && !th) continue;
      if (n >= 1000000 && !primary) continue;
      for (int st = 0; st < ST_COUNT; st++) {
        if (!primary && !th && st == ST_128K) continue;
        if (n >= 1000000 && st == ST_128K) continue;
        for (int e : endings_for(F_BUSHY, n, th)) {
          if (!primary && !th && e != E_DESTROY_FULL && e != E_ERASE_ALL) continue;
          if (n >= 100000 && !th && e == E_ADVANCE_ALL) continue;
          Spec s{w, F_BUSHY, st, e, n};
          if (getenv("VF_C13_DUMP")) { printf("%llu %s\n", (unsigned long long)r.next++, s.str().c_str()); continue; }
          if (!r.take()) continue;
          run_spec(r, s, hw);
        }
      }
    }
  report_hw(r, hw);
  r.bound = vf::fmt("balanced (median-first) insertion order of an s^D grid (coordinate ties on every axis) x sizes 100, 1000, 10^4, 10^5%s x 9 coordinate worlds x 3 stack kinds x 4 endings (quick: the six secondary worlds only up to 10^4, 64 KiB / main, two endings); complete life cycle per case in a forked child", th ? ", 10^6 (primary worlds)" : "");
}

// depth() is public but not named by the statement; the library implements it recursively (KDTree.hh carries a TODO).  Executed for
// information only: never a violation.
VF_SECTION(chain_depth_info, 1, 1, 900) {
  for (size_t n : {(size_t)1000, (size_t)10000, (size_t)100000, (size_t)1000000}) {
    for (int st : {ST_MAIN, ST_64K}) {
      if (!r.take()) continue;
      Spec s{0, F_INC, st, E_DESTROY_FULL, n};
      if (r.wants_desc()) r.desc("depth() on: " + s.str());
      Shared* sh = new_shared();
      CaseOutcome co = run_case_in_child(s, sh, [&](TreeIf& T, Shared* shared) -> std::function<void()> {
        auto c = std::make_shared<std::vector<int64_t>>();
        gen_points(F_INC, n, T.dims(), *c);
        return [c, n, &T, shared] {
          T.create();
          std::string problem;
          if (!T.link_chain(*c, n, problem)) return;
          size_t d = T.lib_depth();
          shared->lib_depth_ok = d;
          T.destroy();
          shared->done = 1;
        };
      });
      bool normal = WIFEXITED(co.status) && WEXITSTATUS(co.status) == 0 && sh->done;
      r.counters[vf::fmt("info (outside the statement): depth() on a chain of %zu entries, %s: %s", n, stack_name[st], normal ? "returned" : "died (recursive)")]++;
      r.ok(normal ? "depth() returned" : "depth() died (outside the statement, informational)");
      munmap(sh, sizeof(Shared));
    }
  }
  r.bound = "informational: KDTree::depth() (recursive, outside the statement) on increasing chains of 10^3..10^6 entries, main thread and 64 KiB stack; never reported as a violation";
}
