// C05_common.hh — shared by C05.cc (text families) and C05_r2.cc (histories, contexts, boundary arguments).
//
//   Entry      the ways a text reaches phosg::JSON::parse (three entry points, explicit and defaulted mode argument,
//              readers positioned inside a larger buffer, readers built by the other StringReader constructors)
//   Judge      the memoryless oracle for one text: reference results R_std / R_ext (C04_jsonref.hh) and
//              verdict(observation, entry, mode) -> "" or a stable failure key
//   check_text runs one text through a set of entries x {default, strict} and reports
//   corpora / grammar generator used by several sections
#pragma once
#include <float.h>
#include <math.h>
#include <sanitizer/asan_interface.h>
#include <stdlib.h>
#include <string.h>

#include <exception>
#include <functional>
#include <map>
#include <memory>
#include <string>
#include <thread>
#include <vector>

#include "C04_jsonref.hh"
#include "JSON.hh"
#include "vf.hh"

namespace c05 {

using phosg::JSON;
using phosg::StringReader;

// ---- entries ----------------------------------------------------------------------------------------------------

enum Entry {
  E_READER = 0, E_PTR, E_STRING,             // parse(StringReader&, bool) / parse(const char*, size_t, bool) / parse(const std::string&, bool)
  E_READER_DEF, E_PTR_DEF, E_STRING_DEF,     // the same three with the mode argument defaulted (must behave as default mode)
  E_READER_OFF1, E_READER_OFF2,              // reader over prefix+text, positioned at the start of text (partly consumed stream)
  E_READER_SUB,                              // sub-reader (StringReader::sub) over a window of a larger buffer: junk before AND after the text
  E_READER_STR, E_READER_SHARED,             // reader built by StringReader(const std::string&) / StringReader(shared_ptr<string>)
  N_ENTRY
};
inline const char* entry_name(Entry e) {
  static const char* n[N_ENTRY] = {"reader", "ptr", "string", "reader(mode argument defaulted)", "ptr(mode argument defaulted)", "string(mode argument defaulted)",
      "reader at offset 1 of a larger buffer", "reader at offset 10 of a larger buffer", "sub-reader over a window of a larger buffer", "reader built from a std::string",
      "reader built from a shared_ptr<string>"};
  return n[e];
}
inline bool is_reader(Entry e) { return e == E_READER || e == E_READER_DEF || e >= E_READER_OFF1; }
inline bool is_defaulted(Entry e) { return e >= E_READER_DEF && e <= E_STRING_DEF; }
// what precedes the text in the reader's buffer for the OFF entries: bytes that would change the result if the parser
// used absolute instead of relative positions (a bracket; an open list, hex number, string and comment start)
inline const std::string& entry_prefix(Entry e) {
  static const std::string none, p1 = "]", p2 = "[0x1F,\"//\\";
  return e == E_READER_OFF1 ? p1 : (e == E_READER_OFF2 || e == E_READER_SUB) ? p2 : none;
}
// what follows the text in the underlying buffer of the SUB entry (outside the reader's extent: must never be read)
inline const std::string& entry_suffix(Entry e) {
  static const std::string none, sfx = "1]}\"e5 ";
  return e == E_READER_SUB ? sfx : none;
}
// offset of the text in the coordinates of the reader (a sub-reader starts at 0)
inline size_t entry_base(Entry e) { return e == E_READER_SUB ? 0 : entry_prefix(e).size(); }

enum EntrySet { ES_CORE = 0, ES_FULL = 1, ES_ALL = 2 };
inline const std::vector<Entry>& entries_of(EntrySet es) {
  static const std::vector<Entry> core = {E_READER, E_PTR, E_STRING};
  static const std::vector<Entry> full = {E_READER, E_PTR, E_STRING, E_READER_DEF, E_PTR_DEF, E_STRING_DEF, E_READER_OFF2, E_READER_SUB};
  static const std::vector<Entry> all = {E_READER, E_PTR, E_STRING, E_READER_DEF, E_PTR_DEF, E_STRING_DEF, E_READER_OFF1, E_READER_OFF2, E_READER_SUB, E_READER_STR, E_READER_SHARED};
  return es == ES_CORE ? core : es == ES_FULL ? full : all;
}

// ---- execution environment of a call (class 5) -------------------------------------------------------------------

enum Ctx { CX_PLAIN = 0, CX_CATCH, CX_UNWIND, CX_UNWIND2, CX_NOEXCEPT, CX_STDFUNCTION, CX_THREAD, CX_THREAD_UNWIND, N_CTX };
inline const char* ctx_name(int c) {
  static const char* n[N_CTX] = {"plain code", "inside a catch handler", "destructor during stack unwinding", "destructor during a nested (second) unwinding",
      "below a noexcept frame", "lambda called through std::function", "second thread", "destructor during unwinding on a second thread"};
  return n[c];
}

struct Env {
  int ctx = CX_PLAIN;
  int errno_mode = -1;  // >= 0: errno value to set right before every call; -1: the engine's per-case value
  vf::Run* run = nullptr;
};
inline Env& env() {
  static Env e;
  return e;
}

template <class F>
struct AtExit {
  F& f;
  ~AtExit() { f(); }
};
template <class F>
void call_noexcept(F& f) noexcept { f(); }

// runs f (which must not throw) in context c
template <class F>
void in_ctx(int c, F&& f) {
  switch (c) {
    case CX_PLAIN: f(); break;
    case CX_CATCH:
      try { throw std::runtime_error("outer"); } catch (const std::exception&) { f(); }
      break;
    case CX_UNWIND:
      try { AtExit<F> g{f}; throw std::runtime_error("propagating"); } catch (const std::exception&) {}
      break;
    case CX_UNWIND2: {
      auto inner = [&] { try { AtExit<F> g{f}; throw std::logic_error("second"); } catch (const std::exception&) {} };
      try { AtExit<decltype(inner)> g{inner}; throw std::runtime_error("first"); } catch (const std::exception&) {}
      break;
    }
    case CX_NOEXCEPT: call_noexcept(f); break;
    case CX_STDFUNCTION: { std::function<void()> fn = [&] { f(); }; fn(); break; }
    case CX_THREAD: { std::thread t([&] { f(); }); t.join(); break; }
    case CX_THREAD_UNWIND: {
      std::thread t([&] { try { AtExit<F> g{f}; throw std::runtime_error("propagating"); } catch (const std::exception&) {} });
      t.join();
      break;
    }
  }
}

// ---- one observation ---------------------------------------------------------------------------------------------

struct Obs {
  int status = 0;  // 0 returned, 1 parse_error, 2 out_of_range, 3 anything else
  std::string exc;
  JSON value;
  size_t where = 0;
  int uncaught = 0;
};

inline void set_errno_for_call() {
  Env& E = env();
  if (E.errno_mode >= 0) errno = E.errno_mode;
  else if (E.run) E.run->poison_errno();
}

// runs body(o) and classifies what escapes
template <class F>
Obs observe(F&& body) {
  Obs o;
  o.uncaught = std::uncaught_exceptions();
  try {
    body(o);
  } catch (const JSON::parse_error&) {
    o.status = 1;
  } catch (const std::out_of_range&) {
    o.status = 2;
  } catch (const JSON::type_error&) {
    o.status = 3;
    o.exc = "JSON::type_error";
  } catch (const std::bad_alloc&) {
    o.status = 3;
    o.exc = "bad_alloc";
  } catch (const std::logic_error&) {
    o.status = 3;
    o.exc = "logic_error";
  } catch (const std::runtime_error&) {
    o.status = 3;
    o.exc = "runtime_error";
  } catch (const std::exception&) {
    o.status = 3;
    o.exc = "std::exception";
  } catch (...) {
    o.status = 3;
    o.exc = "non-std";
  }
  return o;
}

// parse through a reader the caller owns; where() is recorded on both exits
inline void parse_reader(Obs& o, StringReader& rd, bool strict, bool defaulted) {
  try {
    set_errno_for_call();
    o.value = defaulted ? JSON::parse(rd) : JSON::parse(rd, strict);
  } catch (...) {
    o.where = rd.where();
    throw;
  }
  o.where = rd.where();
}

// buf/n: the reader's or caller's whole buffer; off: where the text starts in it (0 except for the OFF entries)
inline Obs run_parse_here(Entry e, const char* buf, size_t n, size_t off, bool strict) {
  return observe([&](Obs& o) {
    switch (e) {
      case E_READER:
      case E_READER_DEF:
      case E_READER_OFF1:
      case E_READER_OFF2: {
        StringReader rd(buf, n, off);
        parse_reader(o, rd, strict, e == E_READER_DEF);
        break;
      }
      case E_READER_SUB: {
        StringReader outer(buf, n);
        StringReader rd = outer.sub(off, n - off - entry_suffix(e).size());
        parse_reader(o, rd, strict, false);
        break;
      }
      case E_READER_STR: {
        std::string s(buf, n);
        StringReader rd(s);
        parse_reader(o, rd, strict, false);
        break;
      }
      case E_READER_SHARED: {
        std::shared_ptr<std::string> sp = std::make_shared<std::string>(buf, n);
        StringReader rd(sp);
        sp.reset();
        parse_reader(o, rd, strict, false);
        break;
      }
      case E_PTR:
        set_errno_for_call();
        o.value = JSON::parse(buf, n, strict);
        break;
      case E_PTR_DEF:
        set_errno_for_call();
        o.value = JSON::parse(buf, n);
        break;
      case E_STRING: {
        std::string s(buf, n);
        set_errno_for_call();
        o.value = JSON::parse(s, strict);
        break;
      }
      case E_STRING_DEF: {
        std::string s(buf, n);
        set_errno_for_call();
        o.value = JSON::parse(s);
        break;
      }
      default: break;
    }
  });
}

inline Obs run_parse(Entry e, const char* buf, size_t n, size_t off, bool strict) {
  int c = env().ctx;
  if (c == CX_PLAIN) return run_parse_here(e, buf, n, off, strict);
  Obs o;
  auto f = [&] { o = run_parse_here(e, buf, n, off, strict); };
  in_ctx(c, f);
  return o;
}

inline const char* status_name(const Obs& o) {
  switch (o.status) {
    case 0: return "returned";
    case 1: return "parse_error";
    case 2: return "out_of_range";
  }
  return o.exc.c_str();
}

inline bool safe_follower(const std::string& s, size_t i) {
  if (i >= s.size()) return true;
  char c = s[i];
  return c == ' ' || c == '\t' || c == '\n' || c == '\r' || c == ',' || c == ']' || c == '}';
}

// coarse content tag for "rejected" keys, so that the two known causes do not share a key
inline const char* feature(const jref::Val& v) {
  if (v.has_empty_container()) return "empty-container";
  if (v.has_exp_number()) return "exponent-number";
  return "other";
}

inline std::string show_obs(const Obs& o) {
  if (o.status) return std::string("threw ") + status_name(o);
  std::string t;
  try {
    t = o.value.serialize(JSON::SerializeOption::SORT_DICT_KEYS);
  } catch (...) {
    t = "(unserializable)";
  }
  if (t.size() > 120) t = t.substr(0, 120) + "...";
  return "returned " + std::string(o.value.is_int() ? "int " : o.value.is_float() ? "float " : "") + t;
}

inline std::string show_ref(const jref::Result& r) {
  if (!r.prefix_ok) return std::string("rejects (") + r.why + " at " + std::to_string(r.err_pos) + ")";
  std::string c = jref::canon(r.value);
  if (c.size() > 120) c = c.substr(0, 120) + "...";
  return std::string(r.accepted ? "accepts" : "value prefix") + " value=" + c + " extent=" + std::to_string(r.value_end);
}

constexpr double TOL = 1e-9;

// [eE][+-]?0*[0-9]{7,} : an exponent with 7 or more significant digits
inline bool huge_exponent(const std::string& s) {
  for (size_t i = 0; i + 7 < s.size(); i++) {
    if (s[i] != 'e' && s[i] != 'E') continue;
    size_t j = i + 1;
    if (j < s.size() && (s[j] == '+' || s[j] == '-')) j++;
    while (j < s.size() && s[j] == '0') j++;
    size_t d = 0;
    while (j + d < s.size() && s[j + d] >= '0' && s[j + d] <= '9') d++;
    if (d >= 7) return true;
  }
  return false;
}

inline std::string brief(const std::string& s) {
  if (s.size() <= 160) return vf::show(s);
  return vf::show(s.substr(0, 60)) + vf::fmt("...(%zu bytes)...", s.size()) + vf::show(s.substr(s.size() - 40));
}

// structural identity of two parse results (own walk; JSON's comparison operators are another property's subject)
inline bool same_json(const JSON& a, const JSON& b) {
  if (a.is_null() || b.is_null()) return a.is_null() && b.is_null();
  if (a.is_bool() || b.is_bool()) return a.is_bool() && b.is_bool() && a.as_bool() == b.as_bool();
  if (a.is_int() || b.is_int()) return a.is_int() && b.is_int() && a.as_int() == b.as_int();
  if (a.is_float() || b.is_float()) {
    if (!a.is_float() || !b.is_float()) return false;
    double x = a.as_float(), y = b.as_float();
    return !memcmp(&x, &y, sizeof(x));
  }
  if (a.is_string() || b.is_string()) return a.is_string() && b.is_string() && a.as_string() == b.as_string();
  if (a.is_list() || b.is_list()) {
    if (!a.is_list() || !b.is_list() || a.as_list().size() != b.as_list().size()) return false;
    for (size_t k = 0; k < a.as_list().size(); k++)
      if (!same_json(*a.as_list()[k], *b.as_list()[k])) return false;
    return true;
  }
  if (!a.is_dict() || !b.is_dict() || a.as_dict().size() != b.as_dict().size()) return false;
  for (auto& m : a.as_dict()) {
    auto it = b.as_dict().find(m.first);
    if (it == b.as_dict().end() || !same_json(*m.second, *it->second)) return false;
  }
  return true;
}

// ---- the memoryless oracle for one text ---------------------------------------------------------------------------

struct Judge {
  std::string s;
  jref::Result st, ex;
  bool not_executed = false;  // exponent of 7+ significant digits

  Judge() {}
  explicit Judge(const std::string& text) : s(text) {
    st = jref::parse(s, false);
    ex = st.accepted ? st : jref::parse(s, true);
    not_executed = huge_exponent(s);
  }
  bool out(const jref::Result& r) const { return r.outside(); }

  // "" when the observation is what the statement allows; otherwise the failure key.  *ref / *expect describe the demand.
  std::string verdict(const Obs& o, Entry e, bool strict, const jref::Result** ref = nullptr, const char** expect = nullptr) const {
    const char* M = strict ? "strict" : "default";
    const jref::Result& P = strict ? st : ex;  // what this mode is documented to understand
    const size_t base = entry_base(e);
    auto ret = [&](const std::string& key, const jref::Result& r, const char* ex_text) {
      if (ref) *ref = &r;
      if (expect) *expect = ex_text;
      return key;
    };
    // (1) totality: only the documented exception types
    if (o.status == 3) return ret("undocumented-exception:" + o.exc, P, "a value, JSON::parse_error or std::out_of_range");
    // a value mismatch in a number/string leaf is the same defect whether or not the document also uses an extension;
    // mismatches in what extensions produce (ints, constants, shape) are keyed by the extension
    auto value_key = [&](const std::string& tag, unsigned extmask) {
      if (extmask && tag != "float" && tag != "float-exp" && tag != "string") return std::string("extension:wrong-value:") + jref::ext_name(extmask);
      return "standard:wrong-value:" + tag;
    };
    if (!is_reader(e)) {
      // (2) string entry points
      if (st.accepted && !out(st)) {
        if (o.status) return ret(std::string("standard:rejected:") + M + ":" + feature(st.value), st, "accepted (standard JSON)");
        std::string t = jref::differs(o.value, st.value, TOL, false);
        if (!t.empty()) return ret(value_key(t, 0), st, "the reference value");
      } else if (!st.accepted && ex.accepted && !out(ex)) {
        if (!strict) {
          if (o.status) return ret(std::string("extension:rejected-by-default:") + jref::ext_name(ex.ext_used), ex, "accepted (documented extension)");
          std::string t = jref::differs(o.value, ex.value, TOL, false);
          if (!t.empty()) return ret(value_key(t, ex.ext_used), ex, "the documented meaning");
        } else if (o.status == 0) {
          return ret(std::string("extension:accepted-by-strict:") + jref::ext_name(ex.ext_used), ex, "rejected (disable_extensions=true)");
        }
      } else if (P.prefix_ok && P.junk_after && !out(P) && safe_follower(s, P.value_end)) {
        // complete value, delimiter, then something that is neither whitespace nor (default mode) a comment
        if (o.status == 0) return ret(std::string("trailing-data-accepted:") + M, P, "rejected (non-whitespace after the value)");
      }
    } else {
      // (3) reader entry point: exactly the extent of one value
      if (P.prefix_ok && !out(P) && safe_follower(s, P.value_end)) {
        if (o.status) {
          if (P.ext_in_value) return ret(std::string("extension:rejected-by-default:") + jref::ext_name(P.ext_in_value), P, "a value (documented extension)");
          return ret(std::string("standard:rejected:") + M + ":" + feature(P.value), P, "a value (standard JSON)");
        }
        std::string t = jref::differs(o.value, P.value, TOL, false);
        if (!t.empty()) return ret(value_key(t, P.ext_in_value), P, "the reference value");
        if (o.where != base + P.value_end) return ret(std::string("reader:wrong-extent:") + M, P, "where() == start + extent of the value");
      } else if (strict && ex.prefix_ok && ex.ext_in_value && !out(ex) && safe_follower(s, ex.value_end)) {
        if (o.status == 0 && o.where == base + ex.value_end)
          return ret(std::string("extension:accepted-by-strict:") + jref::ext_name(ex.ext_in_value), ex, "an exception or an earlier stop (disable_extensions=true)");
      }
    }
    return std::string();
  }

  // true when verdict() compares more than the exception type for this entry kind / mode
  bool demanding(bool reader, bool strict) const {
    const jref::Result& P = strict ? st : ex;
    if (!reader) return (st.accepted && !out(st)) || (ex.accepted && !out(ex)) || (P.prefix_ok && P.junk_after && !out(P) && safe_follower(s, P.value_end));
    return (P.prefix_ok && !out(P) && safe_follower(s, P.value_end)) || (strict && ex.prefix_ok && ex.ext_in_value && !out(ex) && safe_follower(s, ex.value_end));
  }

  const char* cls(bool any_returned) const {
    if (st.accepted) return out(st) ? "standard-but-outside-statement(totality-only)" : "standard:accepted-with-reference-value";
    if (ex.accepted) return out(ex) ? "extension-but-outside-statement(totality-only)" : "extension:default-accepts,strict-rejects";
    if (ex.prefix_ok && !out(ex) && safe_follower(s, ex.value_end)) return "value+trailing-data:reader-extent-checked,string-entries-reject";
    if (any_returned) return "reference-rejects,library-lenient(dont-care)";
    return "reference-rejects,library-rejects";
  }
};

inline std::string describe_failure(const Judge& J, const Obs& o, Entry e, bool strict, const jref::Result* ref, const char* expect) {
  return vf::fmt("parse(%s) via %s entry, %s mode: %s; expected: %s [reference %s: %s]", brief(J.s).c_str(), entry_name(e), strict ? "strict" : "default",
      (show_obs(o) + (is_reader(e) && !o.status ? vf::fmt(" where()=%zu", o.where) : std::string())).c_str(), expect ? expect : "?",
      ref == &J.st ? "R_std" : "R_ext", ref ? show_ref(*ref).c_str() : "?");
}

// exact-size heap copy (no terminator): a read past the end is an ASan report
struct ExactBuf {
  char* p;
  size_t n;
  explicit ExactBuf(const std::string& s) : p((char*)malloc(s.size())), n(s.size()) {
    if (n) memcpy(p, s.data(), n);
  }
  ExactBuf(const ExactBuf&) = delete;
  ~ExactBuf() { free(p); }
};

// The single oracle.  `s` is the text; dat (may be null) receives the Python-binding line.
inline void check_text(vf::Run& r, const std::string& s, FILE* dat, EntrySet es = ES_FULL) {
  env().run = &r;
  Judge J(s);
  jref::dat_line(dat, s, J.st);
  if (dat) r.counters["texts_written_for_python"]++;

  if (J.not_executed) {
    // outside the statement (beyond double range) and the parser's exponent loop is O(10^digits): a 2^31-iteration
    // loop terminates but takes seconds, so these are classified, bound to Python, and not executed
    r.ok("not-executed:exponent-of-7+-digits(outside double range; exponent loop is linear in the exponent)");
    return;
  }
  ExactBuf plain(s);
  std::unique_ptr<ExactBuf> framed[N_ENTRY];
  Obs exact[2];  // E_READER's observation per mode (E_READER is the first entry of every set)
  bool any_returned = false, any_fail = false;
  for (Entry e : entries_of(es)) {
    const char* buf = plain.p;
    size_t n = plain.n, base = 0;
    if (!entry_prefix(e).empty()) {
      auto& b = framed[e];
      if (!b) b.reset(new ExactBuf(entry_prefix(e) + s + entry_suffix(e)));
      buf = b->p;
      n = b->n;
      base = entry_prefix(e).size();
    }
    for (int strict = 0; strict < 2; strict++) {
      if (strict && is_defaulted(e)) continue;
      Obs o = run_parse(e, buf, n, base, strict);
      r.transitions++;
      if (o.status == 0) any_returned = true;
      const jref::Result* ref = nullptr;
      const char* expect = nullptr;
      std::string key = J.verdict(o, e, strict, &ref, &expect);
      // "without reading outside the input": a reader whose buffer continues before / after the text must behave exactly like
      // the reader over the exact-size copy (the bytes around the text are not input), also for texts the reference rejects
      if (e == E_READER) exact[strict] = o;
      else if (key.empty() && !entry_prefix(e).empty()) {
        const Obs& x = exact[strict];
        if (o.status != x.status || (!o.status && (o.where - entry_base(e) != x.where || !same_json(o.value, x.value)))) {
          any_fail = true;
          r.fail("reader:result-depends-on-bytes-outside-the-input", [&] {
            return vf::fmt("parse(%s), %s mode: reader over the exact text %s%s, but %s (buffer %s + text + %s) %s%s", brief(s).c_str(), strict ? "strict" : "default", show_obs(x).c_str(),
                x.status ? "" : vf::fmt(" where()=%zu", x.where).c_str(), entry_name(e), vf::show(entry_prefix(e)).c_str(), vf::show(entry_suffix(e)).c_str(), show_obs(o).c_str(),
                o.status ? "" : vf::fmt(" where()=start+%zu", o.where - entry_base(e)).c_str());
          });
          continue;
        }
      }
      if (key.empty()) continue;
      any_fail = true;
      r.fail(key, [&] { return describe_failure(J, o, e, strict, ref, expect) + (env().ctx ? std::string(" [called from: ") + ctx_name(env().ctx) + "]" : std::string()) + (env().errno_mode >= 0 ? vf::fmt(" [errno before the call: %d]", env().errno_mode) : std::string()); });
    }
  }
  if (any_returned || J.ex.prefix_ok) r.nontriv();
  if (any_fail) return;
  r.ok(J.cls(any_returned));
}

inline void text_case(vf::Run& r, const std::string& s, FILE* dat, EntrySet es = ES_FULL) {
  if (r.wants_desc()) r.desc("text " + vf::show(s.size() > 300 ? s.substr(0, 300) : s) + (s.size() > 300 ? vf::fmt("... (%zu bytes)", s.size()) : std::string()));
  check_text(r, s, dat, es);
}

inline std::string rep(const std::string& s, size_t n) {
  std::string o;
  o.reserve(s.size() * n);
  for (size_t i = 0; i < n; i++) o += s;
  return o;
}

// ---- corpora -----------------------------------------------------------------------------------------------------

inline const std::vector<std::string>& ext_corpus() {
  static const std::vector<std::string> v = {"[1,]", "[1 , ]", "{\"a\":1,}", "[[1,],]", "[{\"a\":[],},]", "0x1F", "-0x10", "0x7FFFFFFFFFFFFFFF", "-0x8000000000000000", "0xff",
      "[0x0,0x1]", "{\"a\":0xA}", "n", "t", "f", "[t,f,n]", "{\"a\":n}", "// c\n1", "1 // c", "1//", "[1, // c\n 2]", "{\"a\": // c\n 1}", "{ // c\n\"a\":1}", "[n,0x1,] // c"};
  return v;
}

inline const std::vector<std::string>& std_corpus() {
  static const std::vector<std::string> v = {"0", "-0", "10", "-1", "1.5", "5e-1", "1E+2", "1e2", "-1.25e-3", "0.000001", "1e20", "9223372036854775807", "-9223372036854775808",
      "true", "false", "null", "\"\"", "\"a\"", "\"\\\"\"", "\"\\\\\"", "\"\\/\"", "\"\\b\\f\\n\\r\\t\"", "\"\\u0041\"", "\"\\u00e9\"", "\"\xC3\xA9\"", "\"a\\\"b\\\\c\"",
      "[]", "{}", "[1]", "[1,2]", "[[]]", "[{}]", "{\"a\":1}", "{\"a\":1,\"b\":2}", "{\"a\":[]}", "{\"a\":{}}", "[1,[2,[3]]]", "{\"a\":{\"b\":{\"c\":null}}}",
      " [ 1 , 2 ] ", "\n{\n\"a\" : true\n}\n", "[\"a\",1.5,null,true,false,{}]", "{\"\":\"\"}", "[-1.5e+3,0.5]", "[\"\\u00e9\",\"//\"]"};
  return v;
}

// texts the parser must reject or that end early, one per way of failing (used as the "disturbing" calls of histories)
inline const std::vector<std::string>& rejected_corpus() {
  static const std::vector<std::string> v = {"", " ", "[", "[1,", "[1", "{", "{\"a\":", "{\"a\"", "{\"a\":1", "\"abc", "\"\\", "\"\\u00", "\"\\q\"", "\"\\u0100\"", "\"\\x4\"", "x", "[1 2]",
      "{1:2}", "{\"a\" 1}", "{\"a\":1 \"b\":2}", "1 x", "[1]]", "tru", "nul", "-", "[[[[1,2,{\"a\":[", "[,]", "{,}", "//", "// only a comment\n", "0x", "[\"a\",]x"};
  return v;
}

}  // namespace c05
