// C07 — shared reference model (included by C07.cc and C07_r2.cc): model canvas, pattern generator, blit variants,
// declarative affected-set expectation, colour rules, blit judge, whole-image transform models.
#pragma once
#include <stdarg.h>
#include <string.h>

#include <algorithm>
#include <array>
#include <limits>
#include <set>
#include <string>
#include <vector>

#include "Image.hh"
#include "vf.hh"

using namespace phosg;
using std::string;
using std::vector;
typedef long long ll;

namespace {

struct Px {
  uint64_t c[4];
  bool operator==(const Px& o) const { return c[0] == o.c[0] && c[1] == o.c[1] && c[2] == o.c[2] && c[3] == o.c[3]; }
};

inline uint64_t mask_of(int cw) { return cw == 64 ? ~0ull : ((1ull << cw) - 1); }

struct Model {
  int w = 0, h = 0, cw = 8;
  bool alpha = false;
  vector<Px> p;  // c[3] is kept equal to maxv() when !alpha
  Model() {}
  Model(int w_, int h_, bool a_, int cw_ = 8) : w(w_), h(h_), cw(cw_), alpha(a_), p((size_t)w_ * h_, Px{{0, 0, 0, a_ ? 0 : mask_of(cw_)}}) {}
  uint64_t maxv() const { return mask_of(cw); }
  bool inside(ll x, ll y) const { return x >= 0 && y >= 0 && x < w && y < h; }
  const Px& at(ll x, ll y) const { return p[(size_t)y * w + x]; }
  // what read_pixel reports: alpha is max_value for images without an alpha channel
  Px read(ll x, ll y) const { return at(x, y); }
  // what write_pixel stores: samples truncated to the channel width, alpha dropped without a channel
  void write(ll x, ll y, uint64_t r, uint64_t g, uint64_t b, uint64_t a) {
    Px& q = p[(size_t)y * w + x];
    uint64_t m = maxv();
    q.c[0] = r & m; q.c[1] = g & m; q.c[2] = b & m;
    if (alpha) q.c[3] = a & m;
  }
  size_t raw_size() const { return (size_t)w * h * (3 + alpha) * (cw / 8); }
  void to_raw(uint8_t* out) const {
    int nch = 3 + alpha, nb = cw / 8;
    for (size_t i = 0; i < p.size(); i++)
      for (int c = 0; c < nch; c++) memcpy(out + (i * nch + c) * nb, &p[i].c[c], nb);
  }
  vector<uint8_t> raw() const {
    vector<uint8_t> v(raw_size());
    to_raw(v.data());
    return v;
  }
  string px_str(size_t i) const {
    const Px& q = p[i];
    string s = vf::fmt("%llx.%llx.%llx", (unsigned long long)q.c[0], (unsigned long long)q.c[1], (unsigned long long)q.c[2]);
    if (alpha) s += vf::fmt(".%llx", (unsigned long long)q.c[3]);
    return s;
  }
  string dump() const {
    string s = vf::fmt("%dx%d %s %d-bit [", w, h, alpha ? "rgba" : "rgb", cw);
    if (p.size() > 1024) return s + vf::fmt("%zu pixels, %zu bytes per row]", p.size(), (size_t)w * (3 + alpha) * (cw / 8));  // round 3: large canvases are not printed
    for (int y = 0; y < h; y++) {
      for (int x = 0; x < w; x++) {
        const Px& q = at(x, y);
        s += vf::fmt("%llx.%llx.%llx", (unsigned long long)q.c[0], (unsigned long long)q.c[1], (unsigned long long)q.c[2]);
        if (alpha) s += vf::fmt(".%llx", (unsigned long long)q.c[3]);
        s += x + 1 < w ? " " : "";
      }
      s += y + 1 < h ? " / " : "";
    }
    return s + "]";
  }
};

Image make_image(const Model& m) {
  Image img(m.w, m.h, m.alpha, m.cw);
  if (img.get_data_size() != m.raw_size()) throw std::logic_error("harness: unexpected Image::get_data_size()");
  auto r = m.raw();
  if (!r.empty()) memcpy(img.get_data(), r.data(), r.size());
  return img;
}

Model model_of(const Image& img) {
  Model m(img.get_width(), img.get_height(), img.get_has_alpha(), img.get_channel_width());
  int nch = 3 + m.alpha, nb = m.cw / 8;
  const uint8_t* d = (const uint8_t*)img.get_data();
  for (size_t i = 0; i < m.p.size(); i++)
    for (int c = 0; c < nch; c++) {
      uint64_t v = 0;
      memcpy(&v, d + (i * nch + c) * nb, nb);
      m.p[i].c[c] = v;
    }
  return m;
}

bool same(const Image& img, const Model& m) {
  if ((ll)img.get_width() != m.w || (ll)img.get_height() != m.h || img.get_has_alpha() != m.alpha || img.get_channel_width() != m.cw) return false;
  auto r = m.raw();
  return r.empty() || memcmp(img.get_data(), r.data(), r.size()) == 0;
}

const uint64_t ALPHAS[5] = {0x00, 0x01, 0x7F, 0xFE, 0xFF};
const uint64_t KEY[3] = {0x11, 0x22, 0x33};

// coordinate-coded canvas; `salt` separates dest (0), source (1) and mask (2) contents.
// 8-bit samples replicated to the channel width, so every byte lane carries the code.
Model pattern(int w, int h, bool alpha, int cw, int salt) {
  Model m(w, h, alpha, cw);
  uint64_t rep = mask_of(cw) / 0xFF;  // 0x0101..01
  for (int y = 0; y < h; y++)
    for (int x = 0; x < w; x++) {
      uint64_t i = (uint64_t)y * w + x;
      uint64_t r = (16 * i + 1 + 5 * salt) & 0xFF, g = (16 * i + 2 + 5 * salt) & 0xFF, b = (16 * i + 3 + 5 * salt) & 0xFF;
      uint64_t a = ALPHAS[(x + 2 * y + salt) % 5];
      if (salt == 0 && (x + 2 * y) % 3 == 1) { r = KEY[0]; g = KEY[1]; b = KEY[2]; }   // dest pixels in the key colour (mask_blit_dst)
      if (salt == 1 && (x + y) % 3 == 0) { r = KEY[0]; g = KEY[1]; b = KEY[2]; }       // source pixels in the key colour (mask_blit)
      if (salt == 2) {                                                                 // mask: white = skip
        if ((x + y) % 2 == 0) r = g = b = 0xFF;
        else if ((x + y) % 4 == 1) { r = 0xFF; g = 0xFF; b = 0xFE; }
      }
      m.write(x, y, r * rep, g * rep, b * rep, a * rep);
    }
  return m;
}

// ---------------------------------------------------------------------------------------------
// rectangle family

enum Variant { V_BLIT, V_MASK_KEY, V_MASK_DST, V_MASK_IMG, V_BLEND, V_BLEND_ALPHA, V_CUSTOM32, V_CUSTOM64, V_MASK_KEY32, V_MASK_DST32, V_BLEND_ALPHA_00, V_BLEND_ALPHA_40, V_BLEND_ALPHA_FF, NVARIANT };
const char* vname[NVARIANT] = {"blit", "mask_blit(colour key)", "mask_blit_dst", "mask_blit(mask image)", "blend_blit", "blend_blit(source_alpha=0xC0)",
    "custom_blit(uint32)", "custom_blit(uint64)", "mask_blit(uint32 key)", "mask_blit_dst(uint32 key)", "blend_blit(source_alpha=0x00)", "blend_blit(source_alpha=0x40)", "blend_blit(source_alpha=0xFF)"};
const char* vkey[NVARIANT] = {"blit", "mask_blit_key", "mask_blit_dst", "mask_blit_image", "blend_blit", "blend_blit_alpha", "custom_blit32", "custom_blit64", "mask_blit_key32", "mask_blit_dst32",
    "blend_blit_alpha", "blend_blit_alpha", "blend_blit_alpha"};
// source_alpha argument of the four blend_blit(source_alpha) variants
inline uint64_t blend_source_alpha(int v) { return v == V_BLEND_ALPHA_00 ? 0x00 : v == V_BLEND_ALPHA_40 ? 0x40 : v == V_BLEND_ALPHA_FF ? 0xFF : 0xC0; }

inline uint32_t pack(const Px& q) { return ((q.c[0] & 0xFF) << 24) | ((q.c[1] & 0xFF) << 16) | ((q.c[2] & 0xFF) << 8) | (q.c[3] & 0xFF); }

inline void custom32(uint32_t& d, uint32_t s) { d = (d ^ (s * 0x9E3779B1u)) + 0x01020304u; }
inline void custom64(uint64_t& dr, uint64_t& dg, uint64_t& db, uint64_t& da, uint64_t sr, uint64_t sg, uint64_t sb, uint64_t sa) {
  dr = dr + 3 * sr + 1;
  dg = dg ^ sg;
  db = sb - db;
  da = (da + sa) / 2;
}

enum Out { O_OK, O_OUT_OF_RANGE, O_RUNTIME, O_OTHER };
const char* out_name[] = {"ok", "std::out_of_range", "std::runtime_error", "another exception"};

struct Call {
  ll x, y, w, h, sx, sy;
};

uint64_t g_custom_calls;  // how often the per-pixel callback ran
string g_ctx;               // appended to every call description (call history / execution context of the case)

Out call_real(int v, Image& d, const Image& s, const Image* mask, const Call& c) {
  try {
    switch (v) {
      case V_BLIT: d.blit(s, c.x, c.y, c.w, c.h, c.sx, c.sy); break;
      case V_MASK_KEY: d.mask_blit(s, c.x, c.y, c.w, c.h, c.sx, c.sy, KEY[0], KEY[1], KEY[2]); break;
      case V_MASK_KEY32: d.mask_blit(s, c.x, c.y, c.w, c.h, c.sx, c.sy, (uint32_t)0x112233FFu); break;
      case V_MASK_DST: d.mask_blit_dst(s, c.x, c.y, c.w, c.h, c.sx, c.sy, KEY[0], KEY[1], KEY[2]); break;
      case V_MASK_DST32: d.mask_blit_dst(s, c.x, c.y, c.w, c.h, c.sx, c.sy, (uint32_t)0x11223300u); break;
      case V_MASK_IMG: d.mask_blit(s, c.x, c.y, c.w, c.h, c.sx, c.sy, *mask); break;
      case V_BLEND: d.blend_blit(s, c.x, c.y, c.w, c.h, c.sx, c.sy); break;
      case V_BLEND_ALPHA: case V_BLEND_ALPHA_00: case V_BLEND_ALPHA_40: case V_BLEND_ALPHA_FF:
        d.blend_blit(s, c.x, c.y, c.w, c.h, c.sx, c.sy, blend_source_alpha(v)); break;
      case V_CUSTOM32:
        d.custom_blit(s, c.x, c.y, c.w, c.h, c.sx, c.sy, std::function<void(uint32_t&, uint32_t)>([](uint32_t& dc, uint32_t sc) { g_custom_calls++; custom32(dc, sc); }));
        break;
      case V_CUSTOM64:
        d.custom_blit(s, c.x, c.y, c.w, c.h, c.sx, c.sy,
            std::function<void(uint64_t&, uint64_t&, uint64_t&, uint64_t&, uint64_t, uint64_t, uint64_t, uint64_t)>(
                [](uint64_t& dr, uint64_t& dg, uint64_t& db, uint64_t& da, uint64_t sr, uint64_t sg, uint64_t sb, uint64_t sa) { g_custom_calls++; custom64(dr, dg, db, da, sr, sg, sb, sa); }));
        break;
    }
    return O_OK;
  } catch (const std::out_of_range&) { return O_OUT_OF_RANGE;
  } catch (const std::runtime_error&) { return O_RUNTIME;
  } catch (...) { return O_OTHER; }
}

// colour rule of variant v for one affected pixel (8-bit channels).  Returns false when the pixel is left alone.
inline bool colour_rule(int v, Model& out, ll dx, ll dy, const Px& d, const Px& s, uint64_t dmax) {
  switch (v) {
    case V_BLIT: {
      // Image.cc: alpha 0 = skip, alpha 0xFF = copy, otherwise blend each channel (and alpha) with weight a/0xFF.
      // (Image.hh: "the written pixels will have the same alpha as in the source image" holds for the copy case.)
      uint64_t a = s.c[3];
      if (a == 0) return false;
      if (a == 0xFF) { out.write(dx, dy, s.c[0], s.c[1], s.c[2], a); return true; }
      out.write(dx, dy, (a * s.c[0] + (0xFF - a) * d.c[0]) / 0xFF, (a * s.c[1] + (0xFF - a) * d.c[1]) / 0xFF,
          (a * s.c[2] + (0xFF - a) * d.c[2]) / 0xFF, (a * a + (0xFF - a) * d.c[3]) / 0xFF);
      return true;
    }
    case V_MASK_KEY:
    case V_MASK_KEY32:
      // source pixels in the transparent colour are not copied; alpha comes from the source
      if (s.c[0] == KEY[0] && s.c[1] == KEY[1] && s.c[2] == KEY[2]) return false;
      out.write(dx, dy, s.c[0], s.c[1], s.c[2], s.c[3]);
      return true;
    case V_MASK_DST:
    case V_MASK_DST32:
      // only dest pixels in the transparent colour are replaced
      if (!(d.c[0] == KEY[0] && d.c[1] == KEY[1] && d.c[2] == KEY[2])) return false;
      out.write(dx, dy, s.c[0], s.c[1], s.c[2], s.c[3]);
      return true;
    case V_BLEND: {
      uint64_t sa = s.c[3];
      if (sa == dmax) { out.write(dx, dy, s.c[0], s.c[1], s.c[2], sa); return true; }
      if (sa == 0) return false;
      out.write(dx, dy, (s.c[0] * sa + d.c[0] * (dmax - sa)) / dmax, (s.c[1] * sa + d.c[1] * (dmax - sa)) / dmax,
          (s.c[2] * sa + d.c[2] * (dmax - sa)) / dmax, (sa * sa + d.c[3] * (dmax - sa)) / dmax);
      return true;
    }
    case V_BLEND_ALPHA: case V_BLEND_ALPHA_00: case V_BLEND_ALPHA_40: case V_BLEND_ALPHA_FF: {
      uint64_t ea = (blend_source_alpha(v) * s.c[3]) / dmax;
      if (ea == dmax) { out.write(dx, dy, s.c[0], s.c[1], s.c[2], ea); return true; }
      if (ea == 0) return false;
      out.write(dx, dy, (s.c[0] * ea + d.c[0] * (dmax - ea)) / dmax, (s.c[1] * ea + d.c[1] * (dmax - ea)) / dmax,
          (s.c[2] * ea + d.c[2] * (dmax - ea)) / dmax, d.c[3]);
      return true;
    }
    case V_CUSTOM32: {
      uint32_t dc = pack(d);
      custom32(dc, pack(s));
      out.write(dx, dy, (dc >> 24) & 0xFF, (dc >> 16) & 0xFF, (dc >> 8) & 0xFF, dc & 0xFF);
      return true;
    }
    case V_CUSTOM64: {
      uint64_t r = d.c[0], g = d.c[1], b = d.c[2], a = d.c[3];
      custom64(r, g, b, a, s.c[0], s.c[1], s.c[2], s.c[3]);
      out.write(dx, dy, r, g, b, a);
      return true;
    }
  }
  return false;
}

struct Expect {
  Model canvas;           // expected dest after the call (when the call is expected to succeed)
  vector<uint8_t> aff;    // per dest pixel: 1 = in the affected set
  size_t naff = 0;
  bool mask_covered = true;       // every affected pixel has a mask pixel (source coordinates)
  bool mask_fits_request = true;  // mask >= requested extent (documented precondition)
};

// Declarative expectation.  `colour` = false: only the affected set is computed (wide channels).
void expect_blit(int v, const Model& d, const Model& s, const Model* mask, const Call& c, bool colour, Expect& e) {
  e.canvas.w = d.w; e.canvas.h = d.h; e.canvas.cw = d.cw; e.canvas.alpha = d.alpha;
  e.canvas.p = d.p;
  e.aff.assign(d.p.size(), 0);
  e.naff = 0;
  e.mask_covered = true;
  ll w = c.w < 0 ? s.w : c.w, h = c.h < 0 ? s.h : c.h;
  e.mask_fits_request = !mask || ((ll)mask->w >= w && (ll)mask->h >= h);
  for (ll dy = 0; dy < d.h; dy++)
    for (ll dx = 0; dx < d.w; dx++) {
      ll ox = dx - c.x, oy = dy - c.y;
      if (ox < 0 || ox >= w || oy < 0 || oy >= h) continue;
      ll px = ox + c.sx, py = oy + c.sy;
      if (!s.inside(px, py)) continue;
      e.aff[(size_t)dy * d.w + dx] = 1;
      e.naff++;
      if (v == V_MASK_IMG) {
        // the mask is indexed in source space; white = keep the destination
        if (!mask->inside(px, py)) { e.mask_covered = false; continue; }
        if (!colour) continue;
        Px m = mask->read(px, py);
        if (m.c[0] == 0xFF && m.c[1] == 0xFF && m.c[2] == 0xFF) continue;
        Px sp = s.read(px, py);
        e.canvas.write(dx, dy, sp.c[0], sp.c[1], sp.c[2], sp.c[3]);
        continue;
      }
      if (!colour) continue;
      colour_rule(v, e.canvas, dx, dy, d.read(dx, dy), s.read(px, py), d.maxv());
    }
}

string call_str(int v, const Model& d, const Model& s, const Model* mask, const Call& c) {
  string m = mask ? vf::fmt(", mask %dx%d", mask->w, mask->h) : "";
  return vf::fmt("dest(%dx%d %s %d-bit).%s(source %dx%d %s %d-bit%s; x=%lld, y=%lld, w=%lld, h=%lld, sx=%lld, sy=%lld)", d.w, d.h, d.alpha ? "rgba" : "rgb", d.cw, vname[v], s.w, s.h,
      s.alpha ? "rgba" : "rgb", s.cw, m.c_str(), c.x, c.y, c.w, c.h, c.sx, c.sy) + g_ctx;
}

// Runs one blit on `dimg` (whose content is restored from draw first) and judges it.
struct BlitCtx {
  int v;
  const Model* dpat;
  const Model* spat;
  const Model* mpat;
  Image* dimg;
  const Image* simg;
  const Image* mimg;
  vector<uint8_t> draw, sraw, got;
  Expect e;
  bool colour = true;
  // outcome classes are counted locally and flushed once (a map lookup per case would dominate the run time)
  enum { C_NOTHING, C_WHOLE, C_PARTIAL, C_MASK_SMALL, C_MASK_UNCOV_THROW, C_MASK_UNCOV_OK, NCLS };
  uint64_t cls[NCLS] = {0, 0, 0, 0, 0, 0};
  void flush(vf::Run& r) {
    const char* names[NCLS] = {"clipped-to-nothing", "whole-rectangle", "partially-clipped", "mask-smaller-than-request:runtime_error", "mask-uncovered:runtime_error", "mask-uncovered:succeeded-untouched"};
    for (int i = 0; i < NCLS; i++) {
      if (cls[i]) r.hist[names[i]] += cls[i];
      cls[i] = 0;
    }
  }
  void prepare() {
    draw = dpat->raw();
    sraw = spat->raw();
    got.resize(draw.size());
  }
};

void judge_blit(vf::Run& r, BlitCtx& k, const Call& c) {
  if (!k.draw.empty()) memcpy(k.dimg->get_data(), k.draw.data(), k.draw.size());
  g_custom_calls = 0;
  Out o = call_real(k.v, *k.dimg, *k.simg, k.mimg, c);
  expect_blit(k.v, *k.dpat, *k.spat, k.mpat, c, k.colour, k.e);
  const Expect& e = k.e;
  // non-trivial: a non-empty rectangle was requested on non-empty canvases (whether or not clipping leaves anything of it)
  {
    ll rw = c.w < 0 ? k.spat->w : c.w, rh = c.h < 0 ? k.spat->h : c.h;
    if (rw > 0 && rh > 0 && !k.dpat->p.empty() && !k.spat->p.empty()) r.nontriv();
  }
  const char* kk = vkey[k.v];
  auto what = [&] { return call_str(k.v, *k.dpat, *k.spat, k.mpat, c); };
  if (o == O_OUT_OF_RANGE) { r.fail(string(kk) + ":out_of_range-escapes", [&] { return what() + " threw std::out_of_range; rectangle operations must clip, not throw"; }); return; }
  if (o == O_OTHER) { r.fail(string(kk) + ":unexpected-exception", [&] { return what() + " threw an exception that is neither runtime_error nor out_of_range"; }); return; }
  if (!k.sraw.empty() && memcmp(k.simg->get_data(), k.sraw.data(), k.sraw.size()) != 0) { r.fail(string(kk) + ":source-modified", [&] { return what() + " changed the source image"; }); return; }
  bool unchanged = k.draw.empty() || memcmp(k.dimg->get_data(), k.draw.data(), k.draw.size()) == 0;
  if (o == O_RUNTIME) {
    if (k.v == V_MASK_IMG && (!e.mask_fits_request || !e.mask_covered)) {
      if (!unchanged) { r.fail(string(kk) + ":throws-after-writing", [&] { return what() + " threw runtime_error (mask too small) but had already modified the destination"; }); return; }
      k.cls[e.mask_fits_request ? BlitCtx::C_MASK_UNCOV_THROW : BlitCtx::C_MASK_SMALL]++;
      return;
    }
    r.fail(string(kk) + ":unexpected-runtime_error", [&] { return what() + " threw std::runtime_error"; });
    return;
  }
  // succeeded: compare the whole destination buffer
  if (k.v == V_MASK_IMG && !e.mask_covered) {
    // no documented result; uncovered pixels must at least stay untouched (checked below through the model, which skips them)
  }
  if (!k.draw.empty()) {
    e.canvas.to_raw(k.got.data());
    const uint8_t* real = (const uint8_t*)k.dimg->get_data();
    if (memcmp(real, k.got.data(), k.got.size()) != 0) {
      // locate the first differing pixel and classify it
      int bpp = (3 + k.dpat->alpha) * (k.dpat->cw / 8);
      size_t px = 0;
      bool found = false, off_rect = false;
      for (size_t i = 0; i < k.dpat->p.size(); i++) {
        if (memcmp(real + i * bpp, k.got.data() + i * bpp, bpp) == 0) continue;
        if (!e.aff[i]) { px = i; found = true; off_rect = true; break; }
        if (!found && k.colour) { px = i; found = true; }
      }
      if (found) {
        Model after = model_of(*k.dimg);
        r.fail(string(kk) + (off_rect ? ":touches-pixel-outside-clipped-rectangle" : ":wrong-pixel-inside-rectangle"), [&] {
          return what() + vf::fmt(": pixel (%zu,%zu) %s; before %s, after %s, model %s", px % k.dpat->w, px / k.dpat->w,
                              off_rect ? "is outside the clipped rectangle but changed" : "differs from the colour rule", k.dpat->dump().c_str(), after.dump().c_str(), e.canvas.dump().c_str());
        });
        return;
      }
    }
  }
  if ((k.v == V_CUSTOM32 || k.v == V_CUSTOM64) && g_custom_calls != e.naff) {
    r.fail(string(kk) + ":callback-count", [&] { return what() + vf::fmt(": per-pixel callback ran %llu times, clipped rectangle has %zu pixels", (unsigned long long)g_custom_calls, e.naff); });
    return;
  }
  if (k.v == V_MASK_IMG && !e.mask_covered) k.cls[BlitCtx::C_MASK_UNCOV_OK]++;
  else if (e.naff == 0) k.cls[BlitCtx::C_NOTHING]++;
  else if (e.naff == (size_t)std::min<ll>(c.w < 0 ? k.spat->w : c.w, 1 << 20) * (size_t)std::min<ll>(c.h < 0 ? k.spat->h : c.h, 1 << 20)) k.cls[BlitCtx::C_WHOLE]++;
  else k.cls[BlitCtx::C_PARTIAL]++;
}

vector<std::pair<int, int>> mask_sizes(int sw, int sh, bool all) {
  // per axis: one smaller, equal, one larger than the source (quick: smaller and equal on both axes)
  vector<std::pair<int, int>> v;
  int ws[3] = {std::max(sw - 1, 0), sw, sw + 1}, hs[3] = {std::max(sh - 1, 0), sh, sh + 1};
  for (int i = 0; i < 3; i++)
    for (int j = 0; j < 3; j++)
      if (all || (i == j && i < 2)) v.push_back({ws[i], hs[j]});
  return v;
}

// full six-parameter product for one (variant, sizes, alpha modes, channel width)
void blit_product(vf::Run& r, int v, int dw, int dh, int sw, int sh, bool da, bool sa, int cw, bool all_masks, int margin, int scw = -1) {
  if (scw < 0) scw = cw;
  Model dpat = pattern(dw, dh, da, cw, 0), spat = pattern(sw, sh, sa, scw, 1);
  Image dimg = make_image(dpat), simg = make_image(spat);
  auto msz = v == V_MASK_IMG ? mask_sizes(sw, sh, all_masks) : vector<std::pair<int, int>>{{0, 0}};
  for (auto [mw, mh] : msz) {
    Model mpat = pattern(mw, mh, false, scw, 2);
    Image mimg = make_image(mpat);
    BlitCtx k;
    k.v = v; k.dpat = &dpat; k.spat = &spat; k.mpat = v == V_MASK_IMG ? &mpat : nullptr;
    k.dimg = &dimg; k.simg = &simg; k.mimg = &mimg;
    k.colour = cw == 8 && scw == 8;
    k.prepare();
    int wmax = std::max(dw, sw) + margin, hmax = std::max(dh, sh) + margin;
    Call c;
    for (c.x = -margin; c.x <= dw + margin; c.x++)
      for (c.y = -margin; c.y <= dh + margin; c.y++)
        for (c.sx = -margin; c.sx <= sw + margin; c.sx++)
          for (c.sy = -margin; c.sy <= sh + margin; c.sy++)
            for (c.w = -1; c.w <= wmax; c.w++)
              for (c.h = -1; c.h <= hmax; c.h++) {
                if (!r.take()) continue;
                if (r.wants_desc()) r.desc(call_str(v, dpat, spat, k.mpat, c));
                judge_blit(r, k, c);
              }
    k.flush(r);
  }
}

const int BLIT_VARIANTS[8] = {V_BLIT, V_MASK_KEY, V_MASK_DST, V_MASK_IMG, V_BLEND, V_BLEND_ALPHA, V_CUSTOM32, V_CUSTOM64};

// ---------------------------------------------------------------------------------------------
// whole-image transform models

bool g_invert_touches_alpha = true;  // library convention, probed once (see notes)

Model m_reverse_h(const Model& m) { Model o = m; for (int y = 0; y < m.h; y++) for (int x = 0; x < m.w; x++) o.p[(size_t)y * m.w + x] = m.at(m.w - 1 - x, y); return o; }
Model m_reverse_v(const Model& m) { Model o = m; for (int y = 0; y < m.h; y++) for (int x = 0; x < m.w; x++) o.p[(size_t)y * m.w + x] = m.at(x, m.h - 1 - y); return o; }
Model m_invert(const Model& m) {
  Model o = m;
  for (auto& q : o.p) {
    for (int c = 0; c < 3; c++) q.c[c] = m.maxv() - q.c[c];
    if (m.alpha && g_invert_touches_alpha) q.c[3] = m.maxv() - q.c[3];
  }
  return o;
}
Model m_set_alpha(const Model& m, bool a) {
  if (m.alpha == a) return m;
  Model o = m;
  o.alpha = a;
  for (auto& q : o.p) q.c[3] = m.maxv();  // added channel is opaque; dropped channel reads as max_value
  return o;
}
Model m_set_width(const Model& m, int nw) {
  if (m.cw == nw) return m;
  Model o = m;
  o.cw = nw;
  for (auto& q : o.p)
    for (int c = 0; c < 4; c++) {
      uint64_t v = q.c[c];
      if (nw > m.cw) {  // Image.cc: "expand the channels by copying the now-high bits to the lower bits"
        uint64_t out = 0;
        for (int s = 0; s < nw; s += m.cw) out |= v << s;
        q.c[c] = out;
      } else q.c[c] = v >> (m.cw - nw);  // "preserve only the high bits"
    }
  if (!o.alpha) for (auto& q : o.p) q.c[3] = o.maxv();
  return o;
}

// probes the one convention the statement leaves open: does invert() also invert the alpha channel?
inline void probe_invert_convention() {
  Model one = pattern(1, 1, true, 8, 0);
  one.p[0].c[3] = 0x10;
  Image i1 = make_image(one);
  i1.invert();
  g_invert_touches_alpha = model_of(i1).p[0].c[3] != 0x10;
}

}  // namespace
