// C11 — base64 / rot13 / escape_url / escape_controls / escape_quotes / netloc: exact inverses, strict.
//
// E-ENUM.  Reference models (all written here, none copied from the library):
//   * RFC 4648 encoder and a strict decoder (length % 4, alphabet membership, padding placement)
//   * rot13 by modular arithmetic on letter indices
//   * percent-decoder and a C-style unescaper (exactly two hex digits after \x, as the library documents
//     by its "\x%02X" format)
//   * netloc: the (host, port) pair itself
// Inputs that reach base64_decode are exact-size heap copies (ASan red zone after the last byte).
// The quick-tier case sets are also written to VF_OUTDIR and replayed through Python's
// base64 / codecs / urllib by oracles/C11.py.
#include <string.h>

#include <optional>
#include <string>
#include <vector>

#include "Encoding.hh"
#include "Network.hh"
#include "Strings.hh"
#include "vf.hh"

namespace {

const char* RFC_STD = "ABCDEFGHIJKLMNOPQRSTUVWXYZabcdefghijklmnopqrstuvwxyz0123456789+/";
const char* RFC_URL = "ABCDEFGHIJKLMNOPQRSTUVWXYZabcdefghijklmnopqrstuvwxyz0123456789-_";

enum Mode { M_DEFAULT, M_URLSAFE, M_EXPLICIT_STD, NMODES };
const char* mode_name[NMODES] = {"default alphabet (nullptr)", "URLSAFE_ALPHABET", "DEFAULT_ALPHABET passed explicitly"};
const char* lib_alphabet(int m) { return m == M_DEFAULT ? nullptr : (m == M_URLSAFE ? phosg::URLSAFE_ALPHABET : phosg::DEFAULT_ALPHABET); }
const char* rfc_alphabet(int m) { return m == M_URLSAFE ? RFC_URL : RFC_STD; }

std::string ref_encode(const std::string& in, const char* alpha) {
  std::string out;
  uint32_t acc = 0;
  int bits = 0;
  for (unsigned char c : in) {
    acc = (acc << 8) | c;
    bits += 8;
    while (bits >= 6) {
      bits -= 6;
      out += alpha[(acc >> bits) & 63];
    }
  }
  if (bits) out += alpha[(acc << (6 - bits)) & 63];
  while (out.size() % 4) out += '=';
  return out;
}

enum Verdict { V_OK, V_OK_NONCANONICAL, V_BAD_LENGTH, V_BAD_CHAR, V_BAD_PADDING };
const char* verdict_name[] = {"well-formed", "well-formed (non-canonical trailing bits)", "length not a multiple of 4", "character outside the alphabet", "padding not confined to the last one or two positions"};

struct RefDec {
  int16_t inv[2][256];
  RefDec() {
    for (int m = 0; m < 2; m++) {
      for (int i = 0; i < 256; i++) inv[m][i] = -1;
      const char* a = m ? RFC_URL : RFC_STD;
      for (int i = 0; i < 64; i++) inv[m][static_cast<unsigned char>(a[i])] = static_cast<int16_t>(i);
    }
  }
  // strict decoder; `out` is filled for V_OK / V_OK_NONCANONICAL (trailing bits ignored)
  Verdict decode(const std::string& s, bool urlsafe, std::string& out) const {
    out.clear();
    size_t n = s.size();
    if (n % 4) return V_BAD_LENGTH;
    const int16_t* t = inv[urlsafe ? 1 : 0];
    for (size_t i = 0; i < n; i++) {
      unsigned char c = static_cast<unsigned char>(s[i]);
      if (c != '=' && t[c] < 0) return V_BAD_CHAR;
    }
    size_t pad = 0;
    for (size_t i = 0; i < n; i++) {
      if (s[i] != '=') continue;
      if (i + 1 == n) pad = pad ? pad : 1;
      else if (i + 2 == n && s[n - 1] == '=') pad = 2;
      else return V_BAD_PADDING;
    }
    bool noncanon = false;
    uint32_t acc = 0;
    int bits = 0;
    for (size_t i = 0; i < n - pad; i++) {
      acc = (acc << 6) | static_cast<uint32_t>(t[static_cast<unsigned char>(s[i])]);
      bits += 6;
      if (bits >= 8) {
        bits -= 8;
        out += static_cast<char>((acc >> bits) & 0xFF);
      }
    }
    if (bits && (acc & ((1u << bits) - 1))) noncanon = true;
    return noncanon ? V_OK_NONCANONICAL : V_OK;
  }
};
const RefDec REF;

struct Out {
  FILE* f = nullptr;
  void open(vf::Run& r) {
    const char* d = getenv("VF_OUTDIR");
    if (r.only >= 0 || !d) return;
    f = fopen(vf::fmt("%s/%s.%llu.dat", d, r.section.c_str(), (unsigned long long)r.shard).c_str(), "a");
  }
  ~Out() {
    if (f) fclose(f);
  }
};
std::string hexs(const std::string& b) {
  static const char* d = "0123456789abcdef";
  std::string s;
  for (unsigned char c : b) {
    s += d[c >> 4];
    s += d[c & 15];
  }
  return s.empty() ? "-" : s;
}

std::string all256() {
  std::string a(256, 0);
  for (int i = 0; i < 256; i++) a[i] = static_cast<char>(i);
  return a;
}

// exact-size heap copy, no terminator
struct Exact {
  char* p;
  size_t n;
  explicit Exact(const std::string& s) : p(static_cast<char*>(malloc(s.size()))), n(s.size()) {
    if (n) memcpy(p, s.data(), n);
  }
  Exact(const Exact&) = delete;
  ~Exact() { free(p); }
};

// ---- base64 encode ----------------------------------------------------------------------------
void encode_case(vf::Run& r, Out& out, const std::string& x, int m, bool to_file) {
  std::string want = ref_encode(x, rfc_alphabet(m));
  Exact in(x);
  std::string got = phosg::base64_encode(in.p, in.n, lib_alphabet(m));
  std::string got_s = phosg::base64_encode(x, lib_alphabet(m));
  if (to_file && out.f) fprintf(out.f, "E %d %s %s\n", m, hexs(x).c_str(), got.empty() ? "-" : hexs(got).c_str());
  if (r.wants_desc()) r.desc(vf::fmt("base64_encode(%s, %s) and decode of the result", vf::show(x).c_str(), mode_name[m]));
  r.nontriv();
  if (got != want) {
    r.fail("base64_encode:wrong-encoding", [&] { return vf::fmt("base64_encode(%s, %s) = %s, RFC 4648 gives %s", vf::show(x).c_str(), mode_name[m], vf::show(got).c_str(), vf::show(want).c_str()); });
    return;
  }
  if (got_s != want) {
    r.fail("base64_encode:string-overload", [&] { return vf::fmt("base64_encode(std::string %s, %s) = %s, RFC 4648 gives %s", vf::show(x).c_str(), mode_name[m], vf::show(got_s).c_str(), vf::show(want).c_str()); });
    return;
  }
  std::string back, back_s, what;
  Exact enc(got);
  std::string oc = vf::outcome([&] { back = phosg::base64_decode(enc.p, enc.n, lib_alphabet(m)); back_s = phosg::base64_decode(got, lib_alphabet(m)); }, &what);
  if (oc != "ok") r.fail("base64_decode:rejects-valid", [&] { return vf::fmt("base64_decode(base64_encode(%s)) = decode(%s) with %s threw %s (%s)", vf::show(x).c_str(), vf::show(got).c_str(), mode_name[m], oc.c_str(), what.c_str()); });
  else if (back != x || back_s != x) r.fail("base64:roundtrip", [&] { return vf::fmt("base64_decode(base64_encode(%s)) with %s = %s / string overload %s", vf::show(x).c_str(), mode_name[m], vf::show(back).c_str(), vf::show(back_s).c_str()); });
  else r.ok(x.size() % 3 == 0 ? "encode=RFC4648,roundtrip(no padding)" : (x.size() % 3 == 1 ? "encode=RFC4648,roundtrip(==)" : "encode=RFC4648,roundtrip(=)"));
}

// ---- base64 strict decode ---------------------------------------------------------------------
void decode_case(vf::Run& r, Out* out, const std::string& s, int m, uint64_t* tally) {
  std::string want;
  Verdict v = REF.decode(s, m == M_URLSAFE, want);
  Exact in(s);
  std::string got, what;
  std::string oc = vf::outcome([&] { got = phosg::base64_decode(in.p, in.n, lib_alphabet(m)); }, &what);
  if (out && out->f) fprintf(out->f, "D %d %s %s %s\n", m, hexs(s).c_str(), v <= V_OK_NONCANONICAL ? hexs(want).c_str() : "!", oc == "ok" ? hexs(got).c_str() : (oc == "invalid_argument" ? "!" : "?"));
  if (r.wants_desc()) r.desc(vf::fmt("base64_decode(%s, %s): reference says %s", vf::show(s).c_str(), mode_name[m], verdict_name[v]));
  r.nontriv();
  auto d = [&] {
    return vf::fmt("base64_decode(%s, %s): input is %s; library %s", vf::show(s).c_str(), mode_name[m], verdict_name[v],
        oc == "ok" ? ("returned " + vf::show(got)).c_str() : ("threw " + oc + " (" + what + ")").c_str());
  };
  if (oc != "ok" && oc != "invalid_argument") {
    r.fail("base64_decode:wrong-exception-type", d);
    return;
  }
  switch (v) {
    case V_OK:
      if (oc != "ok") r.fail("base64_decode:rejects-valid", d);
      else if (got != want) r.fail("base64_decode:wrong-value", [&] { return d() + ", expected " + vf::show(want); });
      else tally[0]++;
      break;
    case V_OK_NONCANONICAL:  // accept/reject is a don't-care; an accepted value must still be the data bits
      if (oc == "ok" && got != want) r.fail("base64_decode:wrong-value", [&] { return d() + ", expected " + vf::show(want); });
      else tally[oc == "ok" ? 1 : 2]++;
      break;
    case V_BAD_LENGTH:
      if (oc == "ok") r.fail("base64_decode:accepts-length-not-multiple-of-4", d);
      else tally[3]++;
      break;
    case V_BAD_CHAR:
      if (oc == "ok") r.fail("base64_decode:accepts-non-alphabet-char", d);
      else tally[4]++;
      break;
    default:
      if (oc == "ok") r.fail("base64_decode:accepts-misplaced-padding", d);
      else tally[5]++;
      break;
  }
}
void flush_decode_tally(vf::Run& r, const uint64_t* t) {
  static const char* names[6] = {"decode:well-formed=reference-bytes", "decode:non-canonical-accepted(value checked)", "decode:non-canonical-rejected(dont-care)",
      "decode:bad-length->invalid_argument", "decode:non-alphabet-char->invalid_argument", "decode:misplaced-padding->invalid_argument"};
  for (int i = 0; i < 6; i++)
    if (t[i]) r.hist[names[i]] += t[i];
}

// ---- unescapers -------------------------------------------------------------------------------
int hexval(unsigned char c) {
  if (c >= '0' && c <= '9') return c - '0';
  if (c >= 'A' && c <= 'F') return c - 'A' + 10;
  if (c >= 'a' && c <= 'f') return c - 'a' + 10;
  return -1;
}
std::optional<std::string> percent_decode(const std::string& e) {
  std::string o;
  for (size_t i = 0; i < e.size(); i++) {
    if (e[i] != '%') {
      o += e[i];
      continue;
    }
    if (i + 2 >= e.size()) return std::nullopt;
    int h = hexval(static_cast<unsigned char>(e[i + 1])), l = hexval(static_cast<unsigned char>(e[i + 2]));
    if (h < 0 || l < 0) return std::nullopt;
    o += static_cast<char>(h * 16 + l);
    i += 2;
  }
  return o;
}
std::optional<std::string> c_unescape(const std::string& e) {
  std::string o;
  for (size_t i = 0; i < e.size(); i++) {
    if (e[i] != '\\') {
      o += e[i];
      continue;
    }
    if (i + 1 >= e.size()) return std::nullopt;
    char c = e[++i];
    switch (c) {
      case '\\': o += '\\'; break;
      case '"': o += '"'; break;
      case '\'': o += '\''; break;
      case 't': o += '\t'; break;
      case 'r': o += '\r'; break;
      case 'n': o += '\n'; break;
      case 'f': o += '\f'; break;
      case 'b': o += '\b'; break;
      case 'a': o += '\a'; break;
      case 'v': o += '\v'; break;
      case 'x': {
        if (i + 2 >= e.size()) return std::nullopt;
        int h = hexval(static_cast<unsigned char>(e[i + 1])), l = hexval(static_cast<unsigned char>(e[i + 2]));
        if (h < 0 || l < 0) return std::nullopt;
        o += static_cast<char>(h * 16 + l);
        i += 2;
        break;
      }
      default: return std::nullopt;
    }
  }
  return o;
}

bool url_unreserved(unsigned char c, bool escape_slash) {
  if ((c >= 'A' && c <= 'Z') || (c >= 'a' && c <= 'z') || (c >= '0' && c <= '9')) return true;
  if (c == '-' || c == '_' || c == '.' || c == '~' || c == '=' || c == '&') return true;
  return c == '/' && !escape_slash;
}

enum Esc { E_URL_KEEP_SLASH, E_URL_ESC_SLASH, E_CTRL_ASCII, E_CTRL_UTF8, E_QUOTES, NESC };
const char* esc_name[NESC] = {"escape_url(s, false)", "escape_url(s, true)", "escape_controls(s, true)", "escape_controls(s, false)", "escape_quotes(s)"};

void escape_case(vf::Run& r, Out& out, const std::string& s, int e, bool to_file, uint64_t* tally) {
  std::string got;
  switch (e) {
    case E_URL_KEEP_SLASH: got = phosg::escape_url(s, false); break;
    case E_URL_ESC_SLASH: got = phosg::escape_url(s, true); break;
    case E_CTRL_ASCII: got = phosg::escape_controls(s, true); break;
    case E_CTRL_UTF8: got = phosg::escape_controls(s, false); break;
    default: got = phosg::escape_quotes(s); break;
  }
  if (to_file && out.f && e <= E_URL_ESC_SLASH) fprintf(out.f, "U %d %s %s\n", e == E_URL_ESC_SLASH ? 1 : 0, hexs(s).c_str(), hexs(got).c_str());
  if (r.wants_desc()) r.desc(vf::fmt("%s with s = %s", esc_name[e], vf::show(s).c_str()));
  r.nontriv();
  auto d = [&] { return vf::fmt("%s with s = %s returned %s", esc_name[e], vf::show(s).c_str(), vf::show(got).c_str()); };
  if (e <= E_URL_ESC_SLASH) {
    bool slash = e == E_URL_ESC_SLASH;
    for (size_t i = 0; i < got.size(); i++) {
      unsigned char c = static_cast<unsigned char>(got[i]);
      if (c == '%') {
        if (i + 2 >= got.size()) { r.fail("escape_url:alphabet", [&] { return d() + ": truncated %XX"; }); return; }
        auto ishexu = [](unsigned char h) { return (h >= '0' && h <= '9') || (h >= 'A' && h <= 'F'); };
        if (!ishexu(got[i + 1]) || !ishexu(got[i + 2])) { r.fail("escape_url:alphabet", [&] { return d() + ": '%' not followed by two upper-case hex digits"; }); return; }
        i += 2;
      } else if (!url_unreserved(c, slash)) {
        r.fail("escape_url:alphabet", [&] { return d() + vf::fmt(": raw byte 0x%02X is outside [A-Za-z0-9-_.~=&%s]", c, slash ? "" : "/"); });
        return;
      }
    }
    auto back = percent_decode(got);
    if (!back || *back != s) { r.fail("escape_url:roundtrip", [&] { return d() + ", which percent-decodes to " + (back ? vf::show(*back) : std::string("(malformed)")); }); return; }
    tally[e]++;
  } else if (e <= E_CTRL_UTF8) {
    for (unsigned char c : got) {
      bool okc = (c >= 0x20 && c <= 0x7E) || (e == E_CTRL_UTF8 && c >= 0x80);
      if (!okc) { r.fail("escape_controls:alphabet", [&] { return d() + vf::fmt(": raw byte 0x%02X", c); }); return; }
    }
    auto back = c_unescape(got);
    if (!back || *back != s) { r.fail("escape_controls:roundtrip", [&] { return d() + ", which unescapes to " + (back ? vf::show(*back) : std::string("(malformed)")); }); return; }
    tally[e]++;
  } else {
    for (size_t i = 0; i < got.size(); i++) {
      unsigned char c = static_cast<unsigned char>(got[i]);
      if (c < 0x20 || c > 0x7E) { r.fail("escape_quotes:non-printable", [&] { return d() + vf::fmt(": raw byte 0x%02X", c); }); return; }
      if (c == '"' && (i == 0 || got[i - 1] != '\\')) { r.fail("escape_quotes:raw-quote", [&] { return d() + vf::fmt(": quote at offset %zu is not preceded by a backslash", i); }); return; }
    }
    tally[e]++;
  }
}

}  // namespace

// ---------------------------------------------------------------------------------------------
VF_SECTION(b64_encode, 16, 16, 120) {
  Out out;
  out.open(r);
  r.note("base64_encode");
  if (r.take()) {
    r.nontriv();
    if (strcmp(phosg::DEFAULT_ALPHABET, RFC_STD) != 0 || strcmp(phosg::URLSAFE_ALPHABET, RFC_URL) != 0) r.fail("base64:alphabet-constants", [&] { return std::string("DEFAULT_ALPHABET / URLSAFE_ALPHABET differ from RFC 4648 tables 1 and 2"); });
    else r.ok("alphabet constants = RFC 4648 tables");
  }
  std::string a256 = all256();
  vf::all_strings(a256, 2, [&](const std::string& x) {
    for (int m = 0; m < NMODES; m++) {
      if (!r.take()) continue;
      encode_case(r, out, x, m, true);
    }
  });
  // length 3: quick = all strings over 16 lane bytes, thorough = all 2^24
  if (r.thorough()) {
    std::string x(3, 0);
    for (uint32_t v = 0; v < (1u << 24); v++) {
      for (int m = 0; m < 2; m++) {
        if (!r.take()) continue;
        x[0] = static_cast<char>(v & 0xFF);
        x[1] = static_cast<char>((v >> 8) & 0xFF);
        x[2] = static_cast<char>((v >> 16) & 0xFF);
        encode_case(r, out, x, m, false);
      }
    }
  } else {
    std::string lanes("\x00\x01\x03\x0F\x3F\x40\x7F\x80\xBF\xC0\xF0\xFB\xFC\xFE\xFF\x61", 16);
    std::string x(3, 0);
    for (int i = 0; i < 16 * 16 * 16; i++) {
      for (int m = 0; m < 2; m++) {
        if (!r.take()) continue;
        x[0] = lanes[i & 15];
        x[1] = lanes[(i >> 4) & 15];
        x[2] = lanes[(i >> 8) & 15];
        encode_case(r, out, x, m, true);
      }
    }
  }
  // longer inputs: all strings of length 4..8 over {00, FF, 'a', FB}
  std::string a4("\x00\xFF\x61\xFB", 4);
  for (size_t len = 4; len <= 8; len++) {
    std::string x(len, 0);
    for (uint32_t k = 0; k < (1u << (2 * len)); k++) {
      for (int m = 0; m < 2; m++) {
        if (!r.take()) continue;
        for (size_t i = 0; i < len; i++) x[i] = a4[(k >> (2 * i)) & 3];
        encode_case(r, out, x, m, false);
      }
    }
  }
  r.bound = r.thorough() ? "all byte strings of length 0..2 x 3 alphabet modes; ALL 2^24 strings of length 3 x 2 alphabets; all strings of length 4..8 over {00,FF,'a',FB} x 2 alphabets"
                         : "all byte strings of length 0..2 x 3 alphabet modes; all length-3 strings over 16 lane bytes x 2 alphabets; all strings of length 4..8 over {00,FF,'a',FB} x 2 alphabets";
}

VF_SECTION(b64_strict4, 8, 8, 120) {
  Out out;
  out.open(r);
  r.note("base64_decode");
  uint64_t tally[6] = {0};
  std::string R15("ABQz9+/-_=! \x00\x80\xFF", 15);
  for (int m = 0; m < 2; m++) {
    // lengths 0..4 (lengths 1..3 are the not-a-multiple-of-4 class), shortest first
    vf::all_strings(R15, 4, [&](const std::string& s) {
      if (!r.take()) return;
      decode_case(r, &out, s, m, tally);
    });
  }
  flush_decode_tally(r, tally);
  r.bound = "all strings of length 0..4 over the 15 symbols {A,B,Q,z,9,+,/,-,_,=,!,space,NUL,0x80,0xFF} (54241) x {default, URL-safe} alphabet";
}

VF_SECTION(b64_strict8, 16, 16, 120) {
  r.note("base64_decode");
  uint64_t tally[6] = {0};
  std::string R6("AQ=!/-", 6);
  for (int m = 0; m < 2; m++) {
    for (size_t len = 5; len <= 8; len++) {
      uint64_t total = 1;
      for (size_t i = 0; i < len; i++) total *= 6;
      std::string s(len, 'A');
      for (uint64_t k = 0; k < total; k++) {
        if (!r.take()) continue;
        uint64_t x = k;
        for (size_t i = 0; i < len; i++) {
          s[len - 1 - i] = R6[x % 6];
          x /= 6;
        }
        decode_case(r, nullptr, s, m, tally);
      }
    }
  }
  flush_decode_tally(r, tally);
  r.bound = "all strings of length 5..8 over {A,Q,=,!,/,-} (6^5+6^6+6^7+6^8 = 2 015 280; the 1 679 616 of length 8 are two-block inputs) x {default, URL-safe} alphabet";
}

VF_SECTION(b64_corrupt, 16, 16, 180) {
  r.note("base64_decode");
  uint64_t tally[6] = {0};
  std::string a4("\x00\xFF\x61\xFB", 4);
  // quick: inputs of length 1..4 over 4 symbols and of length 5..6 over the 2 symbols {00, FB};
  // thorough: inputs of length 1..6 over 4 symbols and of length 7..9 (three encoded blocks) over
  // {00, FB}.  (Rejected inputs cost a C++ throw each, ~6 us under ASan.)
  size_t maxlen = r.thorough() ? 9 : 6;
  size_t full_upto = r.thorough() ? 6 : 4;
  for (int m = 0; m < 2; m++) {
    for (size_t len = 1; len <= maxlen; len++) {
      int bits_per_sym = len > full_upto ? 1 : 2;
      std::string x(len, 0);
      for (uint32_t k = 0; k < (1u << (bits_per_sym * len)); k++) {
        for (size_t i = 0; i < len; i++) x[i] = bits_per_sym == 2 ? a4[(k >> (2 * i)) & 3] : a4[((k >> i) & 1) * 3];
        std::string enc = ref_encode(x, rfc_alphabet(m));
        for (size_t pos = 0; pos < enc.size(); pos++) {
          char orig = enc[pos];
          for (int c = 0; c < 256; c++) {
            if (!r.take()) continue;
            enc[pos] = static_cast<char>(c);
            decode_case(r, nullptr, enc, m, tally);
          }
          enc[pos] = orig;
        }
      }
    }
  }
  flush_decode_tally(r, tally);
  r.bound = r.thorough() ? "every single-byte substitution (256 values x every position, the identity included) of the RFC 4648 encoding of every input of length 1..6 over {00,FF,'a',FB} and of length 7..9 over {00,FB} x {default, URL-safe} alphabet"
                         : "every single-byte substitution (256 values x every position, the identity included) of the RFC 4648 encoding of every input of length 1..4 over {00,FF,'a',FB} and of length 5..6 over {00,FB} x {default, URL-safe} alphabet";
}

VF_SECTION(rot13, 4, 4, 120) {
  Out out;
  out.open(r);
  r.note("rot13");
  uint64_t okc = 0;
  std::string a256 = all256();
  vf::all_strings(a256, 2, [&](const std::string& s) {
    if (!r.take()) return;
    Exact in(s);
    std::string got = phosg::rot13(in.p, in.n);
    if (out.f) fprintf(out.f, "R %s %s\n", hexs(s).c_str(), hexs(got).c_str());
    if (r.wants_desc()) r.desc(vf::fmt("rot13(%s)", vf::show(s).c_str()));
    r.nontriv();
    std::string want = s;
    for (auto& ch : want) {
      unsigned char c = static_cast<unsigned char>(ch);
      if (c >= 'a' && c <= 'z') ch = static_cast<char>('a' + (c - 'a' + 13) % 26);
      else if (c >= 'A' && c <= 'Z') ch = static_cast<char>('A' + (c - 'A' + 13) % 26);
    }
    if (got != want) {
      r.fail("rot13:wrong-value", [&] { return vf::fmt("rot13(%s) = %s, expected %s", vf::show(s).c_str(), vf::show(got).c_str(), vf::show(want).c_str()); });
      return;
    }
    std::string twice = phosg::rot13(got.data(), got.size());
    if (twice != s) r.fail("rot13:not-involution", [&] { return vf::fmt("rot13(rot13(%s)) = %s", vf::show(s).c_str(), vf::show(twice).c_str()); });
    else okc++;
  });
  r.hist["rot13:letters-rotated,others-unchanged,involution"] += okc;
  r.bound = "all byte strings of length 0..2 (65 793)";
}

VF_SECTION(escapes, 16, 16, 120) {
  Out out;
  out.open(r);
  r.note("escape");
  uint64_t tally[NESC] = {0};
  std::string a256 = all256();
  for (int e = 0; e < NESC; e++) {
    r.note(esc_name[e]);
    vf::all_strings(a256, 2, [&](const std::string& s) {
      if (!r.take()) return;
      escape_case(r, out, s, e, true, tally);
    });
    std::string a12("a4x/%\"\\\n\x00\x7F\x80\xFF", 12);
    for (size_t len = 3; len <= 4; len++) {
      uint32_t total = len == 3 ? 12 * 12 * 12 : 12 * 12 * 12 * 12;
      std::string s(len, 0);
      for (uint32_t k = 0; k < total; k++) {
        if (!r.take()) continue;
        uint32_t x = k;
        for (size_t i = 0; i < len; i++) {
          s[len - 1 - i] = a12[x % 12];
          x /= 12;
        }
        escape_case(r, out, s, e, true, tally);
      }
    }
  }
  for (int e = 0; e < NESC; e++) r.hist[std::string(esc_name[e]) + (e == E_QUOTES ? ":printable,no-raw-quote" : ":alphabet-ok,decodes-to-input")] += tally[e];
  r.bound = "escape_url(slash in {0,1}), escape_controls(non_ascii in {0,1}), escape_quotes: all byte strings of length 0..2 (65 793) + all strings of length 3..4 over {a,4,x,/,%,\",\\,LF,NUL,7F,80,FF} (22 464)";
}

VF_SECTION(netloc, 16, 16, 120) {
  r.note("netloc");
  uint64_t ok0 = 0, okp = 0, okd = 0;
  std::string alpha("a.-[] 1", 7);
  std::vector<std::string> hosts;
  vf::all_strings(alpha, 3, [&](const std::string& h) {
    if (!h.empty()) hosts.push_back(h);
  });
  for (const auto& h : hosts) {
    for (int port = 0; port <= 65535; port++) {
      if (!r.take()) continue;
      if (r.wants_desc()) r.desc(vf::fmt("parse_netloc(render_netloc(%s, %d), 0)", vf::show(h).c_str(), port));
      r.nontriv();
      std::string rendered, what;
      std::pair<std::string, uint16_t> back;
      std::string oc = vf::outcome([&] { rendered = phosg::render_netloc(h, port); back = phosg::parse_netloc(rendered, 0); }, &what);
      if (oc != "ok") r.fail("netloc:throws", [&] { return vf::fmt("render/parse of (%s, %d) threw %s (%s); rendered form %s", vf::show(h).c_str(), port, oc.c_str(), what.c_str(), vf::show(rendered).c_str()); });
      else if (back.first != h || back.second != port) r.fail("netloc:roundtrip", [&] { return vf::fmt("render_netloc(%s, %d) = %s parses back to (%s, %u)", vf::show(h).c_str(), port, vf::show(rendered).c_str(), vf::show(back.first).c_str(), (unsigned)back.second); });
      else (port ? okp : ok0)++;
    }
  }
  // an explicit port wins over a non-zero default
  for (const auto& h : hosts) {
    if (h.size() > 1) continue;
    for (int port = 1; port <= 65535; port++) {
      if (!r.take()) continue;
      r.nontriv();
      std::pair<std::string, uint16_t> back;
      std::string rendered;
      std::string oc = vf::outcome([&] { rendered = phosg::render_netloc(h, port); back = phosg::parse_netloc(rendered, 65535); });
      if (oc != "ok" || back.first != h || back.second != port) r.fail("netloc:roundtrip-with-default", [&] { return vf::fmt("parse_netloc(render_netloc(%s, %d) = %s, default 65535): %s, (%s, %u)", vf::show(h).c_str(), port, vf::show(rendered).c_str(), oc.c_str(), vf::show(back.first).c_str(), (unsigned)back.second); });
      else okd++;
    }
  }
  r.hist["netloc:roundtrip(port 0, rendered without port)"] += ok0;
  r.hist["netloc:roundtrip(port 1..65535)"] += okp;
  r.hist["netloc:roundtrip(explicit port beats default 65535)"] += okd;
  r.bound = "hosts = all strings of length 1..3 over {a . - [ ] space 1} (399, colon-free, non-empty) x all ports 0..65535 with default_port 0; single-character hosts x ports 1..65535 with default_port 65535";
}

VF_MAIN()
