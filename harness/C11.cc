// C11 — base64 / rot13 / escape_url / escape_controls / escape_quotes / netloc: exact inverses, strict.
//
// E-ENUM.  Reference models (all written here, none copied from the library):
//   * RFC 4648 encoder and a strict decoder (length % 4, alphabet membership, padding placement)
//   * rot13 by modular arithmetic on letter indices
//   * percent-decoder and a C-style unescaper (exactly two hex digits after \x, as the library documents
//     by its "\x%02X" format)
//   * netloc: the (host, port) pair itself
// Inputs that reach base64_decode are exact-size heap copies (ASan red zone after the last byte).
// The quick-tier case sets are also written to VF_OUTDIR and replayed through Python's
// base64 / codecs / urllib by oracles/C11.py.
//
// Round 2 additions (see harness/C11.notes.md): every alphabet-passing form (nullptr, omitted argument, the two
// published pointers, a caller-owned buffer whose CONTENT is switched between calls), both overloads on every
// decode case, long inputs (every length 0..1100, block-size boundaries up to 2^20+1, unaligned pointers), corruption
// of long encodings at every position, inputs of 2^31..2^32+4 bytes, wrappers/defaulted arguments of the escapers, all
// byte values at every position of length-3 strings, wide netloc hosts/ports/defaults under every ambient errno, and
// HISTORIES: ordered pairs/triples of calls (state carried between calls), calls made in a catch handler, in a
// destructor during unwinding and on a fresh thread, and multi-function chains judged by their final result.
#include <ctype.h>
#include <errno.h>
#include <limits.h>
#include <locale.h>
#include <string.h>
#include <sys/mman.h>
#include <sys/wait.h>
#include <unistd.h>

#include <algorithm>
#include <functional>
#include <locale>
#include <optional>
#include <sstream>
#include <stdexcept>
#include <string>
#include <thread>
#include <vector>

#include "Encoding.hh"
#include "Network.hh"
#include "Strings.hh"
#include "vf.hh"

namespace {

const char* RFC_STD = "ABCDEFGHIJKLMNOPQRSTUVWXYZabcdefghijklmnopqrstuvwxyz0123456789+/";
const char* RFC_URL = "ABCDEFGHIJKLMNOPQRSTUVWXYZabcdefghijklmnopqrstuvwxyz0123456789-_";

// How the alphabet reaches the library.  M_BUF_*: ONE caller-owned buffer whose content is (re)written to the RFC
// table right before the call - the same address carries different alphabets over time, as an application that
// builds its alphabet in a local array does.  The demanded result depends on the table's content only.
enum Mode { M_DEFAULT, M_URLSAFE, M_EXPLICIT_STD, M_OMITTED, M_BUF_STD, M_BUF_URL, NMODES };
const char* mode_name[NMODES] = {"default alphabet (nullptr)", "URLSAFE_ALPHABET", "DEFAULT_ALPHABET passed explicitly", "alphabet argument omitted",
    "caller-owned buffer holding the standard alphabet", "caller-owned buffer holding the URL-safe alphabet"};
bool is_url(int m) { return m == M_URLSAFE || m == M_BUF_URL; }
const char* rfc_alphabet(int m) { return is_url(m) ? RFC_URL : RFC_STD; }
char g_alpha_buf[65];
const char* lib_alphabet(int m) {
  switch (m) {
    case M_URLSAFE: return phosg::URLSAFE_ALPHABET;
    case M_EXPLICIT_STD: return phosg::DEFAULT_ALPHABET;
    case M_BUF_STD:
    case M_BUF_URL:
      memcpy(g_alpha_buf, rfc_alphabet(m), 65);
      return g_alpha_buf;
    default: return nullptr;
  }
}
std::string L_enc_p(const void* p, size_t n, int m) { return m == M_OMITTED ? phosg::base64_encode(p, n) : phosg::base64_encode(p, n, lib_alphabet(m)); }
std::string L_enc_s(const std::string& x, int m) { return m == M_OMITTED ? phosg::base64_encode(x) : phosg::base64_encode(x, lib_alphabet(m)); }
std::string L_dec_p(const void* p, size_t n, int m) { return m == M_OMITTED ? phosg::base64_decode(p, n) : phosg::base64_decode(p, n, lib_alphabet(m)); }
std::string L_dec_s(const std::string& x, int m) { return m == M_OMITTED ? phosg::base64_decode(x) : phosg::base64_decode(x, lib_alphabet(m)); }

// ---- ambient text-conversion environment (round 5) ----------------------------------------------
// Every function of the property formats or parses numbers or classifies characters; what such code can silently
// depend on is the process-wide C++ locale (std::locale::global), the C locale (setlocale) and the calling thread's
// POSIX locale (uselocale).  The section `environments` enumerates these as a dimension; all other sections run with
// g_env == nullptr (nothing is touched).  An environment is installed immediately around the library call(s) of a
// case (EnvScope) and removed before the result is judged, so the engine's own output never runs under it.
struct GroupPunct : std::numpunct<char> {
  char sep, point;
  std::string grp;
  GroupPunct(char s, char p, std::string g) : sep(s), point(p), grp(std::move(g)) {}
  char do_thousands_sep() const override { return sep; }
  char do_decimal_point() const override { return point; }
  std::string do_grouping() const override { return grp; }
};
// a ctype<char> facet in the style of a single-byte national locale: every byte 0x80..0xFF is a printable letter
// (odd values upper case, even values lower case); bytes below 0x80 are classified as in the classic locale
const std::ctype<char>::mask* high_letters_table() {
  static std::ctype<char>::mask tab[std::ctype<char>::table_size];
  static bool done = false;
  if (!done) {
    const std::ctype<char>::mask* c = std::ctype<char>::classic_table();
    for (size_t i = 0; i < std::ctype<char>::table_size; i++) tab[i] = c[i];
    for (size_t i = 0x80; i < 0x100 && i < std::ctype<char>::table_size; i++)
      tab[i] = std::ctype_base::alpha | std::ctype_base::print | std::ctype_base::graph | ((i & 1) ? std::ctype_base::upper : std::ctype_base::lower);
    done = true;
  }
  return tab;
}
struct Env {
  std::string name;
  bool use_cpp = false;
  std::locale cpp;           // installed with std::locale::global
  std::string grouped_1234567;  // what an ostringstream must print for 1234567 under it ("" = not checked)
  bool high_letters = false;
  bool use_c = false;
  int cat = LC_ALL;
  std::string cname;         // setlocale(cat, cname)
  bool use_thread = false;
  int mask = 0;              // uselocale(newlocale(mask, cname, 0))
  locale_t thr = (locale_t)0;
  bool c_ctype_ascii = true;  // C isalnum() is true only for ASCII letters and digits under this environment
  // Switching the C locale costs ~10 us (setlocale looks the locale up each time), so environments that involve
  // setlocale (directly or through a named std::locale) are installed once per block of cases by the section
  // (EnvBlock); the others are installed around the library call(s) of every single case (EnvScope).
  bool block = false;
  void install() const {
    if (use_cpp) std::locale::global(cpp);
    if (use_c) setlocale(cat, cname.c_str());
    if (use_thread) uselocale(thr);
  }
  void remove() const {
    if (use_thread) uselocale(LC_GLOBAL_LOCALE);
    if (use_cpp) std::locale::global(std::locale::classic());  // for a named locale this also performs setlocale(LC_ALL, "C")
    if (use_c || block) setlocale(LC_ALL, "C");
  }
};
const Env* g_env = nullptr;
struct EnvScope {
  const Env* e;
  EnvScope() : e(g_env && !g_env->block ? g_env : nullptr) {
    if (e) e->install();
  }
  ~EnvScope() {
    if (e) e->remove();
  }
};
struct EnvBlock {
  const Env* e;
  explicit EnvBlock(const Env* env) : e(env && env->block ? env : nullptr) {
    if (e) e->install();
  }
  ~EnvBlock() {
    if (e) e->remove();
  }
};
// finding key / description under the current environment: a failure that appears only under a non-default
// environment carries that in its key (the classic environment is enumerated first and uses the plain key)
std::string K(const char* key) { return g_env ? std::string(key) + ":under-non-default-locale" : std::string(key); }
std::string envtag() { return g_env ? " [environment: " + g_env->name + "]" : std::string(); }

const char* cat_name(int cat) { return cat == LC_ALL ? "LC_ALL" : (cat == LC_NUMERIC ? "LC_NUMERIC" : (cat == LC_CTYPE ? "LC_CTYPE" : "LC_?")); }

// The enumerated environments; index 0 (nullptr in g_env) is the classic one.  C / thread locales are probed: every
// name of the list that setlocale accepts on this machine is enumerated (the list is fixed, the outcome of the probe
// is the same in every shard of a run).
const std::vector<Env>& environments(std::vector<std::string>* unavailable = nullptr) {
  static std::vector<Env>& v = *new std::vector<Env>();  // never destroyed: the locale_t objects stay reachable
  static std::vector<std::string> missing;
  static bool done = false;
  if (!done) {
    done = true;
    auto cpp = [&](const std::string& name, std::locale loc, const std::string& g, bool high) {
      Env e;
      e.name = "std::locale::global(" + name + ")";
      e.use_cpp = true;
      e.cpp = loc;
      e.grouped_1234567 = g;
      e.high_letters = high;
      v.push_back(e);
    };
    const std::locale& cl = std::locale::classic();
    cpp("classic + numpunct grouping \"\\3\", thousands_sep ','", std::locale(cl, new GroupPunct(',', '.', "\3")), "1,234,567", false);
    cpp("classic + numpunct grouping \"\\3\", thousands_sep '.', decimal_point ','", std::locale(cl, new GroupPunct('.', ',', "\3")), "1.234.567", false);
    cpp("classic + numpunct grouping \"\\1\", thousands_sep ' '", std::locale(cl, new GroupPunct(' ', '.', "\1")), "1 2 3 4 5 6 7", false);
    cpp("classic + numpunct grouping \"\\3\\2\", thousands_sep '\\''", std::locale(cl, new GroupPunct('\'', '.', "\3\2")), "12'34'567", false);
    cpp("classic + numpunct decimal_point ',' without grouping", std::locale(cl, new GroupPunct(',', ',', "")), "1234567", false);
    cpp("classic + ctype<char> classifying 0x80..0xFF as letters", std::locale(cl, new std::ctype<char>(high_letters_table(), false)), "1234567", true);
    cpp("classic + that ctype<char> + numpunct grouping \"\\3\" ','", std::locale(std::locale(cl, new std::ctype<char>(high_letters_table(), false)), new GroupPunct(',', '.', "\3")), "1,234,567", true);
    // C locales
    static const char* names[] = {"C", "C.utf8", "C.UTF-8", "", "en_US.UTF-8", "en_US.utf8", "en_US", "en_US.ISO-8859-1", "de_DE.UTF-8", "de_DE", "de_DE@euro", "fr_FR.UTF-8", "tr_TR.UTF-8", "ru_RU.UTF-8", "ja_JP.UTF-8", "hi_IN", "en_IN", "de_CH.UTF-8"};
    std::vector<std::string> resolved_seen = {"c"};  // what setlocale(LC_ALL, name) resolves to; plain "C" is the classic environment
    for (const char* n : names) {
      const char* res = setlocale(LC_ALL, n);
      std::string resolved = res ? res : "";
      bool ascii = true;
      if (res)
        for (int c = 0x80; c < 0x100; c++)
          if (isalnum(c) || isalnum(static_cast<char>(c))) ascii = false;
      setlocale(LC_ALL, "C");
      if (!res) {
        missing.push_back(n);
        continue;
      }
      bool first_c = std::string(n) == "C";
      bool from_environment = !*n;  // setlocale(LC_ALL, "") - what LANG / LC_* of the checking process select (deterministic under check.py)
      std::string norm;
      for (char c : resolved)
        if (c != '-') norm += static_cast<char>(tolower(static_cast<unsigned char>(c)));
      resolved = norm;
      bool dup = std::find(resolved_seen.begin(), resolved_seen.end(), resolved) != resolved_seen.end();
      if (dup && !first_c) continue;  // an alias of a locale already enumerated ("" -> C, C.UTF-8 -> C.utf8)
      resolved_seen.push_back(resolved);
      for (int cat : {LC_ALL, LC_NUMERIC, LC_CTYPE}) {
        if ((first_c || from_environment) && cat != LC_ALL) continue;
        Env e;
        e.name = vf::fmt("setlocale(%s, \"%s\")", cat_name(cat), n);
        e.use_c = true;
        e.cat = cat;
        e.cname = n;
        e.c_ctype_ascii = ascii || cat == LC_NUMERIC;
        e.block = true;
        v.push_back(e);
      }
      if (!first_c && !from_environment) {
        for (int mask : {LC_ALL_MASK}) {
          Env e;
          e.name = vf::fmt("uselocale(newlocale(LC_ALL_MASK, \"%s\")) on the calling thread", n);
          e.use_thread = true;
          e.mask = mask;
          e.cname = n;
          e.thr = newlocale(mask, n, (locale_t)0);
          e.c_ctype_ascii = ascii;
          if (e.thr) v.push_back(e);
        }
        // named C++ locale (std::locale::global of a named locale also performs setlocale(LC_ALL, name))
        try {
          Env e;
          e.name = vf::fmt("std::locale::global(std::locale(\"%s\"))", n);
          e.use_cpp = true;
          e.cpp = std::locale(n);
          e.c_ctype_ascii = ascii;
          e.block = true;
          v.push_back(e);
        } catch (const std::runtime_error&) {
        }
        // the application's usual start-up pair: both the C++ and the C locale non-default
        Env e;
        e.name = vf::fmt("std::locale::global(classic + numpunct grouping \"\\3\" ',') and setlocale(LC_ALL, \"%s\")", n);
        e.use_cpp = true;
        e.cpp = std::locale(cl, new GroupPunct(',', '.', "\3"));
        e.grouped_1234567 = "1,234,567";
        e.use_c = true;
        e.cat = LC_ALL;
        e.cname = n;
        e.c_ctype_ascii = ascii;
        e.block = true;
        v.push_back(e);
      }
    }
  }
  if (unavailable) *unavailable = missing;
  return v;
}
// Harness self-check: the environment really is in force where the library call is made.  "" = yes.
std::string env_not_established(const Env& e) {
  std::string bad;
  {
    e.install();
    if (e.use_cpp) {
      std::ostringstream o;
      o << 1234567;
      if (!e.grouped_1234567.empty() && o.str() != e.grouped_1234567) bad = "an ostringstream prints 1234567 as " + o.str();
      if (e.high_letters != std::isalpha(static_cast<char>(0xE9), std::locale())) bad = "std::isalpha(0xE9, std::locale()) is not what the installed ctype facet says";
    }
    if (e.use_c) {
      const char* cur = setlocale(e.cat, nullptr);
      const char* want = e.cname.empty() ? nullptr : e.cname.c_str();
      if (!cur || (want && std::string(cur) != want)) bad = std::string("setlocale(category, NULL) reports ") + (cur ? cur : "(null)");
    }
    if (e.use_thread && uselocale((locale_t)0) != e.thr) bad = "uselocale(0) is not the installed thread locale";
    e.remove();
  }
  if (bad.empty()) {
    std::ostringstream o;
    o << 1234567;
    const char* cur = setlocale(LC_ALL, nullptr);
    if (o.str() != "1234567" || !cur || std::string(cur) != "C" || uselocale((locale_t)0) != LC_GLOBAL_LOCALE) bad = "the classic environment was not restored after the scope";
  }
  return bad;
}

std::string ref_encode(const std::string& in, const char* alpha) {
  std::string out;
  out.reserve(in.size() / 3 * 4 + 4);
  uint32_t acc = 0;
  int bits = 0;
  for (unsigned char c : in) {
    acc = ((acc << 8) | c) & 0xFFFFFF;
    bits += 8;
    while (bits >= 6) {
      bits -= 6;
      out += alpha[(acc >> bits) & 63];
    }
  }
  if (bits) out += alpha[(acc << (6 - bits)) & 63];
  while (out.size() % 4) out += '=';
  return out;
}

enum Verdict { V_OK, V_OK_NONCANONICAL, V_BAD_LENGTH, V_BAD_CHAR, V_BAD_PADDING };
const char* verdict_name[] = {"well-formed", "well-formed (non-canonical trailing bits)", "length not a multiple of 4", "character outside the alphabet", "padding not confined to the last one or two positions"};

struct RefDec {
  int16_t inv[2][256];
  RefDec() {
    for (int m = 0; m < 2; m++) {
      for (int i = 0; i < 256; i++) inv[m][i] = -1;
      const char* a = m ? RFC_URL : RFC_STD;
      for (int i = 0; i < 64; i++) inv[m][static_cast<unsigned char>(a[i])] = static_cast<int16_t>(i);
    }
  }
  // strict decoder; `out` is filled for V_OK / V_OK_NONCANONICAL (trailing bits ignored)
  Verdict decode(const std::string& s, bool urlsafe, std::string& out) const {
    out.clear();
    size_t n = s.size();
    if (n % 4) return V_BAD_LENGTH;
    const int16_t* t = inv[urlsafe ? 1 : 0];
    for (size_t i = 0; i < n; i++) {
      unsigned char c = static_cast<unsigned char>(s[i]);
      if (c != '=' && t[c] < 0) return V_BAD_CHAR;
    }
    size_t pad = 0;
    for (size_t i = 0; i < n; i++) {
      if (s[i] != '=') continue;
      if (i + 1 == n) pad = pad ? pad : 1;
      else if (i + 2 == n && s[n - 1] == '=') pad = 2;
      else return V_BAD_PADDING;
    }
    bool noncanon = false;
    uint32_t acc = 0;
    int bits = 0;
    for (size_t i = 0; i < n - pad; i++) {
      acc = ((acc << 6) | static_cast<uint32_t>(t[static_cast<unsigned char>(s[i])])) & 0xFFFFFF;
      bits += 6;
      if (bits >= 8) {
        bits -= 8;
        out += static_cast<char>((acc >> bits) & 0xFF);
      }
    }
    if (bits && (acc & ((1u << bits) - 1))) noncanon = true;
    return noncanon ? V_OK_NONCANONICAL : V_OK;
  }
};
const RefDec REF;

struct Out {
  FILE* f = nullptr;
  void open(vf::Run& r) {
    const char* d = getenv("VF_OUTDIR");
    if (r.only >= 0 || !d) return;
    f = fopen(vf::fmt("%s/%s.%llu.dat", d, r.section.c_str(), (unsigned long long)r.shard).c_str(), "a");
  }
  ~Out() {
    if (f) fclose(f);
  }
};
std::string hexs(const std::string& b) {
  static const char* d = "0123456789abcdef";
  std::string s;
  for (unsigned char c : b) {
    s += d[c >> 4];
    s += d[c & 15];
  }
  return s.empty() ? "-" : s;
}

std::string all256() {
  std::string a(256, 0);
  for (int i = 0; i < 256; i++) a[i] = static_cast<char>(i);
  return a;
}

// description of a possibly long byte string
std::string brief(const std::string& s) {
  if (s.size() <= 48) return vf::show(s);
  return vf::fmt("<%zu bytes: ", s.size()) + vf::show(s.substr(0, 16)) + " ... " + vf::show(s.substr(s.size() - 8)) + ">";
}
size_t first_diff(const std::string& a, const std::string& b) {
  size_t i = 0;
  while (i < a.size() && i < b.size() && a[i] == b[i]) i++;
  return i;
}

// Deterministic fill patterns for inputs longer than the exhaustive range (fixed sequences, not samples):
// 0: all 00, 1: all FF, 2: the counter 7i+3 (every byte value, every 3-byte lane alignment), 3: a fixed LCG stream,
// 4: counter starting at `seed`
std::string pattern(int k, size_t len, unsigned seed = 0) {
  std::string s(len, 0);
  uint32_t x = 12345 + seed;
  for (size_t i = 0; i < len; i++) {
    switch (k) {
      case 0: s[i] = 0; break;
      case 1: s[i] = static_cast<char>(0xFF); break;
      case 2: s[i] = static_cast<char>((i * 7 + 3) & 0xFF); break;
      case 3:
        x = x * 1103515245u + 12345u;
        s[i] = static_cast<char>((x >> 16) & 0xFF);
        break;
      default: s[i] = static_cast<char>((i + seed) & 0xFF); break;
    }
  }
  return s;
}

// exact-size heap copy (optionally misaligned by `off` bytes), no terminator: the byte after the last one is an
// ASan red zone
struct Exact {
  char* base;
  char* p;
  size_t n;
  explicit Exact(const std::string& s, size_t off = 0) : base(static_cast<char*>(malloc(s.size() + off))), p(base + off), n(s.size()) {
    if (n) memcpy(p, s.data(), n);
  }
  Exact(const Exact&) = delete;
  ~Exact() { free(base); }
};

// ---- base64 encode ----------------------------------------------------------------------------
void encode_case(vf::Run& r, Out& out, const std::string& x, int m, bool to_file, size_t off = 0) {
  std::string want = ref_encode(x, rfc_alphabet(m));
  Exact in(x, off);
  if (r.wants_desc()) r.desc(vf::fmt("base64_encode(%s, %s) [input pointer misaligned by %zu] and decode of the result", brief(x).c_str(), mode_name[m], off) + envtag());
  r.poison_errno();
  std::string got, got_s;
  {
    EnvScope es;
    got = L_enc_p(in.p, in.n, m);
    got_s = L_enc_s(x, m);
  }
  if (to_file && out.f) fprintf(out.f, "E %d %s %s\n", is_url(m) ? 1 : 0, hexs(x).c_str(), got.empty() ? "-" : hexs(got).c_str());
  r.nontriv();
  if (got != want) {
    r.fail(K("base64_encode:wrong-encoding"), [&] { return vf::fmt("base64_encode(%s, %s) = %s, RFC 4648 gives %s (first difference at offset %zu)", brief(x).c_str(), mode_name[m], brief(got).c_str(), brief(want).c_str(), first_diff(got, want)) + envtag(); });
    return;
  }
  if (got_s != want) {
    r.fail(K("base64_encode:string-overload"), [&] { return vf::fmt("base64_encode(std::string %s, %s) = %s, RFC 4648 gives %s", brief(x).c_str(), mode_name[m], brief(got_s).c_str(), brief(want).c_str()) + envtag(); });
    return;
  }
  std::string back, back_s, what;
  Exact enc(got, off);
  std::string oc;
  {
    EnvScope es;
    oc = vf::outcome([&] { back = L_dec_p(enc.p, enc.n, m); back_s = L_dec_s(got, m); }, &what);
  }
  if (oc != "ok") r.fail(K("base64_decode:rejects-valid"), [&] { return vf::fmt("base64_decode(base64_encode(%s)) = decode(%s) with %s threw %s (%s)", brief(x).c_str(), brief(got).c_str(), mode_name[m], oc.c_str(), what.c_str()) + envtag(); });
  else if (back != x || back_s != x) r.fail(K("base64:roundtrip"), [&] { return vf::fmt("base64_decode(base64_encode(%s)) with %s = %s / string overload %s", brief(x).c_str(), mode_name[m], brief(back).c_str(), brief(back_s).c_str()) + envtag(); });
  else r.ok(x.size() % 3 == 0 ? "encode=RFC4648,roundtrip(no padding)" : (x.size() % 3 == 1 ? "encode=RFC4648,roundtrip(==)" : "encode=RFC4648,roundtrip(=)"));
}

// ---- base64 strict decode ---------------------------------------------------------------------
// Both overloads are called on every case: (pointer, size) on an exact-size copy and std::string.
void decode_case(vf::Run& r, Out* out, const std::string& s, int m, uint64_t* tally, size_t off = 0) {
  std::string want;
  Verdict v = REF.decode(s, is_url(m), want);
  Exact in(s, off);
  std::string got, what, got_s, what_s;
  if (r.wants_desc()) r.desc(vf::fmt("base64_decode(%s, %s): reference says %s", brief(s).c_str(), mode_name[m], verdict_name[v]) + envtag());
  r.poison_errno();
  std::string oc, oc_s;
  {
    EnvScope es;
    oc = vf::outcome([&] { got = L_dec_p(in.p, in.n, m); }, &what);
    oc_s = vf::outcome([&] { got_s = L_dec_s(s, m); }, &what_s);
  }
  if (out && out->f) fprintf(out->f, "D %d %s %s %s\n", is_url(m) ? 1 : 0, hexs(s).c_str(), v <= V_OK_NONCANONICAL ? hexs(want).c_str() : "!", oc == "ok" ? hexs(got).c_str() : (oc == "invalid_argument" ? "!" : "?"));
  r.nontriv();
  auto d = [&] {
    return vf::fmt("base64_decode(%s, %s): input is %s; library %s", brief(s).c_str(), mode_name[m], verdict_name[v],
        oc == "ok" ? ("returned " + brief(got)).c_str() : ("threw " + oc + " (" + what + ")").c_str()) + envtag();
  };
  if (oc != "ok" && oc != "invalid_argument") {
    r.fail(K("base64_decode:wrong-exception-type"), d);
    return;
  }
  int cls;
  switch (v) {
    case V_OK:
      if (oc != "ok") { r.fail(K("base64_decode:rejects-valid"), d); return; }
      if (got != want) { r.fail(K("base64_decode:wrong-value"), [&] { return d() + ", expected " + brief(want); }); return; }
      cls = 0;
      break;
    case V_OK_NONCANONICAL:  // accept/reject is a don't-care; an accepted value must still be the data bits
      if (oc == "ok" && got != want) { r.fail(K("base64_decode:wrong-value"), [&] { return d() + ", expected " + brief(want); }); return; }
      cls = oc == "ok" ? 1 : 2;
      break;
    case V_BAD_LENGTH:
      if (oc == "ok") { r.fail(K("base64_decode:accepts-length-not-multiple-of-4"), d); return; }
      cls = 3;
      break;
    case V_BAD_CHAR:
      if (oc == "ok") { r.fail(K("base64_decode:accepts-non-alphabet-char"), d); return; }
      cls = 4;
      break;
    default:
      if (oc == "ok") { r.fail(K("base64_decode:accepts-misplaced-padding"), d); return; }
      cls = 5;
      break;
  }
  // the std::string overload must behave exactly like the (pointer, size) overload just judged
  if (oc_s != oc || (oc == "ok" && got_s != got)) {
    r.fail(K("base64_decode:string-overload-differs"), [&] {
      return d() + "; the std::string overload " + (oc_s == "ok" ? "returned " + brief(got_s) : "threw " + oc_s + " (" + what_s + ")");
    });
    return;
  }
  tally[cls]++;
}
void flush_decode_tally(vf::Run& r, const uint64_t* t) {
  static const char* names[6] = {"decode:well-formed=reference-bytes", "decode:non-canonical-accepted(value checked)", "decode:non-canonical-rejected(dont-care)",
      "decode:bad-length->invalid_argument", "decode:non-alphabet-char->invalid_argument", "decode:misplaced-padding->invalid_argument"};
  for (int i = 0; i < 6; i++)
    if (t[i]) r.hist[names[i]] += t[i];
}

// ---- rot13 ------------------------------------------------------------------------------------
std::string ref_rot13(const std::string& s) {
  std::string want = s;
  for (auto& ch : want) {
    unsigned char c = static_cast<unsigned char>(ch);
    if (c >= 'a' && c <= 'z') ch = static_cast<char>('a' + (c - 'a' + 13) % 26);
    else if (c >= 'A' && c <= 'Z') ch = static_cast<char>('A' + (c - 'A' + 13) % 26);
  }
  return want;
}
bool rot13_case(vf::Run& r, Out* out, const std::string& s, size_t off = 0) {
  Exact in(s, off);
  if (r.wants_desc()) r.desc(vf::fmt("rot13(%s) [pointer misaligned by %zu]", brief(s).c_str(), off) + envtag());
  r.poison_errno();
  std::string got;
  {
    EnvScope es;
    got = phosg::rot13(in.p, in.n);
  }
  if (out && out->f) fprintf(out->f, "R %s %s\n", hexs(s).c_str(), hexs(got).c_str());
  r.nontriv();
  std::string want = ref_rot13(s);
  if (got != want) {
    r.fail(K("rot13:wrong-value"), [&] { return vf::fmt("rot13(%s) = %s, expected %s (first difference at offset %zu)", brief(s).c_str(), brief(got).c_str(), brief(want).c_str(), first_diff(got, want)) + envtag(); });
    return false;
  }
  Exact mid(got, off);
  std::string twice;
  {
    EnvScope es;
    twice = phosg::rot13(mid.p, mid.n);
  }
  if (twice != s) {
    r.fail(K("rot13:not-involution"), [&] { return vf::fmt("rot13(rot13(%s)) = %s", brief(s).c_str(), brief(twice).c_str()) + envtag(); });
    return false;
  }
  return true;
}

// ---- unescapers -------------------------------------------------------------------------------
int hexval(unsigned char c) {
  if (c >= '0' && c <= '9') return c - '0';
  if (c >= 'A' && c <= 'F') return c - 'A' + 10;
  if (c >= 'a' && c <= 'f') return c - 'a' + 10;
  return -1;
}
std::optional<std::string> percent_decode(const std::string& e) {
  std::string o;
  for (size_t i = 0; i < e.size(); i++) {
    if (e[i] != '%') {
      o += e[i];
      continue;
    }
    if (i + 2 >= e.size()) return std::nullopt;
    int h = hexval(static_cast<unsigned char>(e[i + 1])), l = hexval(static_cast<unsigned char>(e[i + 2]));
    if (h < 0 || l < 0) return std::nullopt;
    o += static_cast<char>(h * 16 + l);
    i += 2;
  }
  return o;
}
std::optional<std::string> c_unescape(const std::string& e) {
  std::string o;
  for (size_t i = 0; i < e.size(); i++) {
    if (e[i] != '\\') {
      o += e[i];
      continue;
    }
    if (i + 1 >= e.size()) return std::nullopt;
    char c = e[++i];
    switch (c) {
      case '\\': o += '\\'; break;
      case '"': o += '"'; break;
      case '\'': o += '\''; break;
      case 't': o += '\t'; break;
      case 'r': o += '\r'; break;
      case 'n': o += '\n'; break;
      case 'f': o += '\f'; break;
      case 'b': o += '\b'; break;
      case 'a': o += '\a'; break;
      case 'v': o += '\v'; break;
      case 'x': {
        if (i + 2 >= e.size()) return std::nullopt;
        int h = hexval(static_cast<unsigned char>(e[i + 1])), l = hexval(static_cast<unsigned char>(e[i + 2]));
        if (h < 0 || l < 0) return std::nullopt;
        o += static_cast<char>(h * 16 + l);
        i += 2;
        break;
      }
      default: return std::nullopt;
    }
  }
  return o;
}

bool url_unreserved(unsigned char c, bool escape_slash) {
  if ((c >= 'A' && c <= 'Z') || (c >= 'a' && c <= 'z') || (c >= '0' && c <= '9')) return true;
  if (c == '-' || c == '_' || c == '.' || c == '~' || c == '=' || c == '&') return true;
  return c == '/' && !escape_slash;
}

// The first five are the base variants; the last three reach the same code through the defaulted argument and the
// two inline wrappers of Strings.hh and are judged like their base variant.
enum Esc { E_URL_KEEP_SLASH, E_URL_ESC_SLASH, E_CTRL_ASCII, E_CTRL_UTF8, E_QUOTES, E_URL_DEFAULTED, E_CTRL_ASCII_WRAPPER, E_CTRL_UTF8_WRAPPER, NESC };
const int NBASE = 5;
const char* esc_name[NESC] = {"escape_url(s, false)", "escape_url(s, true)", "escape_controls(s, true)", "escape_controls(s, false)", "escape_quotes(s)",
    "escape_url(s) [escape_slash defaulted]", "escape_controls_ascii(s)", "escape_controls_utf8(s)"};
int esc_base(int e) { return e == E_URL_DEFAULTED ? E_URL_KEEP_SLASH : (e == E_CTRL_ASCII_WRAPPER ? E_CTRL_ASCII : (e == E_CTRL_UTF8_WRAPPER ? E_CTRL_UTF8 : e)); }
std::string lib_escape(const std::string& s, int e) {
  switch (e) {
    case E_URL_KEEP_SLASH: return phosg::escape_url(s, false);
    case E_URL_ESC_SLASH: return phosg::escape_url(s, true);
    case E_CTRL_ASCII: return phosg::escape_controls(s, true);
    case E_CTRL_UTF8: return phosg::escape_controls(s, false);
    case E_QUOTES: return phosg::escape_quotes(s);
    case E_URL_DEFAULTED: return phosg::escape_url(s);
    case E_CTRL_ASCII_WRAPPER: return phosg::escape_controls_ascii(s);
    default: return phosg::escape_controls_utf8(s);
  }
}

// Decides one escaper result.  Returns nullptr when `got` satisfies the statement, else the finding key; `why` gets
// the reason.
const char* judge_escape(const std::string& s, int e, const std::string& got, std::string& why) {
  int b = esc_base(e);
  if (b <= E_URL_ESC_SLASH) {
    bool slash = b == E_URL_ESC_SLASH;
    for (size_t i = 0; i < got.size(); i++) {
      unsigned char c = static_cast<unsigned char>(got[i]);
      if (c == '%') {
        if (i + 2 >= got.size()) { why = ": truncated %XX"; return "escape_url:alphabet"; }
        auto ishexu = [](unsigned char h) { return (h >= '0' && h <= '9') || (h >= 'A' && h <= 'F'); };
        if (!ishexu(got[i + 1]) || !ishexu(got[i + 2])) { why = ": '%' not followed by two upper-case hex digits"; return "escape_url:alphabet"; }
        i += 2;
      } else if (!url_unreserved(c, slash)) {
        why = vf::fmt(": raw byte 0x%02X at offset %zu is outside [A-Za-z0-9-_.~=&%s]", c, i, slash ? "" : "/");
        return "escape_url:alphabet";
      }
    }
    auto back = percent_decode(got);
    if (!back || *back != s) { why = ", which percent-decodes to " + (back ? brief(*back) : std::string("(malformed)")); return "escape_url:roundtrip"; }
  } else if (b <= E_CTRL_UTF8) {
    for (size_t i = 0; i < got.size(); i++) {
      unsigned char c = static_cast<unsigned char>(got[i]);
      bool okc = (c >= 0x20 && c <= 0x7E) || (b == E_CTRL_UTF8 && c >= 0x80);
      if (!okc) { why = vf::fmt(": raw byte 0x%02X at offset %zu", c, i); return "escape_controls:alphabet"; }
    }
    auto back = c_unescape(got);
    if (!back || *back != s) { why = ", which unescapes to " + (back ? brief(*back) : std::string("(malformed)")); return "escape_controls:roundtrip"; }
  } else {
    for (size_t i = 0; i < got.size(); i++) {
      unsigned char c = static_cast<unsigned char>(got[i]);
      if (c < 0x20 || c > 0x7E) { why = vf::fmt(": raw byte 0x%02X at offset %zu", c, i); return "escape_quotes:non-printable"; }
      if (c == '"' && (i == 0 || got[i - 1] != '\\')) { why = vf::fmt(": quote at offset %zu is not preceded by a backslash", i); return "escape_quotes:raw-quote"; }
    }
  }
  return nullptr;
}

void escape_case(vf::Run& r, Out& out, const std::string& s, int e, bool to_file, uint64_t* tally) {
  if (r.wants_desc()) r.desc(vf::fmt("%s with s = %s", esc_name[e], brief(s).c_str()) + envtag());
  r.poison_errno();
  std::string got;
  {
    EnvScope es;
    got = lib_escape(s, e);
  }
  if (to_file && out.f) {
    if (e <= E_URL_ESC_SLASH) fprintf(out.f, "U %d %s %s\n", e == E_URL_ESC_SLASH ? 1 : 0, hexs(s).c_str(), hexs(got).c_str());
    else if (e <= E_CTRL_UTF8) fprintf(out.f, "C %d %s %s\n", e == E_CTRL_ASCII ? 1 : 0, hexs(s).c_str(), hexs(got).c_str());
  }
  r.nontriv();
  std::string why;
  const char* key = judge_escape(s, e, got, why);
  // C isalnum() is locale-dependent by the C standard: under a C locale whose LC_CTYPE classifies bytes >= 0x80 as
  // letters, escape_url's treatment of such bytes is a don't-care (executed, not compared).  No such locale exists
  // on the development machine; the rule keeps the check sound elsewhere.
  if (key && g_env && !g_env->c_ctype_ascii && esc_base(e) <= E_URL_ESC_SLASH && std::any_of(s.begin(), s.end(), [](char c) { return (c & 0x80) != 0; })) key = nullptr;
  if (key) r.fail(K(key), [&] { return vf::fmt("%s with s = %s returned %s", esc_name[e], brief(s).c_str(), brief(got).c_str()) + why + envtag(); });
  else tally[e]++;
}

// ---- netloc -----------------------------------------------------------------------------------
struct Dflt {
  bool omit;
  int d;
};
std::string dflt_name(const Dflt& d) { return d.omit ? std::string("default_port omitted") : vf::fmt("default_port %d", d.d); }
std::pair<std::string, uint16_t> lib_parse(const std::string& n, const Dflt& d) { return d.omit ? phosg::parse_netloc(n) : phosg::parse_netloc(n, d.d); }

// ---- histories --------------------------------------------------------------------------------
// One call of a function under test with fixed arguments, reduced to a canonical observable string
// ("=<value>" or "!<exception class>"), and what the statement demands for it (compare == false: a don't-care call
// that only serves to leave state behind - errno, caches, scratch buffers).
struct Item {
  const char* fam;
  std::string text;
  std::function<std::string()> call;
  std::string want;
  bool compare;
};
std::string canon(const std::string& oc, const std::string& v) { return oc == "ok" ? "=" + v : "!" + oc; }

std::string mixed_bytes(size_t n) {  // letters, quotes, controls, high bytes, slashes in a fixed order
  static const std::string unit("aZ\"\\/%\n\x01\x7F\x80\xC3\xA9\xFF ~'&=.-_+\t\x00m", 26);
  std::string s;
  while (s.size() < n) s += unit;
  s.resize(n);
  return s;
}

void add_decode_items(std::vector<Item>& v, bool reduced) {
  std::string every(256 + 2, 0);  // all byte values: the encoding contains all 64 characters of either alphabet
  for (size_t i = 0; i < every.size(); i++) every[i] = static_cast<char>(i);
  std::vector<std::string> ins = {"", "AAAA", "+/+/", "-_-_", "QQ==", "QUI=", "AA", "A!AA", "=AAA", "AA=A", ref_encode(every, RFC_STD), ref_encode(every, RFC_URL), "AAAA+/+/", "AAA-"};
  if (reduced) ins.resize(12);
  static const int modes[4] = {M_DEFAULT, M_URLSAFE, M_BUF_STD, M_BUF_URL};
  for (int mi = 0; mi < 4; mi++) {
    for (size_t k = 0; k < ins.size(); k++) {
      int m = modes[mi];
      std::string s = ins[k];
      bool use_str = (k + mi) & 1;
      std::string want;
      Verdict vd = REF.decode(s, is_url(m), want);
      Item it;
      it.fam = "base64_decode";
      it.text = vf::fmt("base64_decode(%s%s, %s)", use_str ? "std::string " : "", brief(s).c_str(), mode_name[m]);
      it.call = [s, m, use_str] {
        std::string val;
        std::string oc = vf::outcome([&] {
          if (use_str) val = L_dec_s(s, m);
          else {
            Exact in(s);
            val = L_dec_p(in.p, in.n, m);
          }
        });
        return canon(oc, val);
      };
      it.compare = vd != V_OK_NONCANONICAL;
      it.want = vd == V_OK ? "=" + want : "!invalid_argument";
      v.push_back(it);
    }
  }
}
void add_encode_items(std::vector<Item>& v) {
  std::vector<std::string> ins = {"", std::string("\xFB", 1), std::string("\xFB\xFF", 2), std::string("\xFB\xFF\xBE", 3), std::string("\x00\x10\x83\x10\x51", 5), pattern(2, 100)};
  static const int modes[4] = {M_DEFAULT, M_URLSAFE, M_BUF_STD, M_BUF_URL};
  for (int mi = 0; mi < 4; mi++) {
    for (size_t k = 0; k < ins.size(); k++) {
      int m = modes[mi];
      std::string s = ins[k];
      bool use_str = (k + mi) & 1;
      Item it;
      it.fam = "base64_encode";
      it.text = vf::fmt("base64_encode(%s%s, %s)", use_str ? "std::string " : "", brief(s).c_str(), mode_name[m]);
      it.call = [s, m, use_str] {
        std::string val;
        std::string oc = vf::outcome([&] {
          if (use_str) val = L_enc_s(s, m);
          else {
            Exact in(s);
            val = L_enc_p(in.p, in.n, m);
          }
        });
        return canon(oc, val);
      };
      it.compare = true;
      it.want = "=" + ref_encode(s, rfc_alphabet(m));
      v.push_back(it);
    }
  }
}
void add_rot13_items(std::vector<Item>& v) {
  std::vector<std::string> ins = {"", "a", "Nz", "Hello, World!", pattern(4, 300, 0x30), std::string("\xE1\xFA", 2)};
  for (const auto& s0 : ins) {
    std::string s = s0;
    Item it;
    it.fam = "rot13";
    it.text = vf::fmt("rot13(%s)", brief(s).c_str());
    it.call = [s] {
      std::string val;
      std::string oc = vf::outcome([&] {
        Exact in(s);
        val = phosg::rot13(in.p, in.n);
      });
      return canon(oc, val);
    };
    it.compare = true;
    it.want = "=" + ref_rot13(s);
    v.push_back(it);
  }
}
// Escaper results are not unique under the statement (it fixes the output alphabet and the decoded value, not the
// spelling), so the canonical observable is the verdict of judge_escape, not the text.
void add_escape_items(std::vector<Item>& v, bool reduced) {
  std::vector<std::string> ins = {"", "a", "\"", std::string("\x80", 1), "\n/%", mixed_bytes(120), "\\", std::string("\x7F", 1), "/", std::string("\xC3\xA9\x01/", 4), mixed_bytes(40), std::string("\x00", 1)};
  if (reduced) ins.resize(6);
  for (int e = 0; e < NESC; e++) {
    for (const auto& s0 : ins) {
      std::string s = s0;
      Item it;
      it.fam = esc_base(e) <= E_URL_ESC_SLASH ? "escape_url" : (esc_base(e) <= E_CTRL_UTF8 ? "escape_controls" : "escape_quotes");
      it.text = vf::fmt("%s with s = %s", esc_name[e], brief(s).c_str());
      it.call = [s, e] {
        std::string val, why;
        std::string oc = vf::outcome([&] { val = lib_escape(s, e); });
        if (oc != "ok") return "!" + oc;
        const char* key = judge_escape(s, e, val, why);
        return key ? std::string("=violates ") + key + ": returned " + val + why : std::string("=conforming");
      };
      it.compare = true;
      it.want = "=conforming";
      v.push_back(it);
    }
  }
}
void add_netloc_items(std::vector<Item>& v) {
  struct HP {
    std::string h;
    int p;
  };
  std::vector<HP> hps = {{"h", 0}, {"h", 1}, {"h", 80}, {"h", 65535}, {"host.example.com", 8080}, {std::string(255, 'x'), 65534}};
  std::vector<Dflt> ds = {{true, 0}, {false, 0}, {false, 65535}};
  for (const auto& hp : hps) {
    for (const auto& d : ds) {
      std::string h = hp.h;
      int p = hp.p;
      Dflt dd = d;
      Item it;
      it.fam = "netloc";
      it.text = vf::fmt("parse_netloc(render_netloc(%s, %d), %s)", brief(h).c_str(), p, dflt_name(dd).c_str());
      it.call = [h, p, dd] {
        std::pair<std::string, uint16_t> b;
        std::string oc = vf::outcome([&] { b = lib_parse(phosg::render_netloc(h, p), dd); });
        return canon(oc, b.first + "\x01" + std::to_string(b.second));
      };
      it.compare = p != 0 || dd.omit || dd.d == 0;  // port 0 is rendered without a port: the default decides
      it.want = "=" + h + "\x01" + std::to_string(p);
      v.push_back(it);
    }
  }
  // raw netloc texts: don't-care results (several are malformed); they are here for what they leave behind
  // (errno == ERANGE from the number parser, exceptions thrown half-way)
  std::vector<std::string> raws = {"h:80", "h:65535", "h:65536", "h:99999999999999999999", "h:", "h:x", "h", "h:1e999", "h:1e-999", "h:-1"};
  for (const auto& n0 : raws) {
    for (int di = 0; di < 2; di++) {
      std::string n = n0;
      Dflt dd = ds[di * 2];
      Item it;
      it.fam = "netloc";
      it.text = vf::fmt("parse_netloc(%s, %s) [result not compared]", vf::show(n).c_str(), dflt_name(dd).c_str());
      it.call = [n, dd] {
        std::pair<std::string, uint16_t> b;
        std::string oc = vf::outcome([&] { b = lib_parse(n, dd); });
        return canon(oc, b.first + "\x01" + std::to_string(b.second));
      };
      it.compare = false;
      v.push_back(it);
    }
  }
}

// Runs the calls of `h` (indices into items) in order in the current thread; reports the first compared call whose
// result differs from what the statement demands.
bool run_history(vf::Run& r, const std::vector<Item>& items, const std::vector<size_t>& h, const char* what_kind) {
  auto text = [&] {
    std::string t;
    for (size_t i = 0; i < h.size(); i++) t += vf::fmt("%s(%zu) %s", i ? "; " : "", i + 1, items[h[i]].text.c_str());
    return t;
  };
  if (r.wants_desc()) r.desc(std::string(what_kind) + ": " + text());
  r.nontriv();
  for (size_t i = 0; i < h.size(); i++) {
    const Item& it = items[h[i]];
    std::string got = it.call();
    if (it.compare && got != it.want) {
      r.fail(std::string(it.fam) + ":" + what_kind, [&] {
        return vf::fmt("%s: calls in order: %s -- call (%zu) gave %s, demanded %s", what_kind, text().c_str(), i + 1, brief(got).c_str(), brief(it.want).c_str());
      });
      return false;
    }
  }
  return true;
}

// 2^32 + 8 KiB of zero pages (never written except the first 8 bytes): a real object of more than 4 GiB
const uint8_t* huge_zero_map() {
  static uint8_t* p = nullptr;
  static bool tried = false;
  if (!tried) {
    tried = true;
    void* m = mmap(nullptr, (1ull << 32) + 8192, PROT_READ | PROT_WRITE, MAP_PRIVATE | MAP_ANONYMOUS | MAP_NORESERVE, -1, 0);
    if (m != MAP_FAILED) {
      p = static_cast<uint8_t*>(m);
      memcpy(p, "AAAAAAAA", 8);
    }
  }
  return p;
}

}  // namespace

// ---------------------------------------------------------------------------------------------
VF_SECTION(b64_encode, 16, 16, 120) {
  Out out;
  out.open(r);
  r.note("base64_encode");
  if (r.take()) {
    r.nontriv();
    if (strcmp(phosg::DEFAULT_ALPHABET, RFC_STD) != 0 || strcmp(phosg::URLSAFE_ALPHABET, RFC_URL) != 0) r.fail("base64:alphabet-constants", [&] { return std::string("DEFAULT_ALPHABET / URLSAFE_ALPHABET differ from RFC 4648 tables 1 and 2"); });
    else r.ok("alphabet constants = RFC 4648 tables");
  }
  std::string a256 = all256();
  vf::all_strings(a256, 2, [&](const std::string& x) {
    for (int m = 0; m < NMODES; m++) {
      if (!r.take()) continue;
      encode_case(r, out, x, m, m < 2);
    }
  });
  // length 3: quick = all strings over 16 lane bytes, thorough = all 2^24
  if (r.thorough()) {
    std::string x(3, 0);
    for (uint32_t v = 0; v < (1u << 24); v++) {
      for (int m = 0; m < 2; m++) {
        if (!r.take()) continue;
        x[0] = static_cast<char>(v & 0xFF);
        x[1] = static_cast<char>((v >> 8) & 0xFF);
        x[2] = static_cast<char>((v >> 16) & 0xFF);
        encode_case(r, out, x, m, false);
      }
    }
  } else {
    std::string lanes("\x00\x01\x03\x0F\x3F\x40\x7F\x80\xBF\xC0\xF0\xFB\xFC\xFE\xFF\x61", 16);
    std::string x(3, 0);
    for (int i = 0; i < 16 * 16 * 16; i++) {
      for (int m = 0; m < 2; m++) {
        if (!r.take()) continue;
        x[0] = lanes[i & 15];
        x[1] = lanes[(i >> 4) & 15];
        x[2] = lanes[(i >> 8) & 15];
        encode_case(r, out, x, m, true);
      }
    }
  }
  // longer inputs: all strings of length 4..8 over {00, FF, 'a', FB}
  std::string a4("\x00\xFF\x61\xFB", 4);
  for (size_t len = 4; len <= 8; len++) {
    std::string x(len, 0);
    for (uint32_t k = 0; k < (1u << (2 * len)); k++) {
      for (int m = 0; m < 2; m++) {
        if (!r.take()) continue;
        for (size_t i = 0; i < len; i++) x[i] = a4[(k >> (2 * i)) & 3];
        encode_case(r, out, x, m, false);
      }
    }
  }
  r.bound = r.thorough() ? "all byte strings of length 0..2 x 6 alphabet-passing forms (nullptr, URLSAFE, DEFAULT, omitted, caller buffer std/url); ALL 2^24 strings of length 3 x 2 alphabets; all strings of length 4..8 over {00,FF,'a',FB} x 2 alphabets; both overloads each"
                         : "all byte strings of length 0..2 x 6 alphabet-passing forms (nullptr, URLSAFE, DEFAULT, omitted, caller buffer std/url); all length-3 strings over 16 lane bytes x 2 alphabets; all strings of length 4..8 over {00,FF,'a',FB} x 2 alphabets; both overloads each";
}

// Long inputs: every length across the block-count boundaries, unaligned input pointers, corruption of long
// encodings at every position, and (pointer, size) objects of 2^31 .. 2^32+4 bytes.
VF_SECTION(b64_long, 16, 16, 180) {
  Out out;
  r.note("base64_encode");
  std::vector<size_t> lens;
  size_t every_upto = r.thorough() ? 4200 : 1100;
  for (size_t n = 0; n <= every_upto; n++) lens.push_back(n);
  for (size_t n : {4095, 4096, 4097, 65535, 65536, 65537, (1 << 20) - 1, 1 << 20, (1 << 20) + 1})
    if (n > every_upto) lens.push_back(n);
  if (r.thorough())
    for (size_t n : {(1 << 24) - 1, 1 << 24, (1 << 24) + 1}) lens.push_back(n);
  for (size_t n : lens) {
    for (int k = 0; k < 4; k++) {
      for (int m = 0; m < (n <= 70 ? (int)NMODES : 2); m++) {
        for (size_t off = 0; off < 2; off++) {
          if (!r.take()) continue;
          encode_case(r, out, pattern(k, n), m, false, off ? 1 + (n % 7) : 0);
        }
      }
    }
  }
  r.note("base64_decode");
  uint64_t tally[6] = {0};
  // every position of long encodings x {padding, invalid characters, a character private to the other alphabet,
  // a different valid character}
  std::vector<size_t> in_lens = {7, 8, 9, 10, 11, 12, 22, 23, 24, 46, 47, 48, 94, 95, 96, 190, 191, 192, 193, 382, 383, 384, 766, 767, 768, 769};
  for (int m = 0; m < 2; m++) {
    std::string subst = std::string("=!\x00\x80\xFF\n ", 7) + (m ? "+" : "-") + "AB";
    for (size_t n : in_lens) {
      std::string enc = ref_encode(pattern(2, n), rfc_alphabet(m));
      for (size_t pos = 0; pos < enc.size(); pos++) {
        char orig = enc[pos];
        for (char c : subst) {
          if (!r.take()) continue;
          enc[pos] = c;
          decode_case(r, nullptr, enc, m, tally, (pos & 1) ? 3 : 0);
        }
        enc[pos] = orig;
      }
    }
    // 64 KiB + one block: positions around every power-of-two block boundary
    for (size_t n : {49152, 49153, 49154}) {
      std::string enc = ref_encode(pattern(2, n), rfc_alphabet(m));
      std::vector<size_t> poss;
      for (size_t b : {(size_t)0, (size_t)256, (size_t)1024, (size_t)4096, (size_t)16384, (size_t)32768, (size_t)65536, enc.size()})
        for (size_t d = 0; d < 12; d++) {
          size_t pos = b + d - (b ? 6 : 0);
          if (b == enc.size()) pos = enc.size() - 1 - d;
          if (pos < enc.size()) poss.push_back(pos);
        }
      std::sort(poss.begin(), poss.end());
      poss.erase(std::unique(poss.begin(), poss.end()), poss.end());
      for (size_t pos : poss) {
        char orig = enc[pos];
        for (char c : {'=', '!'}) {
          if (!r.take()) continue;
          enc[pos] = c;
          decode_case(r, nullptr, enc, m, tally);
        }
        enc[pos] = orig;
      }
    }
  }
  flush_decode_tally(r, tally);
  // objects larger than 2^31 / 2^32 bytes: "AAAAAAAA" followed by NUL bytes.  Every size listed is either not a
  // multiple of four or has a NUL (outside both alphabets) at offset 8: invalid_argument is demanded, and a
  // correct decoder reaches that verdict without reading the whole object.
  r.note("base64_decode(huge)");
  uint64_t huge_ok = 0;
  // ONE case (one shard, one process) makes all 24 calls: should a changed decoder try to materialise gigabytes,
  // only one process at a time does.
  if (r.take()) {
    const uint8_t* p = huge_zero_map();
    if (r.wants_desc()) r.desc("base64_decode(\"AAAAAAAA\" followed by NUL bytes, size) for 12 sizes from 2^31-1 to 2^32+8 x 2 alphabets");
    r.nontriv();
    if (!p) {
      r.exhaustive = false;
      r.ok("huge: mmap of 4 GiB refused by the kernel (skipped)");
    } else {
      // Each call runs in a forked child: a decoder that (legitimately) reserves its output up front may hit the
      // sanitizer's allocation limit or bad_alloc for a 4 GiB input - resource exhaustion is outside the statement
      // and is counted, not reported.  Reported: the call RETURNS (accepts), or throws an unrelated exception class.
      bool all_ok = true;
      for (uint64_t size : {(1ull << 31) - 1, 1ull << 31, (1ull << 31) + 1, (1ull << 31) + 4, (1ull << 32) - 4, (1ull << 32) - 1, 1ull << 32, (1ull << 32) + 1, (1ull << 32) + 2, (1ull << 32) + 3, (1ull << 32) + 4, (1ull << 32) + 8}) {
        for (int m = 0; m < 2; m++) {
          r.beat();
          int ambient = r.ambient_errno();
          int st = vf::in_child([&] {
            errno = ambient;
            std::string oc = vf::outcome([&] { L_dec_p(p, size, m); });
            _exit(oc == "invalid_argument" ? 40 : (oc == "ok" ? 41 : ((oc == "bad_alloc" || oc == "length_error") ? 42 : 43)));
          }, 150);
          int code = WIFEXITED(st) ? WEXITSTATUS(st) : -1;
          if (code == 40) huge_ok++;
          else if (code == 41 || code == 43) {
            all_ok = false;
            r.fail(code == 41 ? ((size & 3) ? "base64_decode:accepts-length-not-multiple-of-4" : "base64_decode:accepts-non-alphabet-char") : "base64_decode:wrong-exception-type", [&] {
              return vf::fmt("base64_decode(\"AAAAAAAA\" followed by NUL bytes, size %llu = 0x%llX, %s): invalid_argument demanded (%s); library %s", (unsigned long long)size, (unsigned long long)size,
                  mode_name[m], (size & 3) ? "size is not a multiple of 4" : "NUL at offset 8 is outside the alphabet", code == 41 ? "returned a value" : "threw an exception that is neither invalid_argument nor a resource failure");
            });
          } else r.counters["decode calls on objects of 2^31-1..2^32+8 bytes ending in resource exhaustion (bad_alloc / allocator limit / timeout; not compared)"]++;
        }
      }
      if (all_ok) r.ok("huge: no (size, alphabet) call accepted its input");
    }
  }
  if (huge_ok) r.counters["decode calls on objects of 2^31-1..2^32+8 bytes -> invalid_argument"] += huge_ok;
  // the empty byte string given as (nullptr, 0), as vector::data() of an empty vector may be
  r.note("(nullptr, 0)");
  if (r.take()) {
    if (r.wants_desc()) r.desc("base64_encode / base64_decode / rot13 of the empty byte string passed as (nullptr, 0), 6 alphabet-passing forms");
    r.nontriv();
    std::string bad;
    for (int m = 0; m < NMODES && bad.empty(); m++) {
      std::string e = "?", d = "?", what;
      r.poison_errno();
      std::string oc = vf::outcome([&] { e = L_enc_p(nullptr, 0, m); d = L_dec_p(nullptr, 0, m); }, &what);
      if (oc != "ok" || !e.empty() || !d.empty()) bad = vf::fmt("%s: %s, base64_encode(nullptr, 0) = %s, base64_decode(nullptr, 0) = %s", mode_name[m], oc.c_str(), vf::show(e).c_str(), vf::show(d).c_str());
    }
    if (bad.empty()) {
      std::string t = "?";
      std::string oc = vf::outcome([&] { t = phosg::rot13(nullptr, 0); });
      if (oc != "ok" || !t.empty()) bad = vf::fmt("rot13(nullptr, 0): %s, %s", oc.c_str(), vf::show(t).c_str());
    }
    if (!bad.empty()) r.fail("empty-input-as-null-pointer", [&] { return "the empty byte string passed as (nullptr, 0) must encode/decode/rotate to the empty string; " + bad; });
    else r.ok("(nullptr, 0) -> empty result in encode, decode, rot13");
  }
  r.bound = vf::fmt("encode+round trip, both overloads, input pointer aligned and misaligned: every length 0..%zu and {4095..4097, 65535..65537, 2^20-1..2^20+1%s} x 4 fill patterns (00, FF, counter 7i+3, fixed LCG stream) x 2 alphabets (6 alphabet-passing forms up to length 70); "
                    "decode: every position of the encodings of 26 inputs of 7..769 bytes x 10 substitutes (=, !, NUL, 80, FF, LF, space, other alphabet's private character, A, B) and 96 positions around the 2^8..2^16 offsets of three 64 KiB encodings x {=, !}, x 2 alphabets; "
                    "12 object sizes from 2^31-1 to 2^32+8 x 2 alphabets (one case); the empty string as (nullptr, 0) through encode/decode (6 forms) and rot13 (one case)",
      every_upto, r.thorough() ? ", 2^24-1..2^24+1" : "");
}

VF_SECTION(b64_strict4, 8, 8, 120) {
  Out out;
  out.open(r);
  r.note("base64_decode");
  uint64_t tally[6] = {0};
  std::string R15("ABQz9+/-_=! \x00\x80\xFF", 15);
  for (int m = 0; m < NMODES; m++) {
    // lengths 0..4 (lengths 1..3 are the not-a-multiple-of-4 class), shortest first
    vf::all_strings(R15, 4, [&](const std::string& s) {
      if (!r.take()) return;
      decode_case(r, m < 2 ? &out : nullptr, s, m, tally);
    });
  }
  flush_decode_tally(r, tally);
  r.bound = "all strings of length 0..4 over the 15 symbols {A,B,Q,z,9,+,/,-,_,=,!,space,NUL,0x80,0xFF} (54241) x 6 alphabet-passing forms (nullptr, URLSAFE, DEFAULT, omitted, caller buffer std/url) x both overloads";
}

VF_SECTION(b64_strict8, 16, 16, 120) {
  r.note("base64_decode");
  uint64_t tally[6] = {0};
  std::string R6("AQ=!/-", 6);
  for (int m = 0; m < 2; m++) {
    for (size_t len = 5; len <= 8; len++) {
      uint64_t total = 1;
      for (size_t i = 0; i < len; i++) total *= 6;
      std::string s(len, 'A');
      for (uint64_t k = 0; k < total; k++) {
        if (!r.take()) continue;
        uint64_t x = k;
        for (size_t i = 0; i < len; i++) {
          s[len - 1 - i] = R6[x % 6];
          x /= 6;
        }
        decode_case(r, nullptr, s, m, tally);
      }
    }
  }
  flush_decode_tally(r, tally);
  r.bound = "all strings of length 5..8 over {A,Q,=,!,/,-} (6^5+6^6+6^7+6^8 = 2 015 280; the 1 679 616 of length 8 are two-block inputs) x {default, URL-safe} alphabet x both overloads";
}

VF_SECTION(b64_corrupt, 16, 16, 180) {
  r.note("base64_decode");
  uint64_t tally[6] = {0};
  std::string a4("\x00\xFF\x61\xFB", 4);
  // quick: inputs of length 1..4 over 4 symbols and of length 5..6 over the 2 symbols {00, FB};
  // thorough: inputs of length 1..6 over 4 symbols and of length 7..9 (three encoded blocks) over
  // {00, FB}.  (Rejected inputs cost a C++ throw each, ~6 us under ASan.)
  size_t maxlen = r.thorough() ? 9 : 6;
  size_t full_upto = r.thorough() ? 6 : 4;
  for (int m = 0; m < 2; m++) {
    for (size_t len = 1; len <= maxlen; len++) {
      int bits_per_sym = len > full_upto ? 1 : 2;
      std::string x(len, 0);
      for (uint32_t k = 0; k < (1u << (bits_per_sym * len)); k++) {
        for (size_t i = 0; i < len; i++) x[i] = bits_per_sym == 2 ? a4[(k >> (2 * i)) & 3] : a4[((k >> i) & 1) * 3];
        std::string enc = ref_encode(x, rfc_alphabet(m));
        for (size_t pos = 0; pos < enc.size(); pos++) {
          char orig = enc[pos];
          for (int c = 0; c < 256; c++) {
            if (!r.take()) continue;
            enc[pos] = static_cast<char>(c);
            decode_case(r, nullptr, enc, m, tally);
          }
          enc[pos] = orig;
        }
      }
    }
  }
  flush_decode_tally(r, tally);
  r.bound = r.thorough() ? "every single-byte substitution (256 values x every position, the identity included) of the RFC 4648 encoding of every input of length 1..6 over {00,FF,'a',FB} and of length 7..9 over {00,FB} x {default, URL-safe} alphabet x both overloads"
                         : "every single-byte substitution (256 values x every position, the identity included) of the RFC 4648 encoding of every input of length 1..4 over {00,FF,'a',FB} and of length 5..6 over {00,FB} x {default, URL-safe} alphabet x both overloads";
}

VF_SECTION(rot13, 4, 16, 120) {
  Out out;
  out.open(r);
  r.note("rot13");
  uint64_t okc = 0;
  std::string a256 = all256();
  vf::all_strings(a256, 2, [&](const std::string& s) {
    if (!r.take()) return;
    if (rot13_case(r, &out, s)) okc++;
  });
  // length 3: every letter-range boundary and its neighbours, the same with bit 7 set, NUL and FF (quick);
  // all 2^24 (thorough)
  if (r.thorough()) {
    std::string s(3, 0);
    for (uint32_t v = 0; v < (1u << 24); v++) {
      if (!r.take()) continue;
      s[0] = static_cast<char>(v & 0xFF);
      s[1] = static_cast<char>((v >> 8) & 0xFF);
      s[2] = static_cast<char>((v >> 16) & 0xFF);
      if (rot13_case(r, nullptr, s)) okc++;
    }
  } else {
    std::string b20("@AMNZ[`amnz{\x00\xFF\xC1\xCD\xCE\xDA\xE1\xFA", 20);
    std::string s(3, 0);
    for (uint32_t k = 0; k < 20 * 20 * 20; k++) {
      if (!r.take()) continue;
      s[0] = b20[k % 20];
      s[1] = b20[(k / 20) % 20];
      s[2] = b20[k / 400];
      if (rot13_case(r, &out, s)) okc++;
    }
  }
  // every length 4..600 and the block boundaries, the 256-value counter started at four phases, pointer
  // aligned and misaligned
  std::vector<size_t> lens;
  for (size_t n = 4; n <= 600; n++) lens.push_back(n);
  for (size_t n : {4095, 4096, 4097, 65535, 65536, 65537, (1 << 20) + 1}) lens.push_back(n);
  for (size_t n : lens) {
    for (unsigned phase : {0x00u, 0x41u, 0x4Eu, 0x61u}) {
      for (size_t off = 0; off < 2; off++) {
        if (!r.take()) continue;
        if (rot13_case(r, n <= 64 ? &out : nullptr, pattern(4, n, phase), off ? 1 + (n % 7) : 0)) okc++;
      }
    }
  }
  r.hist["rot13:letters-rotated,others-unchanged,involution"] += okc;
  r.bound = r.thorough() ? "all byte strings of length 0..3 (16 843 009); every length 4..600 and {4095..4097, 65535..65537, 2^20+1} of the byte counter at 4 phases, pointer aligned and misaligned"
                         : "all byte strings of length 0..2 (65 793); all length-3 strings over 20 boundary bytes (@ A M N Z [ ` a m n z {, the letter boundaries with bit 7 set, NUL, FF); every length 4..600 and {4095..4097, 65535..65537, 2^20+1} of the byte counter at 4 phases, pointer aligned and misaligned";
}

VF_SECTION(escapes, 16, 16, 120) {
  Out out;
  out.open(r);
  r.note("escape");
  uint64_t tally[NESC] = {0};
  std::string a256 = all256();
  std::string a12("a4x/%\"\\\n\x00\x7F\x80\xFF", 12);
  for (int e = 0; e < NESC; e++) {
    r.note(esc_name[e]);
    vf::all_strings(a256, 2, [&](const std::string& s) {
      if (!r.take()) return;
      escape_case(r, out, s, e, true, tally);
    });
    for (size_t len = 3; len <= 4; len++) {
      uint32_t total = len == 3 ? 12 * 12 * 12 : 12 * 12 * 12 * 12;
      std::string s(len, 0);
      for (uint32_t k = 0; k < total; k++) {
        if (!r.take()) continue;
        uint32_t x = k;
        for (size_t i = 0; i < len; i++) {
          s[len - 1 - i] = a12[x % 12];
          x /= 12;
        }
        escape_case(r, out, s, e, e < NBASE, tally);
      }
    }
    // every byte value at every position of a length-3 string, the other two positions over the 12 symbols
    {
      std::string s(3, 0);
      for (size_t pos = 0; pos < 3; pos++) {
        for (int c = 0; c < 256; c++) {
          for (uint32_t k = 0; k < 144; k++) {
            if (!r.take()) continue;
            s[pos] = static_cast<char>(c);
            s[(pos + 1) % 3] = a12[k % 12];
            s[(pos + 2) % 3] = a12[k / 12];
            escape_case(r, out, s, e, false, tally);
          }
        }
      }
    }
    // long inputs: every length 5..300 and the buffer-size boundaries of five fills
    {
      std::vector<size_t> lens;
      for (size_t n = 5; n <= 300; n++) lens.push_back(n);
      for (size_t n : {1023, 1024, 1025, 4095, 4096, 4097, 65537}) lens.push_back(n);
      for (size_t n : lens) {
        for (int k = 0; k < 5; k++) {
          if (!r.take()) continue;
          std::string s = k == 0 ? pattern(2, n) : (k == 1 ? std::string(n, '\xFF') : (k == 2 ? std::string(n, '"') : (k == 3 ? std::string(n, '\\') : mixed_bytes(n))));
          escape_case(r, out, s, e, false, tally);
        }
      }
    }
  }
  // thorough: ALL 2^24 strings of length 3 through the five base variants
  if (r.thorough()) {
    std::string s(3, 0);
    for (int e = 0; e < NBASE; e++) {
      r.note(esc_name[e]);
      for (uint32_t v = 0; v < (1u << 24); v++) {
        if (!r.take()) continue;
        s[0] = static_cast<char>(v & 0xFF);
        s[1] = static_cast<char>((v >> 8) & 0xFF);
        s[2] = static_cast<char>((v >> 16) & 0xFF);
        escape_case(r, out, s, e, false, tally);
      }
    }
  }
  for (int e = 0; e < NESC; e++) r.hist[std::string(esc_name[e]) + (esc_base(e) == E_QUOTES ? ":printable,no-raw-quote" : ":alphabet-ok,decodes-to-input")] += tally[e];
  r.bound = std::string("escape_url(slash in {0,1,defaulted}), escape_controls(non_ascii in {0,1}) and its two inline wrappers, escape_quotes (8 call forms): all byte strings of length 0..2 (65 793) + all strings of length 3..4 over {a,4,x,/,%,\",\\,LF,NUL,7F,80,FF} (22 464) "
                        "+ every byte value at every position of a length-3 string with the other two positions over those 12 symbols (110 592) + every length 5..300 and {1023..1025, 4095..4097, 65537} of 5 fills (counter, FF, quote, backslash, mixed)") +
      (r.thorough() ? " + ALL 2^24 strings of length 3 through the 5 base variants" : "");
}

VF_SECTION(netloc, 16, 16, 120) {
  r.note("netloc");
  uint64_t ok0 = 0, okp = 0, okd = 0;
  std::string alpha("a.-[] 1", 7);
  std::vector<std::string> hosts;
  vf::all_strings(alpha, 3, [&](const std::string& h) {
    if (!h.empty()) hosts.push_back(h);
  });
  for (const auto& h : hosts) {
    for (int port = 0; port <= 65535; port++) {
      if (!r.take()) continue;
      if (r.wants_desc()) r.desc(vf::fmt("parse_netloc(render_netloc(%s, %d), 0)", vf::show(h).c_str(), port));
      r.nontriv();
      std::string rendered, what;
      std::pair<std::string, uint16_t> back;
      std::string oc = vf::outcome([&] { rendered = phosg::render_netloc(h, port); back = phosg::parse_netloc(rendered, 0); }, &what);
      if (oc != "ok") r.fail("netloc:throws", [&] { return vf::fmt("render/parse of (%s, %d) threw %s (%s); rendered form %s", vf::show(h).c_str(), port, oc.c_str(), what.c_str(), vf::show(rendered).c_str()); });
      else if (back.first != h || back.second != port) r.fail("netloc:roundtrip", [&] { return vf::fmt("render_netloc(%s, %d) = %s parses back to (%s, %u)", vf::show(h).c_str(), port, vf::show(rendered).c_str(), vf::show(back.first).c_str(), (unsigned)back.second); });
      else (port ? okp : ok0)++;
    }
  }
  // an explicit port wins over a non-zero default
  for (const auto& h : hosts) {
    if (h.size() > 1) continue;
    for (int port = 1; port <= 65535; port++) {
      if (!r.take()) continue;
      r.nontriv();
      std::pair<std::string, uint16_t> back;
      std::string rendered;
      std::string oc = vf::outcome([&] { rendered = phosg::render_netloc(h, port); back = phosg::parse_netloc(rendered, 65535); });
      if (oc != "ok" || back.first != h || back.second != port) r.fail("netloc:roundtrip-with-default", [&] { return vf::fmt("parse_netloc(render_netloc(%s, %d) = %s, default 65535): %s, (%s, %u)", vf::show(h).c_str(), port, vf::show(rendered).c_str(), oc.c_str(), vf::show(back.first).c_str(), (unsigned)back.second); });
      else okd++;
    }
  }
  r.hist["netloc:roundtrip(port 0, rendered without port)"] += ok0;
  r.hist["netloc:roundtrip(port 1..65535)"] += okp;
  r.hist["netloc:roundtrip(explicit port beats default 65535)"] += okd;
  r.bound = "hosts = all strings of length 1..3 over {a . - [ ] space 1} (399, colon-free, non-empty) x all ports 0..65535 with default_port 0; single-character hosts x ports 1..65535 with default_port 65535; ambient errno in {0, ERANGE, EINVAL, EINTR} by case index";
}

// Wide hosts (every byte value but ':', every length 1..255 and beyond), boundary ports, every default_port form,
// every ambient errno placed before render_netloc or between render_netloc and parse_netloc.
VF_SECTION(netloc_wide, 16, 16, 120) {
  r.note("netloc");
  uint64_t okp = 0, ok0 = 0, okhost = 0, dc = 0;
  std::string nocolon;
  for (int c = 0; c < 256; c++)
    if (c != ':') nocolon += static_cast<char>(c);
  static const int ports22[] = {0, 1, 2, 9, 10, 11, 99, 100, 101, 255, 256, 999, 1000, 1001, 9999, 10000, 10001, 32767, 32768, 32769, 65534, 65535};
  static const Dflt dflts[] = {{true, 0}, {false, 0}, {false, 1}, {false, 80}, {false, 65535}, {false, -1}, {false, 65536}, {false, INT_MAX}, {false, INT_MIN}};
  static const int errnos[] = {0, ERANGE, EINVAL, EINTR, EDOM, EAGAIN, ENOMEM, EOVERFLOW, EILSEQ};
  // err_at: 0 = engine's per-case errno before render_netloc; 1 = `err` set before render_netloc; 2 = `err` set
  // between render_netloc and parse_netloc
  auto one = [&](const std::string& h, int port, const Dflt& d, int err_at, int err) {
    if (r.wants_desc()) r.desc(vf::fmt("parse_netloc(render_netloc(%s, %d), %s)%s", brief(h).c_str(), port, dflt_name(d).c_str(),
                            err_at ? vf::fmt(" with errno = %d set %s", err, err_at == 1 ? "before render_netloc" : "between render_netloc and parse_netloc").c_str() : ""));
    r.nontriv();
    std::string rendered, what;
    std::pair<std::string, uint16_t> back;
    if (err_at == 1) errno = err;
    std::string oc = vf::outcome([&] {
      rendered = phosg::render_netloc(h, port);
      if (err_at == 2) errno = err;
      back = lib_parse(rendered, d);
    }, &what);
    bool port_demanded = port != 0 || d.omit || d.d == 0;  // port 0 is rendered without a port: the default decides
    auto desc = [&] {
      return vf::fmt("parse_netloc(render_netloc(%s, %d) = %s, %s)%s: %s", brief(h).c_str(), port, brief(rendered).c_str(), dflt_name(d).c_str(),
          err_at ? vf::fmt(" with errno = %d (%s) set %s", err, strerror(err), err_at == 1 ? "before render_netloc" : "between render_netloc and parse_netloc").c_str() : "",
          oc == "ok" ? vf::fmt("returned (%s, %u)", brief(back.first).c_str(), (unsigned)back.second).c_str() : ("threw " + oc + " (" + what + ")").c_str());
    };
    if (oc != "ok") r.fail(err_at ? "netloc:throws-under-ambient-errno" : "netloc:throws", desc);
    else if (back.first != h) r.fail("netloc:host-roundtrip", desc);
    else if (port_demanded && back.second != port) r.fail(d.omit || d.d == 0 ? "netloc:roundtrip" : "netloc:roundtrip-with-default", desc);
    else (port_demanded ? (port ? okp : ok0) : okhost)++;
  };
  std::vector<size_t> long_lens;
  for (size_t n = 3; n <= 255; n++) long_lens.push_back(n);
  for (size_t n : {256, 257, 1000, 4096, 65536}) long_lens.push_back(n);
  auto long_host = [&](size_t n, int k) {
    std::string h(n, 0);
    for (size_t i = 0; i < n; i++) h[i] = k == 0 ? nocolon[(i * 7 + n) % nocolon.size()] : (k == 1 ? "1234567890"[i % 10] : "[]. -e+x"[(i + n) % 8]);
    return h;
  };
  // (1) single-byte hosts and long hosts x 22 ports x 9 default_port forms
  for (int c = 0; c < 255; c++)
    for (int port : ports22)
      for (const auto& d : dflts) {
        if (!r.take()) continue;
        one(std::string(1, nocolon[c]), port, d, 0, 0);
      }
  for (size_t n : long_lens)
    for (int k = 0; k < 3; k++)
      for (int port : ports22)
        for (const auto& d : dflts) {
          if (!r.take()) continue;
          one(long_host(n, k), port, d, 0, 0);
        }
  // (2) all two-byte hosts x 4 ports x {omitted, 65535}
  for (int a = 0; a < 255; a++)
    for (int b = 0; b < 255; b++)
      for (int port : {0, 1, 80, 65535})
        for (int di : {0, 4}) {
          if (!r.take()) continue;
          std::string h(2, 0);
          h[0] = nocolon[a];
          h[1] = nocolon[b];
          one(h, port, dflts[di], 0, 0);
        }
  // (3) ambient errno: 9 values x {before render, between render and parse} x single-byte hosts x 22 ports
  for (int c = 0; c < 255; c++)
    for (int port : ports22)
      for (int err : errnos)
        for (int at = 1; at <= 2; at++) {
          if (!r.take()) continue;
          one(std::string(1, nocolon[c]), port, dflts[(c + port) % 2 ? 0 : 4], at, err);
        }
  // (4) ports outside 0..65535 are not (host, port) pairs of the statement: executed, not compared
  for (int port : {-1, -32768, 65536, 65537, 100000, INT_MAX, INT_MIN})
    for (const char* h : {"h", "1", "[]"})
      for (int di : {0, 4}) {
        if (!r.take()) continue;
        if (r.wants_desc()) r.desc(vf::fmt("parse_netloc(render_netloc(\"%s\", %d), %s) [port outside 0..65535: executed, not compared]", h, port, dflt_name(dflts[di]).c_str()));
        vf::outcome([&] { lib_parse(phosg::render_netloc(h, port), dflts[di]); });
        dc++;
      }
  r.hist["netloc:roundtrip(port 1..65535, any default_port form)"] += okp;
  r.hist["netloc:roundtrip(port 0, default omitted or 0)"] += ok0;
  r.hist["netloc:host round trip(port 0 with non-zero default: port is the default's, dont-care)"] += okhost;
  r.hist["netloc:port outside 0..65535 (dont-care, executed)"] += dc;
  r.bound = "hosts = every single byte but ':' (255) and every length 3..255 and {256, 257, 1000, 4096, 65536} of 3 fills (all non-colon bytes; digits; brackets/dots/spaces) x 22 boundary ports (0,1,2,9..11,99..101,255,256,999..1001,9999..10001,32767..32769,65534,65535) "
            "x 9 default_port forms (omitted, 0, 1, 80, 65535, -1, 65536, INT_MAX, INT_MIN); all 65 025 two-byte colon-free hosts x ports {0,1,80,65535} x {omitted, 65535}; "
            "single-byte hosts x 22 ports x errno in {0, ERANGE, EINVAL, EINTR, EDOM, EAGAIN, ENOMEM, EOVERFLOW, EILSEQ} set before render_netloc or between render_netloc and parse_netloc";
}

// State carried between calls: every ordered triple of calls within a function family, and every ordered pair
// (run as first, second, first again) over all families together.  Every compared call must give what the statement
// demands irrespective of what ran before it in the thread.
VF_SECTION(histories, 16, 16, 180) {
  r.note("histories");
  bool reduced = !r.thorough();
  std::vector<std::vector<Item>> fams(5);
  add_decode_items(fams[0], reduced);
  add_encode_items(fams[1]);
  add_rot13_items(fams[2]);
  add_escape_items(fams[3], reduced);
  add_netloc_items(fams[4]);
  uint64_t okt = 0, okp = 0;
  std::vector<size_t> h(3);
  for (const auto& items : fams) {
    size_t n = items.size();
    r.note(std::string("histories:") + items[0].fam);
    for (size_t a = 0; a < n; a++)
      for (size_t b = 0; b < n; b++)
        for (size_t c = 0; c < n; c++) {
          if (!items[c].compare && !items[b].compare) continue;  // nothing after the first call would be compared
          if (!r.take()) continue;
          h = {a, b, c};
          if (run_history(r, items, h, "wrong-result-in-call-sequence")) okt++;
        }
  }
  std::vector<Item> all;
  {
    std::vector<std::vector<Item>> full(5);
    add_decode_items(full[0], false);
    add_encode_items(full[1]);
    add_rot13_items(full[2]);
    add_escape_items(full[3], false);
    add_netloc_items(full[4]);
    for (auto& f : full)
      for (auto& it : f) all.push_back(it);
  }
  r.note("histories:pairs");
  for (size_t a = 0; a < all.size(); a++)
    for (size_t b = 0; b < all.size(); b++) {
      if (!r.take()) continue;
      h = {a, b, a};
      if (run_history(r, all, h, "wrong-result-in-call-sequence")) okp++;
    }
  r.hist["history:every compared call of an ordered triple within one family gives the demanded result"] += okt;
  r.hist["history:A,B,A over all families together: every compared call gives the demanded result"] += okp;
  if (r.shard == 0) r.counters["calls in the item set (all families)"] = all.size();
  r.bound = vf::fmt("call items: base64_decode %zu (inputs: empty, valid, characters private to either alphabet, padded, bad length/char/padding, a 344-character encoding using all 64 characters; x {nullptr, URLSAFE, caller buffer std, caller buffer url}, overloads alternating), "
                    "base64_encode %zu, rot13 %zu, escapers %zu (inputs x 8 call forms), netloc %zu (6 (host, port) round trips x 3 default forms + 10 raw texts incl. ports 65536, 10^20, 1e999, empty, non-numeric x 2 defaults, results not compared); "
                    "every ordered triple within each family + every ordered pair over the %zu items of all families run as A,B,A; ambient errno in {0, ERANGE, EINVAL, EINTR} by case index at the start of each history",
      fams[0].size(), fams[1].size(), fams[2].size(), fams[3].size(), fams[4].size(), all.size());
}

// The same calls in other execution contexts: inside a catch handler, inside a destructor that runs during stack
// unwinding, on a fresh thread (twice), and under each ambient errno value.
namespace {
struct AtUnwind {
  std::function<void()> f;
  ~AtUnwind() { f(); }
};
}  // namespace
VF_SECTION(contexts, 4, 4, 120) {
  r.note("contexts");
  std::vector<Item> all;
  add_decode_items(all, false);
  add_encode_items(all);
  add_rot13_items(all);
  add_escape_items(all, false);
  add_netloc_items(all);
  static const int errnos[] = {0, ERANGE, EINVAL, EINTR, EDOM, EAGAIN, ENOMEM, EOVERFLOW, EILSEQ};
  static const char* ctx_name[] = {"inside a catch handler (std::runtime_error being handled)", "inside the handler of an invalid_argument thrown by base64_decode itself", "inside a destructor running during stack unwinding",
      "on a fresh thread (called twice there)", "inside a catch handler with errno = ERANGE"};
  uint64_t okc = 0;
  for (size_t i = 0; i < all.size(); i++) {
    const Item& it = all[i];
    if (!it.compare) continue;
    for (int ctx = 0; ctx < 5 + 9; ctx++) {
      if (!r.take()) continue;
      std::string cname = ctx < 5 ? std::string(ctx_name[ctx]) : vf::fmt("with errno = %d (%s) on entry", errnos[ctx - 5], strerror(errnos[ctx - 5]));
      if (r.wants_desc()) r.desc(it.text + " " + cname);
      r.nontriv();
      std::string got, got2;
      bool twice = false;
      switch (ctx) {
        case 0:
          try {
            throw std::runtime_error("in flight");
          } catch (const std::runtime_error&) {
            got = it.call();
          }
          break;
        case 1:
          try {
            phosg::base64_decode(std::string("A"));
            throw std::invalid_argument("base64_decode(\"A\") did not throw");
          } catch (const std::invalid_argument&) {
            got = it.call();
          }
          break;
        case 2:
          try {
            AtUnwind u{[&] { got = it.call(); }};
            throw std::runtime_error("unwinding");
          } catch (const std::runtime_error&) {
          }
          break;
        case 3: {
          twice = true;
          std::thread t([&] {
            got = it.call();
            got2 = it.call();
          });
          t.join();
          break;
        }
        case 4:
          try {
            throw std::runtime_error("in flight");
          } catch (const std::runtime_error&) {
            errno = ERANGE;
            got = it.call();
          }
          break;
        default:
          errno = errnos[ctx - 5];
          got = it.call();
          break;
      }
      if (got != it.want || (twice && got2 != it.want)) r.fail(std::string(it.fam) + ":wrong-result-in-context", [&] { return it.text + " " + cname + " gave " + brief(got != it.want ? got : got2) + ", demanded " + brief(it.want); });
      else okc++;
    }
  }
  r.hist["context:demanded result in every execution context"] += okc;
  r.bound = "every compared call item of the histories section (all families) x {in a catch handler, in the handler of base64_decode's own invalid_argument, in a destructor during stack unwinding, on a fresh thread twice, in a catch handler with errno = ERANGE, "
            "errno on entry in {0, ERANGE, EINVAL, EINTR, EDOM, EAGAIN, ENOMEM, EOVERFLOW, EILSEQ}}";
}

// Multi-function scenarios judged by their FINAL result only.
VF_SECTION(chains, 8, 8, 120) {
  r.note("chains");
  uint64_t okc = 0;
  std::string a256 = all256();
  auto chain = [&](const std::string& x) {
    if (r.wants_desc()) r.desc("chains on x = " + brief(x));
    r.nontriv();
    std::string stage, final_value;
    auto bad = [&](const char* which) {
      r.fail(std::string("chain:") + which, [&] { return vf::fmt("x = %s: chain %s ended in %s instead of x (last intermediate: %s)", brief(x).c_str(), which, brief(final_value).c_str(), brief(stage).c_str()); });
    };
    std::string oc = vf::outcome([&] {
      // 1: URL-safe base64 -> escape_url(slash escaped) -> independent percent-decoder -> URL-safe decode
      stage = phosg::escape_url(phosg::base64_encode(x, phosg::URLSAFE_ALPHABET), true);
      auto pd = percent_decode(stage);
      final_value = pd ? phosg::base64_decode(*pd, phosg::URLSAFE_ALPHABET) : std::string("(escape_url output is not percent-decodable)");
    });
    if (oc != "ok" || final_value != x) { if (oc != "ok") final_value = "exception " + oc; bad("base64url>escape_url>unescape>decode"); return; }
    oc = vf::outcome([&] {
      // 2: standard base64 (contains + / =) -> escape_url(defaulted) -> percent-decoder -> decode
      stage = phosg::escape_url(phosg::base64_encode(x));
      auto pd = percent_decode(stage);
      final_value = pd ? phosg::base64_decode(*pd) : std::string("(escape_url output is not percent-decodable)");
    });
    if (oc != "ok" || final_value != x) { if (oc != "ok") final_value = "exception " + oc; bad("base64>escape_url>unescape>decode"); return; }
    oc = vf::outcome([&] {
      // 3: a host made of URL-safe base64 text (never contains a colon), port derived from x
      int port = x.empty() ? 65535 : 1 + (static_cast<unsigned char>(x[0]) * 257 + static_cast<int>(x.size())) % 65535;
      std::string host = "h" + phosg::base64_encode(x, phosg::URLSAFE_ALPHABET);
      stage = phosg::render_netloc(host, port);
      auto back = phosg::parse_netloc(stage);
      final_value = back.second == port && !back.first.empty() ? phosg::base64_decode(back.first.substr(1), phosg::URLSAFE_ALPHABET) : vf::fmt("(port %u, host %s)", (unsigned)back.second, brief(back.first).c_str());
    });
    if (oc != "ok" || final_value != x) { if (oc != "ok") final_value = "exception " + oc; bad("base64url>render_netloc>parse_netloc>decode"); return; }
    for (int ascii = 0; ascii < 2; ascii++) {
      oc = vf::outcome([&] {
        // 4: escape_controls -> rot13 -> rot13 -> independent C unescaper
        std::string e = phosg::escape_controls(x, ascii);
        std::string r1 = phosg::rot13(e.data(), e.size());
        stage = phosg::rot13(r1.data(), r1.size());
        auto un = c_unescape(stage);
        final_value = un ? *un : std::string("(not unescapable)");
      });
      if (oc != "ok" || final_value != x) { if (oc != "ok") final_value = "exception " + oc; bad("escape_controls>rot13>rot13>unescape"); return; }
    }
    okc++;
  };
  vf::all_strings(a256, 2, [&](const std::string& x) {
    if (!r.take()) return;
    chain(x);
  });
  for (size_t n = 3; n <= 400; n++)
    for (int k = 1; k < 4; k++) {
      if (!r.take()) continue;
      chain(pattern(k, n));
    }
  r.hist["chain:final value equals the input in all four chains"] += okc;
  r.bound = "x = all byte strings of length 0..2 (65 793) and every length 3..400 of 3 fills: base64url>escape_url(slash)>percent-decode>base64url-decode; base64>escape_url>percent-decode>decode; host 'h'+base64url(x) with a port derived from x through render_netloc>parse_netloc>decode; "
            "escape_controls(both flags)>rot13>rot13>C-unescape; only the final value is compared with x";
}

// Round 5: the ambient text-conversion environment as an enumerated dimension.  The classic environment first, then
// every environment of environments(): the netloc all-ports sweep, the escaper / base64 / rot13 quick families under
// each.  Nothing in the statement is conditional on the process locale, so the same references decide every case.
VF_SECTION(environments, 16, 16, 180) {
  Out out;  // never opened: no Python replay of this section
  std::vector<std::string> missing;
  const std::vector<Env>& envs = environments(&missing);
  std::string a256 = all256();
  std::string R9("Az9+-=!\x80\xFF", 9);
  static const char* hosts[3] = {"a", "1.1", "[-] "};
  static const Dflt dflts[3] = {{false, 0}, {true, 0}, {false, 65535}};
  uint64_t dtally[6] = {0}, etally[NESC] = {0};
  for (size_t ei = 0; ei <= envs.size(); ei++) {
    const Env* env = ei ? &envs[ei - 1] : nullptr;
    std::string ename = env ? env->name : std::string("classic (nothing installed)");
    uint64_t okn = 0, okr = 0;
    // (0) the environment is in force at the place of the call and gone afterwards
    r.note("environment self-check");
    if (r.take()) {
      if (r.wants_desc()) r.desc("harness self-check: environment in force during the call and removed afterwards: " + ename);
      r.nontriv();
      std::string bad = env ? env_not_established(*env) : std::string();
      if (!bad.empty()) r.fail("harness:environment-not-established", [&] { return ename + ": " + bad; });
      else r.ok("environment established and restored");
    }
    g_env = env;
    EnvBlock block(env);
    // (1) netloc: all ports x 3 hosts (default_port 0 / omitted / 65535)
    r.note("netloc under " + ename);
    for (int hi = 0; hi < 3; hi++) {
      const std::string h = hosts[hi];
      const Dflt& d = dflts[hi];
      for (int port = 0; port <= 65535; port++) {
        if (!r.take()) continue;
        if (r.wants_desc()) r.desc(vf::fmt("parse_netloc(render_netloc(%s, %d), %s)", vf::show(h).c_str(), port, dflt_name(d).c_str()) + envtag());
        r.nontriv();
        std::string rendered, what, oc;
        std::pair<std::string, uint16_t> back;
        r.poison_errno();
        {
          EnvScope es;
          oc = vf::outcome([&] { rendered = phosg::render_netloc(h, port); back = lib_parse(rendered, d); }, &what);
        }
        bool port_demanded = port != 0 || d.omit || d.d == 0;
        auto desc = [&] {
          return vf::fmt("parse_netloc(render_netloc(%s, %d) = %s, %s): %s", vf::show(h).c_str(), port, vf::show(rendered).c_str(), dflt_name(d).c_str(),
                     oc == "ok" ? vf::fmt("returned (%s, %u)", vf::show(back.first).c_str(), (unsigned)back.second).c_str() : ("threw " + oc + " (" + what + ")").c_str()) + envtag();
        };
        if (oc != "ok") r.fail(K("netloc:throws"), desc);
        else if (back.first != h) r.fail(K("netloc:host-roundtrip"), desc);
        else if (port_demanded && back.second != port) r.fail(K(d.omit || d.d == 0 ? "netloc:roundtrip" : "netloc:roundtrip-with-default"), desc);
        else okn++;
      }
    }
    // (2) the five base escaper call forms on all byte strings of length 0..2, the three wrapper forms on length 0..1
    for (int e = 0; e < NESC; e++) {
      r.note(std::string(esc_name[e]) + " under " + ename);
      vf::all_strings(a256, e < NBASE ? 2 : 1, [&](const std::string& s) {
        if (!r.take()) return;
        escape_case(r, out, s, e, false, etally);
      });
    }
    // (3) base64: encode + round trip of all byte strings of length 0..2, strict decode of a 9-symbol grid
    r.note("base64 under " + ename);
    vf::all_strings(a256, 2, [&](const std::string& x) {
      for (int m = 0; m < 2; m++) {
        if (!r.take()) continue;
        encode_case(r, out, x, m, false);
      }
    });
    vf::all_strings(R9, 4, [&](const std::string& s) {
      for (int m = 0; m < 2; m++) {
        if (!r.take()) continue;
        decode_case(r, nullptr, s, m, dtally);
      }
    });
    // (4) rot13 on all byte strings of length 0..2
    r.note("rot13 under " + ename);
    vf::all_strings(a256, 2, [&](const std::string& s) {
      if (!r.take()) return;
      if (rot13_case(r, nullptr, s)) okr++;
    });
    g_env = nullptr;
    r.hist["netloc round trip, all ports: " + ename] += okn;
    r.hist["rot13 = arithmetic model, involution: " + ename] += okr;
  }
  flush_decode_tally(r, dtally);
  for (int e = 0; e < NESC; e++) r.hist[std::string(esc_name[e]) + (esc_base(e) == E_QUOTES ? ":printable,no-raw-quote" : ":alphabet-ok,decodes-to-input")] += etally[e];
  if (r.shard == 0) {
    r.counters["environments enumerated (classic included)"] = envs.size() + 1;
    std::string names = "classic";
    for (const auto& e : envs) names += " | " + e.name;
    r.notes.push_back("environments: " + names);
    std::string miss;
    for (const auto& m : missing) miss += (miss.empty() ? "" : ", ") + ("\"" + m + "\"");
    r.notes.push_back("C locale names probed with setlocale and not installed on this machine (not enumerated): " + (miss.empty() ? std::string("none") : miss));
  }
  r.bound = vf::fmt("%zu environments (the classic one first; 7 process-wide C++ locales built from facets: numpunct grouping \\3 with ',' or '.', \\1 with ' ', \\3\\2 with an apostrophe, decimal_point ',' alone, a ctype<char> classifying 0x80..0xFF as letters, both; every C locale of a fixed 18-name list that setlocale accepts here (\"C\", \"C.utf8\", \"\" = the checking process's LANG/LC_*; aliases once), "
                    "installed by setlocale(LC_ALL / LC_NUMERIC / LC_CTYPE), by uselocale on the calling thread, as a named std::locale and together with a grouping C++ locale) x {render_netloc/parse_netloc: 3 hosts x all 65536 ports (default_port 0 / omitted / 65535); "
                    "5 base escaper call forms, base64 encode+round trip (2 alphabets, both overloads) and rot13 on all byte strings of length 0..2, the 3 escaper wrapper forms on length 0..1; strict base64_decode on all strings of length 0..4 over {A,z,9,+,-,=,!,0x80,0xFF} x 2 alphabets x both overloads}",
      envs.size() + 1);
}

VF_MAIN()
