// C02_cursor.hh — cursor operations: explicit-state search over (where, length) to the fixpoint and
// un-merged operation histories (included by C02.cc).
#pragma once

namespace {

enum COpType { C_GET, C_GETV, C_PEEK, C_READ, C_READX, C_READBUF, C_READXBUF, C_SKIP, C_SKIPIF, C_LINE, C_CSTR, C_GO, C_TRUNC };
enum KSym { K0, K1, K2, KN, KN1, KMAX, KWRAP, NKSYM };  // 0, 1, 2, n, n+1, 2^64-1, 2^64-where
const char* ksym_name[] = {"0", "1", "2", "n", "n+1", "2^64-1", "2^64-where"};

struct COp {
  COpType t;
  const Kind* k = nullptr;
  int ksym = 0;
  bool adv = true;
  bool match = false;
  uint64_t j = 0;
  std::string name;
  std::string key;  // finding-key stem
  bool is_read() const { return t != C_GO && t != C_TRUNC; }
};

uint64_t kval(int ksym, size_t n, uint64_t where) {
  switch (ksym) {
    case K0: return 0;
    case K1: return 1;
    case K2: return 2;
    case KN: return n;
    case KN1: return n + 1;
    case KMAX: return ~0ull;
    default: return 0 - where;
  }
}

std::vector<COp> cursor_ops(size_t n) {
  std::vector<COp> ops;
  auto add = [&](COp o) { ops.push_back(o); };
  for (const char* kn : {"u8", "u16l", "u32b", "u64l", "u24b", "u48l"})
    for (bool adv : {true, false}) {
      COp o;
      o.t = C_GET;
      o.k = c01::kind(kn);
      o.adv = adv;
      o.name = std::string("get_") + kn + (adv ? "()" : "(false)");
      o.key = (o.k->w == 3 || o.k->w == 6) ? std::string("get_") + kn : "get<T>";
      add(o);
    }
  struct { COpType t; const char* nm; bool has_adv; } sized[] = {{C_GETV, "getv", true}, {C_PEEK, "peek", false}, {C_READ, "read", true}, {C_READX, "readx", true},
      {C_READBUF, "read_buf", true}, {C_READXBUF, "readx_buf", true}, {C_SKIP, "skip", false}};
  for (auto& s : sized)
    for (int ks = 0; ks < NKSYM; ks++)
      for (bool adv : {true, false}) {
        if (!adv && !s.has_adv) continue;
        COp o;
        o.t = s.t;
        o.ksym = ks;
        o.adv = adv;
        o.name = std::string(s.nm) + "(" + ksym_name[ks] + (adv ? ")" : ", false)");
        o.key = s.nm;
        add(o);
      }
  for (int ks : {K0, K1, K2, KN, KN1})
    for (bool match : {true, false}) {
      COp o;
      o.t = C_SKIPIF;
      o.ksym = ks;
      o.match = match;
      o.name = std::string("skip_if(") + (match ? "matching, " : "different, ") + ksym_name[ks] + ")";
      o.key = "skip_if";
      add(o);
    }
  for (bool adv : {true, false}) {
    COp o;
    o.t = C_LINE;
    o.adv = adv;
    o.name = adv ? "get_line()" : "get_line(false)";
    o.key = "get_line";
    add(o);
    o.t = C_CSTR;
    o.name = adv ? "get_cstr()" : "get_cstr(false)";
    o.key = "get_cstr";
    add(o);
  }
  std::vector<uint64_t> gos;
  for (uint64_t j = 0; j <= n + 1; j++) gos.push_back(j);
  gos.push_back(~0ull);
  for (uint64_t j : gos) {
    COp o;
    o.t = C_GO;
    o.j = j;
    o.name = "go(" + u64s(j) + ")" + (j > n ? " [explicit go past the end]" : "");
    o.key = "go";
    add(o);
  }
  for (uint64_t j = 0; j <= n + 1; j++) {
    COp o;
    o.t = C_TRUNC;
    o.j = j;
    o.name = "truncate(" + u64s(j) + ")";
    o.key = "truncate";
    add(o);
  }
  return ops;
}

struct CState {
  uint64_t where, len;
  bool operator<(const CState& o) const { return where != o.where ? where < o.where : len < o.len; }
};

// Applies op to rd (whose data is the first n bytes of CONTENT at `base`) and judges it against the
// model.  Returns "" when fine, else "key-suffix\x01description".  `judge=false` only executes.
std::string apply_cursor_op(StringReader& rd, const uint8_t* base, size_t n, const COp& o, bool judge, std::string* cls) {
  const uint64_t w = rd.where(), len = rd.size();
  const uint64_t k = kval(o.ksym, n, w);
  std::string what, oc, bad;
  auto fail = [&](const std::string& suffix, const std::string& d) { if (bad.empty()) bad = o.key + ":" + suffix + "\x01" + d; };
  auto slice = [&](uint64_t a, uint64_t b) { return std::string((const char*)CONTENT + a, b - a); };
  const uint64_t lo = clamp_lo(w, len), hi = clamp_hi(w, k, len);
  switch (o.t) {
    case C_GET: {
      bool in = in_range(w, o.k->w, len);
      uint64_t got = 0;
      oc = vf::outcome([&] { got = o.k->get(rd, o.adv); }, &what);
      if (!judge) break;
      if (!in) { if (oc != "out_of_range") fail("out-of-range-not-rejected", oc == "ok" ? vf::fmt("fewer than %d bytes at the cursor, yet the call returned 0x%llX", o.k->w, (unsigned long long)got) : "expected std::out_of_range, got " + oc + " (" + what + ")"); else *cls = o.key + "/rejects-out-of-range"; }
      else if (oc != "ok") fail("rejected-in-range", "got " + oc + " (" + what + ")");
      else if (got != o.k->expect(c01::dec(CONTENT + w, o.k->w, o.k->e))) fail("wrong-result", vf::fmt("returned 0x%llX", (unsigned long long)got));
      else *cls = o.key + "/in-range-exact";
      break;
    }
    case C_GETV:
    case C_PEEK: {
      bool in = in_range(w, k, len);
      const void* p = nullptr;
      oc = vf::outcome([&] { p = o.t == C_GETV ? rd.getv(k, o.adv) : (const void*)rd.peek(k); }, &what);
      if (!judge) break;
      if (!in) { if (oc != "out_of_range") fail("out-of-range-not-rejected", oc == "ok" ? "cursor+size exceeds the data, yet the call returned a pointer" : "expected std::out_of_range, got " + oc + " (" + what + ")"); else *cls = o.key + "/rejects-out-of-range"; }
      else if (oc != "ok") fail("rejected-in-range", "got " + oc + " (" + what + ")");
      else if (p != base + w) fail("wrong-result", vf::fmt("returned data%+lld, expected data+%llu", (long long)((const uint8_t*)p - base), (unsigned long long)w));
      else *cls = o.key + "/in-range-exact";
      break;
    }
    case C_READ:
    case C_READX: {
      bool in = in_range(w, k, len);
      std::string got;
      oc = vf::outcome([&] { got = o.t == C_READ ? rd.read(k, o.adv) : rd.readx(k, o.adv); }, &what);
      if (!judge) break;
      if (o.t == C_READ) {
        if (oc != "ok") fail("throws", "clamping form must not throw; got " + oc + " (" + what + ")");
        else if (got != slice(lo, hi)) fail("wrong-result", vf::fmt("returned %zu bytes %s, model slice [%llu,%llu)", got.size(), vf::show(got.substr(0, 32)).c_str(), (unsigned long long)lo, (unsigned long long)hi));
        else *cls = o.key + (in ? "/in-range-exact" : hi > lo ? "/clamped-prefix" : "/clamped-empty");
      } else {
        if (!in) { if (oc != "out_of_range") fail("out-of-range-not-rejected", oc == "ok" ? vf::fmt("cursor+size exceeds the data, yet the call returned %zu bytes", got.size()) : "expected std::out_of_range, got " + oc + " (" + what + ")"); else *cls = o.key + "/rejects-out-of-range"; }
        else if (oc != "ok") fail("rejected-in-range", "got " + oc + " (" + what + ")");
        else if (got != slice(w, w + k)) fail("wrong-result", "returned " + vf::show(got.substr(0, 32)));
        else *cls = o.key + "/in-range-exact";
      }
      break;
    }
    case C_READBUF:
    case C_READXBUF: {
      bool in = in_range(w, k, len);
      size_t bufsz = k <= n ? k : n;
      Exact buf(bufsz, 0xEE);
      size_t cnt = 0;
      oc = vf::outcome([&] { if (o.t == C_READBUF) cnt = rd.read(buf.p, k, o.adv); else { rd.readx(buf.p, k, o.adv); cnt = k; } }, &what);
      if (!judge) break;
      uint64_t wl = o.t == C_READBUF ? lo : w, wn = o.t == C_READBUF ? hi - lo : k;
      if (o.t == C_READXBUF && !in) {
        bool untouched = true;
        for (size_t i = 0; i < bufsz; i++) untouched = untouched && buf.p[i] == 0xEE;
        if (oc != "out_of_range") fail("out-of-range-not-rejected", oc == "ok" ? "cursor+size exceeds the data, yet the call returned" : "expected std::out_of_range, got " + oc + " (" + what + ")");
        else if (!untouched) fail("wrong-result", "threw, but wrote to the caller's buffer first");
        else *cls = o.key + "/rejects-out-of-range";
        break;
      }
      if (oc != "ok") { fail(o.t == C_READBUF ? "throws" : "rejected-in-range", "got " + oc + " (" + what + ")"); break; }
      bool same = cnt == wn && cnt <= bufsz && !memcmp(buf.p, CONTENT + wl, wn);
      for (size_t i = wn; same && i < bufsz; i++) same = buf.p[i] == 0xEE;
      if (!same) fail("wrong-result", vf::fmt("copied %zu bytes (buffer %s), model %llu bytes from %llu", cnt, vf::show(buf.p, bufsz).c_str(), (unsigned long long)wn, (unsigned long long)wl));
      else *cls = o.key + (in ? "/in-range-exact" : wn ? "/clamped-prefix" : "/clamped-empty");
      break;
    }
    case C_SKIP:
      // held to the cursor invariant only (checked by the caller)
      oc = vf::outcome([&] { rd.skip(k); }, &what);
      if (judge) *cls = "skip/" + oc;
      break;
    case C_SKIPIF: {
      bool in = in_range(w, k, len);
      Exact pat(k, 'Z');
      if (o.match && in) memcpy(pat.p, CONTENT + w, k);
      bool equal = in && !memcmp(pat.p, CONTENT + w, k);
      bool ret = false;
      oc = vf::outcome([&] { ret = rd.skip_if(pat.p, k); }, &what);
      if (!judge) break;
      if (!in) {
        if (oc == "ok" && ret) fail("out-of-range-not-rejected", "fewer bytes than the pattern remain, yet skip_if returned true");
        else if (oc != "ok" && oc != "out_of_range") fail("out-of-range-not-rejected", "expected false or std::out_of_range, got " + oc + " (" + what + ")");
        else *cls = "skip_if/not-enough-data:" + oc;
      } else if (oc != "ok") fail("rejected-in-range", "got " + oc + " (" + what + ")");
      else if (ret != equal) fail("wrong-result", vf::fmt("returned %d, pattern %s the data at the cursor", (int)ret, equal ? "equals" : "differs from"));
      else if (rd.where() != w + (ret ? k : 0)) fail("wrong-result", vf::fmt("returned %d and moved the cursor from %llu to %zu", (int)ret, (unsigned long long)w, rd.where()));
      else *cls = ret ? "skip_if/matched" : "skip_if/no-match";
      break;
    }
    case C_LINE:
    case C_CSTR: {
      // item at the cursor: bytes up to the terminator (LF or end of data for lines, NUL for C strings)
      const uint8_t term = o.t == C_LINE ? '\n' : 0;
      uint64_t j = w;
      bool have = w < len;
      if (have) {
        while (j < len && CONTENT[j] != term) j++;
        if (o.t == C_CSTR && j >= len) have = false;
      }
      std::string got;
      oc = vf::outcome([&] { got = o.t == C_LINE ? rd.get_line(o.adv) : rd.get_cstr(o.adv); }, &what);
      if (!judge) break;
      if (!have) { if (oc != "out_of_range") fail("out-of-range-not-rejected", std::string(o.t == C_LINE ? "cursor at or past the end" : "no NUL before the end of the data") + "; expected std::out_of_range, got " + oc + (oc == "ok" ? " returning " + vf::show(got.substr(0, 32)) : " (" + what + ")")); else *cls = o.key + "/rejects-out-of-range"; break; }
      if (oc != "ok") { fail("rejected-in-range", "got " + oc + " (" + what + ")"); break; }
      std::string want = slice(w, j);
      if (o.t == C_LINE && !want.empty() && want.back() == '\r') want.pop_back();
      if (got != want) fail("wrong-result", "returned " + vf::show(got.substr(0, 32)) + ", model " + vf::show(want));
      else *cls = o.key + "/in-range-exact";
      break;
    }
    case C_GO:
      oc = vf::outcome([&] { rd.go(o.j); }, &what);
      if (judge) *cls = o.j > len ? "go/past-the-end" : "go/inside";
      break;
    case C_TRUNC:
      oc = vf::outcome([&] { rd.truncate(o.j); }, &what);
      if (judge) *cls = "truncate/" + oc;
      break;
  }
  if (!judge) return "";
  // universal: the data never grows; reads never change the length; a read that starts with the
  // cursor inside the data never leaves it beyond the end
  if (bad.empty()) {
    if (rd.size() > len) fail("length-grew", vf::fmt("size() %llu -> %zu", (unsigned long long)len, rd.size()));
    else if (o.is_read() && rd.size() != len) fail("length-changed", vf::fmt("size() %llu -> %zu", (unsigned long long)len, rd.size()));
    else if (o.is_read() && w <= len && rd.where() > rd.size()) fail("cursor-past-end", vf::fmt("cursor %llu -> %zu with size() %zu (%s): remaining() underflows without an explicit go() past the end", (unsigned long long)w, rd.where(), rd.size(), oc.c_str()));
  }
  return bad;
}

// 1 / 0: throwing form whose model accepts / rejects the call in this state; -1: clamping or non-read
int cursor_op_model_accepts(const COp& o, uint64_t w, uint64_t len, size_t n) {
  const uint64_t k = kval(o.ksym, n, w);
  switch (o.t) {
    case C_GET: return in_range(w, o.k->w, len);
    case C_GETV: case C_PEEK: case C_READX: case C_READXBUF: case C_SKIPIF: return in_range(w, k, len);
    case C_LINE: return w < len;
    case C_CSTR: {
      for (uint64_t j = w; j < len; j++)
        if (CONTENT[j] == 0) return 1;
      return 0;
    }
    default: return -1;
  }
}

std::string hist_name(const std::vector<COp>& ops, const std::vector<uint32_t>& h) {
  std::string s;
  for (size_t i = 0; i < h.size(); i++) s += (i ? "; " : "") + ops[h[i]].name;
  return s.empty() ? "(fresh reader)" : s;
}

// child side: fresh reader, replay `hist` unjudged, then judge `op`
void run_cursor_case(const uint8_t* base, size_t n, const char* plname, const std::vector<COp>& ops, const std::vector<uint32_t>& hist, uint32_t op, const CState* expect_pre, CaseResult& res) {
  const COp& o = ops[op];
  res.arm(o.key + ":memory-error", vf::fmt("%zu-byte reader (%s), history [%s], then %s", n, plname, hist_name(ops, hist).c_str(), o.name.c_str()));
  StringReader rd(base, n);
  std::string cls;
  // key to use if a call is fatal: a throwing form that the model says must reject the call and
  // that dies instead has not rejected it.  A death while replaying the prefix belongs to the
  // prefix operation that caused it, not to the operation under judgement.
  auto arm_for = [&](const COp& x) {
    int m = cursor_op_model_accepts(x, rd.where(), rd.size(), n);
    res.set(res.key, sizeof(res.key), x.key + (m < 0 ? ":memory-error" : m ? ":memory-error-in-range" : ":out-of-range-not-rejected"));
  };
  for (uint32_t h : hist) {
    arm_for(ops[h]);
    apply_cursor_op(rd, base, n, ops[h], false, &cls);
  }
  arm_for(o);
  if (expect_pre && (rd.where() != expect_pre->where || rd.size() != expect_pre->len)) {
    res.fail("engine:replay-mismatch", vf::fmt("replayed history reaches (where=%zu, size=%zu), stored state is (%llu, %llu)", rd.where(), rd.size(), (unsigned long long)expect_pre->where, (unsigned long long)expect_pre->len));
    return;
  }
  uint64_t w0 = rd.where(), l0 = rd.size();
  std::string desc = std::string(res.msg) + vf::fmt(" at (where=%s, size=%llu)", u64s(w0).c_str(), (unsigned long long)l0);
  res.set(res.msg, sizeof(res.msg), desc);
  std::string bad = apply_cursor_op(rd, base, n, o, true, &cls);
  res.a = rd.where();
  res.b = rd.size();
  if (!bad.empty()) {
    size_t sp = bad.find('\x01');
    res.fail(bad.substr(0, sp), bad.substr(sp + 1));
  } else res.ok(cls);
}

}  // namespace

// E-BFS over the complete state of a reader, (where, length), to the fixpoint: one shard per n.
VF_SECTION(cursor_bfs, 5, 5, 90) {
  size_t ni = 0;
  for (size_t n : NS) {
    size_t my = ni++;
    if (r.only < 0 && my % r.nshards != r.shard) continue;
    Placement pl(0, n);
    auto ops = cursor_ops(n);
    std::map<CState, std::vector<uint32_t>> seen;  // state -> shortest history
    std::deque<CState> queue;
    CState init{0, n};
    seen[init] = {};
    queue.push_back(init);
    size_t maxdepth = 0;
    // On a correct reader the state space is tiny (where <= n+1 or 2^64-1, size <= n).  A defect that
    // lets the cursor run away (e.g. skip() that stops clamping) makes it unbounded: stop at a cap,
    // report what was found, and say that the fixpoint was not reached.
    const size_t STATE_CAP = 10 * (n + 3) * (n + 1);
    bool capped = false;
    while (!queue.empty()) {
      if (seen.size() > STATE_CAP) { capped = true; break; }
      CState s = queue.front();
      queue.pop_front();
      std::vector<uint32_t> hist = seen[s];
      maxdepth = std::max(maxdepth, hist.size());
      r.states++;
      r.note(vf::fmt("n=%zu state(where=%s,len=%llu)", n, u64s(s.where).c_str(), (unsigned long long)s.len));
      auto* res = c02::run_batch(r, ops.size(), [&](size_t i, CaseResult& c) { run_cursor_case(pl.base, n, pl.name, ops, hist, (uint32_t)i, &s, c); });
      r.evals += ops.size();
      r.nontrivial += ops.size();
      r.transitions += ops.size();
      c02::fold(r, res, ops.size());
      for (size_t i = 0; i < ops.size(); i++) {
        if (res[i].code != c02::OK) continue;  // no successor through a violated transition
        CState t{res[i].a, res[i].b};
        if (!seen.count(t)) {
          auto h2 = hist;
          h2.push_back((uint32_t)i);
          seen[t] = h2;
          queue.push_back(t);
        }
      }
    }
    r.counters[vf::fmt("states n=%zu", n)] += seen.size();
    r.counters[vf::fmt("max depth n=%zu", n)] += maxdepth;
    if (capped) {
      r.exhaustive = false;
      r.notes.push_back(vf::fmt("cursor_bfs n=%zu: state cap %zu exceeded (cursor runs away), fixpoint NOT reached", n, STATE_CAP));
    } else r.notes.push_back(vf::fmt("cursor_bfs n=%zu: fixpoint reached, %zu states, %zu operations per state, longest shortest-history %zu", n, seen.size(), ops.size(), maxdepth));
  }
  r.counters["forks"] += c02::stats().forks;
  r.bound = "n in {0,1,2,5,8}: every reachable (where, size) state of a reader (fixpoint), every operation of the alphabet {get_u8/u16l/u32b/u64l/u24b/u48l, getv, peek, read, readx, read(buf), readx(buf), skip with k in {0,1,2,n,n+1,2^64-1,2^64-where}; skip_if; get_line; get_cstr; go(0..n+1, 2^64-1); truncate(0..n+1)} from every state";
}

// Un-merged histories (no state merging): every operation sequence of length <= D, judged at its
// last operation.  One case = one prefix with every last operation.
VF_SECTION(cursor_hist, 16, 16, 90) {
  const size_t depth = r.thorough() ? 3 : 2;
  for (size_t n : NS) {
    Placement pl(1, n);
    auto ops = cursor_ops(n);
    r.note(vf::fmt("n=%zu histories", n));
    for (size_t plen = 0; plen < depth; plen++) {
      std::vector<uint32_t> pre(plen, 0);
      bool more = true;
      while (more) {
        if (r.take()) {
          if (r.wants_desc()) r.desc(vf::fmt("%zu-byte reader, history [%s] followed by every operation", n, hist_name(ops, pre).c_str()));
          auto* res = c02::run_batch(r, ops.size(), [&](size_t i, CaseResult& c) { run_cursor_case(pl.base, n, pl.name, ops, pre, (uint32_t)i, nullptr, c); });
          r.evals += ops.size() - 1;
          r.nontrivial += ops.size();
          r.states += ops.size();
          r.transitions += ops.size() * (plen + 1);
          c02::fold(r, res, ops.size());
        }
        size_t i = plen;
        for (;;) {
          if (i == 0) { more = false; break; }
          i--;
          if (++pre[i] < ops.size()) break;
          pre[i] = 0;
        }
      }
    }
  }
  r.counters["forks"] += c02::stats().forks;
  r.bound = vf::fmt("n in {0,1,2,5,8}: every sequence of <= %zu cursor operations over the same alphabet, replayed un-merged on a fresh reader over an exact-size heap block", depth);
}
