// C02_cursor.hh — cursor operations: explicit-state search over (where, length) to the fixpoint and
// un-merged operation histories (included by C02.cc).
#pragma once

namespace {

enum COpType { C_GET, C_GETV, C_PEEK, C_READ, C_READX, C_READBUF, C_READXBUF, C_SKIP, C_SKIPIF, C_LINE, C_CSTR, C_GO, C_TRUNC, C_GETT, C_GETTW, C_ALL };
// size symbols, evaluated against the *current* state: rem = size() - where()
enum KSym { K0, K1, K2, KN, KN1, KMAX, KWRAP, KREMm1, KREM, KREMp1, K2_31, K2_32, K2_63m1, K2_63, KWRAPm1, KWRAPp1, KMAXm1, NKSYM };
const char* ksym_name[] = {"0", "1", "2", "n", "n+1", "2^64-1", "2^64-where", "remaining-1", "remaining", "remaining+1", "2^31", "2^32", "2^63-1", "2^63", "2^64-where-1", "2^64-where+1", "2^64-2"};
const int NKSYM_CORE = 7;  // the first seven are the round-1 alphabet (kept for the depth-3 histories)

struct COp {
  COpType t;
  const Kind* k = nullptr;
  int ksym = 0;
  bool adv = true;
  bool match = false;
  uint64_t j = 0;
  bool core = false;  // member of the small alphabet used for the deepest histories
  bool hist = true;   // member of the un-merged history alphabet (false: explicit-state search only)
  std::string name;
  std::string key;  // finding-key stem
  bool is_read() const { return t != C_GO && t != C_TRUNC; }
};

uint64_t kval(int ksym, size_t n, uint64_t where, uint64_t len) {
  switch (ksym) {
    case K0: return 0;
    case K1: return 1;
    case K2: return 2;
    case KN: return n;
    case KN1: return n + 1;
    case KMAX: return ~0ull;
    case KMAXm1: return ~0ull - 1;
    case KWRAP: return 0 - where;
    case KWRAPm1: return 0 - where - 1;
    case KWRAPp1: return 0 - where + 1;
    case KREMm1: return len - where - 1;
    case KREM: return len - where;
    case KREMp1: return len - where + 1;
    case K2_31: return 1ull << 31;
    case K2_32: return 1ull << 32;
    case K2_63m1: return (1ull << 63) - 1;
    default: return 1ull << 63;
  }
}

std::vector<COp> cursor_ops(size_t n) {
  std::vector<COp> ops;
  auto add = [&](COp o) { ops.push_back(o); };
  auto is_in = [](const char* s, std::initializer_list<const char*> l) { for (auto x : l) if (!strcmp(s, x)) return true; return false; };
  // every typed getter; the six of round 1 are core, a few more (all 24/48-bit sites, one signed / float /
  // reversed wrapper) are in the history alphabet, the rest only in the explicit-state search
  for (auto& k : c01::kinds())
    for (bool adv : {true, false}) {
      COp o;
      o.t = C_GET;
      o.k = &k;
      o.adv = adv;
      o.core = is_in(k.name, {"u8", "u16l", "u32b", "u64l", "u24b", "u48l"});
      o.hist = o.core || is_in(k.name, {"u24l", "u48b", "s24l", "s48b", "s16b", "u32r", "f64b"});
      o.name = std::string("get_") + k.name + (adv ? "()" : "(false)");
      std::string nm = k.name;
      nm[0] = 'u';
      o.key = (k.w == 3 || k.w == 6) ? "get_" + nm : "get<T>";
      add(o);
    }
  struct { COpType t; const char* nm; bool has_adv; } sized[] = {{C_GETV, "getv", true}, {C_PEEK, "peek", false}, {C_READ, "read", true}, {C_READX, "readx", true},
      {C_READBUF, "read_buf", true}, {C_READXBUF, "readx_buf", true}, {C_SKIP, "skip", false}, {C_GETT, "get<uint8_t>(adv,size)", true}, {C_GETTW, "get<le_uint32_t>(adv,size)", true}};
  for (auto& s : sized)
    for (int ks = 0; ks < NKSYM; ks++)
      for (bool adv : {true, false}) {
        if (!adv && !s.has_adv) continue;
        COp o;
        o.t = s.t;
        o.ksym = ks;
        o.adv = adv;
        o.core = ks < NKSYM_CORE && s.t != C_GETT && s.t != C_GETTW;
        if (s.t == C_GETT || s.t == C_GETTW) {
          o.name = std::string(s.t == C_GETT ? "get<uint8_t>(" : "get<le_uint32_t>(") + (adv ? "true, " : "false, ") + ksym_name[ks] + ")";
          o.key = "get<T>(adv,size)";
          o.hist = s.t == C_GETT || ks >= NKSYM_CORE;
        } else {
          o.name = std::string(s.nm) + "(" + ksym_name[ks] + (adv ? ")" : ", false)");
          o.key = s.nm;
        }
        add(o);
      }
  for (int ks : {K0, K1, K2, KN, KN1, KREMm1, KREM, KREMp1})
    for (bool match : {true, false}) {
      COp o;
      o.t = C_SKIPIF;
      o.ksym = ks;
      o.match = match;
      o.core = ks < NKSYM_CORE;
      o.name = std::string("skip_if(") + (match ? "matching, " : "different, ") + ksym_name[ks] + ")";
      o.key = "skip_if";
      add(o);
    }
  for (bool adv : {true, false}) {
    COp o;
    o.t = C_LINE;
    o.adv = adv;
    o.core = true;
    o.name = adv ? "get_line()" : "get_line(false)";
    o.key = "get_line";
    add(o);
    o.t = C_CSTR;
    o.name = adv ? "get_cstr()" : "get_cstr(false)";
    o.key = "get_cstr";
    add(o);
  }
  {
    COp o;
    o.t = C_ALL;
    o.name = "all()";
    o.key = "all";
    add(o);
  }
  std::vector<uint64_t> gos;
  for (uint64_t j = 0; j <= n + 1; j++) gos.push_back(j);
  gos.push_back(~0ull);
  gos.push_back(1ull << 63);
  for (uint64_t j : gos) {
    COp o;
    o.t = C_GO;
    o.j = j;
    o.core = j != (1ull << 63);
    o.name = "go(" + u64s(j) + ")" + (j > n ? " [explicit go past the end]" : "");
    o.key = "go";
    add(o);
  }
  std::vector<uint64_t> truncs;
  for (uint64_t j = 0; j <= n + 1; j++) truncs.push_back(j);
  truncs.push_back(1ull << 63);
  truncs.push_back(~0ull);
  for (uint64_t j : truncs) {
    COp o;
    o.t = C_TRUNC;
    o.j = j;
    o.core = j <= n + 1;
    o.name = "truncate(" + u64s(j) + ")";
    o.key = "truncate";
    add(o);
  }
  return ops;
}

std::vector<uint32_t> op_subset(const std::vector<COp>& ops, int which) {  // 0: all, 1: history alphabet, 2: core
  std::vector<uint32_t> ix;
  for (uint32_t i = 0; i < ops.size(); i++)
    if (which == 0 || (which == 1 && ops[i].hist) || (which == 2 && ops[i].core)) ix.push_back(i);
  return ix;
}

struct CState {
  uint64_t where, len;
  bool operator<(const CState& o) const { return where != o.where ? where < o.where : len < o.len; }
};

// Applies op to rd (a reader made by view v: its data are the first bytes of v.content) and judges it
// against the model.  Returns "" when fine, else "key-suffix\x01description".  `judge=false` only executes.
std::string apply_cursor_op(StringReader& rd, const View& v, const COp& o, bool judge, std::string* cls) {
  const uint8_t* base = rd.data;
  const uint8_t* content = v.content;
  const size_t n = v.n;
  const uint64_t w = rd.where(), len = rd.size();
  const uint64_t k = kval(o.ksym, n, w, len);
  std::string what, oc, bad;
  auto fail = [&](const std::string& suffix, const std::string& d) { if (bad.empty()) bad = o.key + ":" + suffix + "\x01" + d; };
  auto slice = [&](uint64_t a, uint64_t b) { return std::string((const char*)content + a, b - a); };
  const uint64_t lo = clamp_lo(w, len), hi = clamp_hi(w, k, len);
  switch (o.t) {
    case C_GET: {
      bool in = in_range(w, o.k->w, len);
      uint64_t got = 0;
      oc = vf::outcome([&] { got = o.k->get(rd, o.adv); }, &what);
      if (!judge) break;
      if (!in) { if (oc != "out_of_range") fail("out-of-range-not-rejected", oc == "ok" ? vf::fmt("fewer than %d bytes at the cursor, yet the call returned 0x%llX", o.k->w, (unsigned long long)got) : "expected std::out_of_range, got " + oc + " (" + what + ")"); else *cls = o.key + "/rejects-out-of-range"; }
      else if (oc != "ok") fail("rejected-in-range", "got " + oc + " (" + what + ")");
      else if (got != o.k->expect(c01::dec(content + w, o.k->w, o.k->e))) fail("wrong-result", vf::fmt("returned 0x%llX", (unsigned long long)got));
      else if (rd.where() != w + (o.adv ? o.k->w : 0)) fail("wrong-result", vf::fmt("cursor moved from %llu to %s after a %d-byte get (advance=%d)", (unsigned long long)w, u64s(rd.where()).c_str(), o.k->w, (int)o.adv));
      else *cls = o.key + "/in-range-exact";
      break;
    }
    case C_GETV:
    case C_PEEK:
    case C_GETT:
    case C_GETTW: {
      bool in = in_range(w, k, len);
      const void* p = nullptr;
      oc = vf::outcome([&] {
        if (o.t == C_GETV) p = rd.getv(k, o.adv);
        else if (o.t == C_PEEK) p = rd.peek(k);
        else if (o.t == C_GETT) p = &rd.get<uint8_t>(o.adv, k);
        else p = &rd.get<le_uint32_t>(o.adv, k);
      }, &what);
      if (!judge) break;
      if (!in) { if (oc != "out_of_range") fail("out-of-range-not-rejected", oc == "ok" ? "cursor+size exceeds the data, yet the call returned a pointer" : "expected std::out_of_range, got " + oc + " (" + what + ")"); else *cls = o.key + "/rejects-out-of-range"; }
      else if (oc != "ok") fail("rejected-in-range", "got " + oc + " (" + what + ")");
      else if (p != base + w) fail("wrong-result", vf::fmt("returned data%+lld, expected data+%llu", (long long)((const uint8_t*)p - base), (unsigned long long)w));
      else if (rd.where() != w + ((o.adv && o.t != C_PEEK) ? k : 0)) fail("wrong-result", vf::fmt("cursor moved from %llu to %s for size %llu (advance=%d)", (unsigned long long)w, u64s(rd.where()).c_str(), (unsigned long long)k, (int)(o.adv && o.t != C_PEEK)));
      else *cls = o.key + "/in-range-exact";
      break;
    }
    case C_READ:
    case C_READX: {
      bool in = in_range(w, k, len);
      std::string got;
      oc = vf::outcome([&] { got = o.t == C_READ ? rd.read(k, o.adv) : rd.readx(k, o.adv); }, &what);
      if (!judge) break;
      if (o.t == C_READ) {
        if (oc != "ok") fail("throws", "clamping form must not throw; got " + oc + " (" + what + ")");
        else if (got != slice(lo, hi)) fail("wrong-result", vf::fmt("returned %zu bytes %s, model slice [%llu,%llu)", got.size(), vf::show(got.substr(0, 32)).c_str(), (unsigned long long)lo, (unsigned long long)hi));
        else *cls = o.key + (in ? "/in-range-exact" : hi > lo ? "/clamped-prefix" : "/clamped-empty");
      } else {
        if (!in) { if (oc != "out_of_range") fail("out-of-range-not-rejected", oc == "ok" ? vf::fmt("cursor+size exceeds the data, yet the call returned %zu bytes", got.size()) : "expected std::out_of_range, got " + oc + " (" + what + ")"); else *cls = o.key + "/rejects-out-of-range"; }
        else if (oc != "ok") fail("rejected-in-range", "got " + oc + " (" + what + ")");
        else if (got != slice(w, w + k)) fail("wrong-result", "returned " + vf::show(got.substr(0, 32)));
        else *cls = o.key + "/in-range-exact";
      }
      break;
    }
    case C_READBUF:
    case C_READXBUF: {
      bool in = in_range(w, k, len);
      size_t bufsz = k <= n ? k : n;
      Exact buf(bufsz, 0xEE);
      size_t cnt = 0;
      oc = vf::outcome([&] { if (o.t == C_READBUF) cnt = rd.read(buf.p, k, o.adv); else { rd.readx(buf.p, k, o.adv); cnt = k; } }, &what);
      if (!judge) break;
      uint64_t wl = o.t == C_READBUF ? lo : w, wn = o.t == C_READBUF ? hi - lo : k;
      if (o.t == C_READXBUF && !in) {
        bool untouched = true;
        for (size_t i = 0; i < bufsz; i++) untouched = untouched && buf.p[i] == 0xEE;
        if (oc != "out_of_range") fail("out-of-range-not-rejected", oc == "ok" ? "cursor+size exceeds the data, yet the call returned" : "expected std::out_of_range, got " + oc + " (" + what + ")");
        else if (!untouched) fail("wrong-result", "threw, but wrote to the caller's buffer first");
        else *cls = o.key + "/rejects-out-of-range";
        break;
      }
      if (oc != "ok") { fail(o.t == C_READBUF ? "throws" : "rejected-in-range", "got " + oc + " (" + what + ")"); break; }
      bool same = cnt == wn && cnt <= bufsz && !memcmp(buf.p, content + wl, wn);
      for (size_t i = wn; same && i < bufsz; i++) same = buf.p[i] == 0xEE;
      if (!same) fail("wrong-result", vf::fmt("copied %zu bytes (buffer %s), model %llu bytes from %llu", cnt, vf::show(buf.p, bufsz).c_str(), (unsigned long long)wn, (unsigned long long)wl));
      else *cls = o.key + (in ? "/in-range-exact" : wn ? "/clamped-prefix" : "/clamped-empty");
      break;
    }
    case C_SKIP:
      // held to the cursor invariant only (checked by the caller)
      oc = vf::outcome([&] { rd.skip(k); }, &what);
      if (judge) *cls = "skip/" + oc;
      break;
    case C_SKIPIF: {
      bool in = in_range(w, k, len);
      if (k > (uint64_t)n + 1) { if (judge) *cls = "skip_if/not-exercised (pattern larger than any buffer)"; break; }  // only when remaining() has underflowed
      Exact pat(k, 'Z');
      if (o.match && in) memcpy(pat.p, content + w, k);
      bool equal = in && !memcmp(pat.p, content + w, k);
      bool ret = false;
      oc = vf::outcome([&] { ret = rd.skip_if(pat.p, k); }, &what);
      if (!judge) break;
      if (!in) {
        if (oc == "ok" && ret) fail("out-of-range-not-rejected", "fewer bytes than the pattern remain, yet skip_if returned true");
        else if (oc != "ok" && oc != "out_of_range") fail("out-of-range-not-rejected", "expected false or std::out_of_range, got " + oc + " (" + what + ")");
        else *cls = "skip_if/not-enough-data:" + oc;
      } else if (oc != "ok") fail("rejected-in-range", "got " + oc + " (" + what + ")");
      else if (ret != equal) fail("wrong-result", vf::fmt("returned %d, pattern %s the data at the cursor", (int)ret, equal ? "equals" : "differs from"));
      else if (rd.where() != w + (ret ? k : 0)) fail("wrong-result", vf::fmt("returned %d and moved the cursor from %llu to %zu", (int)ret, (unsigned long long)w, rd.where()));
      else *cls = ret ? "skip_if/matched" : "skip_if/no-match";
      break;
    }
    case C_LINE:
    case C_CSTR: {
      // item at the cursor: bytes up to the terminator (LF or end of data for lines, NUL for C strings)
      const uint8_t term = o.t == C_LINE ? '\n' : 0;
      uint64_t j = w;
      bool have = w < len;
      if (have) {
        while (j < len && content[j] != term) j++;
        if (o.t == C_CSTR && j >= len) have = false;
      }
      std::string got;
      oc = vf::outcome([&] { got = o.t == C_LINE ? rd.get_line(o.adv) : rd.get_cstr(o.adv); }, &what);
      if (!judge) break;
      if (!have) { if (oc != "out_of_range") fail("out-of-range-not-rejected", std::string(o.t == C_LINE ? "cursor at or past the end" : "no NUL before the end of the data") + "; expected std::out_of_range, got " + oc + (oc == "ok" ? " returning " + vf::show(got.substr(0, 32)) : " (" + what + ")")); else *cls = o.key + "/rejects-out-of-range"; break; }
      if (oc != "ok") { fail("rejected-in-range", "got " + oc + " (" + what + ")"); break; }
      std::string want = slice(w, j);
      if (o.t == C_LINE && !want.empty() && want.back() == '\r') want.pop_back();
      if (got != want) fail("wrong-result", "returned " + vf::show(got.substr(0, 32)) + ", model " + vf::show(want));
      else *cls = o.key + "/in-range-exact";
      break;
    }
    case C_ALL: {
      std::string got;
      oc = vf::outcome([&] { got = rd.all(); }, &what);
      if (!judge) break;
      if (oc != "ok") fail("throws", "got " + oc + " (" + what + ")");
      else if (got != slice(0, len)) fail("wrong-result", vf::fmt("returned %zu bytes %s, the data are %llu bytes", got.size(), vf::show(got.substr(0, 32)).c_str(), (unsigned long long)len));
      else if (rd.where() != w) fail("wrong-result", "all() moved the cursor");
      else *cls = "all/exact";
      break;
    }
    case C_GO:
      oc = vf::outcome([&] { rd.go(o.j); }, &what);
      if (judge) *cls = o.j > len ? "go/past-the-end" : "go/inside";
      break;
    case C_TRUNC:
      oc = vf::outcome([&] { rd.truncate(o.j); }, &what);
      if (judge) *cls = "truncate/" + oc;
      break;
  }
  if (!judge) return "";
  // universal: the data never grows; reads never change the length; a read that starts with the
  // cursor inside the data never leaves it beyond the end; while the cursor is inside the data the
  // observers agree with it (remaining() cannot have underflowed)
  if (bad.empty()) {
    if (rd.size() > len) fail("length-grew", vf::fmt("size() %llu -> %zu", (unsigned long long)len, rd.size()));
    else if (o.is_read() && rd.size() != len) fail("length-changed", vf::fmt("size() %llu -> %zu", (unsigned long long)len, rd.size()));
    else if (rd.data != base) fail("wrong-result", "the operation changed the data pointer");
    else if (o.is_read() && w <= len && rd.where() > rd.size()) fail("cursor-past-end", vf::fmt("cursor %llu -> %s with size() %zu (%s): remaining() underflows without an explicit go() past the end", (unsigned long long)w, u64s(rd.where()).c_str(), rd.size(), oc.c_str()));
    else if (rd.where() <= rd.size() && (rd.remaining() != rd.size() - rd.where() || rd.eof() != (rd.where() == rd.size())))
      bad = std::string("observers:wrong-result") + "\x01" + vf::fmt("where()=%zu size()=%zu but remaining()=%s eof()=%d", rd.where(), rd.size(), u64s(rd.remaining()).c_str(), (int)rd.eof());
  }
  return bad;
}

// 1 / 0: throwing form whose model accepts / rejects the call in this state; -1: clamping or non-read
int cursor_op_model_accepts(const COp& o, uint64_t w, uint64_t len, const View& v) {
  const uint64_t k = kval(o.ksym, v.n, w, len);
  switch (o.t) {
    case C_GET: return in_range(w, o.k->w, len);
    case C_GETV: case C_PEEK: case C_READX: case C_READXBUF: case C_SKIPIF: case C_GETT: case C_GETTW: return in_range(w, k, len);
    case C_LINE: return w < len;
    case C_CSTR: {
      for (uint64_t j = w; j < len; j++)
        if (v.content[j] == 0) return 1;
      return 0;
    }
    default: return -1;
  }
}

std::string hist_name(const std::vector<COp>& ops, const std::vector<uint32_t>& h) {
  std::string s;
  for (size_t i = 0; i < h.size(); i++) s += (i ? "; " : "") + ops[h[i]].name;
  return s.empty() ? "(none)" : s;
}

// child side: make the reader, replay `hist` unjudged, then judge `op`
void run_cursor_case(const View& v, const std::vector<COp>& ops, const std::vector<uint32_t>& hist, uint32_t op, const CState* expect_pre, CaseResult& res, int ctx = 0);

}  // namespace

#include "C02_context.hh"

namespace {

void run_cursor_case(const View& v, const std::vector<COp>& ops, const std::vector<uint32_t>& hist, uint32_t op, const CState* expect_pre, CaseResult& res, int ctx) {
  const COp& o = ops[op];
  res.arm(o.key + ":memory-error", vf::fmt("%s, history [%s], then %s%s", v.how.c_str(), hist_name(ops, hist).c_str(), o.name.c_str(), c02::ctx_name(ctx)));
  StringReader rd = v.make();
  std::string cls;
  // key to use if a call is fatal: a throwing form that the model says must reject the call and
  // that dies instead has not rejected it.  A death while replaying the prefix belongs to the
  // prefix operation that caused it, not to the operation under judgement.
  auto arm_for = [&](const COp& x) {
    int m = cursor_op_model_accepts(x, rd.where(), rd.size(), v);
    res.set(res.key, sizeof(res.key), x.key + (m < 0 ? ":memory-error" : m ? ":memory-error-in-range" : ":out-of-range-not-rejected"));
  };
  for (uint32_t h : hist) {
    arm_for(ops[h]);
    apply_cursor_op(rd, v, ops[h], false, &cls);
  }
  arm_for(o);
  if (expect_pre && (rd.where() != expect_pre->where || rd.size() != expect_pre->len)) {
    res.fail("engine:replay-mismatch", vf::fmt("replayed history reaches (where=%zu, size=%zu), stored state is (%llu, %llu)", rd.where(), rd.size(), (unsigned long long)expect_pre->where, (unsigned long long)expect_pre->len));
    return;
  }
  uint64_t w0 = rd.where(), l0 = rd.size();
  std::string desc = std::string(res.msg) + vf::fmt(" at (where=%s, size=%llu)", u64s(w0).c_str(), (unsigned long long)l0);
  res.set(res.msg, sizeof(res.msg), desc);
  std::string bad;
  c02::in_context(ctx, [&] { bad = apply_cursor_op(rd, v, o, true, &cls); });
  res.a = rd.where();
  res.b = rd.size();
  if (!bad.empty()) {
    size_t sp = bad.find('\x01');
    res.fail(bad.substr(0, sp), bad.substr(sp + 1));
  } else res.ok(cls);
}

}  // namespace

// E-BFS over the complete state of a reader, (where, length), to the fixpoint: one shard per n.
VF_SECTION(cursor_bfs, 5, 5, 90) {
  size_t ni = 0;
  for (size_t n : NS) {
    size_t my = ni++;
    if (r.only < 0 && my % r.nshards != r.shard) continue;
    Placement pl(0, n);
    View v = fresh_view(pl);
    auto ops = cursor_ops(n);
    std::map<CState, std::vector<uint32_t>> seen;  // state -> shortest history
    std::deque<CState> queue;
    CState init{0, n};
    seen[init] = {};
    queue.push_back(init);
    size_t maxdepth = 0;
    // On a correct reader the state space is tiny (where <= n+1 or 2^64-1, size <= n).  A defect that
    // lets the cursor run away (e.g. skip() that stops clamping) makes it unbounded: stop at a cap,
    // report what was found, and say that the fixpoint was not reached.
    const size_t STATE_CAP = 10 * (n + 3) * (n + 1);
    bool capped = false;
    while (!queue.empty()) {
      if (seen.size() > STATE_CAP) { capped = true; break; }
      CState s = queue.front();
      queue.pop_front();
      std::vector<uint32_t> hist = seen[s];
      maxdepth = std::max(maxdepth, hist.size());
      r.states++;
      r.note(vf::fmt("n=%zu state(where=%s,len=%llu)", n, u64s(s.where).c_str(), (unsigned long long)s.len));
      auto* res = c02::run_batch(r, ops.size(), [&](size_t i, CaseResult& c) { run_cursor_case(v, ops, hist, (uint32_t)i, &s, c); });
      r.evals += ops.size();
      r.nontrivial += ops.size();
      r.transitions += ops.size();
      c02::fold(r, res, ops.size());
      for (size_t i = 0; i < ops.size(); i++) {
        if (res[i].code != c02::OK) continue;  // no successor through a violated transition
        CState t{res[i].a, res[i].b};
        if (!seen.count(t)) {
          auto h2 = hist;
          h2.push_back((uint32_t)i);
          seen[t] = h2;
          queue.push_back(t);
        }
      }
    }
    r.counters[vf::fmt("states n=%zu", n)] += seen.size();
    r.counters[vf::fmt("max depth n=%zu", n)] += maxdepth;
    r.counters[vf::fmt("operations per state n=%zu", n)] += ops.size();
    if (capped) {
      r.exhaustive = false;
      r.notes.push_back(vf::fmt("cursor_bfs n=%zu: state cap %zu exceeded (cursor runs away), fixpoint NOT reached", n, STATE_CAP));
    } else r.notes.push_back(vf::fmt("cursor_bfs n=%zu: fixpoint reached, %zu states, %zu operations per state, longest shortest-history %zu", n, seen.size(), ops.size(), maxdepth));
  }
  r.counters["forks"] += c02::stats().forks;
  r.bound = "n in {0,1,2,5,8}: every reachable (where, size) state of a reader (fixpoint), from every state every operation of the alphabet {all 42 typed get_* (advance t/f); getv, peek, read, readx, read(buf), readx(buf), skip, get<uint8_t>(adv,size), get<le_uint32_t>(adv,size) with size in K; skip_if (matching/different) with size in {0,1,2,n,n+1,remaining-1,remaining,remaining+1}; get_line; get_cstr; all(); go(0..n+1, 2^63, 2^64-1); truncate(0..n+1, 2^63, 2^64-1)}, K = {0,1,2,n,n+1,remaining-1,remaining,remaining+1,2^31,2^32,2^63-1,2^63,2^64-where-1,2^64-where,2^64-where+1,2^64-2,2^64-1} relative to the current state";
}

namespace {
// extra readers for the un-merged histories: not fresh, not at offset 0 of their buffer, owning their data
struct HistExtra {
  Placement pl;
  std::shared_ptr<std::string> sp;
  std::vector<View> views;
  HistExtra() : pl(0, 8), sp(new std::string((const char*)CONTENT, 8)) {
    const uint8_t* P = pl.base;
    View a;
    a.how = "StringReader(ptr, 8).sub(1, 6).sub(1, 4) [4 bytes at parent offset 2, guard-page]";
    a.base = P + 2;
    a.content = CONTENT + 2;
    a.n = 4;
    a.make = [P] { return StringReader(P, 8).sub(1, 6).sub(1, 4); };
    views.push_back(a);
    View b;
    b.how = "StringReader(ptr, 8, 3) [guard-page]";
    b.base = P;
    b.n = 8;
    b.w0 = 3;
    b.make = [P] { return StringReader(P, 8, 3); };
    views.push_back(b);
    View c;
    c.how = "StringReader(shared_ptr<string> of 8 bytes, 1)";
    c.base = (const uint8_t*)sp->data();
    c.n = 8;
    c.w0 = 1;
    auto spc = sp;
    c.make = [spc] { return StringReader(spc, 1); };
    views.push_back(c);
  }
};
}  // namespace

// Un-merged histories (no state merging): every operation sequence of length <= D, judged at its
// last operation.  One case = one prefix with every last operation.
VF_SECTION(cursor_hist, 16, 16, 90) {
  const size_t deep = r.thorough() ? 3 : 2;
  std::vector<std::unique_ptr<Placement>> pls;
  std::vector<View> views;
  for (size_t n : NS) {
    pls.emplace_back(new Placement(1, n));
    views.push_back(fresh_view(*pls.back()));
  }
  const size_t nfresh = views.size();
  HistExtra extra;
  for (auto& v : extra.views) views.push_back(v);
  for (size_t vi = 0; vi < views.size(); vi++) {
    const View& v = views[vi];
    auto ops = cursor_ops(v.n);
    r.note(v.how + " histories");
    // full history alphabet up to depth 2; the round-1 alphabet one level deeper (fresh readers only)
    for (size_t plen = 0; plen < (vi < nfresh ? deep : 2); plen++) {
      const std::vector<uint32_t> alpha = op_subset(ops, plen >= 2 ? 2 : 1);
      std::vector<uint32_t> pre(plen, 0);
      bool more = true;
      while (more) {
        if (r.take()) {
          std::vector<uint32_t> hist(plen);
          for (size_t q = 0; q < plen; q++) hist[q] = alpha[pre[q]];
          if (r.wants_desc()) r.desc(vf::fmt("%s, history [%s] followed by every operation", v.how.c_str(), hist_name(ops, hist).c_str()));
          auto* res = c02::run_batch(r, alpha.size(), [&](size_t i, CaseResult& c) { run_cursor_case(v, ops, hist, alpha[i], nullptr, c); });
          r.evals += alpha.size() - 1;
          r.nontrivial += alpha.size();
          r.states += alpha.size();
          r.transitions += alpha.size() * (plen + 1);
          c02::fold(r, res, alpha.size());
        }
        size_t i = plen;
        for (;;) {
          if (i == 0) { more = false; break; }
          i--;
          if (++pre[i] < alpha.size()) break;
          pre[i] = 0;
        }
      }
    }
  }
  r.counters["forks"] += c02::stats().forks;
  r.bound = vf::fmt("fresh readers over n in {0,1,2,5,8} bytes (exact-size heap block) and three non-fresh readers (sub-reader of a sub-reader at parent offset 2, reader constructed with cursor 3, shared_ptr-owned data with cursor 1): every sequence of <= 2 cursor operations over the history alphabet (the explicit-state alphabet with 13 of the 42 typed getters)%s, replayed un-merged", deep > 2 ? "; every sequence of 3 operations over the round-1 alphabet on the fresh readers" : "");
}
