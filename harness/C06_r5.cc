// C06 round 5 — raster content that collides with container syntax (seed C06-J: a '#' as the first raster byte of a PPM was
// taken for a header comment).  The pixel patterns of the other sections are periodic, so a given byte value reaches a given
// raster position only by luck.  Here EVERY byte value 0..255 is placed at every structurally distinct raster position (first
// byte, second, third, last of the first pixel, first of the second row, last byte) and every ordered PAIR over a syntax
// alphabet (white space, '#', digits, 'P', NUL, 0xFF, ...) at the first two raster bytes, for every format that can hold
// the image, and save -> load must reproduce the pixels (the statement's identity), through save(string) and save(FILE*).
#include <stdio.h>
#include <string.h>

#include <algorithm>

#include <string>
#include <vector>

#include "Image.hh"
#include "vf.hh"

using namespace phosg;
using namespace std;

namespace {
const char* fmt_name(Image::Format f) { return f == Image::Format::COLOR_PPM ? "ppm" : f == Image::Format::WINDOWS_BITMAP ? "bmp" : "png"; }

struct Outcome {
  bool threw = false;
  string what;
  bool same_shape = false, same_pixels = false;
  size_t first_diff = 0;
};
Outcome roundtrip(const Image& img, Image::Format fmt, bool via_file) {
  Outcome o;
  try {
    string file;
    if (via_file) {
      char* buf = nullptr;
      size_t len = 0;
      FILE* m = open_memstream(&buf, &len);
      img.save(m, fmt);
      fclose(m);
      file.assign(buf, len);
      free(buf);
    } else {
      file = img.save(fmt);
    }
    char* exact = static_cast<char*>(malloc(file.size() ? file.size() : 1));
    memcpy(exact, file.data(), file.size());
    FILE* f = fmemopen(exact, file.size(), "rb");
    try {
      Image back(f);
      o.same_shape = back.get_width() == img.get_width() && back.get_height() == img.get_height() && back.get_has_alpha() == img.get_has_alpha() &&
                     back.get_channel_width() == img.get_channel_width() && back.get_data_size() == img.get_data_size();
      if (o.same_shape) {
        const uint8_t* a = static_cast<const uint8_t*>(img.get_data());
        const uint8_t* b = static_cast<const uint8_t*>(back.get_data());
        o.same_pixels = true;
        for (size_t i = 0; i < img.get_data_size(); i++)
          if (a[i] != b[i]) { o.same_pixels = false; o.first_diff = i; break; }
      }
    } catch (...) {
      fclose(f);
      free(exact);
      throw;
    }
    fclose(f);
    free(exact);
  } catch (const std::exception& e) {
    o.threw = true;
    o.what = e.what();
  }
  return o;
}
Image base_image(int w, int h, bool alpha, int cw) {
  Image img(w, h, alpha, cw);
  uint8_t* p = static_cast<uint8_t*>(img.get_data());
  for (size_t i = 0; i < img.get_data_size(); i++) p[i] = static_cast<uint8_t>(0x41 + (i * 7) % 26);  // letters: never syntax
  return img;
}
void judge(vf::Run& r, const Outcome& o, Image::Format fmt, const string& what) {
  string f = fmt_name(fmt);
  if (o.threw) r.fail("save-load-" + f + ":valid-file-rejected", [&] { return what + ": loading what save() wrote threw: " + o.what; });
  else if (!o.same_shape) r.fail("save-load-" + f + ":wrong-shape", [&] { return what + ": width/height/alpha/channel width differ after save -> load"; });
  else if (!o.same_pixels) r.fail("save-load-" + f + ":wrong-pixels", [&] { return what + vf::fmt(": pixel memory differs after save -> load, first at byte %zu", o.first_diff); });
  else r.ok("identity");
}
}  // namespace

VF_SECTION(raster_bytes, 16, 16, 120) {
  struct Shape { int w, h; bool alpha; int cw; };
  vector<Shape> shapes = {{3, 2, false, 8}, {2, 2, true, 8}, {1, 1, false, 8}, {2, 2, false, 16}};
  if (r.thorough()) { shapes.push_back({5, 3, true, 8}); shapes.push_back({2, 1, false, 32}); shapes.push_back({1, 2, true, 64}); shapes.push_back({4, 1, false, 8}); }
  const Image::Format fmts[2] = {Image::Format::COLOR_PPM, Image::Format::WINDOWS_BITMAP};  // phosg cannot load PNG: its files are judged by the Python decoder (saveload section)
  r.note("save->load with every byte value at every raster position class");
  for (auto& s : shapes)
    for (auto fmt : fmts) {
      if (fmt != Image::Format::COLOR_PPM && s.cw != 8) continue;  // BMP/PNG hold 8-bit channels only (save refuses others)
      Image img = base_image(s.w, s.h, s.alpha, s.cw);
      size_t n = img.get_data_size(), px = static_cast<size_t>(3 + s.alpha) * (s.cw / 8), row = px * s.w;
      vector<size_t> pos = {0, 1, 2, px - 1, px, row - 1, row % n, n - 2, n - 1};
      std::sort(pos.begin(), pos.end());
      pos.erase(std::unique(pos.begin(), pos.end()), pos.end());
      for (size_t p : pos) {
        if (p >= n) continue;
        for (int v = 0; v < 256; v++)
          for (int via_file = 0; via_file < 2; via_file++) {
            if (!r.take()) continue;
            uint8_t* d = static_cast<uint8_t*>(img.get_data());
            uint8_t keep = d[p];
            d[p] = static_cast<uint8_t>(v);
            string what = vf::fmt("%dx%d %s %d-bit image, pixel memory byte %zu = 0x%02X (others are letters), save(%s)%s", s.w, s.h, s.alpha ? "rgba" : "rgb", s.cw, p, v, fmt_name(fmt), via_file ? " to a FILE*" : " to a string");
            if (r.wants_desc()) r.desc(what);
            judge(r, roundtrip(img, fmt, via_file), fmt, what);
            r.nontriv();
            d[p] = keep;
          }
      }
      // every ordered pair (and triple in thorough) over the syntax alphabet at the first raster bytes
      static const uint8_t SYN[] = {' ', '\t', '\n', '\r', '\v', '\f', '#', '0', '1', '9', 'P', '6', '5', '7', '-', '+', '.', 0x00, 0xFF, 0x80, 0x1A, 'E', 'N', 'D'};
      const size_t K = sizeof(SYN);
      size_t depth = r.thorough() ? 3 : 2;
      if (n < depth) continue;
      size_t total = 1;
      for (size_t i = 0; i < depth; i++) total *= K;
      for (size_t code = 0; code < total; code++) {
        if (!r.take()) continue;
        uint8_t* d = static_cast<uint8_t*>(img.get_data());
        uint8_t keep[3] = {d[0], d[1], n > 2 ? d[2] : uint8_t(0)};
        size_t c = code;
        string seq;
        for (size_t i = 0; i < depth; i++) { d[i] = SYN[c % K]; seq += vf::fmt("%02X ", d[i]); c /= K; }
        string what = vf::fmt("%dx%d %s %d-bit image, pixel memory starts with %s(then letters), save(%s)", s.w, s.h, s.alpha ? "rgba" : "rgb", s.cw, seq.c_str(), fmt_name(fmt));
        if (r.wants_desc()) r.desc(what);
        judge(r, roundtrip(img, fmt, false), fmt, what);
        r.nontriv();
        for (size_t i = 0; i < depth; i++) d[i] = keep[i];
      }
    }
  r.bound = "save -> load identity with EVERY byte value 0..255 at each raster position class (bytes 0, 1, 2, last of first pixel, first of second pixel, last of first row, first of second row, last two) x {save(string), save(FILE*)} and every ordered pair (thorough: triple) over a 24-symbol container-syntax alphabet (white space, '#', digits, P, signs, NUL, FF, 80, 1A, letters of chunk names) at the first raster bytes, for 4 (thorough 8) image shapes x {PPM, BMP} (PNG cannot be loaded by the library; its files are decoded by the Python oracle in section saveload)";
}
