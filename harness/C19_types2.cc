// C19 (part): relation macros over operand-type pairs - strings (narrow, wide, UTF-16), pointers, enums, library types.
#include "C19_rel.hh"

using namespace phosg;
using namespace c19;

VF_SECTION(operand_objects, 4, 8, 120) {
  const auto& C = all_ctx();
  // strings: std::string, const char*, string_view, wide and UTF-16 variants
  static const char* cs[] = {"", "a", "ab", "b"};
  std::vector<const char*> cstrs(cs, cs + 4);
  std::vector<std::string> strs = {"", "a", "ab", "b", std::string("a\0", 2), std::string(300, 'a'), std::string("\xff")};
  check_relations<const char*, std::string>(r, "const char* x string", cstrs, strs, C);
  check_relations<std::string, const char*>(r, "string x const char*", strs, cstrs, C);
  check_relations<std::string_view, std::string>(r, "string_view x string", {std::string_view(""), std::string_view("a"), std::string_view("ab", 1), std::string_view("b")}, strs, C);
  std::vector<std::wstring> wstrs = {L"", L"a", L"ab", L"b", std::wstring(1, (wchar_t)0x10FFFF), std::wstring(1, (wchar_t)0x80)};
  static const wchar_t* wcs[] = {L"", L"a", L"ab", L"b"};
  check_relations<std::wstring>(r, "wstring", wstrs, C);
  check_relations<const wchar_t*, std::wstring>(r, "const wchar_t* x wstring", std::vector<const wchar_t*>(wcs, wcs + 4), wstrs, C);
  check_relations<std::u16string>(r, "u16string", {u"", u"a", u"b", std::u16string(1, (char16_t)0xFFFF), std::u16string(1, (char16_t)0x8000)}, C);
  check_relations<wchar_t, char>(r, "wchar_t x char", {L'\0', L'a', (wchar_t)0x80, (wchar_t)0xFF, (wchar_t)-1}, {(char)0, 'a', (char)0x80, (char)0xFF}, C);
  // pointers into one array (relational comparison defined), const/void mixes, nullptr (equality only)
  std::vector<int*> ptrs = {&g_arr[0], &g_arr[1], &g_arr[3], &g_arr[3] + 1};
  std::vector<const int*> cptrs(ptrs.begin(), ptrs.end());
  std::vector<const void*> vptrs(ptrs.begin(), ptrs.end());
  check_relations<int*>(r, "int*", ptrs, C);
  check_relations<int*, const int*>(r, "int* x const int*", ptrs, cptrs, C);
  check_relations<const void*, int*>(r, "const void* x int*", vptrs, ptrs, C);
  std::vector<int*> ptrs0 = {nullptr, &g_arr[0], &g_arr[1]};
  check_relations<int*, int*>(r, "int* (with null)", ptrs0, ptrs0, C, false);
  check_relations<int*, std::nullptr_t>(r, "int* x nullptr_t", ptrs0, {nullptr}, C);
  check_relations<std::nullptr_t, const int*>(r, "nullptr_t x const int*", {nullptr}, std::vector<const int*>(ptrs0.begin(), ptrs0.end()), C);
  auto sp1 = std::make_shared<int>(1);
  auto sp2 = std::make_shared<int>(1);
  check_relations<std::shared_ptr<int>, std::shared_ptr<int>>(r, "shared_ptr", {nullptr, sp1, sp1, sp2}, {nullptr, sp1, sp2}, C, false);
  // enums
  check_relations<Color>(r, "enum", {RED, GREEN, BLUE}, C);
  check_relations<Color, int>(r, "enum x int", {RED, GREEN, BLUE}, {-1, 0, 1, 2, 0x7FFFFFFF}, C);
  check_relations<Level>(r, "enum class : uint8", {Level::LOW, Level::MID, Level::HIGH}, C);
  // library types
  check_relations<std::vector<int>>(r, "vector<int>", {{}, {0}, {0, 0}, {1}, {-1, 5}}, C);
  check_relations<std::pair<int, std::string>>(r, "pair<int,string>", {{0, ""}, {0, "a"}, {1, ""}, {-1, "z"}}, C);
  check_relations<std::tuple<int, double>>(r, "tuple<int,double>", {{0, 0.0}, {0, __builtin_nan("")}, {1, -1.0}}, C);
  check_relations<std::optional<int>>(r, "optional<int>", {std::nullopt, 0, 1, -1}, C);
  check_relations<std::optional<int>, int>(r, "optional<int> x int", {std::nullopt, 0, 1, -1}, {-1, 0, 1}, C);
  check_relations<std::complex<double>>(r, "complex<double>", {{0, 0}, {0, 1}, {1, 0}, {__builtin_nan(""), 0}}, C);
  r.bound = std::string("8 macro forms x all ordered operand pairs of 23 operand-type pairs: const char* / std::string / string_view (both orders, embedded NUL, 300 characters, high bytes), wstring, const wchar_t* x wstring, u16string, wchar_t x char; pointers into one array incl. const / void mixes, null pointers and nullptr_t (equality only), shared_ptr; unscoped enum, enum x int, enum class : uint8; vector, pair, tuple (with NaN), optional, optional x int, complex x ") +
      "10 execution contexts";
}
