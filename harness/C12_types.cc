// C12 (round 2) — key and value types other than int, heap objects of a derived class, aliased key arguments.
//
// The statement is about LRUSet<K> / LRUMap<K,V> as templates; int keys hide every defect of the kind
// "key or value copied/moved once too often, used after it was moved from, destroyed twice, read through a
// reference into a node that was just freed".  Scopes here (all to a fixpoint, with a second instance and swap):
//   * std::string keys: key 0 lives in the small-string buffer, keys 1 and 2 are heap strings that differ in
//     the last byte only (a moved-from or truncated key is no key of the scope: id 9 in the canonical form);
//   * one-bucket keys: a key type whose std::hash maps every key to the same bucket (every lookup walks a
//     bucket chain; unordered_map::erase by key compares against other nodes);
//   * std::string values (heap / small) and move-only std::unique_ptr<int> values (a moved-from value reads 99);
//   * the containers live on the heap and are destroyed through a base pointer, X being an object of a class
//     derived from the container (virtual destructor, deleting-destructor variants);
//   * letters whose `const K&` argument is the container's own stored key object (erase(stored key),
//     touch, insert over itself, change_size, at, item_size): the argument dies or moves during the call.
#include "C12_core.hh"

using namespace c12;

namespace {

const std::vector<uint64_t> S02 = {0, 2};  // contains the LRUSet default size 0
const std::vector<uint64_t> S12 = {1, 2};  // contains the LRUMap default size 1

using SetStr = SetSysT<StrKey, true>;
using SetColl = SetSysT<CollKey, true>;
using MapStr = MapSysT<StrKey, StrVal, true>;
using MapUPtr = MapSysT<CollKey, UPtrVal, true>;

}  // namespace

VF_SECTION(set_str_bfs, 1, 1, 180) {
  if (r.thorough()) {
    Checker<SetStr> c(r, set_alphabet({0, 1, 2}, true, true));
    c.bfs_section("LRUSet<std::string>, heap instances X (derived class) and Y with swap, 3 keys (small-buffer / heap), sizes {0,1,2}, aliased key arguments", 8);
  } else {
    Checker<SetStr> c(r, set_alphabet(S02, true, true));
    c.bfs_section("LRUSet<std::string>, heap instances X (derived class) and Y with swap, 3 keys (small-buffer / heap), sizes {0,2}, aliased key arguments", 3);
  }
}

VF_SECTION(set_coll_bfs, 1, 1, 180) {
  Checker<SetColl> c(r, set_alphabet(S02, true, true));
  c.bfs_section("LRUSet<one-bucket key> (std::hash maps every key to one bucket), heap instances X and Y with swap, 3 keys, sizes {0,2}, aliased key arguments", 3);
}

VF_SECTION(map_str_bfs, 1, 1, 180) {
  Checker<MapStr> c(r, map_alphabet(S12, {10}, true, true, true));
  c.bfs_section("LRUMap<std::string,std::string>, heap instances X (derived class) and Y with swap, 3 keys, sizes {1,2}, one (heap) value, aliased key arguments", 4);
  insert_constref_note(r);
}

VF_SECTION(map_str2_bfs, 1, 1, 180) {
  Checker<MapStr> c(r, map_alphabet(S12, {10, 11}, false, true, true));
  c.bfs_section("LRUMap<std::string,std::string>, one heap instance, 3 keys, sizes {1,2}, values {heap string, small string}, aliased key arguments", 2);
}

VF_SECTION(map_uptr_bfs, 1, 1, 180) {
  Checker<MapUPtr> c(r, map_alphabet(S12, {10}, true, true, false));
  c.bfs_section("LRUMap<one-bucket key,std::unique_ptr<int>> (move-only values), heap instances X and Y with swap, 3 keys, sizes {1,2}, one value, aliased key arguments", 4);
  r.notes.push_back("move-only values: insert(const&, const&) cannot exist for this instantiation; insert(K&&,V&&), emplace, at, at() const, evict_object and the rest are executed");
}

VF_SECTION(map_uptr2_bfs, 1, 1, 180) {
  Checker<MapUPtr> c(r, map_alphabet(S12, {10, 11}, false, true, false));
  c.bfs_section("LRUMap<one-bucket key,std::unique_ptr<int>>, one heap instance, 3 keys, sizes {1,2}, values {10,11}, aliased key arguments", 2);
}

// un-merged runs over the typed one-instance alphabets (hidden state that the canonical form cannot see)
VF_SECTION(types_seq, 12, 16, 120) {
  size_t n = r.thorough() ? 4 : 3;
  {
    Checker<SetStr> c(r, set_alphabet(S02, false, true));
    c.sequences(n, "LRUSet<std::string> one-instance alphabet");
  }
  {
    Checker<SetColl> c(r, set_alphabet(S02, false, true));
    c.sequences(n, "LRUSet<one-bucket key> one-instance alphabet");
  }
  {
    Checker<MapStr> c(r, map_alphabet(S12, {10}, false, true, true));
    c.sequences(3, "LRUMap<std::string,std::string> one-instance alphabet");
  }
  {
    Checker<MapUPtr> c(r, map_alphabet(S12, {10}, false, true, false));
    c.sequences(3, "LRUMap<one-bucket key,unique_ptr> one-instance alphabet");
  }
}
