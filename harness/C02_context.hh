// C02_context.hh — calling contexts (class "environment"): the same call made plainly, inside a catch
// handler, in a destructor while another exception unwinds the stack, and with a stale errno.
// The callable must not let an exception escape (all C02 calls run under vf::outcome).
#pragma once
#include <errno.h>

#include <stdexcept>

namespace c02 {

enum Ctx { CTX_PLAIN = 0, CTX_IN_HANDLER, CTX_UNWINDING, CTX_ERRNO_EINTR, CTX_ERRNO_ERANGE, NCTX };

inline const char* ctx_name(int ctx) {
  switch (ctx) {
    case CTX_IN_HANDLER: return " [called inside a catch handler of a std::out_of_range]";
    case CTX_UNWINDING: return " [called from a destructor while a std::runtime_error unwinds the stack]";
    case CTX_ERRNO_EINTR: return " [errno == EINTR before the call]";
    case CTX_ERRNO_ERANGE: return " [errno == ERANGE before the call]";
    default: return "";
  }
}

template <class F>
struct AtUnwind {
  F& f;
  ~AtUnwind() { f(); }
};

template <class F>
__attribute__((noinline)) void throw_through(F& f) {
  AtUnwind<F> guard{f};
  throw std::runtime_error("unrelated failure passing through");
}

template <class F>
void in_context(int ctx, F&& f) {
  switch (ctx) {
    case CTX_IN_HANDLER:
      try {
        throw std::out_of_range("earlier failure");
      } catch (const std::out_of_range&) {
        f();
      }
      break;
    case CTX_UNWINDING:
      try {
        throw_through(f);
      } catch (const std::runtime_error&) {
      }
      break;
    case CTX_ERRNO_EINTR:
      errno = EINTR;
      f();
      break;
    case CTX_ERRNO_ERANGE:
      errno = ERANGE;
      f();
      break;
    default:
      f();
  }
}

}  // namespace c02
