// C06 — image codecs: save/load identity, valid output files, all input variants, truncation safe.
// E-ENUM + prefix faults (DESIGN.md §5 C06).
//
//   saveload  every (dims, alpha, channel width, pattern, format): save(string) == save(FILE*),
//             PPM/BMP load back to identical dims/alpha/width/pixels; every 8-bit output file is
//             dumped into $VF_OUTDIR for the independent Python decoders (oracles/C06.py), which
//             regenerate the pattern themselves and compare every pixel.
//   variants  every supported *input* container variant, produced by a generator in this file that
//             shares no code with phosg (P5/P6/P7 x tuple types x header whitespace, BMP 24/32-bit
//             BI_RGB, BI_BITFIELDS with all 24 byte-mask permutations, bottom-up/top-down, V3/V4/V5
//             headers) is loaded by phosg in an isolated child under ASan and compared with the
//             generator's pixel array.  The generated files are dumped too: the Python decoders must
//             read the same pixels out of them (binds the generator to an independent implementation).
//   truncate  fault enumeration: every prefix length 0..len-1 of every small file; outcome must be
//             a std::exception or a decode identical to the full picture; no crash, no leak
//             (heap balance per case, confirmed by LeakSanitizer), no out-of-bounds access (ASan).
#include <errno.h>
#include <fcntl.h>
#include <sanitizer/lsan_interface.h>
#include <stdio.h>
#include <string.h>
#include <sys/stat.h>
#include <unistd.h>

#include <signal.h>
#include <sys/wait.h>

#include <algorithm>
#include <array>
#include <map>
#include <memory>
#include <set>
#include <string>
#include <thread>
#include <vector>

#include "Image.hh"
#include "vf.hh"

extern "C" size_t __sanitizer_get_current_allocated_bytes();

using namespace phosg;
using std::string;
using std::vector;

namespace {

// ---------------------------------------------------------------------------------------------
// pixel patterns (re-implemented in oracles/C06.py: keep in sync)

const int NPAT = 6;
const char* pat_name[NPAT] = {"zeros", "max", "coord", "ctl-bytes", "high-bit", "texty"};
const uint8_t SPECIAL[5] = {0x0A, 0x0D, 0x1A, 0x00, 0xFF};
const uint8_t TEXTY[6] = {' ', '1', '\n', '#', '\t', '9'};

inline uint64_t mask_of(int cw) { return cw == 64 ? ~0ull : ((1ull << cw) - 1); }

// value of sample number i (row-major, channel-minor) of a cw-bit image
uint64_t sample(int pat, uint64_t i, int cw) {
  int nb = cw / 8;
  switch (pat) {
    case 0: return 0;
    case 1: return mask_of(cw);
    case 2: return ((i + 1) * 0x9E3779B97F4A7C15ull) >> (64 - cw);
    case 3: {
      uint64_t v = 0;
      for (int b = 0; b < nb; b++) v |= (uint64_t)SPECIAL[(i * nb + b) % 5] << (8 * b);
      return v;
    }
    case 4: return (1ull << (cw - 1)) | (i & 1);
    default: {
      uint64_t v = 0;
      for (int b = 0; b < nb; b++) v |= (uint64_t)TEXTY[(i * nb + b) % 6] << (8 * b);
      return v;
    }
  }
}

void put_sample(uint8_t* p, uint64_t v, int cw) { memcpy(p, &v, cw / 8); }  // host is little-endian
uint64_t get_sample(const uint8_t* p, int cw) {
  uint64_t v = 0;
  memcpy(&v, p, cw / 8);
  return v;
}

// A picture independent of phosg: RGBA samples, 64 bits each.
struct Pic {
  int w = 0, h = 0, cw = 8;
  bool alpha = false;        // does the container define an alpha channel?
  vector<uint64_t> s;        // w*h*4, alpha = mask when !alpha
  uint64_t& at(int x, int y, int c) { return s[((size_t)y * w + x) * 4 + c]; }
  uint64_t at(int x, int y, int c) const { return s[((size_t)y * w + x) * 4 + c]; }
};

// raw Image memory (R,G,B[,A] row-major, host-endian samples) of the pattern
vector<uint8_t> pattern_bytes(int w, int h, bool alpha, int cw, int pat) {
  size_t n = (size_t)w * h * (3 + alpha);
  vector<uint8_t> v(n * (cw / 8));
  for (size_t i = 0; i < n; i++) put_sample(&v[i * (cw / 8)], sample(pat, i, cw), cw);
  return v;
}

Pic pic_from_raw(const uint8_t* raw, int w, int h, bool alpha, int cw) {
  Pic p;
  p.w = w; p.h = h; p.cw = cw; p.alpha = alpha;
  p.s.resize((size_t)w * h * 4);
  int nch = 3 + alpha;
  for (size_t px = 0; px < (size_t)w * h; px++) {
    for (int c = 0; c < 3; c++) p.s[px * 4 + c] = get_sample(raw + (px * nch + c) * (cw / 8), cw);
    p.s[px * 4 + 3] = alpha ? get_sample(raw + (px * nch + 3) * (cw / 8), cw) : mask_of(cw);
  }
  return p;
}

Image image_from_pattern(int w, int h, bool alpha, int cw, int pat) {
  Image img(w, h, alpha, cw);
  auto v = pattern_bytes(w, h, alpha, cw, pat);
  if (img.get_data_size() != v.size()) throw std::logic_error("harness: unexpected Image::get_data_size()");
  memcpy(img.get_data(), v.data(), v.size());
  return img;
}

// ---------------------------------------------------------------------------------------------
// loading through phosg from an exact-size heap copy of the bytes

struct Loaded {
  string outcome;  // "ok" or exception class
  string what;
  int w = 0, h = 0, cw = 0;
  bool alpha = false;
  vector<uint8_t> raw;
};

// a seekable stream that hands out at most `chunk` bytes per read() call (short reads)
struct Cookie {
  const uint8_t* data;
  size_t n, pos, chunk;
};
ssize_t cookie_read(void* c, char* buf, size_t size) {
  Cookie* k = (Cookie*)c;
  size_t avail = k->pos < k->n ? k->n - k->pos : 0;
  size_t m = std::min(std::min(size, avail), k->chunk);
  memcpy(buf, k->data + k->pos, m);
  k->pos += m;
  return m;
}
int cookie_seek(void* c, off64_t* off, int whence) {
  Cookie* k = (Cookie*)c;
  off64_t base = whence == SEEK_SET ? 0 : whence == SEEK_CUR ? (off64_t)k->pos : (off64_t)k->n;
  off64_t np = base + *off;
  if (np < 0) return -1;
  k->pos = np;
  *off = np;
  return 0;
}

template <class F>
Loaded observe_load(F&& construct) {  // construct() returns the Image
  Loaded L;
  try {
    Image img = construct();
    L.outcome = "ok";
    L.w = img.get_width(); L.h = img.get_height(); L.cw = img.get_channel_width(); L.alpha = img.get_has_alpha();
    if (L.cw == 8 || L.cw == 16 || L.cw == 32 || L.cw == 64) {
      size_t sz = (size_t)L.w * L.h * (3 + L.alpha) * (L.cw / 8);
      L.raw.assign((const uint8_t*)img.get_data(), (const uint8_t*)img.get_data() + sz);  // ASan checks the claim
    }
  } catch (const std::out_of_range& e) { L.outcome = "out_of_range"; L.what = e.what();
  } catch (const std::logic_error& e) { L.outcome = "logic_error"; L.what = e.what();
  } catch (const std::bad_alloc& e) { L.outcome = "bad_alloc"; L.what = e.what();
  } catch (const std::runtime_error& e) { L.outcome = "runtime_error"; L.what = e.what();
  } catch (const std::exception& e) { L.outcome = "exception"; L.what = e.what();
  } catch (...) { L.outcome = "nonstd"; }
  return L;
}

bool same_loaded(const Loaded& a, const Loaded& b) {
  return a.outcome == b.outcome && a.w == b.w && a.h == b.h && a.cw == b.cw && a.alpha == b.alpha && a.raw == b.raw;
}

// chunk == 0: fmemopen over an exact-size heap copy; chunk > 0: cookie stream delivering `chunk` bytes per read,
// seekable or not (a non-seekable cookie stream behaves like a pipe: fseek fails with ESPIPE);
// fail_at >= 0: the medium fails at that offset - the read call that would deliver byte `fail_at` and every later read
// return -1/EIO (to the library this is a truncation that shows as ferror() instead of feof())
struct FaultCookie : Cookie {
  ssize_t fail_at = -1;
  bool failed = false;
};
ssize_t fault_cookie_read(void* c, char* buf, size_t size) {
  FaultCookie* k = (FaultCookie*)c;
  if (k->fail_at >= 0) {
    size_t avail = k->pos < k->n ? k->n - k->pos : 0;
    size_t m = std::min(std::min(size, avail), k->chunk);
    if (k->failed || k->pos + m > (size_t)k->fail_at) {
      k->failed = true;
      errno = EIO;
      return -1;
    }
  }
  return cookie_read(c, buf, size);
}
Loaded load_bytes(const uint8_t* data, size_t n, size_t chunk = 0, bool seekable = true, ssize_t fail_at = -1) {
  uint8_t* copy = (uint8_t*)malloc(n ? n : 1);
  if (n) memcpy(copy, data, n);
  FaultCookie ck;
  ck.data = copy; ck.n = n; ck.pos = 0; ck.chunk = chunk; ck.fail_at = fail_at;
  FILE* f = chunk ? fopencookie(&ck, "rb", cookie_io_functions_t{fault_cookie_read, nullptr, seekable ? cookie_seek : nullptr, nullptr}) : fmemopen(copy, n, "rb");
  if (!f) { free(copy); Loaded L; L.outcome = "harness-fmemopen-failed"; return L; }
  Loaded L = observe_load([&] { return Image(f); });
  fclose(f);
  free(copy);
  return L;
}

bool write_all(int fd, const uint8_t* data, size_t n) {
  size_t off = 0;
  while (off < n) {
    ssize_t k = write(fd, data + off, n - off);
    if (k < 0 && errno == EINTR) continue;
    if (k <= 0) return false;
    off += k;
  }
  return true;
}

// the bytes arrive through a real pipe (not seekable).  via_stdin: the pipe is fd 0 and the image is constructed
// with a null filename, which phosg documents as "read stdin".  The caller uses stdin at most once per process.
Loaded load_pipe(const uint8_t* data, size_t n, bool via_stdin) {
  int p[2];
  Loaded L;
  if (pipe(p) < 0) { L.outcome = "harness-pipe-failed"; return L; }
  signal(SIGPIPE, SIG_IGN);
  std::thread wr;
  auto writer = [&] { write_all(p[1], data, n); close(p[1]); };
  if (n > 60000) wr = std::thread(writer);
  else writer();
  if (via_stdin) {
    int saved = dup(0);
    dup2(p[0], 0);
    close(p[0]);
    L = observe_load([&] { return Image((const char*)nullptr); });
    if (saved >= 0) { dup2(saved, 0); close(saved); } else close(0);
  } else {
    FILE* f = fdopen(p[0], "rb");
    if (!f) { close(p[0]); L.outcome = "harness-fdopen-failed"; }
    else {
      L = observe_load([&] { return Image(f); });
      fclose(f);
    }
  }
  if (wr.joinable()) wr.join();
  return L;
}

bool write_file(const string& path, const uint8_t* data, size_t n) {
  int fd = open(path.c_str(), O_WRONLY | O_CREAT | O_TRUNC, 0644);
  if (fd < 0) return false;
  bool ok = write_all(fd, data, n);
  close(fd);
  return ok;
}

// a real file: 0 Image(FILE*), 1 Image(FILE*) on an unbuffered stream, 2 Image(const char*), 3 Image(const std::string&),
// 4 null filename with the file on fd 0
Loaded load_file(const string& path, int mode) {
  Loaded L;
  if (mode <= 1) {
    FILE* f = fopen(path.c_str(), "rb");
    if (!f) { L.outcome = "harness-fopen-failed"; return L; }
    if (mode == 1) setvbuf(f, nullptr, _IONBF, 0);
    L = observe_load([&] { return Image(f); });
    fclose(f);
  } else if (mode == 2) {
    L = observe_load([&] { return Image(path.c_str()); });
  } else if (mode == 3) {
    L = observe_load([&] { return Image(path); });
  } else {
    int fd = open(path.c_str(), O_RDONLY);
    if (fd < 0) { L.outcome = "harness-open-failed"; return L; }
    int saved = dup(0);
    dup2(fd, 0);
    close(fd);
    L = observe_load([&] { return Image((const char*)nullptr); });
    if (saved >= 0) { dup2(saved, 0); close(saved); } else close(0);
  }
  return L;
}

// header of a netpbm file as the netpbm documents define it (written here, shares nothing with phosg)
struct PnmHdr {
  bool ok = false;
  int magic = 0;
  uint64_t w = 0, h = 0, maxval = 0, depth = 0;
  string tupl;
  size_t off = 0;  // start of the raster
};
PnmHdr parse_pnm_header(const string& d) {
  PnmHdr H;
  if (d.size() < 3 || d[0] != 'P' || (d[1] != '5' && d[1] != '6' && d[1] != '7')) return H;
  H.magic = d[1] - '0';
  size_t pos = 2;
  auto number = [&](const string& t, uint64_t& out) {
    if (t.empty() || t.size() > 20) return false;
    unsigned __int128 v = 0;
    for (char c : t) {
      if (c < '0' || c > '9') return false;
      v = v * 10 + (c - '0');
    }
    if (v > ~0ull) return false;
    out = (uint64_t)v;
    return true;
  };
  if (H.magic == 7) {
    if (d[2] != '\n') return H;
    pos = 3;
    bool gw = false, gh = false, gm = false, gd = false;
    for (;;) {
      size_t e = d.find('\n', pos);
      if (e == string::npos) return H;
      string line = d.substr(pos, e - pos);
      pos = e + 1;
      while (!line.empty() && (line.back() == ' ' || line.back() == '\t' || line.back() == '\r')) line.pop_back();
      if (line == "ENDHDR") break;
      if (line.empty() || line[0] == '#') continue;
      size_t sp = line.find(' ');
      if (sp == string::npos) return H;
      string key = line.substr(0, sp), val = line.substr(sp + 1);
      while (!val.empty() && val[0] == ' ') val.erase(0, 1);
      if (key == "WIDTH") gw = number(val, H.w);
      else if (key == "HEIGHT") gh = number(val, H.h);
      else if (key == "DEPTH") gd = number(val, H.depth);
      else if (key == "MAXVAL") gm = number(val, H.maxval);
      else if (key == "TUPLTYPE") H.tupl = val;
      else return H;
    }
    if (!gw || !gh || !gm || !gd) return H;
  } else {
    uint64_t* dst[3] = {&H.w, &H.h, &H.maxval};
    for (int i = 0; i < 3; i++) {
      for (;;) {
        while (pos < d.size() && (d[pos] == ' ' || d[pos] == '\t' || d[pos] == '\r' || d[pos] == '\n' || d[pos] == '\v' || d[pos] == '\f')) pos++;
        if (pos < d.size() && d[pos] == '#') {
          while (pos < d.size() && d[pos] != '\n') pos++;
          continue;
        }
        break;
      }
      size_t st = pos;
      while (pos < d.size() && d[pos] >= '0' && d[pos] <= '9') pos++;
      if (!number(d.substr(st, pos - st), *dst[i])) return H;
    }
    if (pos >= d.size() || !strchr(" \t\r\n\v\f", d[pos])) return H;
    pos++;
    H.depth = H.magic == 5 ? 1 : 3;
  }
  H.off = pos;
  H.ok = true;
  return H;
}

string px_str(const Pic& p, int x, int y) {
  return vf::fmt("(%llx,%llx,%llx,%llx)", (unsigned long long)p.at(x, y, 0), (unsigned long long)p.at(x, y, 1),
      (unsigned long long)p.at(x, y, 2), (unsigned long long)p.at(x, y, 3));
}

// Compares what phosg decoded with the picture the container defines.  Returns "" when equal, else
// "<kind>\t<description>" with kind in {wrong-dims, wrong-width, wrong-alpha, wrong-pixels}.
// `either_endian`: wide (>8 bit) netpbm samples are big-endian by the netpbm documents but phosg
// reads and writes them in host order; the statement leaves this open, so both readings pass.
string compare_loaded(const Loaded& L, const Pic& want, bool either_endian) {
  if (L.w != want.w || L.h != want.h) return vf::fmt("wrong-dims\tdecoded %dx%d, file defines %dx%d", L.w, L.h, want.w, want.h);
  if (L.cw != want.cw) return vf::fmt("wrong-width\tdecoded channel width %d, file defines %d", L.cw, want.cw);
  if (want.alpha && !L.alpha) return string("wrong-alpha\tfile has an alpha channel, decoded image has none");
  Pic got = pic_from_raw(L.raw.data(), L.w, L.h, L.alpha, L.cw);
  auto bswap = [&](uint64_t v) { return L.cw == 8 ? v : (__builtin_bswap64(v) >> (64 - L.cw)); };
  for (int pass = 0; pass < (either_endian && L.cw > 8 ? 2 : 1); pass++) {
    bool same = true;
    int bx = 0, by = 0;
    for (int y = 0; y < want.h && same; y++)
      for (int x = 0; x < want.w && same; x++)
        for (int c = 0; c < 4; c++) {
          uint64_t e = want.at(x, y, c);
          if (c == 3 && !want.alpha) e = mask_of(L.cw);  // opaque
          else if (pass == 1) e = bswap(e);
          if (got.at(x, y, c) != e) { same = false; bx = x; by = y; break; }
        }
    if (same) return "";
    if (pass == (either_endian && L.cw > 8 ? 1 : 0))
      return vf::fmt("wrong-pixels\tfirst difference at (%d,%d): decoded %s, file defines %s%s", bx, by, px_str(got, bx, by).c_str(),
          px_str(want, bx, by).c_str(), want.alpha ? "" : " (alpha: opaque)");
  }
  return "";
}

// ---------------------------------------------------------------------------------------------
// isolation: run one risky load in a forked child; ASan's report (stderr) and the verdict come back
// through one pipe.

struct Iso {
  bool normal = false;  // child exited 0 and delivered a verdict
  int status = 0;
  string verdict;  // text after the RESULT marker
  string asan;     // sanitizer kind if any
  string raw;      // everything the child wrote (stderr + verdicts)
};

template <class F>
Iso isolated(F&& f, int timeout_s = 60) {
  fflush(stdout);
  fflush(stderr);
  int p[2];
  if (pipe(p) < 0) { perror("pipe"); _exit(3); }
  pid_t c = fork();
  if (c < 0) { perror("fork"); _exit(3); }
  if (c == 0) {
    close(p[0]);
    dup2(p[1], 2);
    alarm(timeout_s);
    string res = "\x01RESULT " + f() + "\x02";
    size_t off = 0;
    while (off < res.size()) {
      ssize_t k = write(p[1], res.data() + off, res.size() - off);
      if (k <= 0) break;
      off += k;
    }
    _exit(0);
  }
  close(p[1]);
  string all;
  char buf[4096];
  for (;;) {
    ssize_t k = read(p[0], buf, sizeof(buf));
    if (k > 0) all.append(buf, k);
    else if (k == 0 || errno != EINTR) break;
  }
  close(p[0]);
  Iso r;
  r.raw = all;
  while (waitpid(c, &r.status, 0) < 0 && errno == EINTR) {}
  size_t a = all.find("\x01RESULT ");
  size_t b = all.rfind('\x02');
  if (WIFEXITED(r.status) && WEXITSTATUS(r.status) == 0 && a != string::npos && b != string::npos && b > a) {
    r.normal = true;
    r.verdict = all.substr(a + 8, b - a - 8);
  }
  size_t e = all.find("Sanitizer: ");
  if (e != string::npos) {
    size_t q = all.find_first_of(" \n", e + 11);
    r.asan = all.substr(e + 11, q == string::npos ? string::npos : q - e - 11);
  } else if (!r.normal) {
    r.asan = WIFSIGNALED(r.status) ? vf::fmt("signal-%d", WTERMSIG(r.status)) : vf::fmt("exit-%d", WEXITSTATUS(r.status));
  }
  return r;
}

// Runs `once` (which must free everything it allocates) and returns true when the heap grew in a way
// LeakSanitizer confirms as a leak.  The first growth only triggers a second, warmed-up run, so lazy
// one-time allocations inside libc/libstdc++ cannot raise an alarm.
// Sanitizer reports are symbolized lazily and the first one costs ~0.3 s per process; every forked
// child would pay that again.  Provoking one (silenced) LeakSanitizer report in the parent - on a
// block whose pointer is hidden for the moment and freed afterwards - loads the symbolizer once.
volatile uintptr_t g_hidden;
void warm_symbolizer() {
  void* p = malloc(33);
  g_hidden = (uintptr_t)p ^ 0x5555555555555555ull;
  p = nullptr;
  fflush(stderr);
  int saved = dup(2), nul = open("/dev/null", O_WRONLY);
  if (saved >= 0 && nul >= 0) {
    dup2(nul, 2);
    __lsan_do_recoverable_leak_check();
    dup2(saved, 2);
  }
  if (saved >= 0) close(saved);
  if (nul >= 0) close(nul);
  free((void*)(g_hidden ^ 0x5555555555555555ull));
  g_hidden = 0;
}

// Once LeakSanitizer has confirmed a leak in this process its later verdicts carry no information
// (the old block stays leaked), so further repeatable heap growth is reported without asking it again.
bool g_lsan_confirmed = false;

template <class F>
bool leaks(F&& once) {
  size_t a = __sanitizer_get_current_allocated_bytes();
  once();
  size_t b = __sanitizer_get_current_allocated_bytes();
  if (b <= a) return false;
  once();
  size_t c = __sanitizer_get_current_allocated_bytes();
  if (c <= b) return false;
  if (g_lsan_confirmed) return true;
  g_lsan_confirmed = __lsan_do_recoverable_leak_check() != 0;
  return g_lsan_confirmed;
}

// ---------------------------------------------------------------------------------------------
// generator of input-variant files (independent of phosg)

void p16(string& s, uint16_t v) { s.push_back(v & 0xFF); s.push_back(v >> 8); }
void p32(string& s, uint32_t v) { for (int i = 0; i < 4; i++) s.push_back((v >> (8 * i)) & 0xFF); }

struct Kind {
  string name, family;
  enum { PNM, BMP } type = PNM;
  // PNM
  int magic = 6;        // 5, 6, 7
  int sep = 0;          // header whitespace variant (P5/P6)
  int tupl = 0;         // P7: 0 GRAYSCALE 1 GRAYSCALE_ALPHA 2 RGB 3 RGB_ALPHA
  int cw = 8;
  // BMP
  int depth = 24, comp = 0, hdr = 40;
  bool topdown = false;
  int perm[4] = {2, 1, 0, 3};  // byte offset inside the 32-bit pixel of R,G,B,A
  // round 2
  uint64_t maxval = 0;    // PNM: 0 = 2^cw - 1; otherwise the MAXVAL written (cw follows from it)
  int order = 0;          // P7: order of the header lines
  int gap = 0;            // BMP: bytes between the headers and the pixel array (bfOffBits points behind them)
  int trail = 0;          // bytes after the raster
  bool dontcare = false;  // outside the statement: executed, outcome recorded, never judged
  bool extra = false;     // enumerated over the reduced dims x pattern grid
  bool gray() const { return type == PNM && (magic == 5 || (magic == 7 && tupl < 2)); }
  bool has_alpha() const { return type == PNM ? (magic == 7 && (tupl == 1 || tupl == 3)) : (comp == 3 && hdr >= 56); }
  uint64_t eff_maxval() const { return maxval ? maxval : mask_of(cw); }
};

int cw_of_maxval(uint64_t m) { return m <= 0xFF ? 8 : m <= 0xFFFF ? 16 : m <= 0xFFFFFFFFull ? 32 : 64; }

vector<Kind> all_kinds(bool wide_gray) {
  vector<Kind> ks;
  const char* tn[4] = {"GRAYSCALE", "GRAYSCALE_ALPHA", "RGB", "RGB_ALPHA"};
  // header whitespace forms 0..5 are defined by the netpbm documents (any run of blanks/TAB/CR/LF between the
  // fields, one whitespace byte after maxval, decimal numbers); 6 (comment) and 7 (CR as the single terminator)
  // are valid netpbm that phosg does not claim to read: executed, not judged
  for (int magic : {5, 6})
    for (int sep = 0; sep < 8; sep++) {
      Kind k; k.magic = magic; k.sep = sep; k.name = vf::fmt("P%d/ws%d", magic, sep); k.family = magic == 5 ? "pnm-gray8" : "pnm-rgb";
      k.extra = sep >= 3; k.dontcare = sep >= 6;
      ks.push_back(k);
    }
  for (int order = 0; order < 3; order++)
    for (int t = 0; t < 4; t++) {
      Kind k; k.magic = 7; k.tupl = t; k.order = order; k.name = string("P7/") + tn[t] + (order ? vf::fmt("/order%d", order) : string());
      k.family = t == 0 ? "pnm-gray8" : t == 1 ? "pnm-gray8-alpha" : "pnm-rgb";
      k.extra = order > 0; k.dontcare = order == 2;  // order 2 carries a '#' comment line
      ks.push_back(k);
    }
  if (wide_gray) {
    for (int cw : {16, 32, 64}) {
      Kind k; k.magic = 5; k.cw = cw; k.name = vf::fmt("P5/%d-bit", cw); k.family = "pnm-gray-wide"; ks.push_back(k);
      Kind a; a.magic = 7; a.tupl = 1; a.cw = cw; a.name = vf::fmt("P7/GRAYSCALE_ALPHA/%d-bit", cw); a.family = "pnm-gray-wide-alpha"; ks.push_back(a);
      Kind g; g.magic = 7; g.tupl = 0; g.cw = cw; g.extra = true; g.name = vf::fmt("P7/GRAYSCALE/%d-bit", cw); g.family = "pnm-gray-wide"; ks.push_back(g);
      for (int t : {2, 3}) {
        Kind c; c.magic = 7; c.tupl = t; c.cw = cw; c.extra = true; c.name = vf::fmt("P7/%s/%d-bit", tn[t], cw); c.family = "pnm-rgb-wide"; ks.push_back(c);
      }
      Kind p; p.magic = 6; p.cw = cw; p.extra = true; p.name = vf::fmt("P6/%d-bit", cw); p.family = "pnm-rgb-wide"; ks.push_back(p);
    }
    // MAXVAL boundaries: 2^k-1, 2^k, 2^k+1 around every sample-size threshold, and the extremes
    const uint64_t mv[] = {1, 2, 100, 127, 128, 254, 256, 257, 1000, 32767, 32768, 65534, 65536, 65537, 0x7FFFFFFFull, 0x80000000ull,
        0xFFFFFFFEull, 0x100000000ull, 0x100000001ull, 0x7FFFFFFFFFFFFFFFull, 0x8000000000000000ull, 0xFFFFFFFFFFFFFFFEull};
    for (uint64_t m : mv)
      for (int form = 0; form < 4; form++) {  // P5, P6, P7 GRAYSCALE_ALPHA, P7 RGB_ALPHA
        Kind k; k.maxval = m; k.cw = cw_of_maxval(m); k.extra = true;
        if (form == 0) k.magic = 5;
        else if (form == 1) k.magic = 6;
        else { k.magic = 7; k.tupl = form == 2 ? 1 : 3; }
        k.name = vf::fmt("%s/maxval%llu", form == 0 ? "P5" : form == 1 ? "P6" : form == 2 ? "P7/GRAYSCALE_ALPHA" : "P7/RGB_ALPHA", (unsigned long long)m);
        bool g = form == 0 || form == 2;
        k.family = k.cw == 8 ? (form == 0 ? "pnm-gray8" : form == 2 ? "pnm-gray8-alpha" : "pnm-rgb") : (form == 0 ? "pnm-gray-wide" : form == 2 ? "pnm-gray-wide-alpha" : "pnm-rgb-wide");
        (void)g;
        ks.push_back(k);
      }
    for (int magic : {5, 6}) {  // bytes after the raster (netpbm streams may carry more images; phosg reads the first)
      Kind k; k.magic = magic; k.trail = 5; k.extra = true; k.name = vf::fmt("P%d/trailing-bytes", magic); k.family = magic == 5 ? "pnm-gray8" : "pnm-rgb"; ks.push_back(k);
    }
  }
  for (int depth : {24, 32})
    for (int td = 0; td < 2; td++)
      for (int hdr : {40, 52, 56, 108, 124}) {
        Kind k; k.type = Kind::BMP; k.depth = depth; k.comp = 0; k.topdown = td; k.hdr = hdr;
        k.name = vf::fmt("BMP/%d-bit/BI_RGB/%s/hdr%d", depth, td ? "top-down" : "bottom-up", hdr); k.family = "bmp-rgb";
        ks.push_back(k);
      }
  int perm[4] = {0, 1, 2, 3};
  do {
    for (int td = 0; td < 2; td++)
      for (int hdr : {56, 108, 124}) {
        Kind k; k.type = Kind::BMP; k.depth = 32; k.comp = 3; k.topdown = td; k.hdr = hdr;
        memcpy(k.perm, perm, sizeof(perm));
        k.name = vf::fmt("BMP/32-bit/BI_BITFIELDS/RGBA@bytes%d%d%d%d/%s/hdr%d", perm[0], perm[1], perm[2], perm[3], td ? "top-down" : "bottom-up", hdr);
        k.family = "bmp-bitfields";
        ks.push_back(k);
      }
  } while (std::next_permutation(perm, perm + 4));
  // pixel array not directly behind the headers (bfOffBits), bytes after the pixel array
  for (int depth : {24, 32})
    for (int td = 0; td < 2; td++)
      for (int gap : {1, 8, 300}) {
        Kind k; k.type = Kind::BMP; k.depth = depth; k.comp = 0; k.topdown = td; k.hdr = 40; k.gap = gap; k.extra = true;
        k.name = vf::fmt("BMP/%d-bit/BI_RGB/%s/hdr40/gap%d", depth, td ? "top-down" : "bottom-up", gap); k.family = "bmp-rgb";
        ks.push_back(k);
      }
  for (int td = 0; td < 2; td++)
    for (int gap : {3, 16}) {
      Kind k; k.type = Kind::BMP; k.depth = 32; k.comp = 3; k.topdown = td; k.hdr = 124; k.gap = gap; k.extra = true;
      k.perm[0] = 1; k.perm[1] = 3; k.perm[2] = 0; k.perm[3] = 2;
      k.name = vf::fmt("BMP/32-bit/BI_BITFIELDS/RGBA@bytes1302/%s/hdr124/gap%d", td ? "top-down" : "bottom-up", gap); k.family = "bmp-bitfields";
      ks.push_back(k);
    }
  for (int depth : {24, 32}) {
    Kind k; k.type = Kind::BMP; k.depth = depth; k.comp = 0; k.hdr = 40; k.trail = 7; k.extra = true;
    k.name = vf::fmt("BMP/%d-bit/BI_RGB/bottom-up/hdr40/trailing-bytes", depth); k.family = "bmp-rgb";
    ks.push_back(k);
  }
  {
    Kind k; k.type = Kind::BMP; k.depth = 32; k.comp = 3; k.hdr = 124; k.trail = 7; k.extra = true;
    k.perm[0] = 0; k.perm[1] = 1; k.perm[2] = 2; k.perm[3] = 3;
    k.name = "BMP/32-bit/BI_BITFIELDS/RGBA@bytes0123/bottom-up/hdr124/trailing-bytes"; k.family = "bmp-bitfields";
    ks.push_back(k);
  }
  {  // V2 header: three colour masks, no alpha mask - phosg documents whole-byte masks for all four channels: not judged
    Kind k; k.type = Kind::BMP; k.depth = 32; k.comp = 3; k.hdr = 52; k.extra = true; k.dontcare = true;
    k.name = "BMP/32-bit/BI_BITFIELDS/RGB-masks-only/bottom-up/hdr52"; k.family = "bmp-bitfields";
    ks.push_back(k);
  }
  return ks;
}

// Builds the file for (kind, w, h, pattern) and the picture it defines.
string make_variant(const Kind& k, int w, int h, int pat, Pic& pic) {
  pic = Pic();
  pic.w = w; pic.h = h; pic.cw = k.cw; pic.alpha = k.has_alpha();
  pic.s.assign((size_t)w * h * 4, k.type == Kind::PNM ? k.eff_maxval() : 0xFF);  // opaque = full scale
  string f;
  if (k.type == Kind::PNM) {
    int nl = k.magic == 5 ? 1 : k.magic == 6 ? 3 : (k.tupl == 0 ? 1 : k.tupl == 1 ? 2 : k.tupl == 2 ? 3 : 4);  // samples per pixel in the file
    unsigned long long maxval = k.eff_maxval();
    if (k.magic == 7) {
      const char* tn[4] = {"GRAYSCALE", "GRAYSCALE_ALPHA", "RGB", "RGB_ALPHA"};
      if (k.order == 0) f = vf::fmt("P7\nWIDTH %d\nHEIGHT %d\nDEPTH %d\nMAXVAL %llu\nTUPLTYPE %s\nENDHDR\n", w, h, nl, maxval, tn[k.tupl]);
      else if (k.order == 1) f = vf::fmt("P7\nTUPLTYPE %s\nMAXVAL %llu\nDEPTH %d\nHEIGHT %d\nWIDTH %d\nENDHDR\n", tn[k.tupl], maxval, nl, h, w);
      else f = vf::fmt("P7\n# made by the C06 generator\nWIDTH %d\nHEIGHT %d\nDEPTH %d\nMAXVAL %llu\nTUPLTYPE %s\nENDHDR\n", w, h, nl, maxval, tn[k.tupl]);
    } else {
      switch (k.sep) {
        case 0: f = vf::fmt("P%d %d %d %llu\n", k.magic, w, h, maxval); break;
        case 1: f = vf::fmt("P%d\n%d %d\n%llu\n", k.magic, w, h, maxval); break;
        case 2: f = vf::fmt("P%d\t%d\t %d\t%llu ", k.magic, w, h, maxval); break;
        case 3: f = vf::fmt("P%d\r\n%d %d\r\n%llu\n", k.magic, w, h, maxval); break;
        case 4: f = vf::fmt("P%d\n\n  %d   %d\n \n%llu\t", k.magic, w, h, maxval); break;
        case 5: f = vf::fmt("P%d 00%d 0%d 0%llu\n", k.magic, w, h, maxval); break;
        case 6: f = vf::fmt("P%d\n# made by the C06 generator\n%d %d\n%llu\n", k.magic, w, h, maxval); break;
        default: f = vf::fmt("P%d %d %d %llu\r", k.magic, w, h, maxval); break;
      }
    }
    for (int y = 0; y < h; y++)
      for (int x = 0; x < w; x++) {
        uint64_t v[4];
        for (int c = 0; c < nl; c++) {
          v[c] = sample(pat, ((uint64_t)y * w + x) * nl + c, k.cw);
          if (k.maxval) v[c] %= k.maxval + 1;  // samples never exceed MAXVAL (k.maxval < 2^64-1 by construction)
          char b[8];
          memcpy(b, &v[c], 8);
          f.append(b, k.cw / 8);
        }
        if (nl <= 2) {
          for (int c = 0; c < 3; c++) pic.at(x, y, c) = v[0];
          if (nl == 2) pic.at(x, y, 3) = v[1];
        } else {
          for (int c = 0; c < nl; c++) pic.at(x, y, c) = v[c];
        }
      }
    f.append((size_t)k.trail, (char)0xCC);
    return f;
  }
  // BMP
  int bpp = k.depth / 8;
  size_t stride = ((size_t)w * bpp + 3) / 4 * 4;
  uint32_t off = 14 + k.hdr + k.gap;
  f = "BM";
  p32(f, off + stride * h + k.trail);
  p16(f, 0); p16(f, 0);
  p32(f, off);
  p32(f, k.hdr);
  p32(f, (uint32_t)w);
  p32(f, (uint32_t)(k.topdown ? -h : h));
  p16(f, 1); p16(f, k.depth);
  p32(f, k.comp);
  p32(f, stride * h);
  p32(f, 2835); p32(f, 2835);
  p32(f, 0); p32(f, 0);
  if (k.hdr >= 52)
    for (int c = 0; c < 3; c++) p32(f, k.comp == 3 ? (0xFFu << (8 * k.perm[c])) : 0);
  if (k.hdr >= 56) p32(f, k.comp == 3 ? (0xFFu << (8 * k.perm[3])) : 0);
  if (k.hdr >= 108) {
    p32(f, k.hdr == 124 ? 0x73524742 : 0x57696E20);  // 'sRGB' / 'Win '
    for (int i = 0; i < 12; i++) p32(f, 0);
  }
  if (k.hdr >= 124) { p32(f, 4); p32(f, 0); p32(f, 0); p32(f, 0); }
  f.append((size_t)k.gap, (char)0xDD);
  for (int row = 0; row < h; row++) {
    int y = k.topdown ? row : h - 1 - row;
    size_t start = f.size();
    for (int x = 0; x < w; x++) {
      uint8_t v[4];
      for (int c = 0; c < 4; c++) v[c] = sample(pat, ((uint64_t)y * w + x) * 4 + c, 8);
      for (int c = 0; c < 3; c++) pic.at(x, y, c) = v[c];
      if (k.comp == 3) {
        if (k.hdr >= 56) pic.at(x, y, 3) = v[3];
        uint8_t px[4];
        for (int c = 0; c < 4; c++) px[k.perm[c]] = v[c];
        f.append((char*)px, 4);
      } else {
        f.push_back(v[2]); f.push_back(v[1]); f.push_back(v[0]);
        if (bpp == 4) f.push_back(v[3]);  // unused byte of 32-bit BI_RGB
      }
    }
    while (f.size() - start < stride) f.push_back((char)0xEE);  // padding content is unspecified
  }
  f.append((size_t)k.trail, (char)0xCC);
  return f;
}

// ---------------------------------------------------------------------------------------------
// dump files for the Python stage

struct Dump {
  int fd = -1;
  void open(vf::Run& r) {
    const char* d = getenv("VF_OUTDIR");
    if (r.only >= 0 || !d) return;
    // one file per (section, shard); a shard restarted after a crash appends.  Every record is handed to the kernel
    // in one write(): a process that dies (sanitizer abort in the code under test) leaves whole records only.
    string p = vf::fmt("%s/%s.%llu.dat", d, r.section.c_str(), (unsigned long long)r.shard);
    fd = ::open(p.c_str(), O_WRONLY | O_CREAT | O_APPEND, 0644);
  }
  void rec(const string& json, const string& file, const string& expect) {
    if (fd < 0) return;
    uint32_t h[4] = {0x31524656, (uint32_t)json.size(), (uint32_t)file.size(), (uint32_t)expect.size()};
    string all((const char*)h, sizeof(h));
    all += json;
    all += file;
    all += expect;
    write_all(fd, (const uint8_t*)all.data(), all.size());
  }
  ~Dump() { if (fd >= 0) close(fd); }
};

string scratch_dir() {
  const char* root = getenv("VF_ROOT");
  string d = string(root ? root : ".") + "/build/scratch/C06";
  mkdir(d.c_str(), 0755);
  return d;
}

string slurp(const string& path) {
  string s;
  FILE* f = fopen(path.c_str(), "rb");
  if (!f) return s;
  char b[4096];
  size_t k;
  while ((k = fread(b, 1, sizeof(b), f)) > 0) s.append(b, k);
  fclose(f);
  return s;
}

// dimensions that cross the 8/16-bit boundaries of the header fields and the 64 KiB mark of buffers; enumerated with
// the coordinate pattern and 8/16-bit channels only
vector<std::pair<int, int>> saveload_big_dims(bool thorough) {
  vector<std::pair<int, int>> d = {{255, 1}, {256, 1}, {257, 2}, {1, 257}, {2, 256}, {65536, 1}, {1, 65537}, {300, 211}};
  if (thorough) for (auto p : {std::pair<int, int>{65535, 1}, {65537, 2}, {1, 65535}, {2, 65536}, {1000, 1000}, {127, 129}, {128, 128}, {4097, 3}}) d.push_back(p);
  return d;
}

vector<std::pair<int, int>> saveload_dims(bool thorough) {
  vector<std::pair<int, int>> d;
  if (!thorough) {
    for (int h = 1; h <= 5; h++) for (int w = 1; w <= 8; w++) d.push_back({w, h});
    for (auto p : {std::pair<int, int>{64, 1}, {1, 64}, {63, 2}, {33, 3}, {17, 17}}) d.push_back(p);
  } else {
    for (int h : {1, 2, 3, 5}) for (int w = 1; w <= 64; w++) d.push_back({w, h});
    for (int h = 1; h <= 64; h++) for (int w = 1; w <= 8; w++) if (!(h == 1 || h == 2 || h == 3 || h == 5)) d.push_back({w, h});
    for (auto p : {std::pair<int, int>{17, 17}, {33, 47}, {63, 61}, {64, 64}}) d.push_back(p);
  }
  return d;
}

const char* fmt_name(Image::Format f) {
  return f == Image::Format::COLOR_PPM ? "ppm" : f == Image::Format::WINDOWS_BITMAP ? "bmp" : "png";
}

}  // namespace

// =============================================================================================
VF_SECTION(saveload, 8, 16, 90) {
  Dump dump;
  dump.open(r);
  string sdir = scratch_dir();
  const Image::Format fmts[3] = {Image::Format::COLOR_PPM, Image::Format::WINDOWS_BITMAP, Image::Format::PNG};
  auto dims = saveload_dims(r.thorough());
  size_t nsmall = dims.size();
  for (auto p : saveload_big_dims(r.thorough())) dims.push_back(p);
  for (size_t di = 0; di < dims.size(); di++)
    for (int alpha = 0; alpha < 2; alpha++)
      for (int cw : {8, 16, 32, 64})
        for (int pat = 0; pat < NPAT; pat++)
          for (auto fmt : fmts) {
            auto [w, h] = dims[di];
            if (di >= nsmall && (pat != 2 || cw > 16)) continue;
            if (!r.take()) continue;
            string what = vf::fmt("%dx%d %s %d-bit pattern=%s -> %s", w, h, alpha ? "alpha" : "no-alpha", cw, pat_name[pat], fmt_name(fmt));
            if (r.wants_desc()) r.desc("save/load " + what);
            r.note(string("save-") + fmt_name(fmt));
            if (pat >= 2) r.nontriv();
            string k = fmt_name(fmt);
            Image img = image_from_pattern(w, h, alpha, cw, pat);
            auto raw = pattern_bytes(w, h, alpha, cw, pat);
            string bytes, swhat;
            string so = vf::outcome([&] { bytes = img.save(fmt); }, &swhat);
            if (fmt != Image::Format::COLOR_PPM && cw != 8) {
              // the statement covers BMP/PNG for 8-bit channels only; the library documents a refusal
              if (so == "ok") r.ok("wide-" + k + "-saved(don't-care)");
              else r.ok("wide-" + k + "-refused:" + so);
              continue;
            }
            if (so != "ok") { r.fail(k + ":save-throws", [&] { return what + ": save(Format) threw " + so + " (" + swhat + ")"; }); continue; }
            if (memcmp(img.get_data(), raw.data(), raw.size()) != 0) { r.fail(k + ":save-modifies-image", [&] { return what; }); continue; }
            // save(FILE*) must produce the same bytes
            {
              char* mb = nullptr;
              size_t ml = 0;
              FILE* mf = open_memstream(&mb, &ml);
              string o2 = vf::outcome([&] { img.save(mf, fmt); });
              fclose(mf);
              bool same = o2 == "ok" && ml == bytes.size() && memcmp(mb, bytes.data(), ml) == 0;
              free(mb);
              if (!same) { r.fail(k + ":save-FILE-differs-from-save-string", [&] { return what + vf::fmt(": save(FILE*) %s, %zu bytes vs %zu", o2.c_str(), ml, bytes.size()); }); continue; }
            }
            // a slice of the grid also goes through real files (save(filename) / Image(filename))
            bool via_file = (pat == 2 && h <= 2 && w <= 8);
            if (via_file) {
              string path = vf::fmt("%s/sl-%d-%llu.%s", sdir.c_str(), (int)getpid(), (unsigned long long)r.shard, fmt_name(fmt));
              string o3 = vf::outcome([&] {
                if (w % 2) img.save(path, fmt);  // const std::string& overload
                else img.save(path.c_str(), fmt);  // const char* overload
              });
              string disk = slurp(path);
              if (o3 != "ok" || disk != bytes) {
                unlink(path.c_str());
                r.fail(k + ":save-filename-differs", [&] { return what + vf::fmt(": save(filename) %s, %zu bytes on disk vs %zu", o3.c_str(), disk.size(), bytes.size()); });
                continue;
              }
              if (fmt != Image::Format::PNG) {
                bool eq = false;
                string o4 = vf::outcome([&] {
                  Image l = w % 2 ? Image(path) : Image(path.c_str());
                  eq = (ssize_t)l.get_width() == w && (ssize_t)l.get_height() == h && l.get_has_alpha() == (bool)alpha && l.get_channel_width() == cw &&
                      l.get_data_size() == raw.size() && memcmp(l.get_data(), raw.data(), raw.size()) == 0;
                });
                unlink(path.c_str());
                if (o4 != "ok" || !eq) { r.fail(k + ":roundtrip-via-filename", [&] { return what + ": Image(filename) " + (o4 == "ok" ? "differs from the saved image" : "threw " + o4); }); continue; }
              } else unlink(path.c_str());
            }
            if (cw == 8) {
              dump.rec(vf::fmt("{\"idx\":%llu,\"section\":\"saveload\",\"role\":\"saved\",\"fmt\":\"%s\",\"w\":%d,\"h\":%d,\"alpha\":%d,\"pat\":%d}", (unsigned long long)r.cur, fmt_name(fmt), w, h, alpha, pat), bytes, "");
              r.counters["files_for_python"]++;
            }
            if (fmt == Image::Format::PNG) { r.ok("png-saved(decoded by python stage)"); continue; }
            // load back
            Loaded L = load_bytes((const uint8_t*)bytes.data(), bytes.size());
            if (L.outcome != "ok") { r.fail(k + ":load-of-own-output-throws", [&] { return what + ": Image(FILE*) threw " + L.outcome + " (" + L.what + ")"; }); continue; }
            if (L.w != w || L.h != h) { r.fail(k + ":roundtrip-dims", [&] { return what + vf::fmt(": loaded %dx%d", L.w, L.h); }); continue; }
            if (L.alpha != (bool)alpha) { r.fail(k + ":roundtrip-alpha-flag", [&] { return what + vf::fmt(": loaded has_alpha=%d", L.alpha); }); continue; }
            if (L.cw != cw) { r.fail(k + ":roundtrip-channel-width", [&] { return what + vf::fmt(": loaded channel width %d", L.cw); }); continue; }
            if (L.raw != raw) {
              r.fail(k + ":roundtrip-pixels", [&] {
                size_t i = 0;
                while (i < raw.size() && L.raw[i] == raw[i]) i++;
                return what + vf::fmt(": first differing byte of the pixel buffer at %zu: loaded %02X, saved %02X", i, L.raw[i], raw[i]);
              });
              continue;
            }
            r.ok(string(via_file ? "roundtrip-identical(+file)" : "roundtrip-identical"));
          }
  r.bound = r.thorough() ? "dims {1..64}x{1,2,3,5} u {1..8}x{1..64} u {17x17,33x47,63x61,64x64} x alpha x {8,16,32,64} x 6 patterns x {ppm,bmp,png}; boundary dims {255x1,256x1,257x2,1x257,2x256,"
                           "65536x1,1x65537,300x211,65535x1,65537x2,1x65535,2x65536,1000x1000,127x129,128x128,4097x3} x alpha x {8,16} x coordinate pattern x 3 formats"
                         : "dims {1..8}x{1..5} u {64x1,1x64,63x2,33x3,17x17} x alpha x {8,16,32,64} x 6 patterns x {ppm,bmp,png}; boundary dims {255x1,256x1,257x2,1x257,2x256,65536x1,1x65537,300x211} "
                           "x alpha x {8,16} x coordinate pattern x 3 formats";
}

// =============================================================================================
namespace {

vector<std::pair<int, int>> variant_dims(bool thorough) {
  vector<std::pair<int, int>> d;
  for (int h = 1; h <= 3; h++) for (int w = 1; w <= 5; w++) d.push_back({w, h});
  for (auto p : {std::pair<int, int>{8, 1}, {7, 2}, {64, 1}, {1, 64}, {17, 17}}) d.push_back(p);
  if (thorough) {
    for (int h : {1, 2}) for (int w = 6; w <= 64; w++) if (!((w == 8 && h == 1) || (w == 7 && h == 2) || (w == 64 && h == 1))) d.push_back({w, h});
    for (int h = 4; h <= 64; h += 3) for (int w = 1; w <= 4; w++) d.push_back({w, h});
    d.push_back({63, 61});
    d.push_back({64, 64});
  }
  return d;
}

// load -> save -> load (cooperating sites): whatever an image holds after loading must survive being written and read
// again, and a netpbm MAXVAL must still be the file's MAXVAL (it is the scale of every sample)
string resave_check(const Kind& k, const string& file, const Loaded& L) {
  uint8_t* copy = (uint8_t*)malloc(file.size());
  memcpy(copy, file.data(), file.size());
  FILE* f = fmemopen(copy, file.size(), "rb");
  string res;
  try {
    Image img(f);
    string ppm = img.save(Image::Format::COLOR_PPM);
    PnmHdr H = parse_pnm_header(ppm);
    uint64_t want_max = k.type == Kind::PNM ? k.eff_maxval() : 0xFF;
    if (!H.ok) res = "re-saved PPM has no valid netpbm header: " + vf::show(ppm.substr(0, 60));
    else if (H.w != (uint64_t)L.w || H.h != (uint64_t)L.h) res = vf::fmt("re-saved PPM header says %llux%llu", (unsigned long long)H.w, (unsigned long long)H.h);
    else if (H.maxval != want_max) res = vf::fmt("re-saved PPM header has MAXVAL %llu, the loaded file has %llu", (unsigned long long)H.maxval, (unsigned long long)want_max);
    else {
      Loaded R = load_bytes((const uint8_t*)ppm.data(), ppm.size());
      if (!same_loaded(R, L)) res = vf::fmt("load(save_ppm(load(file))) gives %s %dx%d %d-bit alpha=%d, load(file) gave %dx%d %d-bit alpha=%d (or other pixels)", R.outcome.c_str(), R.w, R.h, R.cw, R.alpha, L.w, L.h, L.cw, L.alpha);
    }
    if (res.empty() && L.cw == 8) {
      string bmp = img.save(Image::Format::WINDOWS_BITMAP);
      Loaded R = load_bytes((const uint8_t*)bmp.data(), bmp.size());
      if (!same_loaded(R, L)) res = vf::fmt("load(save_bmp(load(file))) gives %s %dx%d %d-bit alpha=%d, load(file) gave %dx%d %d-bit alpha=%d (or other pixels)", R.outcome.c_str(), R.w, R.h, R.cw, R.alpha, L.w, L.h, L.cw, L.alpha);
    }
  } catch (const std::exception& e) {
    res = string("exception while re-saving: ") + e.what();
  }
  fclose(f);
  free(copy);
  return res;
}

// verdict of loading one complete file in the child: "OK <class>" | "FAIL <kind>\t<desc>"
string check_full_load(const Kind& k, const string& file, const Pic& pic, uint64_t idx, const string& sdir) {
  const uint8_t* d = (const uint8_t*)file.data();
  bool leak = leaks([&] { Loaded t = load_bytes(d, file.size()); });
  errno = idx % 3 == 0 ? EINTR : idx % 3 == 1 ? ERANGE : 0;  // ambient errno must not matter
  Loaded L = load_bytes(d, file.size());
  if (k.dontcare) return "OK dont-care(outside the statement):" + L.outcome;
  if (L.outcome != "ok") return "FAIL throws\tImage(FILE*) threw " + L.outcome + " (" + L.what + ")";
  string c = compare_loaded(L, pic, true);
  if (!c.empty()) return "FAIL " + c;
  if (leak) return "FAIL leak\tLeakSanitizer reports memory still allocated after the image was loaded and destroyed";
  auto differs = [&](const char* how, const Loaded& S) {
    return vf::fmt("the same file %s gives %s %dx%d (%s), from a memory stream it gives %s %dx%d with the expected pixels", how, S.outcome.c_str(), S.w, S.h, S.what.c_str(), L.outcome.c_str(), L.w, L.h);
  };
  // delivery invariance: the same bytes arriving 1 or 7 at a time (short reads) must decode identically
  for (size_t chunk : {1, 7}) {
    Loaded S = load_bytes(d, file.size(), chunk);
    if (!same_loaded(S, L)) return "FAIL short-read-delivery-differs\t" + differs(vf::fmt("delivered %zu byte(s) per read", chunk).c_str(), S);
  }
  // every loading overload on a real file
  string path = vf::fmt("%s/v-%d.bin", sdir.c_str(), (int)getpid());
  if (!write_file(path, d, file.size())) return "FAIL harness\tcannot write " + path;
  static const char* mode_name[5] = {"through Image(FILE*) on a real file", "through Image(FILE*) on an unbuffered real file", "through Image(const char* filename)",
      "through Image(const std::string& filename)", "through Image(nullptr) with the file as stdin"};
  for (int mode = 0; mode < 5; mode++) {
    if (mode == 4 && idx % 2) continue;  // stdin is used once per process: by the file or by the pipe
    Loaded S = load_file(path, mode);
    if (!same_loaded(S, L)) { unlink(path.c_str()); return "FAIL overload-or-file-delivery-differs\t" + differs(mode_name[mode], S); }
  }
  unlink(path.c_str());
  // streams that cannot seek
  {
    Loaded S = load_bytes(d, file.size(), 3, false);
    if (!same_loaded(S, L)) return "FAIL non-seekable-stream-differs\t" + differs("from a stream that cannot seek (fopencookie without seek, 3 bytes per read)", S);
    S = load_pipe(d, file.size(), false);
    if (!same_loaded(S, L)) return "FAIL non-seekable-stream-differs\t" + differs("through Image(FILE*) on a pipe", S);
    if (idx % 2) {
      S = load_pipe(d, file.size(), true);
      if (!same_loaded(S, L)) return "FAIL non-seekable-stream-differs\t" + differs("through Image(nullptr) with a pipe as stdin", S);
    }
  }
  string rs = resave_check(k, file, L);
  if (!rs.empty()) return "FAIL resave-changes-image\t" + rs;
  return "OK decoded-as-defined";
}

}  // namespace

VF_SECTION(variants, 16, 16, 90) {
  Dump dump;
  dump.open(r);
  auto kinds = all_kinds(true);
  string sdir = scratch_dir();
  warm_symbolizer();
  // warm up libc/libstdc++ lazy allocations in the parent so the children's heap balance is quiet
  {
    Pic p;
    Kind k; k.magic = 6; k.name = "warm";
    string f = make_variant(k, 2, 2, 2, p);
    load_bytes((const uint8_t*)f.data(), f.size());
    load_bytes((const uint8_t*)f.data(), 5);
  }
  size_t ncore = 0, nextra = 0, ndc = 0;
  for (auto& k : kinds) { (k.extra ? nextra : ncore)++; ndc += k.dontcare; }
  auto dims_core = variant_dims(r.thorough());
  vector<std::pair<int, int>> dims_extra = {{1, 1}, {3, 2}, {2, 3}, {5, 3}, {7, 2}, {17, 17}};
  if (r.thorough()) for (auto p : {std::pair<int, int>{4, 1}, {1, 5}, {6, 5}, {64, 3}, {3, 64}, {63, 61}}) dims_extra.push_back(p);
  for (int pass = 0; pass < 2; pass++)
    for (auto [w, h] : pass == 0 ? dims_core : dims_extra)
      for (int pat : {2, 3, 5}) {
        if (pass == 1 && pat == 3 && !r.thorough()) continue;
        for (auto& k : kinds) {
          if (k.extra != (pass == 1)) continue;
          if (!r.take()) continue;
          string what = vf::fmt("%s %dx%d pattern=%s", k.name.c_str(), w, h, pat_name[pat]);
          if (r.wants_desc()) r.desc("load " + what);
          r.note("load-" + k.family);
          r.nontriv();
          Pic pic;
          string file = make_variant(k, w, h, pat, pic);
          if (k.cw == 8 && !k.dontcare) {
            string exp;
            for (size_t i = 0; i < pic.s.size(); i++) exp.push_back((i % 4 == 3 && !pic.alpha) ? (char)0xFF : (char)pic.s[i]);
            dump.rec(vf::fmt("{\"idx\":%llu,\"section\":\"variants\",\"role\":\"variant\",\"name\":\"%s\",\"w\":%d,\"h\":%d,\"alpha\":%d,\"maxval\":%llu,\"trail\":%d}", (unsigned long long)r.cur,
                         k.name.c_str(), w, h, pic.alpha ? 1 : 0, (unsigned long long)(k.type == Kind::PNM ? k.eff_maxval() : 255), k.trail), file, exp);
            r.counters["files_for_python"]++;
          }
          uint64_t idx = r.cur;
          Iso iso = isolated([&] { return check_full_load(k, file, pic, idx, sdir); });
          if (!iso.normal) {
            if (k.dontcare) { r.ok(k.family + ":dont-care(outside the statement):process-died"); continue; }
            r.fail(k.family + ":crash", [&] { return what + vf::fmt(" (%zu-byte file %s): loading it killed the process: %s", file.size(), vf::show(file.substr(0, 48)).c_str(), iso.asan.c_str()); });
          } else if (iso.verdict.compare(0, 5, "FAIL ") == 0) {
            size_t t = iso.verdict.find('\t');
            r.fail(k.family + ":" + iso.verdict.substr(5, t - 5), [&] { return what + vf::fmt(" (%zu-byte file %s): ", file.size(), vf::show(file.substr(0, 48)).c_str()) + iso.verdict.substr(t + 1); });
          } else r.ok(k.family + ":" + iso.verdict.substr(3));
        }
      }
  r.bound = vf::fmt("%zu container variants: %zu core (P5/P6 x3 header-whitespace forms, P7 x4 tuple types, wide P5 / P7 GRAYSCALE_ALPHA 16/32/64, BMP 24/32 BI_RGB x order x 40/52/56/108/124-byte headers, "
                    "BI_BITFIELDS x 24 mask permutations x order x 56/108/124-byte headers) x %zu dims x 3 patterns + %zu extra (5 more header whitespace forms, P7 line order, 22 MAXVAL boundary values x 4 containers, "
                    "wide RGB, pixel-array gaps, trailing bytes; %zu of them outside the statement: executed, not judged) x %zu dims x %d patterns; each file through 11 deliveries "
                    "(memory, short reads, 4 real-file overloads, stdin, non-seekable cookie, pipe) and re-saved as PPM/BMP and loaded again",
      kinds.size(), ncore, dims_core.size(), nextra, ndc, dims_extra.size(), r.thorough() ? 3 : 2);
}

// =============================================================================================
namespace {

string check_prefix(const string& file, size_t n, const Pic& pic) {
  bool leak = leaks([&] { Loaded t = load_bytes((const uint8_t*)file.data(), n); });
  Loaded L = load_bytes((const uint8_t*)file.data(), n);
  if (L.outcome == "nonstd" || L.outcome == "harness-fmemopen-failed") return "FAIL nonstd-exception\tprefix load ended with " + L.outcome;
  string cls;
  if (L.outcome == "ok") {
    string c = compare_loaded(L, pic, true);
    if (!c.empty()) return "FAIL accepted-differently\tthe truncated file was accepted but " + c.substr(c.find('\t') + 1);
    cls = "OK accepted-identical(cut in trailing padding)";
  } else cls = "OK rejected:" + L.outcome;
  if (leak) return "FAIL leak\tLeakSanitizer reports memory still allocated after the " + (L.outcome == "ok" ? string("load") : "exception (" + L.outcome + ")");
  // the same prefix from a stream that cannot seek and delivers 5 bytes per read (a pipe that was closed early)
  Loaded N = load_bytes((const uint8_t*)file.data(), n, 5, false);
  if (N.outcome == "nonstd") return "FAIL nonstd-exception\tprefix load from a non-seekable stream ended with a non-standard exception";
  if (N.outcome == "ok") {
    string c = compare_loaded(N, pic, true);
    if (!c.empty()) return "FAIL non-seekable-accepted-differently\tthe truncated file, read from a stream that cannot seek, was accepted but " + c.substr(c.find('\t') + 1);
  }
  // I/O fault instead of end of file: the medium fails at offset n (that read and every later one return EIO)
  Loaded E = load_bytes((const uint8_t*)file.data(), file.size(), 1, true, (ssize_t)n);
  if (E.outcome == "nonstd") return "FAIL nonstd-exception\tload from a failing medium ended with a non-standard exception";
  if (E.outcome == "ok") {
    string c = compare_loaded(E, pic, true);
    if (!c.empty()) return "FAIL read-error-accepted-differently\tevery read from offset " + std::to_string(n) + " on failed with EIO; the file was accepted but " + c.substr(c.find('\t') + 1);
  }
  return cls;
}

}  // namespace

VF_SECTION(truncate, 16, 16, 90) {
  auto kinds = all_kinds(true);
  vector<std::pair<int, int>> dims = {{1, 1}, {2, 1}, {3, 1}, {4, 1}, {1, 2}, {2, 2}, {3, 2}, {5, 3}};
  if (r.thorough()) for (auto p : {std::pair<int, int>{64, 1}, {63, 2}, {33, 3}, {13, 9}}) dims.push_back(p);
  warm_symbolizer();
  {
    Pic p;
    Kind k; k.magic = 6; k.name = "warm";
    string f = make_variant(k, 2, 2, 2, p);
    load_bytes((const uint8_t*)f.data(), f.size());
    load_bytes((const uint8_t*)f.data(), 5);
  }
  uint64_t nfiles = 0;
  size_t maxlen = 0;
  // All prefixes of one file that belong to this shard run in one forked child, which reports a
  // verdict per prefix; if it dies, the prefix without a verdict is the culprit and the rest
  // continue in a fresh child.
  auto run_file = [&](const string& name, const string& family, const string& file, const Pic& pic) {
    nfiles++;
    maxlen = std::max(maxlen, file.size());
    vector<std::pair<size_t, uint64_t>> mine;  // (prefix length, case index)
    for (size_t n = 0; n < file.size(); n++) {
      if (!r.take()) continue;
      if (r.wants_desc()) r.desc(vf::fmt("load the first %zu of %zu bytes of %s", n, file.size(), name.c_str()));
      r.nontriv();
      mine.push_back({n, r.cur});
    }
    size_t pos = 0;
    while (pos < mine.size()) {
      Iso iso = isolated([&] {
        string all;
        for (size_t i = pos; i < mine.size(); i++) {
          string v = check_prefix(file, mine[i].first, pic);
          string one = "\x03" + v + "\x04";
          // delivered immediately so that a later crash cannot lose it
          if (write(2, one.data(), one.size()) < 0) break;
        }
        return string("done");
      }, 300);
      // collect verdicts in order
      vector<string> verdicts;
      for (size_t a = iso.raw.find('\x03'); a != string::npos; a = iso.raw.find('\x03', a + 1)) {
        size_t b = iso.raw.find('\x04', a);
        if (b == string::npos) break;
        verdicts.push_back(iso.raw.substr(a + 1, b - a - 1));
      }
      for (size_t i = 0; i < verdicts.size() && pos + i < mine.size(); i++) {
        size_t n = mine[pos + i].first;
        r.cur = mine[pos + i].second;
        const string& v = verdicts[i];
        if (v.compare(0, 5, "FAIL ") == 0) {
          size_t t = v.find('\t');
          r.fail("truncated-" + family + ":" + v.substr(5, t - 5), [&] {
            return vf::fmt("first %zu of %zu bytes of %s (%s): ", n, file.size(), name.c_str(), vf::show(file.substr(0, std::min<size_t>(n, 40))).c_str()) + v.substr(t + 1);
          });
        } else r.ok(family + ":" + v.substr(3));
      }
      pos += verdicts.size();
      if (!iso.normal && pos < mine.size()) {
        size_t n = mine[pos].first;
        r.cur = mine[pos].second;
        r.fail("truncated-" + family + ":crash", [&] {
          return vf::fmt("first %zu of %zu bytes of %s (%s): process died: ", n, file.size(), name.c_str(), vf::show(file.substr(0, std::min<size_t>(n, 40))).c_str()) + iso.asan;
        });
        pos++;
      } else if (!iso.normal || pos < mine.size()) {
        // child ended abnormally after its last verdict, or stopped early: do not loop forever
        if (pos < mine.size()) { r.cur = mine[pos].second; r.fail("truncated-" + family + ":crash", [&] { return name + ": child stopped without a verdict: " + iso.asan; }); pos++; }
      }
      r.beat();
    }
  };
  for (auto [w, h] : dims) {
    // generated input variants (the extra ones over two dims only; those outside the statement not at all)
    for (auto& k : kinds) {
      if (k.dontcare) continue;
      if (k.extra && !((w == 2 && h == 2) || (w == 3 && h == 2) || (r.thorough() && w == 5 && h == 3))) continue;
      r.note("truncated-" + k.family);
      Pic pic;
      string file = make_variant(k, w, h, 2, pic);
      run_file(vf::fmt("%s %dx%d", k.name.c_str(), w, h), k.family, file, pic);
    }
    // phosg's own output
    for (int alpha = 0; alpha < 2; alpha++)
      for (int cw : {8, 16, 32, 64})
        for (auto fmt : {Image::Format::COLOR_PPM, Image::Format::WINDOWS_BITMAP}) {
          if (fmt == Image::Format::WINDOWS_BITMAP && cw != 8) continue;
          string fam = string("own-") + fmt_name(fmt);
          r.note("truncated-" + fam);
          auto raw = pattern_bytes(w, h, alpha, cw, 2);
          Pic pic = pic_from_raw(raw.data(), w, h, alpha, cw);
          string file;
          try {
            file = image_from_pattern(w, h, alpha, cw, 2).save(fmt);
          } catch (const std::exception&) {
            continue;  // reported by section saveload
          }
          run_file(vf::fmt("saved %s %dx%d %s %d-bit", fmt_name(fmt), w, h, alpha ? "alpha" : "no-alpha", cw), fam, file, pic);
        }
  }
  r.counters["files"] = r.shard == 0 ? nfiles : 0;
  r.bound = vf::fmt("every prefix length 0..len-1 of %llu files (the core container variants over %zu dims, the extra ones over 2 dims, phosg's own PPM/BMP output; longest file %zu bytes), "
                    "each prefix from a memory stream and from a non-seekable short-read stream, and from a medium that fails with EIO from the same offset on",
      (unsigned long long)nfiles, dims.size(), maxlen);
}

#include "C06_r2.hh"
#include "C06_r3.hh"

VF_MAIN()
