// C14 round 2 — operation HISTORIES on one stream / one descriptor, on every kind of source.
// Included by C14.cc after the interposition layer and the cookie-stream helpers.
//
// stream_histories: source kinds {fopencookie with callback-size choices, real regular file via fopen_unique,
//   regular file via fdopen_shared on a descriptor whose offset was moved first, fmemopen_unique, real pipe filled and
//   closed before the first read via fdopen_unique, real pipe with a staggered writer via fdopen_shared, /dev/null};
//   every sequence of <=L prefix operations, then one read-to-end operation; the reference is a position in the content.
// fd_histories: the same on descriptors: regular file (clamped real reads, lseek moves the offset) and real pipe (the
//   wrapped read() pushes j pending writer chunks into the kernel pipe, j is the explorer's choice).
#pragma once

namespace {

// NUL-free content with line breaks at spacings around the 255/256-byte fgets block and the 4096/8192 stdio buffers
std::string content_lines(size_t n, unsigned salt = 0) {
  std::string s(n, 0);
  for (size_t i = 0; i < n; i++) {
    char c = (char)(((i * 7 + 3 + salt * 31) % 255) + 1);  // every byte value 01..FF except \n
    s[i] = c == '\n' ? 'N' : c;
  }
  static const size_t L[] = {5, 255, 1, 256, 254, 510, 3, 4096, 300, 511, 8192, 2};
  size_t p = 0;
  for (size_t k = 0;; k++) {
    p += L[k % 12];
    if (p > n) break;
    s[p - 1] = '\n';
  }
  return s;
}

// ---- stream sources ------------------------------------------------------------------------------------------

enum SrcKind { SK_COOKIE, SK_FILE, SK_FILE_FDOPEN_OFF, SK_FMEM, SK_PIPE_FULL, SK_PIPE_STAG, SK_DEVNULL, NSRCKIND };
const char* srckind_name[] = {"fopencookie stream (callback sizes are choices)", "regular file via fopen_unique", "regular file via fdopen_shared(fd) after lseek(fd, n/3)", "fmemopen_unique", "real pipe, writer finished before the first read, via fdopen_unique", "real pipe with a staggered writer via fdopen_shared", "/dev/null via fopen_shared"};

struct Stream {
  FILE* f = nullptr;
  std::unique_ptr<FILE, void (*)(FILE*)> up{nullptr, +[](FILE*) {}};
  std::shared_ptr<FILE> sp;
  Cookie ck;
  std::string membuf;
  int wfd = -1;
  std::thread writer;
  std::atomic<bool> stop{false};
  size_t skip = 0;  // bytes of the content that are before the stream's start
  bool seekable = false;

  void close() {
    stop = true;
    if (writer.joinable()) writer.join();
    if (up) up.reset();
    else if (sp) sp.reset();
    else if (f) fclose(f);
    f = nullptr;
    if (wfd >= 0) { __real_close(wfd); wfd = -1; }
  }
  ~Stream() { close(); }
};

// Staggered writer: writes the next chunk only when the kernel pipe is empty, so every kernel read() delivers (the rest
// of) exactly one chunk whatever the thread timing is: the delivery sequence is a function of the chunk plan alone.
void stag_writer(Stream* s, int rfd, std::string d, size_t chunk) {
  size_t off = 0;
  while (off < d.size() && !s->stop) {
    int avail = 0;
    if (ioctl(rfd, FIONREAD, &avail) == 0 && avail > 0) { sched_yield(); continue; }
    size_t k = std::min(chunk, d.size() - off);
    ssize_t w = __real_write(s->wfd, d.data() + off, k);
    if (w <= 0) break;
    off += w;
  }
  int fd = s->wfd;
  s->wfd = -1;
  __real_close(fd);
}

// opens the source; returns false when the kind does not exist for this content (reported as inapplicable)
bool open_stream(Stream& s, SrcKind k, const std::string& d, const std::string& path, size_t stag_chunk) {
  switch (k) {
    case SK_COOKIE:
      s.ck.data = d;
      s.ck.choices = true;
      s.f = open_cookie(&s.ck);
      return true;
    case SK_FILE:
      s.up = fopen_unique(path);
      s.f = s.up.get();
      s.seekable = true;
      return true;
    case SK_FILE_FDOPEN_OFF: {
      int fd = __real_open(path.c_str(), O_RDONLY);
      s.skip = d.size() / 3;
      lseek(fd, (off_t)s.skip, SEEK_SET);
      s.sp = fdopen_shared(fd, "r");
      s.f = s.sp.get();
      s.seekable = true;
      return true;
    }
    case SK_FMEM:
      if (d.empty()) return false;
      s.membuf = d;
      s.up = fmemopen_unique(s.membuf.data(), s.membuf.size());
      s.f = s.up.get();
      s.seekable = true;
      return s.f != nullptr;
    case SK_PIPE_FULL: {
      int p[2];
      if (::pipe(p)) { perror("pipe"); _exit(3); }
      int cap = fcntl(p[1], F_SETPIPE_SZ, 1 << 20);
      if (d.size() > (size_t)(cap > 0 ? cap : 65536)) { __real_close(p[0]); __real_close(p[1]); return false; }
      size_t off = 0;
      while (off < d.size()) {
        ssize_t w = __real_write(p[1], d.data() + off, d.size() - off);
        if (w <= 0) { perror("pipe fill"); _exit(3); }
        off += w;
      }
      __real_close(p[1]);
      s.up = fdopen_unique(p[0]);
      s.f = s.up.get();
      return true;
    }
    case SK_PIPE_STAG: {
      int p[2];
      if (::pipe(p)) { perror("pipe"); _exit(3); }
      fcntl(p[1], F_SETPIPE_SZ, 1 << 20);
      s.wfd = p[1];
      s.sp = fdopen_shared(p[0], "rb");
      s.f = s.sp.get();
      s.writer = std::thread(stag_writer, &s, p[0], d, stag_chunk ? stag_chunk : d.size() + 1);
      return true;
    }
    case SK_DEVNULL:
      if (!d.empty()) return false;
      s.sp = fopen_shared("/dev/null", "r");
      s.f = s.sp.get();
      return true;
    default: return false;
  }
}

enum POp { PO_FGETCX, PO_FREADX_BUF10, PO_FREADX_STR4096, PO_FREADX_U32, PO_FREAD7, PO_FREAD5000, PO_FGETS, PO_FSEEK_HALF, NPOP };
const char* pop_name[] = {"fgetcx", "freadx(buf,10)", "freadx(4096)", "freadx<uint32_t>", "fread(7)", "fread(5000)", "fgets", "::fseek(n/2)"};
enum FOp { FO_READ_ALL, FO_FREADX_REST, FO_FREADX_REST1, FO_FREAD_REST5, FO_FGETS_EOF, FO_FGETCX_EOF, NFOP };
const char* fop_name[] = {"read_all(FILE*)", "freadx(rest)", "freadx(rest+1)", "fread(rest+5)", "fgets until empty", "fgetcx x rest, then once more"};

struct SHCase {
  SrcKind kind;
  size_t n;
  std::vector<int> pre;
  FOp fin;
  size_t stag_chunk;
};

std::string shcase_desc(const SHCase& c) {
  std::string h;
  for (int o : c.pre) h += std::string(pop_name[o]) + "; ";
  h += fop_name[c.fin];
  std::string k = srckind_name[c.kind];
  if (c.kind == SK_PIPE_STAG) k += vf::fmt(" (chunks of %zu bytes)", c.stag_chunk);
  return vf::fmt("%zu-byte content on %s: %s", c.n, k.c_str(), h.c_str());
}

// one line of the reference: from pos through the next \n inclusive, or to the end
std::string ref_line(const std::string& d, size_t pos) {
  if (pos >= d.size()) return "";
  size_t e = d.find('\n', pos);
  e = e == std::string::npos ? d.size() : e + 1;
  return d.substr(pos, e - pos);
}

// Runs one history; "" = fine, "~" = inapplicable, else failure text with *key set.
std::string run_stream_hist(const SHCase& c, const std::string& full, const std::string& path, std::string* key) {
  Stream s;
  if (!open_stream(s, c.kind, full, path, c.stag_chunk)) return "~";
  const std::string d = full.substr(s.skip);
  size_t n = d.size(), pos = 0;
  std::string fail;
  auto bad = [&](const char* k, const std::string& why) { if (fail.empty()) { *key = k; fail = why; } };
  size_t step = 0;
  for (int o : c.pre) {
    step++;
    std::string got, what, out;
    std::string where = vf::fmt("step %zu (%s) at position %zu of %zu: ", step, pop_name[o], pos, n);
    switch (o) {
      case PO_FGETCX: {
        uint8_t ch = 0;
        out = vf::outcome([&] { ch = fgetcx(s.f); }, &what);
        if (pos < n) {
          if (out != "ok") bad("fgetcx:throws-although-data-available", where + "threw " + out + " (" + what + ")");
          else if (ch != (uint8_t)d[pos]) bad("fgetcx:wrong-byte", where + vf::fmt("returned 0x%02X, the stream holds 0x%02X", ch, (uint8_t)d[pos]));
          pos++;
        } else if (out == "ok") bad("fgetcx:returns-at-eof", where + vf::fmt("returned 0x%02X although the stream is exhausted", ch));
        break;
      }
      case PO_FREADX_BUF10:
      case PO_FREADX_STR4096:
      case PO_FREADX_U32: {
        size_t k = o == PO_FREADX_BUF10 ? 10 : o == PO_FREADX_STR4096 ? 4096 : 4;
        out = vf::outcome([&] {
          if (o == PO_FREADX_BUF10) { got.assign(k, 'Z'); freadx(s.f, got.data(), k); }
          else if (o == PO_FREADX_STR4096) got = freadx(s.f, k);
          else { uint32_t v = freadx<uint32_t>(s.f); got.assign((const char*)&v, 4); }
        }, &what);
        if (pos + k <= n) {
          if (out != "ok") bad("freadx:throws-although-data-available", where + "threw " + out + " (" + what + ")");
          else if (got != d.substr(pos, k)) bad("freadx:wrong-bytes", where + "returned " + brief(got) + ", the stream holds " + brief(d.substr(pos, k)));
          pos += k;
        } else {
          if (out == "ok") bad("freadx:exact-read-beyond-eof-succeeds", where + vf::fmt("asked for %zu bytes with %zu left and returned normally", k, n - pos));
          pos = n;  // ::fread consumed what was left
        }
        break;
      }
      case PO_FREAD7:
      case PO_FREAD5000: {
        size_t k = o == PO_FREAD7 ? 7 : 5000;
        out = vf::outcome([&] { got = phosg::fread(s.f, k); }, &what);
        std::string want = d.substr(pos, std::min(k, n - pos));
        if (out != "ok") bad("fread:clamping-form-throws", where + "threw " + out + " (" + what + ")");
        else if (got != want) bad("fread:not-the-next-bytes", where + "returned " + brief(got) + ", expected " + brief(want));
        pos += want.size();
        break;
      }
      case PO_FGETS: {
        out = vf::outcome([&] { got = phosg::fgets(s.f); }, &what);
        std::string want = ref_line(d, pos);
        if (out != "ok") bad("fgets:throws-on-healthy-stream", where + "threw " + out + " (" + what + ")");
        else if (got != want) bad("fgets:not-the-next-line", where + vf::fmt("returned %zu bytes ", got.size()) + brief(got) + vf::fmt(", the next line has %zu bytes", want.size()));
        pos += want.size();
        break;
      }
      case PO_FSEEK_HALF:
        if (!s.seekable) return "~";
        if (::fseek(s.f, (long)(s.skip + n / 2), SEEK_SET)) return "~";
        pos = n / 2;
        break;
    }
    if (!fail.empty()) return fail;
  }
  size_t rest = n - pos;
  std::string got, what, out;
  std::string where = vf::fmt("final %s at position %zu of %zu: ", fop_name[c.fin], pos, n);
  std::string want = d.substr(pos);
  switch (c.fin) {
    case FO_READ_ALL:
      out = vf::outcome([&] { got = read_all(s.f); }, &what);
      if (out != "ok") bad("read_all(FILE*):throws-on-complete-delivery", where + "threw " + out + " (" + what + ")");
      else if (got != want) bad(got.size() < want.size() ? "read_all(FILE*):silent-truncation" : "read_all(FILE*):padded-or-wrong", where + "returned " + brief(got) + vf::fmt(" (%zu bytes), the rest of the stream is ", got.size()) + brief(want) + vf::fmt(" (%zu bytes)", want.size()));
      break;
    case FO_FREADX_REST:
      out = vf::outcome([&] { got = freadx(s.f, rest); }, &what);
      if (out != "ok") bad("freadx:throws-although-data-available", where + "threw " + out + " (" + what + ")");
      else if (got != want) bad("freadx:wrong-bytes", where + "returned " + brief(got) + ", expected " + brief(want));
      break;
    case FO_FREADX_REST1:
      out = vf::outcome([&] { got = freadx(s.f, rest + 1); }, &what);
      if (out == "ok") bad("freadx:exact-read-beyond-eof-succeeds", where + vf::fmt("asked for %zu bytes with %zu left and returned normally (%zu bytes)", rest + 1, rest, got.size()));
      break;
    case FO_FREAD_REST5:
      out = vf::outcome([&] { got = phosg::fread(s.f, rest + 5); }, &what);
      if (out != "ok") bad("fread:clamping-form-throws", where + "threw " + out + " (" + what + ")");
      else if (got != want) bad("fread:not-the-next-bytes", where + "returned " + brief(got) + vf::fmt(" (%zu bytes), expected %zu bytes", got.size(), want.size()));
      break;
    case FO_FGETS_EOF: {
      std::vector<std::string> lines, wl;
      for (size_t p = pos; p < n;) { std::string l = ref_line(d, p); wl.push_back(l); p += l.size(); }
      out = vf::outcome([&] {
        for (size_t k = 0; k < wl.size() + 3; k++) {
          std::string l = phosg::fgets(s.f);
          if (l.empty()) break;
          lines.push_back(l);
        }
      }, &what);
      if (out != "ok") bad("fgets:throws-on-healthy-stream", where + "threw " + out + " (" + what + ")");
      else if (lines != wl) {
        std::string cat;
        for (auto& l : lines) cat += l;
        bad(cat == want ? "fgets:line-split-wrongly" : "fgets:bytes-lost-or-added", where + vf::fmt("returned %zu lines totalling %zu bytes, the rest of the stream has %zu lines totalling %zu bytes", lines.size(), cat.size(), wl.size(), want.size()));
      }
      break;
    }
    case FO_FGETCX_EOF: {
      if (rest > 300) return "~";
      bool extra_ok = false;
      out = vf::outcome([&] { for (size_t i = 0; i < rest; i++) got.push_back((char)fgetcx(s.f)); }, &what);
      if (out != "ok") bad("fgetcx:throws-although-data-available", where + "threw " + out + " (" + what + ")");
      else if (got != want) bad("fgetcx:wrong-byte", where + "returned " + brief(got));
      else {
        out = vf::outcome([&] { fgetcx(s.f); extra_ok = true; }, &what);
        if (extra_ok) bad("fgetcx:returns-at-eof", where + "one more fgetcx after the last byte returned normally");
      }
      break;
    }
    default: break;
  }
  return fail;
}

}  // namespace

VF_SECTION(stream_histories, 16, 16, 240) {
  std::string dir = scratch_dir(r, "sh");
  std::vector<size_t> sizes = {0, 1, 5, 100, 256, 260, 4095, 4096, 4097, 5000, 8192, 8193, 16384, 16385, 20000, 40000};
  if (r.thorough()) for (size_t n : {2, 255, 257, 4100, 8191, 12288, 16383, 32768, 65536, 204800}) sizes.push_back(n);
  std::set<size_t> deep3 = {100, 5000, 20000};  // quick: 3-operation prefixes only for these
  int bound = r.thorough() ? 2 : 1;
  // prefix sequences, shortest first
  std::vector<std::vector<int>> seqs = {{}};
  for (size_t len = 1, lo = 0; len <= 3; len++) {
    size_t hi = seqs.size();
    for (size_t i = lo; i < hi; i++) for (int o = 0; o < NPOP; o++) { auto v = seqs[i]; v.push_back(o); seqs.push_back(v); }
    lo = hi;
  }
  std::map<size_t, std::string> files;
  for (size_t n : sizes) {
    std::string d = content_lines(n);
    std::string path;
    for (int k = 0; k < NSRCKIND; k++) {
      if (k == SK_DEVNULL && n != 0) continue;
      // staggered pipe: thread hand-offs are slow, so fewer histories and bounded chunk counts
      std::vector<size_t> stag = {0};
      if (k == SK_PIPE_STAG) {
        stag = {n / 3 + 1};
        if (n > 4097) stag.push_back(4097);
        if (n > 255 && n <= (r.thorough() ? 20000u : 5000u)) stag.push_back(255);
        if (n >= 2 && n <= 100) stag.push_back(1);
      }
      // the chunk plan is the outer loop: consecutive case indices (= different shards) then cost about the same
      for (size_t sc : stag) {
        for (auto& pre : seqs) {
          if (pre.size() == 3 && !r.thorough() && !deep3.count(n)) continue;
          if (k == SK_PIPE_STAG && pre.size() > (r.thorough() ? 2u : 1u)) continue;
          for (int fo = 0; fo < NFOP; fo++) {
            if (!r.take()) continue;
            r.note(std::string("stream history/") + fop_name[fo]);
            if (path.empty()) { path = dir + vf::fmt("/s%zu.bin", n); write_real(path, d); }
            SHCase c{(SrcKind)k, n, pre, (FOp)fo, sc};
            std::string cd = shcase_desc(c);
            if (r.wants_desc()) r.desc(cd);
            std::string key;
            auto st = vfe::explore(g_env, [&] { r.beat(); key.clear(); r.poison_errno(); return run_stream_hist(c, d, path, &key); }, n > 20000 ? 1 : bound, 200000);
            r.transitions += st.choice_points;
            r.states += st.executions;
            r.counters["executions"] += st.executions;
            if (st.failure == "~") { r.evals--; r.ok("inapplicable-history"); continue; }
            if (!st.complete && st.failure.empty()) r.exhaustive = false;
            if (!pre.empty()) r.nontriv();
            if (!st.failure.empty()) r.fail(key.empty() ? "stream-history:engine-or-horizon" : key, [&] { return cd + " :: " + st.failure + " :: callback plan = [ " + st.failing_trace + "]"; });
            else r.ok(std::string(k == SK_COOKIE ? "cookie" : k == SK_FILE || k == SK_FILE_FDOPEN_OFF ? "regular-file" : k == SK_FMEM ? "fmemopen" : k == SK_DEVNULL ? "devnull" : "real-pipe") + "/" + std::to_string(pre.size()) + "-op-prefix");
          }
        }
      }
    }
    if (!path.empty()) ::unlink(path.c_str());
  }
  // (stream ERRORS were executed-not-compared here in round 2; since round 3 they are enumerated and compared in stream_faults, C14_faults.hh)
  rm_rf(dir);
  r.bound = vf::fmt("%zu content sizes (0..%zu, around 256/4096/8192/16384) x 7 source kinds x every prefix of <=2 operations over 8 (3 operations for %s) x 6 read-to-end operations; cookie callbacks answer {full,1,half,count-1} with <=%d deviations (1 above 20000 bytes); staggered pipe writers with chunk plans {n/3+1, 4097, 255, 1}", sizes.size(), sizes.back(), r.thorough() ? "every size" : "sizes 100, 5000, 20000", bound);
}

// ---- descriptor histories -------------------------------------------------------------------------------------

namespace {

enum FdKind { FK_FILE, FK_PIPE, NFDKIND };
const char* fdkind_name[] = {"regular file (clamped real reads)", "real pipe (the wrapped read flushes j pending writer chunks first)"};
enum DOp { DO_READ3, DO_READ5000, DO_READX_STR1, DO_READX_BUF10, DO_READX_U16, DO_LSEEK_HALF, DO_LSEEK_CUR1, DO_PREADX_2_1, NDOP };
const char* dop_name[] = {"read(3)", "read(5000)", "readx(1)", "readx(buf,10)", "readx<uint16_t>", "lseek(n/2,SET)", "lseek(+1,CUR)", "preadx(2,off 1)"};
enum DFin { DF_READ_ALL, DF_READX_REST, DF_READX_REST1, DF_READ_REST5, DF_PREADX_REST, DF_READX_U32, NDFIN };
const char* dfin_name[] = {"read_all(fd)", "readx(rest)", "readx(rest+1)", "read(rest+5)", "preadx(rest, pos)", "readx<uint32_t>"};

struct DHCase {
  FdKind kind;
  size_t n;
  std::vector<int> pre;
  DFin fin;
  size_t chunk;  // pipe: writer chunk size
};

std::string dhcase_desc(const DHCase& c) {
  std::string h;
  for (int o : c.pre) h += std::string(dop_name[o]) + "; ";
  h += dfin_name[c.fin];
  std::string k = fdkind_name[c.kind];
  if (c.kind == FK_PIPE) k += vf::fmt(", writer chunks of %zu bytes", c.chunk);
  return vf::fmt("%zu-byte content on %s: %s", c.n, k.c_str(), h.c_str());
}

std::string run_fd_hist(const DHCase& c, const std::string& d, const std::string& path, std::string* key) {
  size_t n = d.size();
  g_src = Source();
  g_src.size = n;
  g_src.small = n <= 8;
  int fd = -1;
  if (c.kind == FK_FILE) {
    fd = __real_open(path.c_str(), O_RDONLY);
    g_src.real_offset = true;
  } else {
    int p[2];
    if (::pipe(p)) { perror("pipe"); _exit(3); }
    fcntl(p[1], F_SETPIPE_SZ, 1 << 20);
    fcntl(p[1], F_SETFL, fcntl(p[1], F_GETFL) | O_NONBLOCK);
    fd = p[0];
    g_src.pipe = true;
    g_src.wfd = p[1];
    for (size_t off = 0; off < n; off += c.chunk) g_src.chunks.push_back(d.substr(off, c.chunk));
    if (g_src.chunks.empty()) { __real_close(p[1]); g_src.wfd = -1; }
  }
  g_src.fd = fd;
  g_src.active = true;
  std::string fail;
  auto bad = [&](const char* k, const std::string& why) { if (fail.empty()) { *key = k; fail = why; } };
  auto finish = [&](const std::string& res) {
    g_src.active = false;
    if (g_src.wfd >= 0) { __real_close(g_src.wfd); g_src.wfd = -1; }
    __real_close(fd);
    return res;
  };
  // position of the descriptor = bytes handed out through read() so far (file: the real offset)
  auto position = [&]() -> size_t {
    if (c.kind == FK_FILE) return std::min(n, (size_t)lseek(fd, 0, SEEK_CUR));
    return g_src.consumed;
  };
  size_t step = 0;
  for (int o : c.pre) {
    step++;
    size_t pos = position();
    std::string got, what, out;
    std::string where = vf::fmt("step %zu (%s) at offset %zu of %zu: ", step, dop_name[o], pos, n);
    bool errs_before = g_src.error_used;
    switch (o) {
      case DO_READ3:
      case DO_READ5000: {
        size_t k = o == DO_READ3 ? 3 : 5000;
        out = vf::outcome([&] { got = phosg::read(fd, k); }, &what);
        size_t delivered = position() - pos;
        if (out == "ok" && (got.size() > k || got != d.substr(pos, delivered))) bad("read(fd,size):not-the-delivered-bytes", where + "returned " + brief(got) + vf::fmt(" after the source delivered %zu bytes", delivered));
        break;
      }
      case DO_READX_STR1:
      case DO_READX_BUF10:
      case DO_READX_U16: {
        size_t k = o == DO_READX_STR1 ? 1 : o == DO_READX_BUF10 ? 10 : 2;
        out = vf::outcome([&] {
          if (o == DO_READX_STR1) got = readx(fd, k);
          else if (o == DO_READX_BUF10) { got.assign(k, 'Z'); readx(fd, got.data(), k); }
          else { uint16_t v = readx<uint16_t>(fd); got.assign((const char*)&v, 2); }
        }, &what);
        if (out == "ok") {
          if (pos + k > n) bad("readx:exact-read-beyond-eof-succeeds", where + vf::fmt("asked for %zu bytes with %zu left and returned normally", k, n - pos));
          else if (got != d.substr(pos, k)) bad("readx:silent-truncation-or-padding", where + "returned " + brief(got) + ", the source holds " + brief(d.substr(pos, k)));
        }
        break;
      }
      case DO_LSEEK_HALF:
        if (c.kind != FK_FILE) return finish("~");
        lseek(fd, (off_t)(n / 2), SEEK_SET);
        break;
      case DO_LSEEK_CUR1:
        if (c.kind != FK_FILE || pos + 1 > n) return finish("~");
        lseek(fd, 1, SEEK_CUR);
        break;
      case DO_PREADX_2_1: {
        if (c.kind != FK_FILE) return finish("~");
        out = vf::outcome([&] { got = preadx(fd, 2, 1); }, &what);
        if (out == "ok") {
          if (3 > n) bad("preadx:exact-read-beyond-eof-succeeds", where + "asked for 2 bytes at offset 1 and returned normally");
          else if (got != d.substr(1, 2)) bad("preadx:silent-truncation-or-padding", where + "returned " + brief(got));
        }
        if (position() != pos) bad("preadx:moves-the-descriptor-offset", where + vf::fmt("the descriptor offset moved to %zu", position()));
        break;
      }
    }
    if (!out.empty() && out != "ok" && out != "runtime_error") bad("fd-history:unexpected-exception-type", where + "threw " + out + " (" + what + ")");
    (void)errs_before;
    if (!fail.empty()) return finish(fail);
  }
  size_t pos = position(), rest = n - pos;
  std::string got, what, out, want = d.substr(pos);
  std::string where = vf::fmt("final %s at offset %zu of %zu: ", dfin_name[c.fin], pos, n);
  switch (c.fin) {
    case DF_READ_ALL:
      out = vf::outcome([&] { got = read_all(fd); }, &what);
      if (out == "ok" && got != want) bad(got.size() < want.size() && want.compare(0, got.size(), got) == 0 ? "read_all(fd):silent-truncation" : got.size() > want.size() ? "read_all(fd):padded-or-extra" : "read_all(fd):wrong-bytes", where + "returned " + brief(got) + vf::fmt(" (%zu bytes), the source delivers ", got.size()) + brief(want) + vf::fmt(" (%zu bytes)", want.size()));
      break;
    case DF_READX_REST:
      out = vf::outcome([&] { got = readx(fd, rest); }, &what);
      if (out == "ok" && got != want) bad("readx:silent-truncation-or-padding", where + "returned " + brief(got) + ", expected " + brief(want));
      break;
    case DF_READX_REST1:
      out = vf::outcome([&] { got = readx(fd, rest + 1); }, &what);
      if (out == "ok") bad("readx:exact-read-beyond-eof-succeeds", where + vf::fmt("asked for %zu bytes with %zu left and returned normally", rest + 1, rest));
      break;
    case DF_READ_REST5: {
      out = vf::outcome([&] { got = phosg::read(fd, rest + 5); }, &what);
      size_t delivered = position() - pos;
      if (out == "ok" && (got.size() > rest + 5 || got != d.substr(pos, delivered))) bad("read(fd,size):not-the-delivered-bytes", where + "returned " + brief(got) + vf::fmt(" after the source delivered %zu bytes", delivered));
      break;
    }
    case DF_PREADX_REST:
      if (c.kind != FK_FILE) return finish("~");
      out = vf::outcome([&] { got = preadx(fd, rest, (off_t)pos); }, &what);
      if (out == "ok" && got != want) bad("preadx:silent-truncation-or-padding", where + "returned " + brief(got) + ", expected " + brief(want));
      break;
    case DF_READX_U32: {
      out = vf::outcome([&] { uint32_t v = readx<uint32_t>(fd); got.assign((const char*)&v, 4); }, &what);
      if (out == "ok") {
        if (rest < 4) bad("readx:exact-read-beyond-eof-succeeds", where + vf::fmt("readx<uint32_t> with %zu bytes left returned normally", rest));
        else if (got != d.substr(pos, 4)) bad("readx:silent-truncation-or-padding", where + "returned " + brief(got) + ", the source holds " + brief(d.substr(pos, 4)));
      }
      break;
    }
    default: break;
  }
  if (out != "ok" && out != "runtime_error" && !out.empty()) bad("fd-history:unexpected-exception-type", where + "threw " + out + " (" + what + ")");
  // without any injected error and with everything delivered in one piece, a throw is not "delivery-dependent": flag it
  if (out == "runtime_error" && !g_src.error_used && g_env.deviations() == 0 && (c.kind == FK_FILE || g_src.chunks.size() <= 1) && (c.fin == DF_READ_ALL || c.fin == DF_READX_REST || c.fin == DF_READ_REST5 || c.fin == DF_PREADX_REST || (c.fin == DF_READX_U32 && rest >= 4)))
    bad("fd-history:throws-on-undisturbed-delivery", where + "threw (" + what + ") although every read was answered in full and nothing failed");
  return finish(fail);
}

}  // namespace

VF_SECTION(fd_histories, 16, 16, 240) {
  std::string dir = scratch_dir(r, "dh");
  std::vector<size_t> sizes = {0, 1, 2, 3, 5, 100, 4096, 5003, 16384, 16385, 40000};
  if (r.thorough()) for (size_t n : {4, 6, 7, 8, 255, 256, 4095, 4097, 16383, 32768, 65536, 65537, 204800}) sizes.push_back(n);
  int bound = r.thorough() ? 2 : 1;
  std::vector<std::vector<int>> seqs = {{}};
  for (size_t len = 1, lo = 0; len <= 3; len++) {
    size_t hi = seqs.size();
    for (size_t i = lo; i < hi; i++) for (int o = 0; o < NDOP; o++) { auto v = seqs[i]; v.push_back(o); seqs.push_back(v); }
    lo = hi;
  }
  for (size_t n : sizes) {
    std::string d = content(n);
    std::string path;
    for (int k = 0; k < NFDKIND; k++) {
      std::vector<size_t> chunks = {0};
      if (k == FK_PIPE) {
        chunks.clear();
        for (size_t c : std::set<size_t>{1, 3, n / 2 + 1, n + 1, 4096, 16384, 65536}) if (c <= n + 1 && (n <= 8 || n / c <= 64)) chunks.push_back(c);
      }
      for (size_t ch : chunks) {
        for (auto& pre : seqs) {
          size_t maxlen = r.thorough() ? 3 : (n == 3 || n == 5003) ? 3 : 2;  // all-compositions sources: keep the product small
          if (pre.size() > maxlen) continue;
          for (int fo = 0; fo < NDFIN; fo++) {
            if (!r.take()) continue;
            r.note(std::string("fd history/") + dfin_name[fo]);
            if (path.empty()) { path = dir + vf::fmt("/d%zu.bin", n); write_real(path, d); }
            DHCase c{(FdKind)k, n, pre, (DFin)fo, ch};
            std::string cd = dhcase_desc(c);
            if (r.wants_desc()) r.desc(cd);
            std::string key;
            auto st = vfe::explore(g_env, [&] { r.beat(); key.clear(); r.poison_errno(); return run_fd_hist(c, d, path, &key); }, n <= 8 ? -1 : bound, 300000);
            r.transitions += st.choice_points;
            r.states += st.executions;
            r.counters["executions"] += st.executions;
            if (st.failure == "~") { r.evals--; r.ok("inapplicable-history"); continue; }
            if (!st.complete && st.failure.empty()) r.exhaustive = false;
            if (st.executions > 1) r.nontriv();
            if (!st.failure.empty()) r.fail(key.empty() ? "fd-history:engine-or-horizon" : key, [&] { return cd + " :: " + st.failure + " :: delivery plan = [ " + st.failing_trace + "]"; });
            else r.ok(std::string(k == FK_FILE ? "regular-file" : "real-pipe") + "/" + std::to_string(pre.size()) + "-op-prefix");
          }
        }
      }
    }
    if (!path.empty()) ::unlink(path.c_str());
  }
  rm_rf(dir);
  r.bound = vf::fmt("%zu content sizes x {regular file, real pipe with writer chunk plans} x every prefix of <=2 (3 for sizes 3, 5003%s) operations over 8 x 6 final reads; sources <=8 bytes: every delivery plan plus one EINTR; larger: answers {all pending,1,2,half,none | full,1,half,count-1,EINTR} with <=%d deviations", sizes.size(), r.thorough() ? " and all others" : "", bound);
}
