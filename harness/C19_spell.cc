// C19 (round 3): the SPELLING of the operands at the call site as an enumerated dimension.
//
// "carrying the call site's ... message": the comparison macros document their message as  #a " != " #b  (the
// operands as they are WRITTEN at the call site, UnitTest.hh), expect(pred) as "!(" #pred ")".  Literal and variable
// operands cannot tell whether the text still is the call site's: only operands that are (or contain) macros,
// __LINE__/__FILE__, string/character literals with quotes, backslashes and percent signs, commas inside
// parentheses or unusual white space can.  Every macro is called with every spelling of the tables below, with
// operand values that make the relation true and false, in three (thorough: ten) execution contexts.
//
// How a table row reaches the library macro UNEXPANDED although it passes through a harness macro: a parameter
// that is an operand of ## is substituted without macro expansion ([cpp.subst]); pasting it to an empty argument
// (a placemarker, [cpp.concat]) leaves its tokens unchanged.  So  M(NIL##S, y)  with NIL empty hands the raw
// tokens of S to M, exactly as if the call had been typed.  The expected text is written out by hand in the table
// (TS) and tied to the table row at compile time (static_assert against #S); the hand-typed `direct` sites at the
// end use no harness macro at all, so the trick itself is checked on every run.
#include <limits.h>
#include <stddef.h>
#include <stdio.h>
#include <string.h>

#include <algorithm>
#include <string_view>

#include "C19_common.hh"

using namespace phosg;
using namespace c19;

// ---- harness macros used as operand spellings ------------------------------------------------------------
#define C19_LIMIT 4096
#define C19_CHAIN C19_LIMIT
#define C19_NEG -1
#define C19_GROUP (1 + 2)
#define C19_VAR g_var
#define C19_EMPTY
#define C19_TWICE(v) ((v) * 2)
#define C19_SUM(p, q) ((p) + (q))
#define C19_COMMA (g_zero, g_var)
#define C19_IS_SMALL(v) ((v) < C19_LIMIT)
#define C19_TEXT "te\"xt 100% \\ %s%n"
#define C19_STR(t) #t
#define C19_EXC std::runtime_error
#define C19_EXC_OF(kind) std::kind##_error
#define C19_STD_EXC std::exception
#define C19_LOGIC std::logic_error
#define C19_FAILED phosg::expectation_failed
#define C19_PICK(first, second) first
#define C19_THROWER [&] { c19_behave(beh); }
#define C19_FN(b) [&] { c19_behave(b); }

namespace {

long long g_var = 0;
int g_zero = 0;
int g_obj = 0;
struct C19Pod {
  char a;
  int b;
};

std::runtime_error c19_make(int, int);  // only named inside decltype

void c19_behave(int beh) {
  if (beh == 1) throw std::runtime_error("r 100% %s");
  if (beh == 2) throw std::logic_error("l");
  if (beh == 3) throw 42;
  if (beh == 4) expect_generic(false, "inner failure", "inner.cc", 7);
}
const char* const beh_names[5] = {"returns", "throws std::runtime_error", "throws std::logic_error", "throws int 42", "fails an inner expectation"};

// reference for expect_raises: the thrown type is E or derives from it
template <class E>
bool match_of(int beh) {
  switch (beh) {
    case 1: return std::is_base_of_v<E, std::runtime_error>;
    case 2: return std::is_base_of_v<E, std::logic_error>;
    case 3: return std::is_same_v<E, int>;
    case 4: return std::is_base_of_v<E, expectation_failed>;
  }
  return false;
}

// what one site reports back (plain pointers only: nothing here may allocate between the reference evaluation
// of the relation and the call - one of the spellings is `errno`)
struct Case {
  const char* mname = "";
  const char* call = "";       // the call as written
  const char* want = nullptr;  // the documented message for this spelling; nullptr = wording not compared
  const char* pa = nullptr;    // operand source texts that have to appear in the message
  const char* pb = nullptr;
  bool truth = false;
  bool reached = false;
  Site site;
  uint64_t last_line = 0;  // call sites spanning several lines: any line of the call is the call site's
};

#define AT(NAME, CALL, WANT, PA, PB, TRUTH) c.reached = true; c.mname = NAME; c.call = CALL; c.want = WANT; c.pa = PA; c.pb = PB; c.site.line = __LINE__; c.truth = bool(TRUTH);

constexpr bool same_text(std::string_view a, std::string_view b) { return a == b; }

// ---- family 1: arithmetic operands.  One row = one spelling S; 6 macros x {S left, S right} against `y` ------
// y = value(S) + k, k in {-1, 0, 1}; x in {0, 5} for the spellings that mention it.
// clang-format off
#define SP(N, S, TS, NIL) \
  static_assert(same_text(#S, TS), "spelling table: TS is not what # makes of S"); \
  case (N) * 12 + 0:  y = (long long)(S) + k; AT("expect_eq", "expect_eq(" TS ", y)", TS " != y", TS, "y", (S) == y) expect_eq(NIL##S, y); break; \
  case (N) * 12 + 1:  y = (long long)(S) + k; AT("expect_eq", "expect_eq(y, " TS ")", "y != " TS, "y", TS, y == (S)) expect_eq(y, S##NIL); break; \
  case (N) * 12 + 2:  y = (long long)(S) + k; AT("expect_ne", "expect_ne(" TS ", y)", TS " == y", TS, "y", (S) != y) expect_ne(NIL##S, y); break; \
  case (N) * 12 + 3:  y = (long long)(S) + k; AT("expect_ne", "expect_ne(y, " TS ")", "y == " TS, "y", TS, y != (S)) expect_ne(y, S##NIL); break; \
  case (N) * 12 + 4:  y = (long long)(S) + k; AT("expect_gt", "expect_gt(" TS ", y)", TS " <= y", TS, "y", (S) > y) expect_gt(NIL##S, y); break; \
  case (N) * 12 + 5:  y = (long long)(S) + k; AT("expect_gt", "expect_gt(y, " TS ")", "y <= " TS, "y", TS, y > (S)) expect_gt(y, S##NIL); break; \
  case (N) * 12 + 6:  y = (long long)(S) + k; AT("expect_ge", "expect_ge(" TS ", y)", TS " < y", TS, "y", (S) >= y) expect_ge(NIL##S, y); break; \
  case (N) * 12 + 7:  y = (long long)(S) + k; AT("expect_ge", "expect_ge(y, " TS ")", "y < " TS, "y", TS, y >= (S)) expect_ge(y, S##NIL); break; \
  case (N) * 12 + 8:  y = (long long)(S) + k; AT("expect_lt", "expect_lt(" TS ", y)", TS " >= y", TS, "y", (S) < y) expect_lt(NIL##S, y); break; \
  case (N) * 12 + 9:  y = (long long)(S) + k; AT("expect_lt", "expect_lt(y, " TS ")", "y >= " TS, "y", TS, y < (S)) expect_lt(y, S##NIL); break; \
  case (N) * 12 + 10: y = (long long)(S) + k; AT("expect_le", "expect_le(" TS ", y)", TS " > y", TS, "y", (S) <= y) expect_le(NIL##S, y); break; \
  case (N) * 12 + 11: y = (long long)(S) + k; AT("expect_le", "expect_le(y, " TS ")", "y > " TS, "y", TS, y <= (S)) expect_le(y, S##NIL); break;

const int N_INT_A = 19, N_INT_B = 19;  // rows of the two halves (two functions: compile time)

Res int_sites_a(int site, long long x, int k, Case& c) {
  long long y = 0;
  (void)x;
  return probe([&] {
    switch (site) {
      SP(0, x, "x", )
      SP(1, 5, "5", )
      SP(2, INT_MAX, "INT_MAX", )                       // <limits.h>: object-like, expands to a literal
      SP(3, INT_MIN, "INT_MIN", )                       // expands to an expression (-INT_MAX - 1)
      SP(4, EOF, "EOF", )                               // (-1)
      SP(5, CHAR_BIT, "CHAR_BIT", )
      SP(6, INT64_C(7), "INT64_C(7)", )                 // function-like system macro
      SP(7, ENOENT, "ENOENT", )
      SP(8, errno, "errno", )                           // expands to (*__errno_location ())
      SP(9, C19_LIMIT, "C19_LIMIT", )                   // a project #define
      SP(10, C19_CHAIN, "C19_CHAIN", )                  // macro -> macro -> literal
      SP(11, C19_NEG, "C19_NEG", )                      // expands to two tokens
      SP(12, C19_GROUP, "C19_GROUP", )
      SP(13, C19_VAR, "C19_VAR", )                      // expands to a variable
      SP(14, C19_TWICE(x), "C19_TWICE(x)", )            // function-like
      SP(15, C19_TWICE(C19_LIMIT), "C19_TWICE(C19_LIMIT)", )
      SP(16, C19_SUM(x, 1), "C19_SUM(x, 1)", )          // macro arguments separated by a comma
      SP(17, C19_SUM(C19_TWICE(x),INT_MAX/4), "C19_SUM(C19_TWICE(x),INT_MAX/4)", )
      SP(18, C19_COMMA, "C19_COMMA", )                  // expands to a parenthesised comma expression
    }
  });
}

Res int_sites_b(int site, long long x, int k, Case& c) {
  long long y = 0;
  (void)x;
  return probe([&] {
    switch (site) {
      SP(0, (x, C19_VAR), "(x, C19_VAR)", )
      SP(1, std::max(x, 3LL), "std::max(x, 3LL)", )
      SP(2, __LINE__, "__LINE__", )
      SP(3, x + __LINE__, "x + __LINE__", )
      SP(4, x % 7, "x % 7", )                           // '%' must survive every formatting step
      SP(5, x%C19_LIMIT, "x%C19_LIMIT", )
      SP(6, x   +   1, "x + 1", )                       // white space: # leaves exactly one blank
      SP(7, x /* comment, with a comma */ + 1, "x + 1", )
      SP(8, x+1, "x+1", )
      SP(9, '%', "'%'", )
      SP(10, '"', "'\"'", )
      SP(11, '\\', "'\\\\'", )
      SP(12, x bitand 3, "x bitand 3", )                // alternative token
      SP(13, sizeof(x), "sizeof(x)", )
      SP(14, offsetof(C19Pod, b), "offsetof(C19Pod, b)", )
      SP(15, (int)strlen(C19_TEXT), "(int)strlen(C19_TEXT)", )
      SP(16, x ? C19_LIMIT : EOF, "x ? C19_LIMIT : EOF", )
      SP(17, -C19_VAR, "-C19_VAR", )
      SP(18, C19_EMPTY x, "C19_EMPTY x", )              // a macro that expands to nothing
    }
  });
}
#undef SP

// ---- family 2: string operands against a std::string `s` ------------------------------------------------------
#define SS(N, S, TS, NIL) \
  static_assert(same_text(#S, TS), "spelling table: TS is not what # makes of S"); \
  case (N) * 12 + 0:  AT("expect_eq", "expect_eq(" TS ", s)", TS " != s", TS, "s", (S) == s) expect_eq(NIL##S, s); break; \
  case (N) * 12 + 1:  AT("expect_eq", "expect_eq(s, " TS ")", "s != " TS, "s", TS, s == (S)) expect_eq(s, S##NIL); break; \
  case (N) * 12 + 2:  AT("expect_ne", "expect_ne(" TS ", s)", TS " == s", TS, "s", (S) != s) expect_ne(NIL##S, s); break; \
  case (N) * 12 + 3:  AT("expect_ne", "expect_ne(s, " TS ")", "s == " TS, "s", TS, s != (S)) expect_ne(s, S##NIL); break; \
  case (N) * 12 + 4:  AT("expect_gt", "expect_gt(" TS ", s)", TS " <= s", TS, "s", (S) > s) expect_gt(NIL##S, s); break; \
  case (N) * 12 + 5:  AT("expect_gt", "expect_gt(s, " TS ")", "s <= " TS, "s", TS, s > (S)) expect_gt(s, S##NIL); break; \
  case (N) * 12 + 6:  AT("expect_ge", "expect_ge(" TS ", s)", TS " < s", TS, "s", (S) >= s) expect_ge(NIL##S, s); break; \
  case (N) * 12 + 7:  AT("expect_ge", "expect_ge(s, " TS ")", "s < " TS, "s", TS, s >= (S)) expect_ge(s, S##NIL); break; \
  case (N) * 12 + 8:  AT("expect_lt", "expect_lt(" TS ", s)", TS " >= s", TS, "s", (S) < s) expect_lt(NIL##S, s); break; \
  case (N) * 12 + 9:  AT("expect_lt", "expect_lt(s, " TS ")", "s >= " TS, "s", TS, s < (S)) expect_lt(s, S##NIL); break; \
  case (N) * 12 + 10: AT("expect_le", "expect_le(" TS ", s)", TS " > s", TS, "s", (S) <= s) expect_le(NIL##S, s); break; \
  case (N) * 12 + 11: AT("expect_le", "expect_le(s, " TS ")", "s > " TS, "s", TS, s <= (S)) expect_le(s, S##NIL); break;

const int N_STR = 10;
// the value of the spelling, for building s (index = row)
std::string str_value(int row) {
  switch (row) {
    case 0: return "plain";
    case 1: return "q\"b\\s %s %n 100%";
    case 2: return C19_TEXT;
    case 3: return __FILE__;
    case 4: return std::string("x,y");
    case 5: return C19_STR(INT_MAX);
    case 6: return "%";
    case 7: return "";
    case 8: return "a" "b";
    case 9: return C19_STR("q" + '\\');
  }
  return "";
}

Res str_sites(int site, const std::string& s, Case& c) {
  return probe([&] {
    switch (site) {
      SS(0, "plain", "\"plain\"", )
      SS(1, "q\"b\\s %s %n 100%", "\"q\\\"b\\\\s %s %n 100%\"", )   // quotes, backslashes, printf conversions
      SS(2, C19_TEXT, "C19_TEXT", )                                // a macro that expands to such a literal
      SS(3, __FILE__, "__FILE__", )
      SS(4, std::string("x,y"), "std::string(\"x,y\")", )          // comma inside a literal inside parentheses
      SS(5, C19_STR(INT_MAX), "C19_STR(INT_MAX)", )                // the caller's own stringifying macro
      SS(6, "%", "\"%\"", )
      SS(7, "", "\"\"", )
      SS(8, "a" "b", "\"a\" \"b\"", )                              // adjacent literals
      SS(9, C19_STR("q" + '\\'), "C19_STR(\"q\" + '\\\\')", )
    }
  });
}
#undef SS

// ---- family 3: expect(pred) -------------------------------------------------------------------------------
#define SE(N, P, TP, NIL) \
  static_assert(same_text(#P, TP), "spelling table: TP is not what # makes of P"); \
  case N: AT("expect", "expect(" TP ")", "!(" TP ")", TP, "", P) expect(NIL##P); break;

const int N_PRED = 16;
Res pred_sites(int site, long long x, const std::string& s, Case& c) {
  int* p = x ? &g_obj : nullptr;
  (void)p;
  return probe([&] {
    switch (site) {
      SE(0, x, "x", )
      SE(1, x < INT_MAX && x, "x < INT_MAX && x", )
      SE(2, C19_IS_SMALL(x) && x, "C19_IS_SMALL(x) && x", )
      SE(3, x % C19_TWICE(1) == 1, "x % C19_TWICE(1) == 1", )
      SE(4, !C19_VAR, "!C19_VAR", )
      SE(5, C19_TWICE(x) == 10, "C19_TWICE(x) == 10", )
      SE(6, s == C19_TEXT, "s == C19_TEXT", )
      SE(7, s == "te\"xt 100% \\ %s%n", "s == \"te\\\"xt 100% \\\\ %s%n\"", )
      SE(8, __LINE__ > x * 100000, "__LINE__ > x * 100000", )
      SE(9, errno == ERANGE, "errno == ERANGE", )
      SE(10, (g_zero, x), "(g_zero, x)", )
      SE(11, x   !=   0, "x != 0", )
      SE(12, strchr(C19_TEXT, '%') && x, "strchr(C19_TEXT, '%') && x", )
      SE(13, x == EOF + 6, "x == EOF + 6", )
      SE(14, p != NULL, "p != NULL", )
      SE(15, strcmp(__FILE__, s.c_str()) == 0, "strcmp(__FILE__, s.c_str()) == 0", )
    }
  });
}
#undef SE

// ---- family 4: expect_msg(pred, msg): the message is an expression, the failure carries its value ---------
// `wantbuf` receives the value of the message expression evaluated by the harness on the same line.
#define SM(N, P, MSG, NIL) \
  case N: wantbuf = (MSG); AT("expect_msg", "expect_msg(" #P ", " #MSG ")", nullptr, nullptr, nullptr, P) expect_msg(NIL##P, MSG##NIL); break;

const int N_MSG = 12;
Res msg_sites(int site, long long x, std::string& wantbuf, Case& c) {
  std::string dyn = "run-time text " + std::to_string(x) + " %d 50%";
  return probe([&] {
    switch (site) {
      SM(0, x != 0, "literal 100% %s %n %%", )
      SM(1, C19_IS_SMALL(x) && x, C19_TEXT, )
      SM(2, x, __FILE__, )
      SM(3, x, __func__, )
      SM(4, x, __PRETTY_FUNCTION__, )
      SM(5, x, C19_STR(INT_MAX % x), )
      SM(6, x, x ? "unused" : "chosen by ?:", )
      SM(7, x, (g_zero, "after a comma"), )
      SM(8, x, dyn.c_str(), )
      SM(9, x, "", )
      SM(10, x, "%", )
      SM(11, x % C19_TWICE(1), C19_TEXT " and " C19_STR(tail %s), )
    }
  });
}
#undef SM

// ---- family 5: expect_raises(type, fn): spellings of the type and of the callable --------------------------
#define SR(N, T, FN, NIL) \
  case N: c.reached = true; c.mname = "expect_raises"; c.call = "expect_raises(" #T ", " #FN ")"; c.site.line = __LINE__; c.truth = match_of<std::remove_cv_t<T>>(beh); expect_raises(NIL##T, FN##NIL); break;

const int N_RAISES = 12;
Res raises_sites(int site, int beh, Case& c) {
  std::function<void()> thrower = [&] { c19_behave(beh); };
  return probe([&] {
    switch (site) {
      SR(0, std::runtime_error, [&] { c19_behave(beh); }, )
      SR(1, C19_EXC, C19_THROWER, )                                     // object-like macros for both
      SR(2, C19_EXC_OF(runtime), C19_FN(beh), )                         // function-like macros for both
      SR(3, C19_STD_EXC, [&] { c19_behave(beh); }, )                    // the explicit specialisation, through a macro
      SR(4, decltype(c19_make(1, 2)), std::bind(c19_behave, beh), )     // commas inside parentheses
      SR(5, C19_PICK(std::runtime_error, std::logic_error), thrower, )
      SR(6, const std::runtime_error, (thrower), )
      SR(7, ::std::exception, C19_THROWER, )
      SR(8, C19_LOGIC, C19_FN(beh), )                                   // a base class of the failure type itself
      SR(9, C19_FAILED, C19_THROWER, )
      SR(10, C19_PICK(C19_LOGIC, C19_EXC), C19_FN((g_zero, beh)), )
      SR(11,   std::runtime_error   ,   [&]   {   c19_behave( beh );   }   , )
    }
  });
}
#undef SR

// ---- family 6: hand-typed call sites, no harness macro between the text and the library ------------------------
const int N_DIRECT = 20;
Res direct_sites(int site, long long x, const std::string& s, int beh, Case& c) {
  int* p = x ? &g_obj : nullptr;
  return probe([&] {
    switch (site) {
      case 0: AT("expect_eq", "expect_eq(INT_MAX, x)", "INT_MAX != x", "INT_MAX", "x", INT_MAX == x) expect_eq(INT_MAX, x); break;
      case 1: AT("expect_ne", "expect_ne(x, EOF)", "x == EOF", "x", "EOF", x != EOF) expect_ne(x, EOF); break;
      case 2: AT("expect_gt", "expect_gt(x, C19_LIMIT)", "x <= C19_LIMIT", "x", "C19_LIMIT", x > C19_LIMIT) expect_gt(x, C19_LIMIT); break;
      case 3: AT("expect_ge", "expect_ge(C19_TWICE(x), INT_MAX)", "C19_TWICE(x) < INT_MAX", "C19_TWICE(x)", "INT_MAX", C19_TWICE(x) >= INT_MAX) expect_ge(C19_TWICE(x), INT_MAX); break;
      case 4: AT("expect_lt", "expect_lt(INT64_MAX, x)", "INT64_MAX >= x", "INT64_MAX", "x", INT64_MAX < x) expect_lt(INT64_MAX, x); break;
      case 5: AT("expect_le", "expect_le(UINT8_MAX, x)", "UINT8_MAX > x", "UINT8_MAX", "x", UINT8_MAX <= x) expect_le(UINT8_MAX, x); break;
      case 6: AT("expect", "expect(x == C19_LIMIT)", "!(x == C19_LIMIT)", "x == C19_LIMIT", "", x == C19_LIMIT) expect(x == C19_LIMIT); break;
      case 7: AT("expect_eq", "expect_eq(x % 7, C19_NEG)", "x % 7 != C19_NEG", "x % 7", "C19_NEG", x % 7 == C19_NEG) expect_eq(x % 7, C19_NEG); break;
      case 8: AT("expect_eq", "expect_eq(p, NULL)", "p != NULL", "p", "NULL", p == NULL) expect_eq(p, NULL); break;
      case 9: AT("expect_ne", "expect_ne(s, C19_TEXT)", "s == C19_TEXT", "s", "C19_TEXT", s != C19_TEXT) expect_ne(s, C19_TEXT); break;
      case 10: AT("expect_eq", "expect_eq(__LINE__, x)", "__LINE__ != x", "__LINE__", "x", __LINE__ == x) expect_eq(__LINE__, x); break;
      case 11: AT("expect_lt", "expect_lt(x, C19_SUM(C19_LIMIT, 1))", "x >= C19_SUM(C19_LIMIT, 1)", "x", "C19_SUM(C19_LIMIT, 1)", x < C19_SUM(C19_LIMIT, 1)) expect_lt(x, C19_SUM(C19_LIMIT, 1)); break;
      case 12: AT("expect_le", "expect_le(x, C19_CHAIN)", "x > C19_CHAIN", "x", "C19_CHAIN", x <= C19_CHAIN) expect_le(x, C19_CHAIN); break;
      case 13: AT("expect_ge", "expect_ge(x, C19_COMMA)", "x < C19_COMMA", "x", "C19_COMMA", x >= C19_COMMA) expect_ge(x, C19_COMMA); break;
      case 14: AT("expect_gt", "expect_gt(\"te\\\"xt\", s)", "\"te\\\"xt\" <= s", "\"te\\\"xt\"", "s", "te\"xt" > s) expect_gt("te\"xt", s); break;
      case 15: AT("expect_msg", "expect_msg(x == EOF, C19_TEXT)", C19_TEXT, nullptr, nullptr, x == EOF) expect_msg(x == EOF, C19_TEXT); break;
      // calls that span several lines: operands keep their spelling (new-lines count as one blank), and the line
      // carried is one of the lines of the call
      case 16: AT("expect_eq", "expect_eq(<nl> INT_MAX, <nl> x <nl>)", "INT_MAX != x", "INT_MAX", "x", INT_MAX == x) c.site.line = __LINE__ + 1; c.last_line = __LINE__ + 4;
        expect_eq(
            INT_MAX,
            x
        );
        break;
      case 17: AT("expect", "expect(x == <nl> C19_LIMIT)", "!(x == C19_LIMIT)", "x == C19_LIMIT", "", x == C19_LIMIT) c.site.line = __LINE__ + 1; c.last_line = __LINE__ + 2;
        expect(x ==
            C19_LIMIT);
        break;
      case 18: c.reached = true; c.mname = "expect_raises"; c.call = "expect_raises(C19_EXC, <nl> lambda over three lines)"; c.truth = match_of<C19_EXC>(beh); c.site.line = __LINE__ + 1; c.last_line = __LINE__ + 4;
        expect_raises(C19_EXC,
            [&] {
              c19_behave(beh);
            });
        break;
      case 19: c.reached = true; c.mname = "expect_raises"; c.call = "expect_raises(C19_LOGIC, C19_THROWER)"; c.truth = match_of<C19_LOGIC>(beh); c.site.line = __LINE__; expect_raises(C19_LOGIC, C19_THROWER); break;
    }
  });
}
// clang-format on
#undef AT

// ---- verdict --------------------------------------------------------------------------------------------
void verdict(vf::Run& r, int ctx, const Case& c, const Res& res, const std::string* want_value, const Desc& d0) {
  r.nontriv();
  if (!c.reached) {
    r.fail("harness:spelling-site-missing", [&] { return d0() + ": the harness has no such site (table and loop bounds disagree)"; });
    return;
  }
  Desc d = [&] { return std::string(c.call) + " " + d0(); };
  if (!judge_ctx(r, ctx, res, d)) return;
  Site site = c.site;
  site.file = __FILE__;
  if (c.last_line && res.kind == Res::FAILED && res.line >= site.line && res.line <= c.last_line) site.line = res.line;
  bool must_fail = !c.truth;
  // (1) the operands must appear as they are written at the call site (a distinct defect from a changed wording)
  if (must_fail && res.kind == Res::FAILED && !res.msg_dangling && !res.msg_null && c.pa) {
    if (!contains(res.msg, c.pa) || !contains(res.msg, c.pb) || !contains(res.what, c.pa) || !contains(res.what, c.pb)) {
      r.fail(std::string(c.mname) + ":operand-spelling", [&] {
        return d() + vf::fmt(" [%s]: the failure does not carry the operands as they are spelled at the call site: msg=", ctx_name(ctx)) + vf::show(res.msg.substr(0, 300)) + " what()=" + vf::show(res.what.substr(0, 400)) +
            "; documented message " + vf::show(c.want ? c.want : "");
      });
      return;
    }
  }
  // (2) the documented text (UnitTest.hh: #a " != " #b, "!(" #pred ")"; the value of msg for expect_msg), the call
  //     site, and what() naming file, line and the message verbatim
  std::string want = want_value ? *want_value : c.want ? std::string(c.want) : std::string();
  judge(r, c.mname, ctx, must_fail, res, site, {}, (want_value || c.want) ? &want : nullptr, d);
}

}  // namespace

VF_SECTION(spellings, 2, 4, 120) {
  static const std::vector<int> quick_ctx = {PLAIN, UNWINDING, THREAD};
  const std::vector<int>& C = r.thorough() ? all_ctx() : quick_ctx;
  static const long long xs[2] = {0, 5};
  for (int ctx : C) {
    r.note("spellings: arithmetic operands");
    for (int half = 0; half < 2; half++) {
      int rows = half ? N_INT_B : N_INT_A;
      for (int site = 0; site < rows * 12; site++) {
        for (long long x : xs) {
          for (int k = -1; k <= 1; k++) {
            if (!r.take()) continue;
            g_var = x + 2;
            Case c;
            Res res = run_ctx(ctx, r.ambient_errno(), [&] { return half ? int_sites_b(site, x, k, c) : int_sites_a(site, x, k, c); });
            Desc d = [&] { return vf::fmt("with x=%lld, C19_VAR=%lld, y = the other operand %+d", x, g_var, k); };
            if (r.wants_desc()) r.desc(std::string(c.call) + " " + d() + " [" + ctx_name(ctx) + "]");
            verdict(r, ctx, c, res, nullptr, d);
          }
        }
      }
    }
    r.note("spellings: string operands");
    for (int site = 0; site < N_STR * 12; site++) {
      for (int k = -1; k <= 1; k++) {
        if (!r.take()) continue;
        std::string s = str_value(site / 12);
        if (k < 0 && !s.empty()) s.pop_back();
        if (k > 0) s += "!";
        Case c;
        Res res = run_ctx(ctx, r.ambient_errno(), [&] { return str_sites(site, s, c); });
        Desc d = [&] { return "with s=" + vf::show(s.substr(0, 80)); };
        if (r.wants_desc()) r.desc(std::string(c.call) + " " + d() + " [" + ctx_name(ctx) + "]");
        verdict(r, ctx, c, res, nullptr, d);
      }
    }
    r.note("spellings: expect(pred)");
    for (int site = 0; site < N_PRED; site++) {
      for (long long x : xs) {
        for (int k = 0; k < 3; k++) {
          if (!r.take()) continue;
          g_var = x;
          std::string s = k == 0 ? std::string(C19_TEXT) : k == 1 ? std::string(__FILE__) : std::string("te\"xt");
          Case c;
          Res res = run_ctx(ctx, r.ambient_errno(), [&] { return pred_sites(site, x, s, c); });
          Desc d = [&] { return vf::fmt("with x=%lld, C19_VAR=%lld, p=%s, errno=%d, s=", x, g_var, x ? "&obj" : "null", r.ambient_errno()) + vf::show(s.substr(0, 80)); };
          if (r.wants_desc()) r.desc(std::string(c.call) + " " + d() + " [" + ctx_name(ctx) + "]");
          verdict(r, ctx, c, res, nullptr, d);
        }
      }
    }
    r.note("spellings: expect_msg");
    for (int site = 0; site < N_MSG; site++) {
      for (long long x : xs) {
        if (!r.take()) continue;
        Case c;
        std::string wantbuf;
        Res res = run_ctx(ctx, r.ambient_errno(), [&] { return msg_sites(site, x, wantbuf, c); });
        Desc d = [&] { return vf::fmt("with x=%lld", x); };
        if (r.wants_desc()) r.desc(std::string(c.call) + " " + d() + " [" + ctx_name(ctx) + "]");
        verdict(r, ctx, c, res, &wantbuf, d);
      }
    }
    r.note("spellings: expect_raises");
    for (int site = 0; site < N_RAISES; site++) {
      for (int beh = 0; beh < 5; beh++) {
        if (!r.take()) continue;
        Case c;
        Res res = run_ctx(ctx, r.ambient_errno(), [&] { return raises_sites(site, beh, c); });
        Desc d = [&] { return std::string("where the callable ") + beh_names[beh]; };
        if (r.wants_desc()) r.desc(std::string(c.call) + " " + d() + " [" + ctx_name(ctx) + "]");
        verdict(r, ctx, c, res, nullptr, d);
      }
    }
    r.note("spellings: hand-typed sites");
    static const long long dxs[7] = {-1, 0, 5, 255, 4096, 4097, INT_MAX};
    for (int site = 0; site < N_DIRECT; site++) {
      for (long long x : dxs) {
        for (int k = 0; k < 2; k++) {
          if (!r.take()) continue;
          g_var = x;
          std::string s = k ? std::string("te\"xt") : std::string(C19_TEXT);
          int beh = (int)((x < 0 ? 4 : x == 0 ? 0 : x == 5 ? 1 : x == 255 ? 2 : 3));
          Case c;
          Res res = run_ctx(ctx, r.ambient_errno(), [&] { return direct_sites(site, x, s, beh, c); });
          Desc d = [&] { return vf::fmt("with x=%lld, p=%s, callable %s, s=", x, x ? "&obj" : "null", beh_names[beh]) + vf::show(s); };
          if (r.wants_desc()) r.desc(std::string(c.call) + " " + d() + " [" + ctx_name(ctx) + "]");
          verdict(r, ctx, c, res, nullptr, d);
        }
      }
    }
  }
  r.counters["call sites (distinct spellings x macro x operand position)"] = (N_INT_A + N_INT_B + N_STR) * 12 + N_PRED + N_MSG + N_RAISES + N_DIRECT;
  r.bound = "operand spellings: 38 arithmetic spellings (plain, literal, <limits.h>/<stdio.h>/<errno.h> macros incl. errno, project #defines: object-like, chained, multi-token, expanding to a variable / to a parenthesised comma expression / to nothing, function-like with one and two arguments, nested; commas inside parentheses; __LINE__; %; white-space and comment variants; character literals ' % \" \\; alternative tokens; sizeof/offsetof; ?:) x 6 comparison macros x {left, right} x 3 outcomes x x in {0,5}; 10 string spellings (quotes, backslashes, printf conversions, a macro expanding to such a literal, __FILE__, the caller's own stringifying macro, adjacent literals, empty) x 6 macros x {left, right} x 3 outcomes; 16 expect(pred) spellings; 12 expect_msg (pred, message expression) spellings; 12 expect_raises (type spelling, callable spelling) pairs x 5 behaviours; 20 hand-typed sites incl. calls spanning several lines x 7 values x 2; x " + std::string(r.thorough() ? "10" : "3") + " execution contexts";
}
