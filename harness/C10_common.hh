// C10 — shared pieces of the hash harness: fill patterns, exact-size buffers, independent references
// (OpenSSL EVP, zlib, the published FNV-1a recurrence), uniform "call + observe" wrappers over every
// function / overload of Hash.hh, prefix witnesses for boundary seeds, contexts, huge read-only mappings.
#pragma once
#include <fcntl.h>
#include <openssl/evp.h>
#include <string.h>
#include <sys/mman.h>
#include <unistd.h>
#include <zlib.h>

#include <array>
#include <functional>
#include <map>
#include <memory>
#include <new>
#include <optional>
#include <stdexcept>
#include <string>
#include <thread>
#include <tuple>
#include <vector>

#include "Hash.hh"
#include "vf.hh"

namespace c10 {

// ---- fill patterns -------------------------------------------------------------------------------
// zero / ff / counter / lcg are the round-1 patterns.  high: every byte >= 0x80 (period 128); ascii: printable
// 7-bit text (period 95).  ff, high and (mostly) lcg carry high-bit bytes from the first byte on.
enum Pattern { P_ZERO, P_FF, P_COUNTER, P_LCG, P_HIGH, P_ASCII, NPAT };
inline const char* const pat_name[NPAT] = {"zero", "ff", "counter", "lcg", "high", "ascii"};

inline void fill(uint8_t* p, size_t len, int pat) {
  uint32_t x = 0x12345678u + static_cast<uint32_t>(len);
  for (size_t i = 0; i < len; i++) {
    switch (pat) {
      case P_ZERO: p[i] = 0x00; break;
      case P_FF: p[i] = 0xFF; break;
      case P_COUNTER: p[i] = static_cast<uint8_t>(i & 0xFF); break;
      case P_HIGH: p[i] = static_cast<uint8_t>(0x80 | ((i * 37 + 11) & 0x7F)); break;
      case P_ASCII: p[i] = static_cast<uint8_t>(0x20 + (i % 95)); break;
      default:
        x = x * 1103515245u + 12345u;
        p[i] = static_cast<uint8_t>((x >> 16) & 0xFF);
        break;
    }
  }
}

// Exact-size heap buffer (no terminator, no slack behind the last byte: ASan red zone directly after it).
// `mis` shifts the first byte 0..15 bytes off the malloc alignment.
struct Buf {
  uint8_t* base;
  uint8_t* p;
  size_t n;
  Buf(size_t len, int pat, size_t mis = 0) : base(static_cast<uint8_t*>(malloc(len + mis))), p(base + mis), n(len) {  // malloc(0): valid pointer, zero accessible bytes
    if (!base) {
      fprintf(stderr, "C10: malloc failed\n");
      _exit(3);
    }
    fill(p, len, pat);
  }
  Buf(const Buf&) = delete;
  ~Buf() { free(base); }
  std::string str() const { return std::string(reinterpret_cast<const char*>(p), n); }
};

// ---- rendering helpers ---------------------------------------------------------------------------
inline std::string hex_lower(const std::string& b) {
  static const char* d = "0123456789abcdef";
  std::string s;
  for (unsigned char c : b) {
    s += d[c >> 4];
    s += d[c & 15];
  }
  return s;
}
inline std::string to_lower(std::string s) {
  for (auto& c : s)
    if (c >= 'A' && c <= 'Z') c = static_cast<char>(c - 'A' + 'a');
  return s;
}
inline std::string le32(uint32_t v) {
  std::string s(4, 0);
  for (int i = 0; i < 4; i++) s[i] = static_cast<char>((v >> (8 * i)) & 0xFF);
  return s;
}
inline std::string be32(uint32_t v) {
  std::string s(4, 0);
  for (int i = 0; i < 4; i++) s[i] = static_cast<char>((v >> (8 * (3 - i))) & 0xFF);
  return s;
}
inline std::string be64(uint64_t v) { return be32(static_cast<uint32_t>(v >> 32)) + be32(static_cast<uint32_t>(v)); }

// ---- independent references ----------------------------------------------------------------------
inline std::string evp(const EVP_MD* md, const void* data, size_t n) {
  EVP_MD_CTX* ctx = EVP_MD_CTX_new();
  unsigned char out[EVP_MAX_MD_SIZE];
  unsigned int outl = 0;
  // feed in 1 GiB pieces (keeps every length argument far inside any internal 32-bit counter of the provider glue)
  bool good = ctx && EVP_DigestInit_ex(ctx, md, nullptr) == 1;
  const unsigned char* p = static_cast<const unsigned char*>(data);
  size_t left = n;
  while (good && left) {
    size_t k = left > (size_t(1) << 30) ? (size_t(1) << 30) : left;
    good = EVP_DigestUpdate(ctx, p, k) == 1;
    p += k;
    left -= k;
  }
  if (!good || EVP_DigestFinal_ex(ctx, out, &outl) != 1) {
    fprintf(stderr, "C10: OpenSSL EVP digest failed\n");
    _exit(3);
  }
  EVP_MD_CTX_free(ctx);
  return std::string(reinterpret_cast<char*>(out), outl);
}

inline uint32_t ref_crc32(const void* data, size_t n, uint32_t seed = 0) {
  // zlib takes uInt lengths; feed in chunks
  const Bytef* p = static_cast<const Bytef*>(data);
  uLong c = seed;
  while (n) {
    uInt k = n > 0x40000000u ? 0x40000000u : static_cast<uInt>(n);
    c = ::crc32(c, p, k);
    p += k;
    n -= k;
  }
  return static_cast<uint32_t>(c);
}
// FNV-1a, published recurrence: hash = offset_basis; for each octet: hash ^= octet; hash *= prime.
constexpr uint32_t FNV32_BASIS = 2166136261u, FNV32_PRIME = 16777619u;
constexpr uint64_t FNV64_BASIS = 14695981039346656037ull, FNV64_PRIME = 1099511628211ull;
inline uint32_t ref_fnv32(const uint8_t* p, size_t n, uint32_t h = FNV32_BASIS) {
  for (size_t i = 0; i < n; i++) {
    h ^= p[i];
    h *= FNV32_PRIME;
  }
  return h;
}
inline uint64_t ref_fnv64(const uint8_t* p, size_t n, uint64_t h = FNV64_BASIS) {
  for (size_t i = 0; i < n; i++) {
    h ^= p[i];
    h *= FNV64_PRIME;
  }
  return h;
}

enum Fn { F_MD5, F_SHA1, F_SHA256, F_CRC32, F_FNV32, F_FNV64, NFN };
inline const char* const fn_name[NFN] = {"MD5", "SHA1", "SHA256", "crc32", "fnv1a32", "fnv1a64"};
inline bool is_digest(int fn) { return fn <= F_SHA256; }
inline size_t digest_len(int fn) { return fn == F_MD5 ? 16 : fn == F_SHA1 ? 20 : 32; }
inline const EVP_MD* evp_md(int fn) { return fn == F_MD5 ? EVP_md5() : fn == F_SHA1 ? EVP_sha1() : EVP_sha256(); }

// Overloads.  crc32 has only the pointer form.
enum Ov { OV_PTR, OV_STR, NOV };
inline const char* const ov_name[NOV] = {"(ptr,size)", "(std::string)"};
inline int n_ov(int fn) { return fn == F_CRC32 ? 1 : 2; }

// The reference result of fn on [p, p+n) as canonical bytes: digest bytes, or the integer big-endian.
// `seed` only for the three integer functions (crc32: running checksum, fnv: running hash).
inline std::string ref_value(int fn, const uint8_t* p, size_t n) {
  switch (fn) {
    case F_MD5:
    case F_SHA1:
    case F_SHA256: {
      std::string d = evp(evp_md(fn), p, n);
      if (d.size() != digest_len(fn)) {
        fprintf(stderr, "C10: reference digest has unexpected size\n");
        _exit(3);
      }
      return d;
    }
    case F_CRC32: return be32(ref_crc32(p, n));
    case F_FNV32: return be32(ref_fnv32(p, n));
    default: return be64(ref_fnv64(p, n));
  }
}
inline std::string ref_value_seeded(int fn, const uint8_t* p, size_t n, uint64_t seed) {
  switch (fn) {
    case F_CRC32: return be32(ref_crc32(p, n, static_cast<uint32_t>(seed)));
    case F_FNV32: return be32(ref_fnv32(p, n, static_cast<uint32_t>(seed)));
    default: return be64(ref_fnv64(p, n, seed));
  }
}

// ---- the library, observed uniformly -------------------------------------------------------------
// What one call shows: `state` = the result as canonical bytes (digest structs: their public state words, MD5
// little-endian, SHA big-endian); bin / hex only for digest structs.
struct Obs {
  std::string state, bin, hex;
  bool operator==(const Obs& o) const { return state == o.state && bin == o.bin && hex == o.hex; }
};
inline std::string words(const phosg::MD5& d) { return le32(d.a0) + le32(d.b0) + le32(d.c0) + le32(d.d0); }
inline std::string words(const phosg::SHA1& d) {
  std::string s;
  for (int i = 0; i < 5; i++) s += be32(d.h[i]);
  return s;
}
inline std::string words(const phosg::SHA256& d) {
  std::string s;
  for (int i = 0; i < 8; i++) s += be32(d.h[i]);
  return s;
}
template <class D>
Obs observe(const D& d) {
  Obs o;
  o.state = words(d);
  o.bin = d.bin();
  o.hex = d.hex();
  return o;
}

// std::string holding [p, p+n) (p may be null when n is 0)
inline std::string mkstr(const uint8_t* p, size_t n) { return n ? std::string(reinterpret_cast<const char*>(p), n) : std::string(); }

// A digest object of any of the three kinds that stays alive (so that it can be rendered again later).
struct Held {
  int fn = -1;
  std::optional<phosg::MD5> md5;
  std::optional<phosg::SHA1> sha1;
  std::optional<phosg::SHA256> sha256;
  void make(int f, int ov, const uint8_t* p, size_t n) {
    fn = f;
    if (ov == OV_STR) {
      std::string s = mkstr(p, n);
      if (f == F_MD5) md5.emplace(s);
      else if (f == F_SHA1) sha1.emplace(s);
      else sha256.emplace(s);
    } else {
      if (f == F_MD5) md5.emplace(p, n);
      else if (f == F_SHA1) sha1.emplace(p, n);
      else sha256.emplace(p, n);
    }
  }
  Obs obs() const { return fn == F_MD5 ? observe(*md5) : fn == F_SHA1 ? observe(*sha1) : observe(*sha256); }
  // hex() first, then bin(), then the state words: the reverse order of obs()
  Obs obs_reversed() const {
    Obs o;
    if (fn == F_MD5) { o.hex = md5->hex(); o.bin = md5->bin(); o.state = words(*md5); }
    else if (fn == F_SHA1) { o.hex = sha1->hex(); o.bin = sha1->bin(); o.state = words(*sha1); }
    else { o.hex = sha256->hex(); o.bin = sha256->bin(); o.state = words(*sha256); }
    return o;
  }
};

// One call of an integer function with the defaulted seed / with an explicit seed.
inline uint64_t call_u(int fn, int ov, const uint8_t* p, size_t n) {
  if (fn == F_CRC32) return phosg::crc32(p, n);
  if (ov == OV_STR) {
    std::string s = mkstr(p, n);
    return fn == F_FNV32 ? phosg::fnv1a32(s) : phosg::fnv1a64(s);
  }
  return fn == F_FNV32 ? phosg::fnv1a32(p, n) : phosg::fnv1a64(p, n);
}
inline uint64_t call_u_seeded(int fn, int ov, const uint8_t* p, size_t n, uint64_t seed) {
  if (fn == F_CRC32) return phosg::crc32(p, n, static_cast<uint32_t>(seed));
  if (ov == OV_STR) {
    std::string s = mkstr(p, n);
    return fn == F_FNV32 ? phosg::fnv1a32(s, static_cast<uint32_t>(seed)) : phosg::fnv1a64(s, seed);
  }
  return fn == F_FNV32 ? phosg::fnv1a32(p, n, static_cast<uint32_t>(seed)) : phosg::fnv1a64(p, n, seed);
}
inline uint64_t ref_u_seeded(int fn, const uint8_t* p, size_t n, uint64_t seed) {
  return fn == F_CRC32 ? ref_crc32(p, n, static_cast<uint32_t>(seed)) : fn == F_FNV32 ? ref_fnv32(p, n, static_cast<uint32_t>(seed)) : ref_fnv64(p, n, seed);
}
inline uint64_t start_of(int fn) { return fn == F_CRC32 ? 0 : fn == F_FNV32 ? FNV32_BASIS : FNV64_BASIS; }
inline std::string bytes_of(int fn, uint64_t v) { return fn == F_FNV64 ? be64(v) : be32(static_cast<uint32_t>(v)); }
inline std::string show_u(int fn, uint64_t v) { return fn == F_FNV64 ? vf::fmt("%016llX", (unsigned long long)v) : vf::fmt("%08X", (unsigned)v); }
inline std::string call_int(int fn, int ov, const uint8_t* p, size_t n) { return bytes_of(fn, call_u(fn, ov, p, n)); }
inline std::string call_int_seeded(int fn, int ov, const uint8_t* p, size_t n, uint64_t seed) { return bytes_of(fn, call_u_seeded(fn, ov, p, n, seed)); }
// One call of any function; digest objects are kept in *held when given.
inline Obs call_any(int fn, int ov, const uint8_t* p, size_t n, Held* held = nullptr) {
  if (is_digest(fn)) {
    Held local;
    Held& h = held ? *held : local;
    h.make(fn, ov, p, n);
    return h.obs();
  }
  Obs o;
  o.state = call_int(fn, ov, p, n);
  return o;
}

// Compares one observation with the reference; reports under the stable keys of this harness and returns false on
// a mismatch.  `where` describes the case.
inline bool judge(vf::Run& r, int fn, int ov, const Obs& o, const std::string& ref, const std::function<std::string()>& where) {
  const std::string name = fn_name[fn];
  if (is_digest(fn)) {
    if (o.state != ref) {
      r.fail(name + (ov == OV_STR ? ":string-overload" : ":wrong-digest"), [&] { return where() + ": state words give " + hex_lower(o.state) + ", OpenSSL gives " + hex_lower(ref); });
      return false;
    }
    if (o.bin != ref) {
      r.fail(name + ":bin-render", [&] { return where() + ": bin() = " + hex_lower(o.bin) + " (" + std::to_string(o.bin.size()) + " bytes), digest is " + hex_lower(ref); });
      return false;
    }
    if (o.hex.size() != 2 * ref.size() || to_lower(o.hex) != hex_lower(ref)) {
      r.fail(name + ":hex-render", [&] { return where() + ": hex() = " + vf::show(o.hex) + ", digest is " + hex_lower(ref); });
      return false;
    }
    return true;
  }
  if (o.state != ref) {
    r.fail(name + (ov == OV_STR ? ":string-overload" : ":wrong-value"), [&] { return where() + ": library gives " + hex_lower(o.state) + ", " + (fn == F_CRC32 ? "zlib" : "the published recurrence") + " gives " + hex_lower(ref); });
    return false;
  }
  return true;
}

// ---- shapes and caches ---------------------------------------------------------------------------
struct Shape {
  size_t len;
  int pat;
};
inline std::string show(const Shape& s) { return vf::fmt("%zu bytes %s", s.len, pat_name[s.pat]); }

// Exact-size buffers and reference values, built once per process and shape (the histories reuse a small shape
// set many times; the reference is a pure function of the bytes).
struct Cache {
  std::map<std::pair<size_t, int>, std::unique_ptr<Buf>> bufs;
  std::map<std::tuple<int, size_t, int>, std::string> refs;
  const Buf& buf(const Shape& s) {
    auto& b = bufs[{s.len, s.pat}];
    if (!b) b = std::make_unique<Buf>(s.len, s.pat);
    return *b;
  }
  const std::string& ref(int fn, const Shape& s) {
    auto key = std::make_tuple(fn, s.len, s.pat);
    auto it = refs.find(key);
    if (it == refs.end()) {
      const Buf& b = buf(s);
      it = refs.emplace(key, ref_value(fn, b.p, b.n)).first;
    }
    return it->second;
  }
};

// lengths block*64 + residue
inline std::vector<size_t> lens_of(const std::vector<size_t>& residues, const std::vector<size_t>& blocks) {
  std::vector<size_t> v;
  for (size_t b : blocks)
    for (size_t x : residues) v.push_back(b * 64 + x);
  return v;
}

// ---- prefix witnesses for seeds ------------------------------------------------------------------
// The statement speaks about seeds that ARE the result for a prefix.  A seed value is only compared when the
// harness holds a prefix P whose (reference) hash is that value; then f(b, seed) must equal ref(P + b).
// crc32: for every 32-bit value there is exactly one 4-byte P (the CRC register is run backwards here with an
// own table; the result is verified with zlib before use).
inline std::array<uint8_t, 4> crc32_witness(uint32_t want_crc) {
  static uint32_t T[256];
  static uint8_t rev_top[256];
  static bool ready = false;
  if (!ready) {
    for (uint32_t i = 0; i < 256; i++) {
      uint32_t c = i;
      for (int k = 0; k < 8; k++) c = (c & 1) ? (c >> 1) ^ 0xEDB88320u : (c >> 1);
      T[i] = c;
    }
    for (uint32_t i = 0; i < 256; i++) rev_top[T[i] >> 24] = static_cast<uint8_t>(i);
    ready = true;
  }
  uint32_t reg = ~want_crc;
  uint8_t idx[4];
  for (int i = 3; i >= 0; i--) {
    idx[i] = rev_top[reg >> 24];
    reg = (reg ^ T[idx[i]]) << 8;
  }
  std::array<uint8_t, 4> out{};
  uint32_t st = 0xFFFFFFFFu;
  for (int i = 0; i < 4; i++) {
    out[i] = static_cast<uint8_t>((st ^ idx[i]) & 0xFF);
    st = (st >> 8) ^ T[idx[i]];
  }
  if (ref_crc32(out.data(), 4) != want_crc) {
    fprintf(stderr, "C10: crc32 witness construction failed for %08X\n", want_crc);
    _exit(3);
  }
  return out;
}

struct Witness {
  uint64_t seed;
  std::vector<uint8_t> prefix;
};
// fnv1a32: 5-byte prefixes found offline by meet in the middle (verified with the recurrence at start-up).
inline const std::vector<Witness>& fnv32_witnesses() {
  static const std::vector<Witness> w = [] {
    std::vector<Witness> v = {
        {FNV32_BASIS, {}},
        {0x00000000u, {0xCC, 0x24, 0x31, 0xC4}},
        {0x00000000u, {0xCC, 0x24, 0x31, 0xC4, 0x00}},
        {0x00000001u, {0xFC, 0x18, 0xBB, 0x5F, 0x00}},
        {0x00000002u, {0xE5, 0x55, 0xA3, 0x96, 0x00}},
        {0x7FFFFFFFu, {0x2C, 0x12, 0xAB, 0x2B, 0x04}},
        {0x80000000u, {0xF5, 0x34, 0x17, 0x7A, 0x01}},
        {0x80000001u, {0xEB, 0x1B, 0x33, 0x4E, 0x01}},
        {0xFFFFFFFEu, {0x6C, 0xA6, 0x0C, 0xA8, 0x01}},
        {0xFFFFFFFFu, {0x30, 0x51, 0xF6, 0x63, 0x00}},
        {0x0000FFFFu, {0xAD, 0x2E, 0xB4, 0x05, 0x00}},
        {0x00010000u, {0xA4, 0xE4, 0xC9, 0xA5, 0x03}},
        {FNV32_BASIS, {0xA6, 0x58, 0xC8, 0x06, 0x02}},
        {FNV32_PRIME, {0xCC, 0x24, 0x31, 0xC4, 0x01}},
        {0x84222325u, {0xE5, 0x1B, 0x10, 0x84, 0x02}},  // low half of the 64-bit offset basis
    };
    for (auto& x : v)
      if (ref_fnv32(x.prefix.data(), x.prefix.size()) != static_cast<uint32_t>(x.seed)) {
        fprintf(stderr, "C10: fnv1a32 witness table is wrong for %08X\n", static_cast<uint32_t>(x.seed));
        _exit(3);
      }
    return v;
  }();
  return w;
}
// fnv1a64: the published 8-octet zero-hash string, the empty prefix (offset basis) and what follows from zero
// (0 ^ b) * prime.  Other 64-bit boundary values have no known prefix: they are executed but not compared.
inline const std::vector<Witness>& fnv64_witnesses() {
  static const std::vector<Witness> w = [] {
    const std::vector<uint8_t> Z = {0xD5, 0x6B, 0xB9, 0x53, 0x42, 0x87, 0x08, 0x36};
    auto plus = [&](std::vector<uint8_t> tail) {
      std::vector<uint8_t> p = Z;
      p.insert(p.end(), tail.begin(), tail.end());
      return p;
    };
    std::vector<Witness> v = {
        {FNV64_BASIS, {}},
        {0, Z},
        {0, plus({0x00})},
        {FNV64_PRIME, plus({0x01})},
        {0xFFull * FNV64_PRIME, plus({0xFF})},
        {0x80ull * FNV64_PRIME, plus({0x00, 0x80})},
    };
    for (auto& x : v)
      if (ref_fnv64(x.prefix.data(), x.prefix.size()) != x.seed) {
        fprintf(stderr, "C10: fnv1a64 witness table is wrong for %016llX\n", static_cast<unsigned long long>(x.seed));
        _exit(3);
      }
    return v;
  }();
  return w;
}

// ---- contexts ------------------------------------------------------------------------------------
enum Ctx { CX_PLAIN, CX_THREAD, CX_CATCH, CX_UNWIND, CX_NESTED, NCTX };
inline const char* const ctx_name[NCTX] = {"plain call", "first call on a fresh thread", "inside a catch handler", "in a destructor during stack unwinding",
    "inside a catch handler of a thread started from a catch handler"};
// f must not let an exception escape.
template <class F>
void in_ctx(int cx, F&& f) {
  struct OnUnwind {
    F& f;
    ~OnUnwind() { f(); }
  };
  switch (cx) {
    case CX_PLAIN: f(); break;
    case CX_THREAD: {
      std::thread t([&] { f(); });
      t.join();
      break;
    }
    case CX_CATCH:
      try {
        throw std::runtime_error("C10 context");
      } catch (const std::exception&) {
        f();
      }
      break;
    case CX_UNWIND:
      try {
        OnUnwind g{f};
        throw std::runtime_error("C10 context");
      } catch (const std::exception&) {
      }
      break;
    default:
      try {
        throw std::runtime_error("C10 context");
      } catch (const std::exception&) {
        std::thread t([&] {
          try {
            throw std::out_of_range("C10 inner");
          } catch (const std::exception&) {
            f();
          }
        });
        t.join();
      }
      break;
  }
}

// ---- huge read-only inputs -----------------------------------------------------------------------
// n readable bytes ending flush against a PROT_NONE page, built by mapping one 2 MiB pattern file over and over
// (resident cost 2 MiB whatever n is).  Content = LCG bytes with period 2 MiB: high-bit bytes everywhere.
struct BigMap {
  static constexpr size_t CH = size_t(2) << 20;
  uint8_t* base = nullptr;
  size_t maplen = 0;
  const uint8_t* data = nullptr;
  size_t n;
  explicit BigMap(size_t len) : n(len) {
    int fd = memfd_create("c10-big", 0);
    if (fd < 0 || ftruncate(fd, CH) != 0) die("memfd");
    uint8_t* w = static_cast<uint8_t*>(mmap(nullptr, CH, PROT_READ | PROT_WRITE, MAP_SHARED, fd, 0));
    if (w == MAP_FAILED) die("mmap pattern");
    uint32_t x = 0x2468ACE1u;
    for (size_t i = 0; i < CH; i++) {
      x = x * 1103515245u + 12345u;
      w[i] = static_cast<uint8_t>((x >> 16) & 0xFF);
    }
    munmap(w, CH);
    size_t body = (len + CH - 1) / CH * CH;
    if (!body) body = CH;
    maplen = body + 4096;
    base = static_cast<uint8_t*>(mmap(nullptr, maplen, PROT_NONE, MAP_PRIVATE | MAP_ANONYMOUS | MAP_NORESERVE, -1, 0));
    if (base == MAP_FAILED) die("mmap reserve");
    for (size_t off = 0; off < body; off += CH)
      if (mmap(base + off, CH, PROT_READ, MAP_SHARED | MAP_FIXED, fd, 0) == MAP_FAILED) die("mmap piece");
    close(fd);
    data = base + body - len;
  }
  BigMap(const BigMap&) = delete;
  ~BigMap() { munmap(base, maplen); }
  [[noreturn]] static void die(const char* what) {
    perror(what);
    _exit(3);
  }
};

}  // namespace c10
