// C16 — parallel_range: exactly-once visits and a true hit reported under all schedules.
// E-SCHED: the unmodified templates of Tools.hh are compiled against scheduler-controlled shims
// (std::atomic -> vfs::Atomic, std::thread -> vfs::Thread, usleep -> yield) by macro retargeting
// in this TU only; every interleaving of the scheduling points — and, within a stated budget, every
// placement of a spurious compare_exchange_weak failure — is enumerated by DFS with visited-state
// pruning (engine/sched.hh).
//
// Sections (all run the same executor and oracle, they differ in the configuration family):
//   interleavings  the round-1 family: uint64_t, ranges of 0..4 values, 1..3 workers, every true-set
//   types_bounds   all eight IntT instantiations (signed/unsigned x 8/16/32/64 bit), ranges at the type
//                  minimum / maximum / crossing zero / crossing 2^k, valid and invalid block sizes,
//                  empty and reversed ranges, long sequential ranges, more workers than values
//   spurious_cas   the same small configurations with a budget of 1 or 2 spurious weak-CAS failures
//   env_histories  hardware_concurrency answers (num_threads = 0), the defaulted progress_fn argument,
//                  histories of two or three calls inside one execution, calls made inside a catch
//                  handler and from a destructor during stack unwinding
//   big_blocks     (round 5) MAGNITUDE: block sizes on a ladder around the powers of two (0xFF .. 0x10001), 2-3 blocks,
//                  2-3 workers, hits at the first / last value of a block and at offsets 2^k-1, 2^k, 2^k+1 inside a
//                  block; parallel_range on 255..257 and 65535..65537 values.  Scheduling points are only the atomic
//                  operations, so a block of 65537 values costs callbacks, not schedules.  The callback log is a
//                  per-value counter array with an incrementally maintained multiset digest.
#include <fcntl.h>
#include <signal.h>
#include <stdint.h>
#include <sys/mman.h>
#include <sys/wait.h>
#include <unistd.h>

#include <algorithm>
#include <atomic>
#include <functional>
#include <limits>
#include <stdexcept>
#include <string>
#include <system_error>
#include <thread>
#include <unordered_set>
#include <vector>

// everything Tools.hh includes is included *before* the retargeting macros
#include "Encoding.hh"
#include "Strings.hh"
#include "Time.hh"
#include "sched.hh"
#include "vf.hh"

namespace std {
template <class T>
using vf_atomic = ::vfs::Atomic<T>;
using vf_thread = ::vfs::Thread;
}  // namespace std
static inline int vf_usleep(unsigned) { return vfs::vf_usleep_impl(); }

#define atomic vf_atomic
#define thread vf_thread
#define usleep vf_usleep
#include "Tools.hh"
#undef atomic
#undef thread
#undef usleep

namespace {

enum Fn { F_RANGE, F_BLOCKS, F_MULTI };
const char* fn_name[] = {"parallel_range", "parallel_range_blocks", "parallel_range_blocks_multi"};

enum Ty { U8, U16, U32, U64, I8, I16, I32, I64 };
const char* ty_name[] = {"uint8_t", "uint16_t", "uint32_t", "uint64_t", "int8_t", "int16_t", "int32_t", "int64_t"};
inline bool ty_signed(Ty t) { return t >= I8; }
inline int ty_bits(Ty t) { return 8 << (t & 3); }
// Values are carried as "ext": the IntT value converted to uint64_t (sign-extended for signed IntT).
inline uint64_t ty_min(Ty t) { return ty_signed(t) ? (uint64_t)0 - ((uint64_t)1 << (ty_bits(t) - 1)) : 0; }
inline uint64_t ty_max(Ty t) {
  int b = ty_bits(t);
  if (ty_signed(t)) return ((uint64_t)1 << (b - 1)) - 1;
  return b == 64 ? ~(uint64_t)0 : (((uint64_t)1 << b) - 1);
}
std::string show(Ty t, uint64_t ext) {
  return ty_signed(t) ? vf::fmt("%lld", (long long)(int64_t)ext) : vf::fmt("%llu", (unsigned long long)ext);
}

enum Progress { P_NULL, P_COUNTING, P_DEFAULT };  // P_DEFAULT: the argument is omitted (parallel_range_default_progress_fn)
enum Ctx { CTX_PLAIN, CTX_IN_CATCH, CTX_IN_UNWIND };

struct Call {
  Fn fn = F_RANGE;
  Ty ty = U64;
  uint64_t start = 0;  // ext
  int64_t len = 0;     // end = start + len; len < 0: reversed range (start > end), the set [start,end) is empty
  uint64_t block = 0;
  size_t threads = 1;  // 0 = default (hardware_concurrency shim)
  uint32_t truth = 0;  // bit i: callback returns true for start+i
  int progress = P_NULL;
  bool big = false;            // large range: the true-set is `hits` (sorted offsets from start), `truth` is unused
  std::vector<uint64_t> hits;
  uint64_t n() const { return len > 0 ? (uint64_t)len : 0; }
  uint64_t end() const { return start + (uint64_t)len; }
  // does the callback return true for start+off?  (off < n())
  bool is_true(uint64_t off) const {
    if (!big) return off < 32 && ((truth >> off) & 1);
    return std::binary_search(hits.begin(), hits.end(), off);
  }
  bool any_true() const {
    if (big) return !hits.empty();
    uint64_t k = n();
    return (k >= 32 ? truth : (truth & (((uint32_t)1 << k) - 1))) != 0;
  }
  std::string str() const {
    std::string s = vf::fmt("%s<%s>(range=[%s,%s)", fn_name[fn], ty_name[ty], show(ty, start).c_str(), show(ty, end()).c_str());
    if (fn != F_RANGE) s += ", block=" + show(ty, block);
    if (big) {
      s += vf::fmt(" (0x%llx values%s), threads=%zu, true_set_offsets={", (unsigned long long)n(), fn != F_RANGE && block ? vf::fmt(" = %llu blocks of 0x%llx", (unsigned long long)(n() / block), (unsigned long long)block).c_str() : "", threads);
      for (size_t i = 0; i < hits.size() && i < 12; i++) s += vf::fmt("%s0x%llx", i ? "," : "", (unsigned long long)hits[i]);
      if (hits.size() > 12) s += vf::fmt(",... %zu offsets", hits.size());
      s += vf::fmt("}, progress_fn=%s)", progress == P_NULL ? "nullptr" : progress == P_COUNTING ? "counting" : "defaulted-argument");
      return s;
    }
    s += vf::fmt(", threads=%zu, true_set_mask=0x%x, progress_fn=%s)", threads, truth, progress == P_NULL ? "nullptr" : progress == P_COUNTING ? "counting" : "defaulted-argument");
    return s;
  }
};

struct Config {
  std::vector<Call> calls;  // executed one after the other inside ONE execution (histories)
  int bound = -1;           // preemption bound, -1 = none
  bool keep_poll_history = false;  // true: do not merge states that differ only in the caller's poll-loop history
  int spurious = 0;         // budget of spurious compare_exchange_weak failures per execution
  unsigned hc = 2;          // answer of the hardware_concurrency shim
  int ctx = CTX_PLAIN;
  bool in_child = false;    // explore in a forked child (configurations that may die by a signal)
  uint64_t max_sched = 0;   // 0 = section default
  std::string str() const {
    std::string s;
    for (size_t i = 0; i < calls.size(); i++) s += (i ? " THEN " : "") + calls[i].str();
    s += vf::fmt(" [preemption_bound=%d", bound);
    if (keep_poll_history) s += ", unmerged poll history";
    if (spurious) s += vf::fmt(", spurious_weak_cas_failures<=%d", spurious);
    bool uses_hc = false;
    for (auto& c : calls) uses_hc |= c.threads == 0;
    if (uses_hc) s += vf::fmt(", hardware_concurrency()=%u", hc);
    if (ctx == CTX_IN_CATCH) s += ", called inside a catch handler";
    if (ctx == CTX_IN_UNWIND) s += ", called from a destructor during stack unwinding";
    return s + "]";
  }
};

struct Obs { uint64_t value; size_t thread_num; };

// The callback log.  Round 5: a per-value counter array (10^4..10^5 invocations per execution must be cheap) plus digests
// that are maintained incrementally: `multiset_digest` is a commutative sum over all invocations (value, thread_num, call
// index) - exactly the quantity the visited-state key always contained, so the key stays sound (the oracle reads the log as
// a multiset) - and `order_digest` is order-sensitive (used only to count distinct observable outcomes).  The invocation
// list itself is kept for small ranges only (descriptions, outcome strings).
struct CallResult {
  bool ran = false;
  std::vector<Obs> log;           // small ranges only
  std::vector<uint8_t> count;     // per offset, saturating at 255
  uint64_t invocations = 0;
  uint64_t multiset_digest = 0, order_digest = 0;
  bool outside = false, twice = false;
  uint64_t outside_value = 0, twice_value = 0;
  size_t max_thread_num = 0;
  uint64_t ret = 0;              // ext
  std::vector<uint64_t> retset;  // ext
  bool threw = false, threw_logic = false;
  std::string what;
  uint64_t progress_calls = 0;
};

std::string g_outcome;  // observable outcome of the last execution (order of callback invocations + result)

inline uint64_t obs_digest(uint64_t value, size_t thread_num, size_t k) {
  uint64_t x = (value * 0x9e3779b97f4a7c15ull) ^ ((thread_num + 1) * 0xc2b2ae3d27d4eb4full) ^ ((k + 1) * 0x165667b19e3779f9ull);
  x ^= x >> 32;
  return x * 0xff51afd7ed558ccdull;
}

template <class IntT>
void do_call(const Call& c, CallResult& res, size_t k) {
  IntT start = (IntT)c.start, end = (IntT)c.end();
  uint64_t n = c.n();
  bool keep_list = !c.big;
  res.count.assign(n, 0);
  std::function<bool(IntT, size_t)> cb = [&res, &c, n, k, keep_list](IntT v, size_t tn) {
    uint64_t value = (uint64_t)v;
    if (keep_list) res.log.push_back({value, tn});
    uint64_t d = obs_digest(value, tn, k);
    res.multiset_digest += d;  // commutative: the oracle reads each log as a multiset
    res.order_digest = (res.order_digest ^ d) * 1099511628211ull;
    res.invocations++;
    if (tn > res.max_thread_num) res.max_thread_num = tn;
    uint64_t off = value - c.start;  // exact membership test: the range does not wrap in Z mod 2^64
    if (off >= n) {
      if (!res.outside) { res.outside = true; res.outside_value = value; }
      return false;
    }
    if (res.count[off] == 1 && !res.twice) { res.twice = true; res.twice_value = value; }
    if (res.count[off] < 255) res.count[off]++;
    return c.is_true(off);
  };
  std::function<void(IntT, IntT, IntT, uint64_t)> prog = nullptr;
  if (c.progress == P_COUNTING) prog = [&res](IntT, IntT, IntT, uint64_t) { res.progress_calls++; };
  res.ran = true;
  try {
    if (c.progress == P_DEFAULT) {
      // the progress_fn argument is omitted: parallel_range_default_progress_fn<IntT> (writes to stderr)
      if (c.fn == F_RANGE) res.ret = (uint64_t)phosg::parallel_range<IntT>(cb, start, end, c.threads);
      else if (c.fn == F_BLOCKS) res.ret = (uint64_t)phosg::parallel_range_blocks<IntT>(cb, start, end, (IntT)c.block, c.threads);
      else for (IntT v : phosg::parallel_range_blocks_multi<IntT>(cb, start, end, (IntT)c.block, c.threads)) res.retset.push_back((uint64_t)v);
    } else {
      if (c.fn == F_RANGE) res.ret = (uint64_t)phosg::parallel_range<IntT>(cb, start, end, c.threads, prog);
      else if (c.fn == F_BLOCKS) res.ret = (uint64_t)phosg::parallel_range_blocks<IntT>(cb, start, end, (IntT)c.block, c.threads, prog);
      else for (IntT v : phosg::parallel_range_blocks_multi<IntT>(cb, start, end, (IntT)c.block, c.threads, prog)) res.retset.push_back((uint64_t)v);
    }
  } catch (const vfs::AbortExecution&) {
    throw;
  } catch (const std::logic_error& e) {
    res.threw = res.threw_logic = true;
    res.what = e.what();
  } catch (const std::exception& e) {
    res.threw = true;
    res.what = e.what();
  }
}

void dispatch_call(const Call& c, CallResult& res, size_t k) {
  switch (c.ty) {
    case U8: return do_call<uint8_t>(c, res, k);
    case U16: return do_call<uint16_t>(c, res, k);
    case U32: return do_call<uint32_t>(c, res, k);
    case U64: return do_call<uint64_t>(c, res, k);
    case I8: return do_call<int8_t>(c, res, k);
    case I16: return do_call<int16_t>(c, res, k);
    case I32: return do_call<int32_t>(c, res, k);
    case I64: return do_call<int64_t>(c, res, k);
  }
}

// The reference model.  Returns "" when everything the statement entails holds for this call.
//   valid call  := parallel_range with any range; the _blocks functions with start <= end, block >= 1
//                  dividing end - start; at least one worker thread.
//   A valid call must not throw.  When no callback returns true: every value of [start,end) is
//   invoked exactly once and the result is end_value (_multi: the set of true values).  When some
//   callback returns true: the result is a value whose callback returned true.  Always: nothing
//   outside [start,end), nothing twice, thread numbers in [0, num_threads).
//   Invalid calls (block does not divide, reversed range with a block size, zero workers because
//   hardware_concurrency() is 0) are a don't-care class if they throw; if they do not throw, only the
//   "never outside, never twice, thread numbers" part is compared.
std::string oracle(const Call& c, const CallResult& res, unsigned hc, std::string* cls) {
  uint64_t n = c.n();
  size_t nthreads = c.threads ? c.threads : hc;
  bool valid = nthreads >= 1 && (c.fn == F_RANGE || (c.len >= 0 && c.block >= 1 && (uint64_t)c.len % c.block == 0));
  Ty ty = c.ty;
  if (res.threw) {
    if (valid) return "threw " + std::string(res.threw_logic ? "std::logic_error" : "an exception") + " (\"" + res.what + "\") on a valid call";
    *cls = "invalid-call-rejected";
    return "";
  }
  const std::vector<uint8_t>& count = res.count;
  if (res.outside) return vf::fmt("callback invoked for %s, outside [%s,%s)", show(ty, res.outside_value).c_str(), show(ty, c.start).c_str(), show(ty, c.end()).c_str());
  if (res.invocations && res.max_thread_num >= nthreads) return vf::fmt("callback got thread_num %zu with %zu threads", res.max_thread_num, nthreads);
  if (res.twice) return vf::fmt("callback invoked twice for %s", show(ty, res.twice_value).c_str());
  if (!valid) {
    *cls = "invalid-call-not-rejected";
    return "";
  }
  if (c.fn == F_MULTI) {
    for (uint64_t i = 0; i < n; i++)
      if (count[i] != 1) return vf::fmt("value %s invoked %d times (all values must be visited exactly once by _multi)", show(ty, c.start + i).c_str(), (int)count[i]);
    std::vector<uint8_t> in(n, 0);
    for (uint64_t v : res.retset) {
      uint64_t off = v - c.start;
      if (off >= n) return "_multi result contains " + show(ty, v) + ", a value outside the range";
      in[off] = 1;
    }
    for (uint64_t i = 0; i < n; i++) {
      bool want = c.is_true(i);
      if ((in[i] != 0) != want) return vf::fmt("_multi result %s %s", in[i] ? "contains a value whose callback returned false:" : "misses a true value:", show(ty, c.start + i).c_str());
    }
    *cls = "multi-ok";
    return "";
  }
  if (!c.any_true()) {
    for (uint64_t i = 0; i < n; i++)
      if (count[i] != 1) return vf::fmt("callback never true, but value %s was invoked %d times", show(ty, c.start + i).c_str(), (int)count[i]);
    if (res.ret != c.end()) return vf::fmt("callback never true, but the call returned %s instead of end_value %s", show(ty, res.ret).c_str(), show(ty, c.end()).c_str());
    *cls = n ? "no-hit-all-visited" : "empty-range";
    return "";
  }
  uint64_t off = res.ret - c.start;
  if (off >= n || !c.is_true(off))
    return vf::fmt("some callback returned true, but the call returned %s, for which the callback did not return true", show(ty, res.ret).c_str());
  if (count[off] != 1) return vf::fmt("returned value %s was never passed to the callback", show(ty, res.ret).c_str());
  *cls = "hit-returned";
  return "";
}

std::string g_class;  // outcome class of the last execution (last call)
size_t g_fail_call = 0;  // index of the call a failure of the last execution belongs to

struct UnwindGuard {
  std::function<void()> f;
  bool* swallowed;
  ~UnwindGuard() {
    try {
      f();
    } catch (const vfs::AbortExecution&) {
      *swallowed = true;  // must not leave a destructor that runs during unwinding
    }
  }
};

std::string run_cfg(const Config& c, const std::vector<int>& prefix) {
  vfs::Scheduler& S = vfs::Scheduler::get();
  std::vector<CallResult> res(c.calls.size());
  S.spurious_budget = c.spurious;
  S.hardware_concurrency = c.hc;
  {
    // livelock horizon: 4000 scheduling steps are ample for the small configurations; a long parallel_range makes
    // three or four steps per value
    uint64_t claims = 0;
    for (auto& cl : c.calls) claims += cl.fn == F_RANGE ? cl.n() : (cl.block ? cl.n() / cl.block : 0);
    S.horizon = (size_t)(4000 + 16 * claims);
  }
  S.begin(prefix);
  // The caller's progress loop is `while (load() < end) { progress_fn(); usleep(); }`: nothing but
  // the value just loaded survives an iteration, so its observation history may be forgotten at
  // each usleep return (states merged have identical futures).  keep_poll_history configurations
  // run un-merged as a cross-check of this argument.
  S.reset_obs_on_yield = !c.keep_poll_history;
  size_t calls_done = 0;
  S.extra_state = [&]() {
    // multiset of all (value, thread_num, call) invocations so far (commutative sum, maintained by the callback) plus
    // the number of completed calls: everything the oracle will read from the logs
    uint64_t h = calls_done * 0x2545f4914f6cdd1dull;
    for (size_t k = 0; k < res.size(); k++) h += res[k].multiset_digest;
    return h;
  };
  std::string early;  // failure decided when a call returns (thread lifetime)
  auto body = [&]() {
    for (size_t k = 0; k < c.calls.size(); k++) {
      dispatch_call(c.calls[k], res[k], k);
      calls_done = k + 1;
      if (S.was_aborted()) return;
      bool workers_done = true;
      for (size_t i = 1; i < S.nthreads(); i++) workers_done &= S.finished((int)i);
      // A worker that outlives the call would touch the call's destroyed locals (and std::thread's
      // destructor would have called std::terminate): report without running it any further.
      if (!workers_done) { early = "a worker thread was still running when the call returned (not joined)"; return; }
      if (S.ex.unjoined_destroyed) { early = "a joinable thread object was destroyed (std::thread would call std::terminate)"; return; }
    }
  };
  bool swallowed = false;
  try {
    if (c.ctx == CTX_PLAIN) body();
    else if (c.ctx == CTX_IN_CATCH) {
      try {
        throw std::runtime_error("outer exception being handled");
      } catch (const std::runtime_error&) {
        body();
      }
    } else {
      try {
        UnwindGuard g{body, &swallowed};
        throw std::runtime_error("outer exception propagating");
      } catch (const std::runtime_error&) {
      }
    }
  } catch (const vfs::AbortExecution&) {
  }
  S.extra_state = nullptr;
  if (S.was_aborted() || swallowed) return "";  // deadlock/livelock/divergence flags are reported by the explorer
  g_fail_call = calls_done ? calls_done - 1 : 0;
  if (!early.empty()) return (c.calls.size() > 1 ? vf::fmt("call #%zu: ", calls_done) : std::string()) + early;
  S.end();
  g_outcome.clear();
  g_class.clear();
  for (size_t k = 0; k < c.calls.size(); k++) {
    const Call& cl = c.calls[k];
    if (cl.big) g_outcome += vf::fmt("%llu invocations, order digest %016llx ", (unsigned long long)res[k].invocations, (unsigned long long)res[k].order_digest);
    for (auto& o : res[k].log) g_outcome += show(cl.ty, o.value) + vf::fmt("@%zu ", o.thread_num);
    if (res[k].threw) g_outcome += "-> threw; ";
    else if (cl.fn == F_MULTI) g_outcome += vf::fmt("-> set of %zu; ", res[k].retset.size());
    else g_outcome += "-> " + show(cl.ty, res[k].ret) + "; ";
    std::string cls;
    std::string f = oracle(cl, res[k], c.hc, &cls);
    g_fail_call = k;
    if (!f.empty()) return (c.calls.size() > 1 ? vf::fmt("call #%zu (%s): ", k + 1, cl.str().c_str()) : std::string()) + f;
    g_class = cls;
  }
  return "";
}

// ---- configuration families -------------------------------------------------------------------------

Call mk(Fn fn, Ty ty, uint64_t start, int64_t len, uint64_t block, size_t threads, uint32_t truth, int progress = P_NULL) {
  Call c;
  c.fn = fn; c.ty = ty; c.start = start; c.len = len; c.block = block; c.threads = threads; c.truth = truth; c.progress = progress;
  return c;
}
Config one(const Call& c, int bound = -1) {
  Config k;
  k.calls.push_back(c);
  k.bound = bound;
  return k;
}

// round-1 family (uint64_t): every true-set, every dividing block size, progress on/off
std::vector<Config> configs_base(bool thorough) {
  std::vector<Config> out;
  for (int f = 0; f < 3; f++) {
    for (uint64_t n = 0; n <= 4; n++) {
      std::vector<uint64_t> blocks = {0};
      if (f != F_RANGE) {
        blocks.clear();
        if (n == 0) blocks = {1, 2};
        for (uint64_t b = 1; b <= n; b++) if (n % b == 0) blocks.push_back(b);
      }
      for (uint64_t b : blocks) {
        for (size_t t = 1; t <= 3; t++) {
          for (uint32_t truth = 0; truth < (1u << n); truth++) {
            for (int prog = 0; prog < 2; prog++) {
              for (uint64_t s : {5ull, 0ull}) {
                // start 0 adds nothing to the interleaving structure; it is kept for the
                // smallest ranges only (where `if (current_value)`-style zero tests would show)
                if (s == 0 && (n > 2 || t > 2)) continue;
                int bound = -1;
                uint64_t cap = 0;
                bool big = t == 3 && n >= 4 && (f == F_RANGE || b == 1);  // 4 single-value claims by 3 workers
                if (!thorough) {
                  // quick: the largest configurations are preemption-bounded
                  if (t == 3 && n >= 4) bound = 2;
                  if (t == 3 && n == 3 && prog) bound = 3;
                  if (t == 3 && n >= 4 && prog) continue;
                  if (t == 3 && n >= 4 && f == F_MULTI && __builtin_popcount(truth) != 1 && truth != 0) continue;
                } else {
                  // thorough: unbounded wherever that completes in minutes; the 3-worker/4-claim
                  // configurations (tens of millions of schedules each when unbounded) run with
                  // preemption bound 6 (bound 5 with progress_fn), all true-sets
                  if (big) bound = prog ? 5 : 6;
                  if (f == F_MULTI && truth != 0 && truth != (1u << n) - 1 && __builtin_popcount(truth) != 1 && t == 3 && n >= 3) continue;  // _multi control flow does not depend on the true-set
                }
                Config c = one(mk((Fn)f, U64, s, (int64_t)n, b, t, truth, prog), bound);
                c.max_sched = cap;
                out.push_back(c);
                // cross-check of the poll-loop canonicalisation: the same configuration un-merged
                if (prog && s == 5 && t <= 2 && n <= 3 && (thorough || n <= 2)) {
                  c.keep_poll_history = true;
                  out.push_back(c);
                }
              }
            }
          }
        }
      }
    }
  }
  return out;
}

std::vector<uint32_t> truth_set(uint64_t n, bool all_subsets) {
  std::vector<uint32_t> v;
  if (all_subsets && n <= 4) {
    for (uint32_t t = 0; t < (1u << n); t++) v.push_back(t);
    return v;
  }
  v.push_back(0);
  if (n == 0) return v;
  auto add = [&](uint32_t t) { for (auto x : v) if (x == t) return; v.push_back(t); };
  add(1);                                   // start_value
  add(1u << (n - 1));                       // the last value
  add(n >= 32 ? 0xffffffffu : (1u << n) - 1);  // every value
  if (n >= 3) add(1u << (n / 2));
  return v;
}

// start values (ext) that put a range of n values at the places where IntT arithmetic can go wrong
std::vector<uint64_t> starts_for(Ty ty, uint64_t n, bool wide) {
  std::vector<uint64_t> s;
  auto add = [&](uint64_t x) { for (auto y : s) if (y == x) return; s.push_back(x); };
  uint64_t mx = ty_max(ty), mn = ty_min(ty);
  add(mx - n);  // [MAX-n, MAX): end_value is the type maximum
  add(mn);      // [MIN, MIN+n)
  if (ty_signed(ty)) {
    add((uint64_t)0 - 1);          // [-1, n-1): crosses zero right after the first value
    add((uint64_t)0 - n);          // [-n, 0): entirely negative, end_value 0
    if (n >= 2) add((uint64_t)0 - (n - 1));  // [-(n-1), 1): crosses zero before the last value
    if (wide) add((uint64_t)0 - n - 7);       // entirely negative, away from zero
    if (wide) add(1);
  } else {
    add(((uint64_t)1 << (ty_bits(ty) - 1)) - 1);  // crosses the sign bit of the same-width signed type
    if (wide) add(((uint64_t)1 << (ty_bits(ty) - 1)) - n);
    if (wide) add(1);
  }
  return s;
}

std::vector<Config> configs_types(bool thorough) {
  std::vector<Config> out;
  // (a) every instantiation at the interesting places, full interleaving of 1..2 workers (3 for the smallest)
  for (int tyi = 0; tyi < 8; tyi++) {
    Ty ty = (Ty)tyi;
    for (uint64_t n = 1; n <= (thorough ? 4u : 3u); n++) {
      for (uint64_t s : starts_for(ty, n, thorough)) {
        for (int f = 0; f < 3; f++) {
          std::vector<uint64_t> blocks = {0};
          if (f != F_RANGE) {
            blocks.clear();
            for (uint64_t b = 1; b <= n + 1; b++) blocks.push_back(b);  // dividing and non-dividing, and larger than the range
          }
          for (uint64_t b : blocks) {
            bool valid = f == F_RANGE || n % b == 0;
            for (size_t t = 1; t <= 3; t++) {
              if (!valid && t > 1) continue;  // rejected before any thread exists
              if (t == 3 && n > (thorough ? 3u : 2u)) continue;
              if (t == 3 && !thorough && !(ty == I8 || ty == I64 || ty == U8 || ty == U32)) continue;
              if (t == 3 && n == 3 && !(ty == I8 || ty == I64 || ty == U8)) continue;
              for (uint32_t truth : truth_set(n, thorough && n <= 3 && t <= 2)) {
                if (!valid && truth != 0) continue;
                if (f == F_MULTI && t == 3 && truth != 0 && truth != (1u << n) - 1) continue;
                for (int prog = 0; prog < 2; prog++) {
                  if (prog && (n > 2 || t > 2 || !valid)) continue;
                  if (prog && !thorough && truth != 0 && truth != (1u << (n - 1))) continue;
                  out.push_back(one(mk((Fn)f, ty, s, (int64_t)n, b, t, truth, prog)));
                }
              }
            }
          }
        }
      }
    }
  }
  // (b) ranges of 3 values crossing 2^k (and -2^k for signed types) in the wider types: truncation to a narrower
  //     or differently signed temporary anywhere on the path shows as an outside / skipped value
  for (Ty ty : {U64, I64, U32, I32, U16, I16}) {
    for (int k : {7, 8, 15, 16, 31, 32, 63}) {
      int vb = ty_bits(ty) - (ty_signed(ty) ? 1 : 0);  // value bits
      if (k >= vb) continue;
      std::vector<uint64_t> ss = {((uint64_t)1 << k) - 1, ((uint64_t)1 << k) - 2};
      if (ty_signed(ty)) { ss.push_back((uint64_t)0 - ((uint64_t)1 << k) - 1); ss.push_back((uint64_t)0 - ((uint64_t)1 << k) - 2); }
      for (uint64_t s : ss) {
        for (int f = 0; f < 3; f++) {
          for (uint64_t b : (f == F_RANGE ? std::vector<uint64_t>{0} : std::vector<uint64_t>{1, 3})) {
            for (size_t t = 1; t <= 2; t++) {
              for (uint32_t truth : {0u, 4u, 2u}) {
                if (truth == 2 && !thorough) continue;
                out.push_back(one(mk((Fn)f, ty, s, 3, b, t, truth)));
              }
            }
          }
        }
      }
    }
  }
  // (c) empty and reversed ranges (the set [start,end) is empty: no invocation, result end_value), any thread count,
  //     including start == end at the type minimum / maximum; block sizes far from the usual on an empty range
  for (Ty ty : {U64, I64, U8, I8, I32, U16}) {
    uint64_t mx = ty_max(ty), mn = ty_min(ty);
    std::vector<std::pair<uint64_t, int64_t>> rs = {{5, 0}, {0, 0}, {mx, 0}, {mn, 0}, {5, -1}, {5, -3}, {mx, -1}, {mx, -4}, {mn + 2, -2}};
    if (ty_signed(ty)) { rs.push_back({(uint64_t)0 - 2, 0}); rs.push_back({1, -3}); rs.push_back({(uint64_t)0 - 1, -2}); }
    for (auto& [s, len] : rs) {
      for (int f = 0; f < 3; f++) {
        std::vector<uint64_t> blocks = {0};
        if (f != F_RANGE) {
          blocks = {1, 2, 3};
          if (len == 0) { blocks.push_back(mx); blocks.push_back(mx - 1); if (ty_bits(ty) == 64) { blocks.push_back((uint64_t)1 << 31); blocks.push_back((uint64_t)1 << 32); blocks.push_back(((uint64_t)1 << 32) - 1); } }
        }
        for (uint64_t b : blocks) {
          for (size_t t = 1; t <= 3; t++) {
            if (t == 3 && !(b <= 1)) continue;
            for (int prog = 0; prog < 2; prog++) {
              if (prog && (t == 3 || b > 2)) continue;
              out.push_back(one(mk((Fn)f, ty, s, len, b, t, 0, prog)));
            }
          }
        }
      }
    }
  }
  // (d) block sizes far from the usual on non-empty ranges (they do not divide: rejected, or - if accepted - at least
  //     nothing outside the range), single worker
  for (Ty ty : {U64, I64, U32, I8}) {
    uint64_t mx = ty_max(ty);
    std::vector<uint64_t> bs = {mx, mx - 1};
    if (ty_bits(ty) == 64) for (uint64_t b : {((uint64_t)1 << 31) - 1, (uint64_t)1 << 31, ((uint64_t)1 << 32) - 1, (uint64_t)1 << 32, ((uint64_t)1 << 32) + 1, ((uint64_t)1 << 62)}) bs.push_back(b);
    for (uint64_t b : bs)
      for (int f = 1; f < 3; f++)
        for (uint64_t s : {(uint64_t)5, mx - 3}) out.push_back(one(mk((Fn)f, ty, s, 3, b, 1, 0)));
  }
  // (e) long sequential ranges: one worker (every interleaving with the caller), every block size 1..n+1; two workers
  //     under a preemption bound
  for (Ty ty : {I64, I8, U8, U64, I32, U16}) {
    for (uint64_t n : {6ull, 12ull, 30ull}) {
      if (n == 30 && !thorough && !(ty == I8 || ty == I64)) continue;
      std::vector<uint64_t> ss;
      if (ty_signed(ty)) ss = {(uint64_t)0 - n / 2, ty_min(ty), ty_max(ty) - n, (uint64_t)0 - n - 1};
      else ss = {ty_max(ty) - n, 0, 100};
      for (uint64_t s : ss) {
        for (int f = 0; f < 3; f++) {
          std::vector<uint64_t> blocks = {0};
          if (f != F_RANGE) {
            blocks.clear();
            for (uint64_t b = 1; b <= n + 1; b++) if (n <= 12 || n % b == 0 || b == 4 || b == 7 || b == n + 1) blocks.push_back(b);
          }
          for (uint64_t b : blocks) {
            bool valid = f == F_RANGE || n % b == 0;
            for (uint32_t truth : truth_set(n, false)) {
              if (!valid && truth) continue;
              for (int prog = 0; prog < 2; prog++) {
                if (prog && (n > 6 || truth)) continue;
                out.push_back(one(mk((Fn)f, ty, s, (int64_t)n, b, 1, truth, prog)));
              }
              if (valid && n == 6 && (b == 0 || b == 2 || b == 3) && (truth == 0 || truth == 8) && (thorough || ty == I64 || ty == I8 || ty == U8))
                out.push_back(one(mk((Fn)f, ty, s, (int64_t)n, b, 2, truth), thorough ? 3 : 2));
            }
          }
        }
      }
    }
  }
  // (f) more workers than values
  for (int f = 0; f < 3; f++)
    for (uint64_t n = 0; n <= (thorough ? 2u : 1u); n++)
      for (size_t t = 4; t <= (thorough ? 5u : 4u); t++) {
        if (t == 5 && n > 0) continue;
        for (uint32_t truth = 0; truth < (1u << n); truth++) out.push_back(one(mk((Fn)f, n ? I8 : U64, n ? (uint64_t)0 - 1 : 5, (int64_t)n, f == F_RANGE ? 0 : 1, t, truth), n >= 2 ? 3 : -1));
      }
  return out;
}

// spurious failure of compare_exchange_weak as an explorer choice (budget per execution)
std::vector<Config> configs_spurious(bool thorough) {
  std::vector<Config> out;
  for (int budget = 1; budget <= 2; budget++) {
    for (int f = 0; f < 3; f++) {
      for (uint64_t n = 1; n <= (thorough ? 4u : 3u); n++) {
        std::vector<uint64_t> blocks = {0};
        if (f != F_RANGE) {
          blocks.clear();
          for (uint64_t b = 1; b <= n; b++) if (n % b == 0) blocks.push_back(b);
        }
        for (uint64_t b : blocks) {
          for (size_t t = 1; t <= 3; t++) {
            size_t claims = f == F_RANGE ? n : n / b;
            if (budget == 2 && !(t <= 2 && claims <= (thorough ? 3u : 2u))) continue;
            if (t == 3 && claims > (thorough ? 3u : 2u)) continue;
            if (t == 2 && n == 4 && b == 1 && !thorough) continue;
            for (uint32_t truth = 0; truth < (1u << n); truth++) {
              if (f == F_MULTI && t >= 2 && truth != 0 && truth != (1u << n) - 1 && truth != 1) continue;  // control flow independent of the true-set
              if (t == 3 && claims == 3 && __builtin_popcount(truth) > 1 && truth != (1u << n) - 1) continue;
              for (int prog = 0; prog < 2; prog++) {
                if (prog && (t == 3 || claims > 2 || budget == 2)) continue;
                Config c = one(mk((Fn)f, U64, 5, (int64_t)n, b, t, truth, prog));
                c.spurious = budget;
                if (t == 3 && claims == 3 && !thorough) c.bound = 3;
                out.push_back(c);
              }
            }
          }
        }
      }
    }
  }
  // signed / narrow instantiations at the type boundaries with a spurious failure (the retry path recomputes v + 1)
  for (Ty ty : {I8, U8, I64, I32}) {
    for (uint64_t s : {ty_min(ty), ty_max(ty) - 2, ty_signed(ty) ? (uint64_t)0 - 1 : (uint64_t)0}) {
      for (int f = 0; f < 3; f++)
        for (uint64_t b : (f == F_RANGE ? std::vector<uint64_t>{0} : std::vector<uint64_t>{1, 2}))
          for (size_t t = 1; t <= 2; t++)
            for (uint32_t truth : {0u, 2u, 3u}) {
              Config c = one(mk((Fn)f, ty, s, 2, b, t, truth));
              c.spurious = 1;
              out.push_back(c);
            }
    }
  }
  return out;
}

std::vector<Config> configs_env(bool thorough) {
  std::vector<Config> out;
  // (a) num_threads = 0: every answer of hardware_concurrency() (0 = "not computable", allowed by the standard)
  for (unsigned hc : {1u, 2u, 3u, 0u}) {
    for (int f = 0; f < 3; f++) {
      for (uint64_t n : {0ull, 2ull, 3ull}) {
        if (hc == 3 && n == 3 && !thorough) continue;
        for (uint32_t truth : truth_set(n, n <= 2)) {
          for (int prog = 0; prog < 2; prog++) {
            if (prog && (hc == 3 || n > 2)) continue;
            for (Ty ty : {U64, I8}) {
              if (ty == I8 && (prog || n != 2)) continue;
              Config c = one(mk((Fn)f, ty, ty == I8 ? (uint64_t)0 - 1 : 5, (int64_t)n, f == F_RANGE ? 0 : 1, 0, truth, prog));
              c.hc = hc;
              out.push_back(c);
            }
          }
        }
      }
    }
  }
  // (b) the defaulted progress_fn argument (parallel_range_default_progress_fn): explored in a forked child because
  //     a fault inside it is a signal, not an exception
  for (int f = 0; f < 3; f++)
    for (Ty ty : {U64, I8, U8, I32})
      for (uint64_t s : {(uint64_t)0, (uint64_t)5, (uint64_t)0 - 2})
        for (size_t t = 1; t <= 2; t++)
          for (uint32_t truth : {0u, 2u}) {
            if (s == (uint64_t)0 - 2 && !ty_signed(ty)) continue;
            if (ty != U64 && (t == 2) && !thorough) continue;
            Config c = one(mk((Fn)f, ty, s, 2, f == F_RANGE ? 0 : (s == 0 ? 2 : 1), t, truth, P_DEFAULT));
            c.in_child = true;
            out.push_back(c);
          }
  // (c) histories: every ordered pair (and A-B-A triples) of calls that differ in function, IntT, size, worker count
  //     and hit/no-hit, inside one execution: nothing may be carried from one call to the next
  std::vector<Call> shapes = {
      mk(F_RANGE, U64, 5, 2, 0, 1, 0),
      mk(F_BLOCKS, U64, 5, 4, 2, 2, 0x4),
      mk(F_MULTI, I8, (uint64_t)0 - 1, 3, 1, 2, 0x5),
      mk(F_RANGE, I8, ty_min(I8), 2, 0, 2, 0x2),
      mk(F_BLOCKS, U8, 253, 2, 1, 1, 0, P_COUNTING),
      mk(F_RANGE, U64, 5, 0, 0, 2, 0),
      mk(F_MULTI, I8, (uint64_t)0 - 2, 4, 2, 2, 0x2),  // same instantiation as shape 2, overlapping range, different true-set
      mk(F_BLOCKS, U64, 6, 2, 1, 1, 0x1),              // same instantiation as shape 1, smaller, different hit
  };
  for (size_t a = 0; a < shapes.size(); a++)
    for (size_t b = 0; b < shapes.size(); b++) {
      Config c;
      c.calls = {shapes[a], shapes[b]};
      out.push_back(c);
    }
  for (size_t a = 0; a < shapes.size(); a++)
    for (size_t b = 0; b < shapes.size(); b++) {
      if (a == b) continue;
      if (!thorough && (shapes[a].threads > 1 && shapes[b].threads > 1)) continue;
      Config c;
      c.calls = {shapes[a], shapes[b], shapes[a]};
      c.bound = thorough ? -1 : 3;
      out.push_back(c);
    }
  // history with a spurious failure and with the default thread count
  for (size_t a = 0; a < 4; a++)
    for (size_t b = 0; b < 4; b++) {
      Config c;
      c.calls = {shapes[a], shapes[b]};
      c.calls[1].threads = 0;
      c.hc = 2;
      c.spurious = 1;
      c.bound = 3;
      out.push_back(c);
    }
  // (d) the same calls made inside a catch handler and from a destructor while another exception propagates
  for (int ctx : {CTX_IN_CATCH, CTX_IN_UNWIND})
    for (int f = 0; f < 3; f++)
      for (size_t t = 1; t <= 2; t++)
        for (uint32_t truth : {0u, 2u})
          for (int prog = 0; prog < 2; prog++) {
            Config c = one(mk((Fn)f, f == 1 ? I8 : U64, f == 1 ? (uint64_t)0 - 1 : 5, 2, f == F_RANGE ? 0 : 1, t, truth, prog));
            c.ctx = ctx;
            out.push_back(c);
          }
  return out;
}

// ---- round 5: magnitude ---------------------------------------------------------------------------------------
Call mkbig(Fn fn, Ty ty, uint64_t start, uint64_t n, uint64_t block, size_t threads, std::vector<uint64_t> hits, int progress = P_NULL) {
  Call c;
  c.fn = fn; c.ty = ty; c.start = start; c.len = (int64_t)n; c.block = block; c.threads = threads; c.progress = progress;
  c.big = true;
  std::sort(hits.begin(), hits.end());
  hits.erase(std::unique(hits.begin(), hits.end()), hits.end());
  while (!hits.empty() && hits.back() >= n) hits.pop_back();
  c.hits = hits;
  return c;
}

// Thresholds inside the per-block loop (a poll of the shared cursor every 2^k values, a progress report every 2^k values,
// a counter narrower than IntT) are invisible on ranges of 0..4 values.  Scheduling points are only the atomic operations,
// so a large block costs callbacks, not schedules: the interleaving structure of K blocks of B values is that of K
// single-value blocks.  Block sizes from a ladder around the powers of two, 2..3 blocks, 2..3 (4) workers, true-sets
// that put the single hit at the first / last value of a block and at offsets 2^k-1, 2^k, 2^k+1 inside the first and
// the final block; for _multi one true-set holding all of those offsets in every block at once.
std::vector<Config> configs_big(bool thorough) {
  std::vector<Config> out;
  const uint64_t START = 0x47F92AC2ull;  // not a multiple of any block size (Tools.hh documents that as valid)
  std::vector<uint64_t> ladder = {0xFF, 0x100, 0x101, 0xFFF, 0x1000, 0x1001, 0x2000, 0x2001, 0x10001};
  if (thorough) for (uint64_t b : {0x1FFFull, 0x4001ull, 0xFFFFull, 0x10000ull, 0x20001ull}) ladder.push_back(b);
  auto pow2_offsets = [](uint64_t B, bool all) {
    // offsets o in [1, B-2] of the form 2^k-1, 2^k, 2^k+1; all: every k >= 1, else k in {8, 12, 16}
    std::vector<uint64_t> v;
    for (int k = 1; k < 40; k++) {
      if (!all && k != 8 && k != 12 && k != 16) continue;
      uint64_t p = (uint64_t)1 << k;
      for (uint64_t o : {p - 1, p, p + 1})
        if (o >= 1 && o + 1 < B) v.push_back(o);
    }
    std::sort(v.begin(), v.end());
    v.erase(std::unique(v.begin(), v.end()), v.end());
    return v;
  };
  for (uint64_t B : ladder) {
    bool huge = B > 0x4001;
    for (uint64_t K = 2; K <= 3; K++) {
      if (huge && K == 3 && !thorough) continue;
      for (size_t T = 2; T <= 3; T++) {
        uint64_t n = B * K;
        int bound = -1;
        // Cost = schedules x callbacks per execution.  2 workers: a few hundred (2 blocks) to ~1300 (3 blocks) schedules, unbounded
        // everywhere.  3 workers: ~10^4 schedules for 2 blocks, ~10^5 for 3: quick keeps two ladder points (one above 2^8, one above
        // 2^12) unbounded for 2 blocks, everything else with 3 workers runs under a preemption bound and with fewer true-sets.
        bool reduced = false;
        if (T == 3) {
          bool ladder3 = B == 0x101 || B == 0x1001 || B == 0x2001;                  // quick
          if (thorough) ladder3 = !huge || (B == 0x10001 && K == 2);
          if (!ladder3) continue;
          if (K == 3) {
            if (thorough && !(B == 0x101 || B == 0x1001 || B == 0x2001 || B == 0x4001)) continue;
            bound = thorough ? 3 : 2;
            reduced = true;
          } else if (B == 0x101 || B == 0x1001 || (thorough && !huge)) {
            bound = -1;                                                              // all interleavings, all true-sets
          } else {
            bound = 2;
            reduced = true;
          }
        }
        uint64_t P = B > 0x1001 ? 0x1000 : B > 0x81 ? 0x80 : B / 2;  // a power of two strictly inside the block
        // parallel_range_blocks: single hits
        std::vector<std::vector<uint64_t>> sets;
        sets.push_back({});
        if (reduced) {
          sets.push_back({P});
          sets.push_back({n - 1});
        } else {
          for (uint64_t j = 0; j < K; j++) {
            if (huge && j != 0 && j != K - 1) continue;
            sets.push_back({j * B});              // first value of block j
            sets.push_back({j * B + B - 1});      // last value of block j
          }
          std::vector<uint64_t> offs = pow2_offsets(B, false);
          for (uint64_t o : offs) {
            bool top = o == offs.back();
            if (T == 3 && !thorough && !top) continue;            // 3 workers (quick): the block ends and the highest such offset
            sets.push_back({o});                                   // inside the first block
            if ((!huge && T == 2) || top) sets.push_back({(K - 1) * B + o});  // inside the final block
          }
          if (offs.empty()) { sets.push_back({P}); sets.push_back({(K - 1) * B + P}); }
          sets.push_back({B - 1, (K - 1) * B});  // two true values in different blocks: either may be returned
        }
        for (auto& h : sets) out.push_back(one(mkbig(F_BLOCKS, U64, START, n, B, T, h), bound));
        // parallel_range_blocks_multi: control flow does not depend on the true-set; the result must be exactly the true set
        {
          std::vector<uint64_t> all;
          for (uint64_t j = 0; j < K; j++) {
            all.push_back(j * B);
            all.push_back(j * B + B - 1);
            for (uint64_t o : pow2_offsets(B, true)) all.push_back(j * B + o);
          }
          if (!reduced) out.push_back(one(mkbig(F_MULTI, U64, START, n, B, T, {}), bound));
          out.push_back(one(mkbig(F_MULTI, U64, START, n, B, T, all), bound));
          if (!huge && !reduced) out.push_back(one(mkbig(F_MULTI, U64, START, n, B, T, {n - 1}), bound));
        }
        // counting progress_fn (the caller polls the cursor while the workers are inside their blocks)
        if (T == 2 && K == 2 && (B == 0x101 || B == 0x1001 || B == 0x2001 || (thorough && B == 0x10001))) {
          for (int f : {F_BLOCKS, F_MULTI})
            for (auto& h : std::vector<std::vector<uint64_t>>{{}, {P}, {B + P}}) {
              if (f == F_MULTI && h.size() && h[0] >= B) continue;
              out.push_back(one(mkbig((Fn)f, U64, START, n, B, T, h, P_COUNTING)));
            }
        }
      }
    }
    // more workers than blocks
    if (B == 0x101 || B == 0x1001) {
      out.push_back(one(mkbig(F_BLOCKS, U64, START, 2 * B, B, 4, {}), thorough ? 3 : 2));
      out.push_back(one(mkbig(F_BLOCKS, U64, START, 2 * B, B, 4, {B + 0x80}), thorough ? 3 : 2));
      out.push_back(one(mkbig(F_MULTI, U64, START, 2 * B, B, 4, {0x7F, B + 0x80}), thorough ? 3 : 2));
    }
    // one block (the only block is the final block), several workers
    if (B == 0x1001 || B == 0x2001) {
      for (size_t T = 2; T <= 3; T++) {
        out.push_back(one(mkbig(F_BLOCKS, U64, START, B, B, T, {})));
        out.push_back(one(mkbig(F_BLOCKS, U64, START, B, B, T, {0x1000})));
        out.push_back(one(mkbig(F_MULTI, U64, START, B, B, T, {0xFFF, 0x1000, B - 1})));
      }
    }
  }
  // narrower and signed IntT: big blocks ending at the type maximum, starting at the type minimum, crossing zero
  struct TB { Ty ty; uint64_t B; };
  for (TB tb : {TB{U16, 0x1001}, TB{I16, 0x1001}, TB{U16, 0x2001}, TB{U32, 0x1001}, TB{I32, 0x1001}, TB{I64, 0x1001}, TB{U8, 0x7F}, TB{I8, 0x7F}, TB{U8, 0x40}, TB{I8, 0x40}}) {
    uint64_t B = tb.B, n = 2 * B;
    std::vector<uint64_t> starts = {ty_max(tb.ty) - n, ty_min(tb.ty)};
    if (ty_signed(tb.ty)) {
      // across zero inside the second block / ending at zero, where the type has room for it; else across zero in the first block
      for (int64_t cand : {-(int64_t)B - 5, -(int64_t)n, -(int64_t)(B / 2)})
        if (cand >= (int64_t)ty_min(tb.ty) && cand + (int64_t)n <= (int64_t)ty_max(tb.ty) && std::find(starts.begin(), starts.end(), (uint64_t)cand) == starts.end()) starts.push_back((uint64_t)cand);
    }
    for (uint64_t st : starts)
      for (size_t T = 2; T <= 2; T++) {
        uint64_t inner = B > 0x1000 ? 0x1000 : B / 2;
        out.push_back(one(mkbig(F_BLOCKS, tb.ty, st, n, B, T, {})));
        out.push_back(one(mkbig(F_BLOCKS, tb.ty, st, n, B, T, {inner})));
        out.push_back(one(mkbig(F_BLOCKS, tb.ty, st, n, B, T, {n - 1})));
        out.push_back(one(mkbig(F_MULTI, tb.ty, st, n, B, T, {0, inner, B - 1, B, B + inner, n - 1})));
      }
  }
  // parallel_range itself: every value is a claim (a weak-CAS loop), so the schedule count explodes with the range and the
  // larger ranges are explored under a preemption bound
  for (uint64_t n : {255ull, 256ull, 257ull, 65535ull, 65536ull, 65537ull}) {
    bool wide = n > 1000;
    for (size_t T = 1; T <= 2; T++) {
      // 1 worker is not "one schedule": the caller may take its step to join() between any two operations of the worker, which
      // gives O(n) schedules of O(n) steps; unbounded for n <= 257, the wide ranges run without preemptions (bound 0)
      int bound = wide ? 0 : T == 1 ? -1 : (thorough ? 2 : 1);
      std::vector<std::vector<uint64_t>> sets = {{}, {n - 1}};
      if (!wide) { sets.push_back({0x80}); if (n - 1 != 0xFE) sets.push_back({0xFE}); }
      else sets.push_back({0x1000});
      for (auto& h : sets) {
        for (int prog = 0; prog < 2; prog++) {
          if (prog && (wide || T == 1) && !(wide && T == 1 && h.empty())) continue;
          if (prog && !h.empty() && h[0] != n - 1) continue;
          for (Ty ty : {U64, U16, I32}) {
            if (ty == U16 && n > 65535) continue;
            if (ty != U64 && (prog || (h.size() && h[0] != n - 1))) continue;
            if (ty != U64 && wide && T == 2 && !thorough) continue;
            uint64_t st = ty == U64 ? START : ty == U16 ? 65535 - n : (uint64_t)0 - n / 2;
            out.push_back(one(mkbig(F_RANGE, ty, st, n, 0, T, h, prog ? P_COUNTING : P_NULL), bound));
          }
        }
      }
    }
  }
  return out;
}

// ---- running one family --------------------------------------------------------------------------------

struct ChildResult {
  vfs::ExploreStats st;
  std::string died;  // non-empty: the child did not finish normally
};

// Explores a configuration in a forked child and ships the statistics back through a pipe.
ChildResult explore_in_child(const Config& c, uint64_t max_sched) {
  ChildResult cr;
  int fds[2];
  if (pipe(fds) < 0) { cr.died = "pipe() failed"; return cr; }
  fflush(stdout);
  fflush(stderr);
  int errfd = memfd_create("c16-child-stderr", 0);
  pid_t p = fork();
  if (p == 0) {
    close(fds[0]);
    if (errfd >= 0) dup2(errfd, 2);  // the default progress_fn writes a line per poll to stderr; a sanitizer report ends up here too
    alarm(300);
    auto st = vfs::explore([&](const std::vector<int>& pf) { return run_cfg(c, pf); }, c.bound, max_sched, [] { return g_outcome; });
    std::string ch;
    for (int x : st.failing_choices) ch += std::to_string(x) + " ";
    std::string msg = vf::fmt("%llu %llu %llu %llu %d %llu %llu %llu\n", (unsigned long long)st.schedules, (unsigned long long)st.states, (unsigned long long)st.transitions,
        (unsigned long long)st.pruned, (int)st.complete, (unsigned long long)st.outcomes.size(), (unsigned long long)st.schedules_with_spurious, (unsigned long long)st.max_preemptions);
    msg += ch + "\n" + st.failure + "\n";
    size_t off = 0;
    while (off < msg.size()) {
      ssize_t w = write(fds[1], msg.data() + off, msg.size() - off);
      if (w <= 0) break;
      off += (size_t)w;
    }
    _exit(0);
  }
  close(fds[1]);
  std::string in;
  char buf[4096];
  for (;;) {
    ssize_t k = read(fds[0], buf, sizeof buf);
    if (k > 0) in.append(buf, (size_t)k);
    else if (k < 0 && errno == EINTR) continue;
    else break;
  }
  close(fds[0]);
  int status = 0;
  while (waitpid(p, &status, 0) < 0 && errno == EINTR) {}
  std::string errtxt;
  if (errfd >= 0) {
    off_t sz = lseek(errfd, 0, SEEK_END);
    off_t from = sz > 6000 ? sz - 6000 : 0;
    errtxt.resize((size_t)(sz - from));
    ssize_t got = pread(errfd, errtxt.data(), errtxt.size(), from);
    errtxt.resize(got > 0 ? (size_t)got : 0);
    close(errfd);
  }
  if (!(WIFEXITED(status) && WEXITSTATUS(status) == 0) || in.empty()) {
    std::string san;
    size_t e = errtxt.find("ERROR: ");
    if (e != std::string::npos) {
      // the sanitizer's headline and its first frames inside phosg
      san = errtxt.substr(e, errtxt.find('\n', e) - e);
      size_t pos = e;
      int frames = 0;
      while (frames < 3 && (pos = errtxt.find("\n    #", pos)) != std::string::npos) {
        size_t eol = errtxt.find('\n', pos + 1);
        std::string line = errtxt.substr(pos + 1, eol - pos - 1);
        size_t in_ = line.find(" in ");
        if (in_ != std::string::npos) san += " | " + line.substr(in_ + 4), frames++;
        pos = eol == std::string::npos ? errtxt.size() : eol - 1;
        if (eol == std::string::npos) break;
      }
      for (auto& ch : san) if ((unsigned char)ch < 32) ch = ' ';
      // addresses differ from run to run (ASLR): keep the description deterministic
      for (size_t i = 0; (i = san.find("0x", i)) != std::string::npos;) {
        size_t j = i + 2;
        while (j < san.size() && isxdigit((unsigned char)san[j])) j++;
        san.replace(i, j - i, "ADDR");
      }
    }
    if (!san.empty()) san = " :: " + san;
    if (WIFSIGNALED(status)) cr.died = vf::fmt("the process was killed by signal %d (%s) inside the call", WTERMSIG(status), strsignal(WTERMSIG(status))) + san;
    else cr.died = vf::fmt("the process ended abnormally inside the call (exit status %d; a sanitizer report or a fatal signal)", WIFEXITED(status) ? WEXITSTATUS(status) : -1) + san;
    return cr;
  }
  unsigned long long a[8] = {0};
  int complete = 1;
  size_t l1 = in.find('\n'), l2 = in.find('\n', l1 + 1);
  sscanf(in.c_str(), "%llu %llu %llu %llu %d %llu %llu %llu", &a[0], &a[1], &a[2], &a[3], &complete, &a[4], &a[5], &a[6]);
  cr.st.schedules = a[0]; cr.st.states = a[1]; cr.st.transitions = a[2]; cr.st.pruned = a[3]; cr.st.complete = complete != 0;
  cr.st.schedules_with_spurious = a[5]; cr.st.max_preemptions = a[6];
  for (unsigned long long i = 0; i < a[4]; i++) cr.st.outcomes.insert(std::to_string(i));
  std::string ch = in.substr(l1 + 1, l2 - l1 - 1);
  for (size_t i = 0; i < ch.size();) {
    size_t j = ch.find(' ', i);
    if (j == std::string::npos) break;
    cr.st.failing_choices.push_back(atoi(ch.substr(i, j - i).c_str()));
    i = j + 1;
  }
  cr.st.failure = in.substr(l2 + 1);
  while (!cr.st.failure.empty() && cr.st.failure.back() == '\n') cr.st.failure.pop_back();
  return cr;
}

// Rough cost estimate (grows like the number of interleavings).  Used only to ORDER the configurations, cheapest
// first: cases are dealt to the shards round-robin by index, so neighbours of similar cost spread the expensive
// configurations evenly over the shards, and the first failing case per key stays the simplest one.
uint64_t weight(const Config& c) {
  double w = 1;
  for (auto& cl : c.calls) {
    uint64_t T = cl.threads ? cl.threads : c.hc;
    bool valid = cl.fn == F_RANGE || (cl.len >= 0 && cl.block >= 1 && (uint64_t)cl.len % cl.block == 0);
    uint64_t K = !valid ? 0 : (cl.fn == F_RANGE ? cl.n() : cl.n() / cl.block);
    double wc = 1;
    if (cl.big && cl.fn == F_RANGE) K = K > 64 ? 64 : K;  // preemption-bounded
    for (uint64_t i = 0; i < T && i < 4; i++) wc *= (double)(K + 2 + (cl.progress ? 2 : 0));
    if (cl.big) wc *= 1.0 + (double)cl.n() / 64.0;  // every execution makes n callbacks
    w *= wc;
  }
  w *= 1 + 5 * c.spurious;
  if (w > 1e15) w = 1e15;
  return (uint64_t)w;
}

void run_family(vf::Run& r, std::vector<Config> cfgs, uint64_t default_max_sched) {
  uint64_t worst = 0, unbounded = 0, bounded = 0;
  std::stable_sort(cfgs.begin(), cfgs.end(), [](const Config& a, const Config& b) { return weight(a) < weight(b); });
  if (getenv("VF_C16_DUMP")) {
    for (size_t i = 0; i < cfgs.size(); i++) printf("%zu %s\n", i, cfgs[i].str().c_str());
    return;
  }
  for (auto& c : cfgs) {
    if (!r.take()) continue;
    const Call& first = c.calls[0];
    r.note(c.calls.size() > 1 ? "history" : fn_name[first.fn]);
    if (r.wants_desc()) r.desc(c.str());
    uint64_t max_sched = c.max_sched ? c.max_sched : default_max_sched;
    vfs::ExploreStats st;
    std::string died;
    if (c.in_child) {
      ChildResult cr = explore_in_child(c, max_sched);
      st = cr.st;
      died = cr.died;
      r.beat();
    } else {
      st = vfs::explore([&](const std::vector<int>& p) { r.beat(); return run_cfg(c, p); }, c.bound, max_sched, [] { return g_outcome; });
    }
    // (counters are summed over the shards by the supervisor, so maxima are reported as threshold counts)
    if (st.outcomes.size() > 1) r.counters["configs_with_more_than_one_outcome"]++;
    if (st.outcomes.size() >= 16) r.counters["configs_with_16_or_more_distinct_outcomes"]++;
    r.states += st.states;
    r.transitions += st.transitions;
    r.counters["schedules"] += st.schedules;
    r.counters["pruned_at_visited_state"] += st.pruned;
    if (c.spurious) {
      r.counters["schedules_in_configs_with_spurious_budget"] += st.schedules;
      r.counters["schedules_with_a_spurious_cas_failure"] += st.schedules_with_spurious;
      r.counters["states_in_configs_with_spurious_budget"] += st.states;
      r.counters["spurious_choice_points(states)"] += st.spurious_choice_points;
      if (st.max_spurious_in_one >= 1) r.counters["configs_where_some_schedule_had_1_or_more_spurious_failures"]++;
      if (st.max_spurious_in_one >= 2) r.counters["configs_where_some_schedule_had_2_spurious_failures"]++;
    } else {
      r.counters["schedules_in_configs_without_spurious_budget"] += st.schedules;
      r.counters["states_in_configs_without_spurious_budget"] += st.states;
    }
    if (st.schedules > worst) worst = st.schedules;
    if (getenv("VF_C16_STATS")) fprintf(stderr, "STATS %llu schedules %llu states :: %s\n", (unsigned long long)st.schedules, (unsigned long long)st.states, c.str().c_str());
    if (st.max_preemptions >= 8) r.counters["configs_with_a_schedule_of_8_or_more_preemptions"]++;
    if (st.schedules >= 1000000) r.counters["configs_with_1M_or_more_schedules"]++;
    (c.bound < 0 ? unbounded : bounded)++;
    bool nontrivial = false;
    for (auto& cl : c.calls) nontrivial |= (cl.threads != 1 && cl.n() >= 2);
    if (nontrivial) r.nontriv();
    // key = [history:]<function of the failing call>:<kind>; "history:" only when an earlier call precedes the failing one
    auto key_fn_for = [&](size_t k) { return (k > 0 ? std::string("history:") : std::string()) + fn_name[c.calls[k < c.calls.size() ? k : 0].fn]; };
    std::string key_fn = key_fn_for(0);
    if (!died.empty()) {
      // one defect, one key: a fault with the defaulted progress_fn argument is attributed to that function
      r.fail(first.progress == P_DEFAULT ? std::string("parallel_range_default_progress_fn:crash") : key_fn + ":crash", [&] { return c.str() + " :: " + died; });
      continue;
    }
    if (!st.complete && st.failure.empty()) { r.exhaustive = false; r.ok("schedule-cap-hit"); continue; }
    if (!st.failure.empty()) {
      std::string ch;
      for (int x : st.failing_choices) ch += std::to_string(x) + " ";
      bool engine = st.failure.rfind("ENGINE", 0) == 0;
      // replay the failing schedule twice: it must reproduce before it is reported
      bool abort_kind = st.failure.rfind("deadlock", 0) == 0 || st.failure.rfind("livelock", 0) == 0;
      bool leaves_fibers = st.failure.find("not joined") != std::string::npos || st.failure.find("joinable") != std::string::npos;
      bool reproduced = true;
      bool with_spurious = false;
      if (!engine && !abort_kind && !leaves_fibers && !c.in_child) {
        for (int k = 0; k < 2; k++) {
          std::string again = run_cfg(c, st.failing_choices);
          auto& x = vfs::Scheduler::get().ex;
          if (again.empty() && x.stale_atomic) again = st.failure.rfind("state carried", 0) == 0 ? st.failure : "stale";
          if (again.empty() && x.unjoined_destroyed) again = "a joinable thread object was destroyed (std::thread would call std::terminate)";
          if (again != st.failure) reproduced = false;
          with_spurious = x.spurious_injected > 0;
        }
      }
      // does the code under test still have parked (never resumed) worker fibers?  Only then the shard must stop.
      bool parked = false;
      {
        auto& S = vfs::Scheduler::get();
        for (size_t i = 1; i < S.nthreads(); i++) parked |= !S.finished((int)i);
      }
      std::string kind = engine ? "engine-divergence" : abort_kind ? st.failure.substr(0, 8) : !reproduced ? "engine-nonreproducible" :
          st.failure.find("state carried") != std::string::npos ? "state-carried-between-calls" :
          st.failure.find("outside") != std::string::npos ? "outside-range" : st.failure.find("twice") != std::string::npos ? "invoked-twice" :
          st.failure.find("instead of end_value") != std::string::npos ? "wrong-return-no-hit" : st.failure.find("did not return true") != std::string::npos ? "false-hit-returned" :
          st.failure.find("joinable") != std::string::npos || st.failure.find("not joined") != std::string::npos ? "not-joined" :
          st.failure.find("on a valid call") != std::string::npos ? "threw-on-valid-call" :
          st.failure.find("thread_num") != std::string::npos ? "thread-num" :
          st.failure.find("_multi") != std::string::npos ? "multi-result" : st.failure.find("invoked 0 times") != std::string::npos ? "value-skipped" : "other";
      if (with_spurious) kind += ":after-spurious-cas-failure";
      bool zero_workers = false;
      for (auto& cl : c.calls) zero_workers |= (cl.threads == 0 && c.hc == 0);
      if (zero_workers) kind += ":hardware_concurrency-0";
      size_t fc = (abort_kind || engine || c.in_child) ? 0 : g_fail_call;
      if (c.in_child && c.calls.size() == 1) fc = 0;
      std::string key = key_fn_for(fc) + ":" + kind;
      r.fail(key, [&] { return c.str() + " :: " + st.failure + vf::fmt(" :: after %llu schedules; failing schedule (choice index at each choice point) = [ ", (unsigned long long)st.schedules) + ch + "]"; });
      if (((abort_kind || kind.rfind("not-joined", 0) == 0) && parked) || engine) {
        // parked worker threads cannot be reclaimed: stop this shard here (reported as incomplete)
        r.exhaustive = false;
        r.finish_now();
      }
    } else {
      r.ok(st.schedules == 1 ? "single-schedule" : st.schedules < 100 ? "lt-100-schedules" : st.schedules < 10000 ? "lt-10k-schedules" : "ge-10k-schedules");
      if (!c.in_child && !g_class.empty()) r.counters["last-schedule-class:" + g_class]++;
    }
  }
  if (worst >= 2000000) r.notes.push_back(vf::fmt("%s shard %llu: largest configuration explored = %llu schedules", r.section.c_str(), (unsigned long long)r.shard, (unsigned long long)worst));
  r.counters["configs_unbounded"] += unbounded;
  r.counters["configs_preemption_bounded"] += bounded;
}

}  // namespace

VF_SECTION(interleavings, 16, 16, 300) {
  run_family(r, configs_base(r.thorough()), r.thorough() ? 3000000 : 400000);
  r.bound = r.thorough() ? "uint64_t, 3 functions x n<=4 x threads<=3 x all true-sets x dividing block sizes x progress on/off: all interleavings (no preemption bound) except 3 workers making 4 single-value claims (preemption bound 6; 5 with progress_fn)"
                         : "uint64_t: all interleavings for threads<=2 (n<=4) and threads=3 (n<=3; with progress_fn n=3: preemption bound 3); threads=3,n=4: preemption bound 2, no progress_fn";
}

VF_SECTION(types_bounds, 16, 16, 300) {
  run_family(r, configs_types(r.thorough()), r.thorough() ? 3000000 : 400000);
  r.bound = r.thorough() ? "IntT in {u,i}{8,16,32,64}: ranges of 1..4 values at type min / max / crossing zero / crossing the sign bit, block sizes 1..n+1 (valid and invalid), threads 1..3, all true-sets for n<=3; ranges crossing +-2^k (k=7..63); empty and reversed ranges with block sizes up to the type maximum; sequential ranges of 6/12/30 values (1 worker unbounded, 2 workers preemption bound 3); 4-5 workers on 0..2 values"
                         : "IntT in {u,i}{8,16,32,64}: ranges of 1..3 values at type min / max / crossing zero / crossing the sign bit, block sizes 1..n+1 (valid and invalid), threads 1..2 (3 for n<=2 in four types), true-sets {none, first, last, all, middle}; ranges crossing +-2^k (k=7..63); empty and reversed ranges with block sizes up to the type maximum; sequential ranges of 6/12/30 values (1 worker unbounded, 2 workers preemption bound 2); 4 workers on 0..1 values";
}

VF_SECTION(spurious_cas, 16, 16, 300) {
  run_family(r, configs_spurious(r.thorough()), r.thorough() ? 3000000 : 400000);
  r.bound = r.thorough() ? "every interleaving x every placement of <=1 spurious compare_exchange_weak failure: uint64_t n<=4, threads<=3 (<=3 claims for 3 workers, no preemption bound), all true-sets; <=2 failures: threads<=2, <=3 claims; signed/narrow types at the type boundaries"
                         : "every interleaving x every placement of <=1 spurious compare_exchange_weak failure: uint64_t n<=3, threads<=3 (<=2 claims for 3 workers), all true-sets; <=2 failures: threads<=2, <=2 claims; signed/narrow types at the type boundaries";
}

VF_SECTION(env_histories, 16, 16, 300) {
  run_family(r, configs_env(r.thorough()), r.thorough() ? 3000000 : 400000);
  r.bound = "num_threads=0 with hardware_concurrency() in {1,2,3,0}; defaulted progress_fn argument (4 IntT, start 0 / 5 / -2, 1-2 workers; explored in a child process); histories: all ordered pairs and A-B-A triples of 8 call shapes inside one execution (triples preemption-bounded in quick), pairs with a spurious CAS failure and default thread count; calls inside a catch handler and from a destructor during unwinding";
}

VF_SECTION(big_blocks, 16, 16, 600) {
  run_family(r, configs_big(r.thorough()), r.thorough() ? 3000000 : 400000);
  r.bound = r.thorough() ? "uint64_t, parallel_range_blocks / _multi: block sizes {0xFF,0x100,0x101,0xFFF,0x1000,0x1001,0x1FFF,0x2000,0x2001,0x4001,0xFFFF,0x10000,0x10001,0x20001} x 2..3 blocks x 2..3 workers x single hits at the first / last value of every block and at offsets 2^k-1,2^k,2^k+1 (k=8,12,16) in the first and final block, two hits in different blocks, no hit (_multi: no hit, last value, all offsets 2^k-1,2^k,2^k+1 of every block at once): ALL interleavings for 2 workers (every block size) and for 3 workers x 2 blocks of up to 0x4001 values; 3 workers x 2 blocks of 0x10001 at preemption bound 2 (three true-sets); 3 workers x 3 blocks (0x101, 0x1001, 0x2001, 0x4001; three true-sets) and 4 workers x 2 blocks at preemption bound 3; counting progress_fn (2 workers x 2 blocks, all interleavings); one block with 2..3 workers; 8/16/32/64-bit signed and unsigned IntT with blocks of 0x40..0x2001 values at the type minimum / maximum / across zero (all interleavings); parallel_range on 255/256/257 values (2 workers: preemption bound 2) and 65535/65536/65537 values (1 worker: all interleavings; 2 workers: preemption bound 0)"
                         : "uint64_t, parallel_range_blocks / _multi: block sizes {0xFF,0x100,0x101,0xFFF,0x1000,0x1001,0x2000,0x2001,0x10001} x 2..3 blocks x 2..3 workers x single hits at the first / last value of every block and at offsets 2^k-1,2^k,2^k+1 (k=8,12,16) in the first and final block, two hits in different blocks, no hit (_multi: no hit, last value, all offsets 2^k-1,2^k,2^k+1 of every block at once): ALL interleavings for 2 workers (any block size; 0x10001: 2 blocks) and for 3 workers x 2 blocks of 0x101 / 0x1001 values (hits at the block ends and the highest 2^k-1 offset); preemption bound 2 for 3 workers x 2 blocks of 0x2001, 3 workers x 3 blocks (0x101, 0x1001, 0x2001; three true-sets) and 4 workers x 2 blocks; counting progress_fn (2 workers x 2 blocks, all interleavings); one block with 2..3 workers; 8/16/32/64-bit signed and unsigned IntT with blocks of 0x40..0x2001 values at the type minimum / maximum / across zero (2 workers, all interleavings); parallel_range on 255/256/257 values (1 worker: all interleavings; 2 workers: preemption bound 1) and 65535/65536/65537 values (1 worker: all interleavings; 2 workers: preemption bound 0)";
}

VF_MAIN()
