// C16 — parallel_range: exactly-once visits and a true hit reported under all schedules.
// E-SCHED: the unmodified templates of Tools.hh are compiled against scheduler-controlled shims
// (std::atomic -> vfs::Atomic, std::thread -> vfs::Thread, usleep -> yield) by macro retargeting
// in this TU only; every interleaving of the scheduling points is enumerated by DFS with
// visited-state pruning (engine/sched.hh).
#include <stdint.h>
#include <unistd.h>

#include <atomic>
#include <functional>
#include <stdexcept>
#include <string>
#include <system_error>
#include <thread>
#include <unordered_set>
#include <vector>

// everything Tools.hh includes is included *before* the retargeting macros
#include "Encoding.hh"
#include "Strings.hh"
#include "Time.hh"
#include "sched.hh"
#include "vf.hh"

namespace std {
template <class T>
using vf_atomic = ::vfs::Atomic<T>;
using vf_thread = ::vfs::Thread;
}  // namespace std
static inline int vf_usleep(unsigned) { return vfs::vf_usleep_impl(); }

#define atomic vf_atomic
#define thread vf_thread
#define usleep vf_usleep
#include "Tools.hh"
#undef atomic
#undef thread
#undef usleep

namespace {

enum Fn { F_RANGE, F_BLOCKS, F_MULTI };
const char* fn_name[] = {"parallel_range", "parallel_range_blocks", "parallel_range_blocks_multi"};

struct Config {
  Fn fn;
  int width;        // 64 or 8 (IntT = uint64_t / uint8_t)
  uint64_t start, n;
  uint64_t block;
  size_t threads;   // 0 = default (hardware_concurrency shim = 2)
  uint32_t truth;   // bit i: callback returns true for start+i
  bool progress;
  int bound;        // preemption bound, -1 = none
  bool keep_poll_history = false;  // true: do not merge states that differ only in the caller's poll-loop history
  std::string str() const {
    return vf::fmt("%s<uint%d_t>(range=[%llu,%llu), block=%llu, threads=%zu, true_set_mask=0x%x, progress_fn=%s, preemption_bound=%d)", fn_name[fn], width,
        (unsigned long long)start, (unsigned long long)(start + n), (unsigned long long)block, threads, truth, progress ? (keep_poll_history ? "counting(unmerged poll history)" : "counting") : "nullptr", bound);
  }
};

struct Obs { uint64_t value; size_t thread_num; };

std::string g_outcome;  // observable outcome of the last execution (order of callback invocations + result)

template <class IntT>
std::string run_once(const Config& c, const std::vector<int>& prefix) {
  vfs::Scheduler& S = vfs::Scheduler::get();
  std::vector<Obs> log;
  S.begin(prefix);
  // The caller's progress loop is `while (load() < end) { progress_fn(); usleep(); }`: nothing but
  // the value just loaded survives an iteration, so its observation history may be forgotten at
  // each usleep return (states merged have identical futures).  keep_poll_history configurations
  // run un-merged as a cross-check of this argument.
  S.reset_obs_on_yield = !c.keep_poll_history;
  S.extra_state = [&]() {
    uint64_t h = 0;
    for (auto& o : log) {
      uint64_t x = (o.value * 0x9e3779b97f4a7c15ull) ^ ((o.thread_num + 1) * 0xc2b2ae3d27d4eb4full);
      x ^= x >> 32;
      h += x * 0xff51afd7ed558ccdull;  // commutative: the oracle reads the log as a multiset
    }
    return h;
  };
  IntT start = (IntT)c.start, end = (IntT)(c.start + c.n);
  std::function<bool(IntT, size_t)> cb = [&](IntT v, size_t tn) {
    log.push_back({(uint64_t)v, tn});
    uint64_t off = (uint64_t)v - c.start;
    return (uint64_t)v >= c.start && off < c.n && ((c.truth >> off) & 1);
  };
  uint64_t progress_calls = 0;
  std::function<void(IntT, IntT, IntT, uint64_t)> prog = nullptr;
  if (c.progress) prog = [&](IntT, IntT, IntT, uint64_t) { progress_calls++; };
  IntT ret = end;
  std::unordered_set<IntT> retset;
  std::string thrown;
  try {
    if (c.fn == F_RANGE) ret = phosg::parallel_range<IntT>(cb, start, end, c.threads, prog);
    else if (c.fn == F_BLOCKS) ret = phosg::parallel_range_blocks<IntT>(cb, start, end, (IntT)c.block, c.threads, prog);
    else retset = phosg::parallel_range_blocks_multi<IntT>(cb, start, end, (IntT)c.block, c.threads, prog);
  } catch (const vfs::AbortExecution&) {
  } catch (const std::exception& e) {
    thrown = e.what();
  }
  bool workers_done = true;
  for (size_t i = 1; i < S.nthreads(); i++) workers_done &= S.finished((int)i);
  S.extra_state = nullptr;
  if (S.was_aborted()) return "";  // deadlock/livelock/divergence flags are reported by the explorer
  // A worker that outlives the call would touch the call's destroyed locals (and std::thread's
  // destructor would have called std::terminate): report without running it any further.
  if (!workers_done) return "a worker thread was still running when the call returned (not joined)";
  if (S.ex.unjoined_destroyed) return "a joinable thread object was destroyed (std::thread would call std::terminate)";
  S.end();
  if (!thrown.empty()) return "threw " + thrown;
  size_t nthreads = c.threads ? c.threads : 2;
  g_outcome.clear();
  for (auto& o : log) g_outcome += vf::fmt("%llu@%zu ", (unsigned long long)o.value, o.thread_num);
  g_outcome += vf::fmt("-> %llu", (unsigned long long)ret);
  std::vector<int> count(c.n, 0);
  for (auto& o : log) {
    if (o.value < c.start || o.value - c.start >= c.n) return vf::fmt("callback invoked for %llu, outside [%llu,%llu)", (unsigned long long)o.value, (unsigned long long)c.start, (unsigned long long)(c.start + c.n));
    if (o.thread_num >= nthreads) return vf::fmt("callback got thread_num %zu with %zu threads", o.thread_num, nthreads);
    if (++count[o.value - c.start] > 1) return vf::fmt("callback invoked twice for %llu", (unsigned long long)o.value);
  }
  bool any_true = c.truth != 0;
  if (c.fn == F_MULTI) {
    for (uint64_t i = 0; i < c.n; i++)
      if (count[i] != 1) return vf::fmt("value %llu invoked %d times (all values must be visited exactly once by _multi)", (unsigned long long)(c.start + i), count[i]);
    for (uint64_t i = 0; i < c.n; i++) {
      bool in = retset.count((IntT)(c.start + i)) != 0;
      if (in != (bool)((c.truth >> i) & 1)) return vf::fmt("_multi result %s %llu", in ? "contains a value whose callback returned false:" : "misses a true value:", (unsigned long long)(c.start + i));
    }
    if (retset.size() != (size_t)__builtin_popcount(c.truth)) return "_multi result contains values outside the range";
    return "";
  }
  if (!any_true) {
    for (uint64_t i = 0; i < c.n; i++)
      if (count[i] != 1) return vf::fmt("callback never true, but value %llu was invoked %d times", (unsigned long long)(c.start + i), count[i]);
    if (ret != end) return vf::fmt("callback never true, but the call returned %llu instead of end_value %llu", (unsigned long long)ret, (unsigned long long)end);
    return "";
  }
  uint64_t off = (uint64_t)ret - c.start;
  if ((uint64_t)ret < c.start || off >= c.n || !((c.truth >> off) & 1))
    return vf::fmt("some callback returned true, but the call returned %llu, for which the callback did not return true", (unsigned long long)ret);
  if (count[off] != 1) return vf::fmt("returned value %llu was never passed to the callback", (unsigned long long)ret);
  return "";
}

std::string run_cfg(const Config& c, const std::vector<int>& prefix) {
  return c.width == 8 ? run_once<uint8_t>(c, prefix) : run_once<uint64_t>(c, prefix);
}

std::vector<Config> configs(bool thorough) {
  std::vector<Config> out;
  for (int f = 0; f < 3; f++) {
    for (uint64_t n = 0; n <= 4; n++) {
      std::vector<uint64_t> blocks = {0};
      if (f != F_RANGE) {
        blocks.clear();
        if (n == 0) blocks = {1, 2};
        for (uint64_t b = 1; b <= n; b++) if (n % b == 0) blocks.push_back(b);
      }
      for (uint64_t b : blocks) {
        for (size_t t = 1; t <= 3; t++) {
          for (uint32_t truth = 0; truth < (1u << n); truth++) {
            for (int prog = 0; prog < 2; prog++) {
              for (uint64_t s : {5ull, 0ull}) {
                // start 0 adds nothing to the interleaving structure; it is kept for the
                // smallest ranges only (where `if (current_value)`-style zero tests would show)
                if (s == 0 && (n > 2 || t > 2) && !thorough) continue;
                int bound = -1;
                // quick: the largest configurations are preemption-bounded
                if (!thorough) {
                  if (t == 3 && n >= 4) bound = 2;
                  if (t == 3 && n == 3 && prog) bound = 3;
                  if (t == 3 && n >= 4 && prog) continue;
                  if (t == 3 && n >= 4 && f == F_MULTI && __builtin_popcount(truth) != 1 && truth != 0) continue;
                }
                out.push_back({(Fn)f, 64, s, n, b, t, truth, (bool)prog, bound});
                // cross-check of the poll-loop canonicalisation: the same configuration un-merged
                if (prog && s == 5 && t <= 2 && n <= 3 && (thorough || n <= 2)) out.push_back({(Fn)f, 64, s, n, b, t, truth, true, bound, true});
              }
            }
          }
        }
      }
    }
  }
  // default thread count (0 -> hardware_concurrency, shimmed to 2)
  out.push_back({F_RANGE, 64, 5, 2, 0, 0, 0, false, -1});
  out.push_back({F_BLOCKS, 64, 5, 2, 1, 0, 2, false, -1});
  // near the top of the value type: the cursor overshoot past end_value must not wrap into the range
  for (size_t t = 1; t <= 3; t++) {
    out.push_back({F_RANGE, 8, 252, 3, 0, t, 0, false, -1});
    out.push_back({F_RANGE, 8, 253, 2, 0, t, 1, false, -1});
    out.push_back({F_BLOCKS, 8, 251, 4, 2, t, 0, false, -1});
    out.push_back({F_BLOCKS, 8, 252, 3, 1, t, 0, false, -1});
    out.push_back({F_MULTI, 8, 252, 3, 1, t, 5, false, -1});
    out.push_back({F_RANGE, 8, 0, 3, 0, t, 0, false, -1});
  }
  return out;
}

}  // namespace

VF_SECTION(interleavings, 16, 16, 300) {
  auto cfgs = configs(r.thorough());
  uint64_t max_sched = r.thorough() ? 3000000 : 400000;
  uint64_t worst = 0, unbounded = 0, bounded = 0;
  for (auto& c : cfgs) {
    if (!r.take()) continue;
    r.note(fn_name[c.fn]);
    if (r.wants_desc()) r.desc(c.str());
    auto st = vfs::explore([&](const std::vector<int>& p) { r.beat(); return run_cfg(c, p); }, c.bound, max_sched, [] { return g_outcome; });
    if (st.outcomes.size() > r.counters["max_distinct_outcomes_one_config"]) r.counters["max_distinct_outcomes_one_config"] = st.outcomes.size();
    if (st.outcomes.size() > 1) r.counters["configs_with_more_than_one_outcome"]++;
    r.states += st.states;
    r.transitions += st.transitions;
    r.counters["schedules"] += st.schedules;
    r.counters["pruned_at_visited_state"] += st.pruned;
    if (st.schedules > worst) worst = st.schedules;
    if (getenv("VF_C16_STATS")) fprintf(stderr, "STATS %llu schedules %llu states :: %s\n", (unsigned long long)st.schedules, (unsigned long long)st.states, c.str().c_str());
    if (st.max_preemptions > r.counters["max_preemptions_seen"]) r.counters["max_preemptions_seen"] = st.max_preemptions;
    (c.bound < 0 ? unbounded : bounded)++;
    if (!st.complete && st.failure.empty()) { r.exhaustive = false; r.ok("schedule-cap-hit"); }
    if (c.threads != 1 && c.n >= 2) r.nontriv();
    if (!st.failure.empty()) {
      std::string ch;
      for (int x : st.failing_choices) ch += std::to_string(x) + " ";
      bool engine = st.failure.rfind("ENGINE", 0) == 0;
      // replay the failing schedule twice: it must reproduce before it is reported
      bool abort_kind = st.failure.rfind("deadlock", 0) == 0 || st.failure.rfind("livelock", 0) == 0;
      bool leaves_fibers = st.failure.find("not joined") != std::string::npos || st.failure.find("joinable") != std::string::npos;
      bool reproduced = true;
      if (!engine && !abort_kind && !leaves_fibers) {
        for (int k = 0; k < 2; k++) {
          std::string again = run_cfg(c, st.failing_choices);
          auto& x = vfs::Scheduler::get().ex;
          if (again.empty() && x.unjoined_destroyed) again = "a joinable thread object was destroyed (std::thread would call std::terminate)";
          if (again != st.failure) reproduced = false;
        }
      }
      std::string kind = engine ? "engine-divergence" : abort_kind ? st.failure.substr(0, 8) : !reproduced ? "engine-nonreproducible" :
          st.failure.find("outside") != std::string::npos ? "outside-range" : st.failure.find("twice") != std::string::npos ? "invoked-twice" :
          st.failure.find("instead of end_value") != std::string::npos ? "wrong-return-no-hit" : st.failure.find("did not return true") != std::string::npos ? "false-hit-returned" :
          st.failure.find("joinable") != std::string::npos || st.failure.find("not joined") != std::string::npos ? "not-joined" :
          st.failure.find("_multi") != std::string::npos ? "multi-result" : st.failure.find("invoked 0 times") != std::string::npos ? "value-skipped" : "other";
      std::string key = std::string(fn_name[c.fn]) + (c.width == 8 ? "<uint8>" : "") + ":" + kind;
      r.fail(key, [&] { return c.str() + " :: " + st.failure + vf::fmt(" :: after %llu schedules; failing schedule (choice index at each choice point) = [ ", (unsigned long long)st.schedules) + ch + "]"; });
      if (abort_kind || engine || kind == "not-joined") {
        // parked worker threads cannot be reclaimed: stop this shard here (reported as incomplete)
        r.exhaustive = false;
        r.finish_now();
      }
    } else r.ok(st.schedules == 1 ? "single-schedule" : st.schedules < 100 ? "lt-100-schedules" : st.schedules < 10000 ? "lt-10k-schedules" : "ge-10k-schedules");
  }
  r.counters["max_schedules_one_config"] = worst;
  r.counters["configs_unbounded"] = unbounded;
  r.counters["configs_preemption_bounded"] = bounded;
  r.bound = r.thorough() ? "all interleavings (no preemption bound) for every configuration: 3 functions x n<=4 x threads<=3 x all true-sets x block sizes x progress on/off; uint8 top-of-range configs"
                         : "all interleavings for threads<=2 (n<=4) and threads=3 (n<=3; with progress_fn n=3: preemption bound 3); threads=3,n=4: preemption bound 2, no progress_fn; uint8 top-of-range configs";
}

VF_MAIN()
