// C18 — reference models and evaluate-back oracles shared by all sections of harness/C18.cc.
// Every oracle is a function (arguments) -> Res that executes the REAL phosg function once and compares
// it with exact integer arithmetic; it reports nothing itself, so that the same oracle can be used for a
// single call (sweep sections) and for every call of a history (hist_* / mixed / context sections).
#pragma once
#include <errno.h>
#include <stdint.h>
#include <string.h>
#include <sys/time.h>
#include <time.h>

#include <functional>
#include <string>
#include <pthread.h>
#include <vector>

#include "Strings.hh"
#include "Time.hh"
#include "vf.hh"

typedef unsigned __int128 u128;
typedef __int128 i128;

namespace c18 {

struct Fail { std::string key, desc; };
struct Res {
  std::vector<Fail> fails;
  std::string cls;
  void fail(const std::string& k, const std::string& d) { fails.push_back({k, d}); }
  bool good() const { return fails.empty(); }
};

inline void report(vf::Run& r, const Res& res) {
  for (const Fail& f : res.fails) r.fails(f.key, f.desc);
  if (res.fails.empty()) r.ok(res.cls);
}

inline std::string u128s(u128 u) {
  if (u == 0) return "0";
  std::string s;
  while (u) { s.insert(s.begin(), (char)('0' + (int)(u % 10))); u /= 10; }
  return s;
}
inline u128 pow10u(unsigned k) {
  u128 v = 1;
  while (k--) v *= 10;
  return v;
}
inline u128 absdiff(u128 a, u128 b) { return a > b ? a - b : b - a; }

// ---- format_duration ---------------------------------------------------------------------------------
struct DurParse {
  bool wellformed = false;
  size_t nfields = 0;
  bool padded = true;       // every field after the first has exactly two integer digits
  size_t frac_digits = 0;   // as printed
  size_t used_digits = 0;   // min(frac_digits, 18): digits that went into total_scaled
  bool has_point = false;
  u128 total_scaled = 0;    // value in units of 10^-used_digits seconds (further digits truncated)
  uint64_t last_int = 0;    // integer part of the seconds field
};

inline DurParse parse_duration(const std::string& t) {
  DurParse p;
  std::vector<std::string> f(1);
  for (char c : t) {
    if (c == ':') f.emplace_back();
    else f.back().push_back(c);
  }
  if (f.size() > 4) return p;
  p.nfields = f.size();
  static const uint64_t unit[4] = {1, 60, 3600, 86400};
  u128 secs = 0, frac = 0, scale = 1;
  for (size_t i = 0; i < f.size(); i++) {
    std::string ip = f[i], fp;
    bool last = i + 1 == f.size();
    size_t dot = ip.find('.');
    if (dot != std::string::npos) {
      if (!last) return p;
      fp = ip.substr(dot + 1);
      ip = ip.substr(0, dot);
      p.has_point = true;
      if (fp.empty()) return p;
    }
    if (ip.empty() || ip.size() > 20 || fp.size() > 300) return p;
    for (char c : ip) if (c < '0' || c > '9') return p;
    for (char c : fp) if (c < '0' || c > '9') return p;
    if (i > 0 && ip.size() != 2) p.padded = false;
    u128 v = 0;
    for (char c : ip) v = v * 10 + (unsigned)(c - '0');
    secs += v * unit[f.size() - 1 - i];
    if (last) {
      p.frac_digits = fp.size();
      p.used_digits = fp.size() < 18 ? fp.size() : 18;
      p.last_int = (uint64_t)v;
      for (size_t j = 0; j < p.used_digits; j++) { frac = frac * 10 + (unsigned)(fp[j] - '0'); scale *= 10; }
    }
  }
  p.total_scaled = secs * scale + frac;
  p.wellformed = true;
  return p;
}

// p in -128..127 as passed to the library; defaulted = the call leaves the second argument out.
inline Res duration_eval(uint64_t u, int p, bool defaulted = false) {
  Res res;
  std::string text, what;
  std::string call = defaulted ? vf::fmt("format_duration(%llu)", (unsigned long long)u) : vf::fmt("format_duration(%llu, %d)", (unsigned long long)u, p);
  std::string oc = vf::outcome([&] { text = defaulted ? phosg::format_duration(u) : phosg::format_duration(u, (int8_t)p); }, &what);
  if (defaulted) p = -1;
  if (oc != "ok") {
    res.fail("format_duration:throws", call + " threw " + oc + " (" + what + "); the statement says it never throws");
    return res;
  }
  DurParse d = parse_duration(text);
  std::string ctx = call + " = " + vf::show(text);
  if (!d.wellformed) { res.fail("format_duration:not-[d:][h:][m:]s[.f]", ctx); return res; }
  if (!d.padded) res.fail("format_duration:inner-field-not-zero-padded", ctx + ": every field after the first must have exactly two integer digits");
  if (p >= 0 && (d.frac_digits != (size_t)p || d.has_point != (p > 0))) res.fail("format_duration:wrong-number-of-fraction-digits", ctx + vf::fmt(": %zu fraction digits printed", d.frac_digits));
  unsigned f = (unsigned)d.frac_digits, g = (unsigned)d.used_digits;
  bool differs;
  if (f <= 6) {
    // evaluates back to the input rounded at the printed precision: |text - u| <= half a unit of the last printed
    // place (exact integer arithmetic; ties may go either way)
    differs = absdiff(d.total_scaled * pow10u(6 - f), u) * 2 > pow10u(6 - f);
  } else {
    // more than six printed digits: rounding an exact microsecond count at that precision gives the count itself.
    // Demanded only up to 1 ns (binary floating-point noise of a sub-minute seconds value is ~1e-14 s) plus the
    // truncation of digits beyond the 18th.
    u128 tol = (g >= 9 ? pow10u(g - 9) : 1) + 1;
    differs = absdiff(d.total_scaled, (u128)u * pow10u(g - 6)) > tol;
  }
  if (differs) res.fail("format_duration:value-differs", ctx + vf::fmt(" evaluates to %s x 10^-%u s, input is %llu us", u128s(d.total_scaled).c_str(), g, (unsigned long long)u));
  if (res.good()) {
    bool carried = d.nfields > 1 && d.last_int >= 60;
    res.cls = vf::fmt("%zu field%s%s%s", d.nfields, d.nfields > 1 ? "s" : "", p < 0 ? ", default precision" : p == 0 ? ", no fraction" : p <= 6 ? ", fraction" : ", fraction of more than 6 digits (1 ns tolerance)", carried ? ", seconds field rounded up to 60" : "");
  }
  return res;
}

// ---- calendar reference ------------------------------------------------------------------------------
inline bool is_leap(int64_t y) { return (y % 4 == 0) && (y % 100 != 0 || y % 400 == 0); }
inline int days_in_month(int64_t y, int m) {
  static const int dm[12] = {31, 28, 31, 30, 31, 30, 31, 31, 30, 31, 30, 31};
  return (m == 2 && is_leap(y)) ? 29 : dm[m - 1];
}
// closed-form civil-from-days (era arithmetic); cross-checked against the day-by-day odometer (time_days) and
// against civil_by_counting (everywhere else)
inline void civil_from_days(int64_t z, int64_t& y, int& m, int& d) {
  z += 719468;
  int64_t era = (z >= 0 ? z : z - 146096) / 146097;
  unsigned doe = (unsigned)(z - era * 146097);
  unsigned yoe = (doe - doe / 1460 + doe / 36524 - doe / 146096) / 365;
  int64_t yy = (int64_t)yoe + era * 400;
  unsigned doy = doe - (365 * yoe + yoe / 4 - yoe / 100);
  unsigned mp = (5 * doy + 2) / 153;
  d = (int)(doy - (153 * mp + 2) / 5 + 1);
  m = (int)(mp < 10 ? mp + 3 : mp - 9);
  y = yy + (m <= 2);
}
// independent of the above: whole 400-year cycles (146097 days each) are skipped, the rest is counted year by
// year and month by month with the leap rule
inline void civil_by_counting(int64_t day, int64_t& y, int& m, int& d) {
  int64_t cycles = day / 146097;
  int64_t rem = day % 146097;
  y = 1970 + 400 * cycles;
  for (;;) { int64_t n = is_leap(y) ? 366 : 365; if (rem < n) break; rem -= n; y++; }
  m = 1;
  for (;;) { int n = days_in_month(y, m); if (rem < n) break; rem -= n; m++; }
  d = (int)rem + 1;
}
inline int64_t days_from_civil_by_counting(int y, int m, int d) {
  int64_t n = 0;
  for (int yy = 1970; yy < y; yy++) n += is_leap(yy) ? 366 : 365;
  for (int mm = 1; mm < m; mm++) n += days_in_month(y, mm);
  return n + d - 1;
}
inline std::string ref_time(int64_t y, int mo, int d, uint64_t sec_of_day, uint32_t usec) {
  return vf::fmt("%04lld-%02d-%02d %02u:%02u:%02u.%06u", (long long)y, mo, d, (unsigned)(sec_of_day / 3600), (unsigned)(sec_of_day / 60 % 60), (unsigned)(sec_of_day % 60), usec);
}
// reference text for any microsecond timestamp; *agree is cleared when the two calendar references differ
inline std::string ref_time_of(uint64_t t, bool* agree = nullptr) {
  uint64_t secs = t / 1000000;
  int64_t day = (int64_t)(secs / 86400);
  int64_t y, y2;
  int m, d, m2, d2;
  civil_from_days(day, y, m, d);
  civil_by_counting(day, y2, m2, d2);
  if (agree && (y != y2 || m != m2 || d != d2)) *agree = false;
  return ref_time(y, m, d, secs % 86400, (uint32_t)(t % 1000000));
}

const int64_t LAST_DAY = 2932896;  // 9999-12-31 as days since 1970-01-01

inline Res time_eval(uint64_t t, const std::string& want, const char* cls = "format_time as the calendar reference") {
  Res res;
  std::string got, what;
  std::string oc = vf::outcome([&] { got = phosg::format_time(t); }, &what);
  if (oc != "ok") res.fail("format_time:throws", vf::fmt("format_time(%llu) threw %s (%s)", (unsigned long long)t, oc.c_str(), what.c_str()));
  else if (got != want) res.fail("format_time:wrong-text", vf::fmt("format_time(%llu) = ", (unsigned long long)t) + vf::show(got) + ", UTC calendar arithmetic gives " + vf::show(want));
  else res.cls = cls;
  return res;
}
inline Res time_eval(uint64_t t) {
  bool agree = true;
  std::string want = ref_time_of(t, &agree);
  Res res = time_eval(t, want, t / 1000000 / 86400 > (uint64_t)LAST_DAY ? "format_time as the calendar reference, year > 9999" : "format_time as the calendar reference");
  if (!agree) res.fail("harness:calendar-references-disagree", vf::fmt("t=%llu: closed form and counting disagree", (unsigned long long)t));
  return res;
}

// The process time zone must not matter (format_time is UTC).  POSIX TZ strings need no tzdata.
const char* const TZS[] = {
    "VFT-05:30",                    // 5:30 east, no DST
    "VFS8VFD,M3.2.0,M11.1.0",       // 8 h west, northern DST (the global `timezone` is wrong by 1 h in summer)
    "VFA-10VFB,M10.1.0,M4.1.0/3",   // 10 h east, southern DST
    "UTC0",
    "VFE-14",
};
inline void set_tz(int i) {
  setenv("TZ", TZS[i], 1);
  tzset();
}

// ---- sizes -------------------------------------------------------------------------------------------
const char UNIT_LETTERS[] = "KMGTPE";
inline u128 unit_of(int k) { return (u128)1 << (10 * k); }  // k=0: bytes

struct SizeText {  // "<int>.<ff> <U>B"
  bool ok = false;
  u128 hundredths = 0;
  int k = 0;
};
inline SizeText parse_unit_text(const std::string& s) {
  SizeText t;
  size_t i = 0;
  u128 ip = 0;
  size_t nd = 0;
  while (i < s.size() && s[i] >= '0' && s[i] <= '9') { ip = ip * 10 + (unsigned)(s[i] - '0'); i++; nd++; }
  if (nd == 0 || nd > 8 || i >= s.size() || s[i] != '.') return t;
  i++;
  if (i + 2 > s.size() || s[i] < '0' || s[i] > '9' || s[i + 1] < '0' || s[i + 1] > '9') return t;
  unsigned ff = (unsigned)(s[i] - '0') * 10 + (unsigned)(s[i + 1] - '0');
  i += 2;
  if (i + 3 != s.size() || s[i] != ' ' || s[i + 2] != 'B') return t;
  const char* u = strchr(UNIT_LETTERS, s[i + 1]);
  if (!u || !s[i + 1]) return t;
  t.k = (int)(u - UNIT_LETTERS) + 1;
  t.hundredths = ip * 100 + ff;
  t.ok = true;
  return t;
}

// |hundredths*unit/100 - s| <= 0.005*unit + 2^-23*s + 1   (all scaled by 100, exact)
inline bool size_close(u128 hundredths, int k, uint64_t s) {
  return absdiff(hundredths * unit_of(k), (u128)s * 100) <= unit_of(k) / 2 + 100 * ((u128)s >> 23) + 100;
}

// Splits a format_size text into the exact byte count (if present) and the unit part (if present).
struct SizeForm {
  bool ok = false, has_bytes = false, has_unit = false;
  std::string unit_part;
};
inline SizeForm split_size_text(const std::string& text, uint64_t s) {
  SizeForm f;
  std::string want = std::to_string(s) + " bytes";
  if (text.compare(0, want.size(), want) == 0) {
    f.has_bytes = true;
    std::string rest = text.substr(want.size());
    if (rest.empty()) { f.ok = true; return f; }
    if (rest.size() < 4 || rest.compare(0, 2, " (") != 0 || rest.back() != ')') return f;
    f.unit_part = rest.substr(2, rest.size() - 3);
    f.has_unit = true;
    f.ok = true;
    return f;
  }
  f.unit_part = text;
  f.has_unit = true;
  f.ok = true;
  return f;
}

// ib: 0 = false, 1 = true, 2 = argument left out (either form is accepted, decided from the text)
inline Res size_eval(uint64_t s, int ib) {
  Res res;
  std::string text;
  std::string call = ib == 2 ? vf::fmt("format_size(%llu)", (unsigned long long)s) : vf::fmt("format_size(%llu, %s)", (unsigned long long)s, ib ? "true" : "false");
  auto fmt_again = [&](uint64_t v, std::string& out) { return vf::outcome([&] { out = ib == 2 ? phosg::format_size(v) : phosg::format_size(v, ib != 0); }); };
  std::string oc = fmt_again(s, text);
  std::string ctx = call + " = " + vf::show(text);
  if (oc != "ok") { res.fail("format_size:throws", call + " threw " + oc); return res; }
  SizeForm form = split_size_text(text, s);
  if (!form.ok) { res.fail("format_size:bad-format", ctx); return res; }
  if (s < 1024 || ib == 1) {
    if (!form.has_bytes) { res.fail("format_size:byte-count-not-exact", ctx); return res; }
  }
  if (s < 1024 ? form.has_unit : !form.has_unit) { res.fail("format_size:bad-format", ctx); return res; }
  if (s >= 1024 && ib == 0 && form.has_bytes) { res.fail("format_size:bad-format", ctx); return res; }
  uint64_t back = 0;
  oc = vf::outcome([&] { back = phosg::parse_size(text.c_str()); });
  if (oc != "ok") { res.fail("parse_size:throws", ctx + "; parse_size threw " + oc); return res; }
  res.cls = "bytes form: exact";
  // the leading byte count is what parse_size must read back, exactly
  if (form.has_bytes && back != s) res.fail("parse_size(format_size):byte-count-differs", ctx + vf::fmt("; parse_size gives %llu", (unsigned long long)back));
  if (s >= 1024) {
    SizeText st = parse_unit_text(form.unit_part);
    if (!st.ok) { res.fail("format_size:bad-format", ctx); return res; }
    if (!size_close(st.hundredths, st.k, s)) res.fail("format_size:value-differs-beyond-printed-precision", ctx + vf::fmt(" stands for %s/100 x 2^%d bytes", u128s(st.hundredths).c_str(), 10 * st.k));
    res.cls = form.has_bytes ? "bytes (unit) form: byte count exact, unit part within precision" : "unit form within printed precision";
    u128 exact100 = st.hundredths * unit_of(st.k);  // 100 x the value the text stands for
    bool representable = exact100 / 100 <= (u128)UINT64_MAX;
    if (!form.has_bytes) {
      if (!representable) {
        res.cls = "unit form: printed value not representable in size_t (round trip not compared)";
      } else {
        // parse_size reads the text it is given: within 1 byte (+ double accumulation noise) of what the text says
        if (absdiff((u128)back * 100, exact100) > 200 + (exact100 >> 40)) res.fail("parse_size:misreads-text", ctx + vf::fmt("; parse_size gives %llu, the text stands for %s/100 bytes", (unsigned long long)back, u128s(exact100).c_str()));
        // and the round trip agrees with the original size to the printed precision
        u128 d2 = back > s ? (u128)(back - s) : (u128)(s - back);
        if (d2 * 100 > unit_of(st.k) / 2 + 100 * ((u128)s >> 23) + 200) res.fail("parse_size(format_size):differs-beyond-printed-precision", ctx + vf::fmt("; parse_size gives %llu", (unsigned long long)back));
      }
    }
    // three-step scenario: format -> parse -> format again.  Both texts are within 0.005 unit of their argument and
    // the arguments within 0.005 unit of each other, so the two printed values differ by at most 0.015 of the larger
    // unit (+ float mantissa).  Compares the FINAL text, not each step.
    if (res.good() && (form.has_bytes || representable)) {
      std::string text2;
      oc = fmt_again(back, text2);
      if (oc != "ok") res.fail("format_size:throws", ctx + vf::fmt("; formatting the parsed value %llu again threw ", (unsigned long long)back) + oc);
      else {
        SizeForm f2 = split_size_text(text2, back);
        SizeText s2 = f2.ok && f2.has_unit ? parse_unit_text(f2.unit_part) : SizeText();
        if (!s2.ok) res.fail("format_size(parse_size(format_size)):bad-format", ctx + "; formatted again: " + vf::show(text2));
        else {
          u128 a1 = exact100, a2 = s2.hundredths * unit_of(s2.k);
          u128 big = unit_of(st.k > s2.k ? st.k : s2.k);
          if (absdiff(a1, a2) > big + big / 2 + 300 * ((u128)s >> 23) + 300) res.fail("format_size(parse_size(format_size)):drifts", ctx + "; parsed and formatted again: " + vf::show(text2));
        }
      }
    }
  }
  return res;
}

// parse_size on its own.  Documented grammar: [0-9]+(\.[0-9]+)? *[KkMmGgTtPpEe]?[Bb]? — texts outside it are
// executed and not compared.
struct ParseSpec {
  std::string text;
  bool compare = false;     // inside the documented grammar and representable
  bool integral = false;    // no (or an all-zero) fraction: exact equality demanded
  bool truncated = false;   // fraction longer than 12 digits: the reference uses the first 12
  unsigned nd = 0;          // fraction digits used by the reference
  int k = 0;
  u128 scaled = 0;          // exact value x 10^nd
  const char* why = "";
};
inline ParseSpec make_spec(const std::string& mant, int spaces, int k, bool lower, const char* suffix) {
  ParseSpec sp;
  sp.text = mant;
  sp.text.append((size_t)spaces, ' ');
  if (k > 0) sp.text.push_back(lower ? (char)(UNIT_LETTERS[k - 1] + 32) : UNIT_LETTERS[k - 1]);
  sp.text += suffix;
  sp.k = k;
  size_t dot = mant.find('.');
  std::string ip = dot == std::string::npos ? mant : mant.substr(0, dot);
  std::string fp = dot == std::string::npos ? "" : mant.substr(dot + 1);
  if (ip.empty() || (dot != std::string::npos && fp.empty())) { sp.why = "outside the documented grammar"; return sp; }
  if (ip.size() > 24) { sp.why = "integer part not representable"; return sp; }
  u128 iv = 0;
  for (char c : ip) iv = iv * 10 + (unsigned)(c - '0');
  if (iv > (u128)UINT64_MAX) { sp.why = "integer part not representable"; return sp; }
  sp.nd = (unsigned)(fp.size() < 12 ? fp.size() : 12);
  sp.truncated = fp.size() > 12;
  u128 fv = 0;
  for (unsigned j = 0; j < sp.nd; j++) fv = fv * 10 + (unsigned)(fp[j] - '0');
  sp.integral = fp.find_first_not_of('0') == std::string::npos;
  if (iv * unit_of(k) > (u128)UINT64_MAX) { sp.why = "value not representable in size_t"; return sp; }  // <= 2^124
  sp.scaled = (iv * pow10u(sp.nd) + fv) * unit_of(k);  // <= 2^64 * 2^40 + 2^40 * 2^60: no overflow
  u128 floor_bytes = sp.scaled / pow10u(sp.nd);
  // a fractional value so close to 2^64 that the tolerance would reach past it is not compared either
  if (sp.integral ? floor_bytes > (u128)UINT64_MAX : floor_bytes + 4 + (floor_bytes >> 39) + unit_of(k) / pow10u(sp.nd) > (u128)UINT64_MAX) { sp.why = "value not representable in size_t"; return sp; }
  sp.compare = true;
  return sp;
}
inline Res parse_eval(const ParseSpec& sp) {
  Res res;
  uint64_t got = 0;
  std::string oc = vf::outcome([&] { got = phosg::parse_size(sp.text.c_str()); });
  if (oc != "ok") { res.fail("parse_size:throws", "parse_size(" + vf::show(sp.text) + ") threw " + oc); return res; }
  if (!sp.compare) { res.cls = std::string("parse_size: ") + sp.why + " (executed, not compared)"; return res; }
  u128 p = pow10u(sp.nd);
  u128 diff = absdiff((u128)got * p, sp.scaled);
  u128 exact = sp.scaled / p;
  u128 tol_bytes = 2 + (exact >> 40) + (sp.truncated ? unit_of(sp.k) / p + 1 : 0);
  if (sp.integral ? diff != 0 : diff > tol_bytes * p)
    res.fail("parse_size:wrong-value", "parse_size(" + vf::show(sp.text) + vf::fmt(") = %llu, the text stands for %s/10^%u bytes", (unsigned long long)got, u128s(sp.scaled).c_str(), sp.nd));
  else res.cls = sp.integral ? "parse_size: integer mantissa exact" : "parse_size: fractional mantissa within 1 byte";
  return res;
}

// ---- timeval -----------------------------------------------------------------------------------------
inline Res u2tv_eval(uint64_t u) {
  Res res;
  struct timeval tv = phosg::usecs_to_timeval(u);
  if (tv.tv_usec < 0 || tv.tv_usec >= 1000000 || (uint64_t)tv.tv_sec != u / 1000000 || (uint64_t)tv.tv_usec != u % 1000000)
    res.fail("usecs_to_timeval:wrong-value", vf::fmt("usecs_to_timeval(%llu) = {%lld, %lld}", (unsigned long long)u, (long long)tv.tv_sec, (long long)tv.tv_usec));
  if (u >= (1ull << 63)) {
    // tv_sec * 1000000 exceeds the signed 64-bit range: not executed (signed overflow is undefined), not compared
    if (res.good()) res.cls = "usecs >= 2^63: forward exact, inverse not defined";
    return res;
  }
  struct timeval arg = tv;
  uint64_t back = phosg::timeval_to_usecs(arg);
  if (back != u) res.fail("timeval_to_usecs:not-inverse", vf::fmt("timeval_to_usecs(usecs_to_timeval(%llu)) = %llu", (unsigned long long)u, (unsigned long long)back));
  if (res.good()) res.cls = u % 1000000 == 0 ? "whole second" : "with microseconds";
  return res;
}
// normalised timeval only (0 <= us < 10^6, 0 <= s, s*10^6+us < 2^63)
inline Res tv2u_eval(int64_t s, int64_t us) {
  Res res;
  struct timeval tv;
  tv.tv_sec = s;
  tv.tv_usec = us;
  uint64_t u = phosg::timeval_to_usecs(tv);
  struct timeval tb = phosg::usecs_to_timeval(u);
  if (u != (uint64_t)s * 1000000 + (uint64_t)us) res.fail("timeval_to_usecs:wrong-value", vf::fmt("timeval_to_usecs({%lld, %lld}) = %llu", (long long)s, (long long)us, (unsigned long long)u));
  else if (tb.tv_sec != s || tb.tv_usec != us) res.fail("usecs_to_timeval:not-inverse", vf::fmt("usecs_to_timeval(timeval_to_usecs({%lld, %lld})) = {%lld, %lld}", (long long)s, (long long)us, (long long)tb.tv_sec, (long long)tb.tv_usec));
  else res.cls = "timeval -> usecs -> timeval";
  return res;
}

// ---- calls and histories -----------------------------------------------------------------------------
enum Fn { DUR, DUR_DEF, TIME, SIZE, PARSE, U2TV, TV2U, NATURAL, NATURAL_TV, NATURAL_NOW, NOW };
struct Call {
  Fn fn = DUR;
  uint64_t a = 0;
  int64_t b = 0;
  ParseSpec spec;
};
inline Call mk(Fn fn, uint64_t a = 0, int64_t b = 0) { Call c; c.fn = fn; c.a = a; c.b = b; return c; }
inline Call mkparse(const std::string& mant, int spaces, int k, bool lower, const char* suffix) { Call c; c.fn = PARSE; c.spec = make_spec(mant, spaces, k, lower, suffix); return c; }

inline std::string show_call(const Call& c) {
  switch (c.fn) {
    case DUR: return vf::fmt("format_duration(%llu, %lld)", (unsigned long long)c.a, (long long)c.b);
    case DUR_DEF: return vf::fmt("format_duration(%llu)", (unsigned long long)c.a);
    case TIME: return vf::fmt("format_time(%llu)", (unsigned long long)c.a);
    case SIZE: return c.b == 2 ? vf::fmt("format_size(%llu)", (unsigned long long)c.a) : vf::fmt("format_size(%llu, %s)", (unsigned long long)c.a, c.b ? "true" : "false");
    case PARSE: return "parse_size(" + vf::show(c.spec.text) + ")";
    case U2TV: return vf::fmt("usecs_to_timeval(%llu)", (unsigned long long)c.a);
    case TV2U: return vf::fmt("timeval_to_usecs({%llu, %lld})", (unsigned long long)c.a, (long long)c.b);
    case NATURAL: return vf::fmt("format_time_natural(%llu)", (unsigned long long)c.a);
    case NATURAL_TV: return vf::fmt("format_time_natural(&{%llu, %lld})", (unsigned long long)c.a, (long long)c.b);
    case NATURAL_NOW: return "format_time_natural()";
    case NOW: return "now()";
  }
  return "?";
}

inline Res exec_call(const Call& c) {
  switch (c.fn) {
    case DUR: return duration_eval(c.a, (int)c.b, false);
    case DUR_DEF: return duration_eval(c.a, -1, true);
    case TIME: return time_eval(c.a);
    case SIZE: return size_eval(c.a, (int)c.b);
    case PARSE: return parse_eval(c.spec);
    case U2TV: return u2tv_eval(c.a);
    case TV2U: return tv2u_eval((int64_t)c.a, c.b);
    default: break;
  }
  // not covered by the statement (local time, wall clock): executed as part of the environment of the other
  // calls, nothing compared
  Res res;
  (void)vf::outcome([&] {
    if (c.fn == NATURAL) (void)phosg::format_time_natural(c.a);
    else if (c.fn == NATURAL_TV) { struct timeval tv; tv.tv_sec = (time_t)c.a; tv.tv_usec = (suseconds_t)c.b; (void)phosg::format_time_natural(&tv); }
    else if (c.fn == NATURAL_NOW) (void)phosg::format_time_natural();
    else (void)phosg::now();
  });
  res.cls = "outside the statement: executed, not compared";
  return res;
}

typedef std::vector<const Call*> History;

inline std::string show_history(const History& h) {
  std::string s = "[";
  for (size_t i = 0; i < h.size(); i++) s += (i ? "; " : "") + show_call(*h[i]);
  return s + "]";
}

// Where a history (or a single call) is executed.
enum Ctx {
  CTX_FRESH_THREAD,   // all calls, in order, on one new thread (fresh thread_local state): the reproducible run
  CTX_MAIN,           // all calls on the shard's main thread, after everything earlier cases left behind
  CTX_THREAD_EACH,    // every call on its own new thread, one after the other (process-wide state only)
  CTX_CATCH,          // inside a catch handler (an exception object is alive, uncaught_exceptions() == 0)
  CTX_UNWIND,         // in a destructor that runs because an exception is propagating (uncaught_exceptions() == 1)
  CTX_NESTED_UNWIND,  // in a destructor during unwinding that itself started inside a catch handler
};
inline const char* ctx_name(Ctx c) {
  switch (c) {
    case CTX_FRESH_THREAD: return "on a fresh thread";
    case CTX_MAIN: return "on the main thread after the earlier cases of the shard";
    case CTX_THREAD_EACH: return "each call on its own fresh thread";
    case CTX_CATCH: return "inside a catch handler";
    case CTX_UNWIND: return "in a destructor during stack unwinding";
    case CTX_NESTED_UNWIND: return "in a destructor during unwinding inside a catch handler";
  }
  return "?";
}

struct AtScopeExit {
  std::function<void()> f;
  ~AtScopeExit() { f(); }
};
struct Marker {};

// Runs f on a new thread and joins it.  A 512 KiB stack instead of the 8 MiB default keeps AddressSanitizer's
// per-thread stack bookkeeping cheap (hundreds of thousands of threads are created per run).
inline void on_new_thread(const std::function<void()>& f) {
  pthread_attr_t a;
  pthread_attr_init(&a);
  pthread_attr_setstacksize(&a, 512 * 1024);
  pthread_t t;
  auto tramp = [](void* p) -> void* { (*static_cast<const std::function<void()>*>(p))(); return nullptr; };
  if (pthread_create(&t, &a, tramp, const_cast<std::function<void()>*>(&f)) != 0) { perror("pthread_create"); abort(); }
  pthread_join(t, nullptr);
  pthread_attr_destroy(&a);
}

// Executes the history in the context; errno is set to `err` before every call (errno is thread-local).
inline std::vector<Res> exec_history(const History& h, Ctx ctx, int err) {
  std::vector<Res> out(h.size());
  auto all = [&] { for (size_t i = 0; i < h.size(); i++) { errno = err; out[i] = exec_call(*h[i]); } };
  switch (ctx) {
    case CTX_MAIN: all(); break;
    case CTX_FRESH_THREAD: on_new_thread(all); break;
    case CTX_THREAD_EACH:
      for (size_t i = 0; i < h.size(); i++) on_new_thread([&, i] { errno = err; out[i] = exec_call(*h[i]); });
      break;
    case CTX_CATCH:
      try { throw Marker(); } catch (const Marker&) { all(); }
      break;
    case CTX_UNWIND:
      try { AtScopeExit g{all}; throw Marker(); } catch (const Marker&) {}
      break;
    case CTX_NESTED_UNWIND:
      try { throw Marker(); } catch (const Marker&) {
        try { AtScopeExit g{all}; throw std::runtime_error("inner"); } catch (const std::runtime_error&) {}
      }
      break;
  }
  return out;
}

// One case = one history executed in each of the given contexts; every result of every call is compared.
inline void history_case(vf::Run& r, const History& h, const std::vector<Ctx>& ctxs, const char* okcls, int err = -1) {
  if (r.wants_desc()) {
    std::string s = "history " + show_history(h) + " executed";
    for (size_t i = 0; i < ctxs.size(); i++) s += std::string(i ? ", then " : " ") + ctx_name(ctxs[i]);
    r.desc(s + (err >= 0 ? vf::fmt(", errno=%d before every call", err) : ""));
  }
  if (err < 0) err = r.ambient_errno();
  bool bad = false;
  for (Ctx c : ctxs) {
    std::vector<Res> out = exec_history(h, c, err);
    for (size_t i = 0; i < out.size(); i++) {
      for (const Fail& f : out[i].fails) {
        bad = true;
        r.fail(f.key, [&] { return vf::fmt("call %zu of the history ", i + 1) + show_history(h) + " executed " + ctx_name(c) + ": " + f.desc; });
      }
    }
    r.counters["calls_in_histories"] += h.size();
  }
  r.nontriv();
  if (!bad) r.ok(okcls);
}

}  // namespace c18
